package diodeh

// Black-box sink answers (C10): the wrapped writer answers its Write calls with every kind of
// (count, error) pair - for all calls, for some calls, or a seeded mix of all kinds - and what it
// is HANDED is judged:
//
//	"Every buffer the wrapped writer receives is byte-identical to the argument of exactly one
//	 earlier Write, no Write is delivered twice, deliveries happen one at a time, and messages
//	 are delivered in the order their Writes took effect (so each producer's messages arrive in
//	 its program order)"
//
// The statement is about the buffers the wrapped writer receives, whatever it returns: a count
// below len(p) with a nil error (a record writer that strips the trailing newline and reports the
// payload length; a transport reporting bytes put on the wire), a count with an error, a zero or
// negative count, a count above len(p).  None of these answers licenses a second call with the
// same message, with the rest of it, or with anything else that was not the argument of a Write:
// every call of the wrapped writer is a delivery and is judged as one ("delivered" = handed to the
// wrapped writer's Write, the reading C11 already commits to).  Nothing is demanded about how
// many messages arrive (dropping is C11's subject), so the monitor holds on every schedule of the
// unchanged code: poll() hands each buffer taken from the ring to the wrapped writer once and
// ignores the answer.
//
// Every payload is unique (producer tag + running number), so "the argument of exactly one Write"
// is decidable from the bytes alone.

import (
	"errors"
	"fmt"
	"io"
	"strings"
	"sync"
	"sync/atomic"
	"syscall"
	"time"

	"github.com/rs/zerolog/diode"
	"verifharness/hlib"
)

type sinkAnswer struct {
	name string
	ret  func(p []byte) (int, error)
}

var errSinkAnswer = errors.New("verif: sink answers with an error")

// sinkAnswers: index 0 is the well-behaved answer; the others are what a wrapped writer may say.
var sinkAnswers = []sinkAnswer{
	{"(len, nil)", func(p []byte) (int, error) { return len(p), nil }},
	{"(len-1, nil) record writer that strips the newline", func(p []byte) (int, error) { return len(p) - 1, nil }},
	{"(len/2, nil)", func(p []byte) (int, error) { return len(p) / 2, nil }},
	{"(1, nil)", func(p []byte) (int, error) { return 1, nil }},
	{"(0, nil)", func(p []byte) (int, error) { return 0, nil }},
	{"(-1, nil)", func(p []byte) (int, error) { return -1, nil }},
	{"(len+1, nil)", func(p []byte) (int, error) { return len(p) + 1, nil }},
	{"(2*len+7, nil)", func(p []byte) (int, error) { return 2*len(p) + 7, nil }},
	{"(len/2, io.ErrShortWrite)", func(p []byte) (int, error) { return len(p) / 2, io.ErrShortWrite }},
	{"(len-1, error)", func(p []byte) (int, error) { return len(p) - 1, errSinkAnswer }},
	{"(len, error)", func(p []byte) (int, error) { return len(p), errSinkAnswer }},
	{"(0, error)", func(p []byte) (int, error) { return 0, errSinkAnswer }},
	{"(0, syscall.EAGAIN)", func(p []byte) (int, error) { return 0, syscall.EAGAIN }},
	{"(0, syscall.EINTR)", func(p []byte) (int, error) { return 0, syscall.EINTR }},
	{"(len/2, syscall.ENOSPC)", func(p []byte) (int, error) { return len(p) / 2, syscall.ENOSPC }},
}

// answerSink records what it is handed (a copy) and answers call i (1-based) with answers[pick(i)].
type answerSink struct {
	g       *gate
	mu      sync.Mutex
	got     []string
	said    []string
	pick    func(call int) int
	inside  int32
	nested  int32
	limit   int // calls recorded and answered as scripted; beyond it: (len, nil), not recorded (a diode that re-sends forever must not spin the machine)
	overrun int32
}

func (w *answerSink) Write(p []byte) (int, error) {
	if atomic.AddInt32(&w.inside, 1) != 1 {
		atomic.StoreInt32(&w.nested, 1)
	}
	defer atomic.AddInt32(&w.inside, -1)
	w.g.wait()
	w.mu.Lock()
	if len(w.got) >= w.limit {
		w.mu.Unlock()
		atomic.StoreInt32(&w.overrun, 1)
		time.Sleep(time.Millisecond)
		return len(p), nil
	}
	w.got = append(w.got, string(p))
	a := sinkAnswers[w.pick(len(w.got))]
	n, err := a.ret(p)
	w.said = append(w.said, fmt.Sprintf("(%d, %v)", n, err))
	w.mu.Unlock()
	return n, err
}

type saCfg struct {
	poll      time.Duration
	answer    int    // index into sinkAnswers (ignored for pattern "mix")
	pattern   string // every | odd | only-1 | only-3 | from-4 | mix
	ring      int
	producers int
	each      int
	held      bool  // the wrapped writer is held until every Write has returned (the ring is lapped when it is small)
	mix       []int // pattern "mix": the answer per call, drawn from the seed
}

func (x saCfg) pick(call int) int {
	switch x.pattern {
	case "every":
		return x.answer
	case "odd":
		if call%2 == 1 {
			return x.answer
		}
	case "only-1":
		if call == 1 {
			return x.answer
		}
	case "only-3":
		if call == 3 {
			return x.answer
		}
	case "from-4":
		if call >= 4 {
			return x.answer
		}
	case "mix":
		return x.mix[(call-1)%len(x.mix)]
	}
	return 0
}

func (x saCfg) json() map[string]interface{} {
	m := map[string]interface{}{"scenario": "sink-answers", "poll": x.poll.String(), "ring": x.ring, "producers": x.producers, "writes_each": x.each,
		"wrapped_writer_held_until_all_writes_returned": x.held, "calls_answered_that_way": x.pattern}
	if x.pattern == "mix" {
		names := make([]string, len(x.mix))
		for i, a := range x.mix {
			names[i] = sinkAnswers[a].name
		}
		m["wrapped_writer_answers_per_call"] = names
	} else {
		m["wrapped_writer_answers"] = sinkAnswers[x.answer].name
		m["other_calls_answered"] = sinkAnswers[0].name
	}
	return m
}

func runSinkAnswers(x saCfg) *hlib.Violation {
	cs := x.json()
	total := x.producers * x.each
	sink := &answerSink{g: newGate(!x.held), pick: x.pick, limit: 4*total + 16}
	var reported int64
	dw := diode.NewWriter(sink, x.ring, x.poll, func(m int) { atomic.AddInt64(&reported, int64(m)) })
	written := make([][]string, x.producers) // per producer, in program order
	var wg sync.WaitGroup
	for g := 0; g < x.producers; g++ {
		wg.Add(1)
		go func(g int) {
			defer wg.Done()
			for k := 0; k < x.each; k++ {
				pay := fmt.Sprintf("{\"w\":\"%c%d\",\"pad\":\"%s\"}\n", 'p'+g, k, strings.Repeat("x", (g*5+k*3)%17))
				written[g] = append(written[g], pay)
				buf := callerBuf(g+k, pay)
				dw.Write(buf)
				for i := range buf {
					buf[i] = '#' // the caller reuses its slice
				}
			}
		}(g)
	}
	if !within(wg.Wait) {
		sink.g.release()
		return &hlib.Violation{Key: "producer-blocked", Monitor: "black-box sink-answers", Desc: fmt.Sprintf("%d goroutines x %d Writes did not return within %v", x.producers, x.each, bbLimit), Case: cs}
	}
	sink.g.release()
	if !within(func() { dw.Close() }) {
		// Close is C11/C12's subject; what was handed over so far is still judged below
		cs["note"] = fmt.Sprintf("Close did not return within %v; the deliveries made until then are judged", bbLimit)
	}
	sink.mu.Lock()
	got := append([]string{}, sink.got...)
	said := append([]string{}, sink.said...)
	sink.mu.Unlock()
	owner := map[string][2]int{}
	for g, l := range written {
		for k, s := range l {
			owner[s] = [2]int{g, k}
		}
	}
	obs := func(i int) map[string]interface{} {
		lo := 0
		if i > 6 {
			lo = i - 6
		}
		hi := i + 3
		if hi > len(got) {
			hi = len(got)
		}
		calls := []map[string]interface{}{}
		for j := lo; j < hi; j++ {
			calls = append(calls, map[string]interface{}{"call": j + 1, "handed": trunc(got[j], 160), "answered": said[j]})
		}
		return map[string]interface{}{"writes": total, "calls_of_the_wrapped_writer": len(got), "reported_dropped": atomic.LoadInt64(&reported), "calls_around_the_offending_one": calls}
	}
	seen := map[string]int{}
	last := make([]int, x.producers)
	for g := range last {
		last[g] = -1
	}
	for i, s := range got {
		o, ok := owner[s]
		if !ok {
			what := "is not byte-identical to the argument of any Write"
			for w := range owner {
				if s != "" && strings.HasSuffix(w, s) {
					what = fmt.Sprintf("is the last %d byte(s) of a message of %d bytes - a remainder, never the argument of a Write", len(s), len(w))
					break
				}
				if s != "" && strings.Contains(w, s) {
					what = fmt.Sprintf("is a %d-byte piece of a message of %d bytes, never the argument of a Write", len(s), len(w))
					break
				}
			}
			if s == "" {
				what = "is empty; no Write had an empty argument"
			}
			prev := ""
			if i > 0 {
				prev = fmt.Sprintf(" (call %d had been answered %s)", i, said[i-1])
			}
			return &hlib.Violation{Key: "delivered-bytes-differ", Monitor: "black-box sink-answers",
				Desc: fmt.Sprintf("call %d of the wrapped writer's Write %s%s", i+1, what, prev), Case: cs, Observed: obs(i),
				Expected: "every buffer handed to the wrapped writer is byte-identical to the argument of exactly one Write, whatever the wrapped writer answered before"}
		}
		if j, dup := seen[s]; dup {
			return &hlib.Violation{Key: "delivered-twice", Monitor: "black-box sink-answers",
				Desc: fmt.Sprintf("call %d of the wrapped writer's Write was handed the message already handed over in call %d (which was answered %s)", i+1, j+1, said[j]), Case: cs, Observed: obs(i),
				Expected: "no Write is delivered twice"}
		}
		seen[s] = i
		if o[1] <= last[o[0]] {
			return &hlib.Violation{Key: "producer-order-violated", Monitor: "black-box sink-answers",
				Desc: fmt.Sprintf("producer %d: its message %d was handed over after its message %d", o[0], o[1], last[o[0]]), Case: cs, Observed: obs(i)}
		}
		last[o[0]] = o[1]
	}
	if atomic.LoadInt32(&sink.nested) != 0 {
		return &hlib.Violation{Key: "deliveries-overlap", Monitor: "black-box sink-answers", Desc: "two calls of the wrapped writer overlapped", Case: cs, Observed: obs(0)}
	}
	if atomic.LoadInt32(&sink.overrun) != 0 {
		// more calls than 4 x Writes + 16 without any of them being judged above cannot happen (each recorded call is a
		// distinct Write argument), kept as a guard
		return &hlib.Violation{Key: "delivered-twice", Monitor: "black-box sink-answers", Desc: fmt.Sprintf("the wrapped writer was called more than %d times for %d Writes", sink.limit, total), Case: cs, Observed: obs(len(got) - 1)}
	}
	return nil
}

// bbSinkAnswers: every answer kind x {every call, odd calls, only call 1, only call 3, from call 4 on} x both
// consumer modes, alternating between (a) a ring that holds everything and (b) a ring of 4 lapped while the
// wrapped writer is held, one to three producers; plus seeded mixes of all kinds per call.
func bbSinkAnswers(c *hlib.Ctx) {
	var cfgs []saCfg
	n := 0
	patterns := []string{"every", "odd", "only-1", "only-3", "from-4"}
	for _, poll := range []time.Duration{0, time.Millisecond} {
		for a := 1; a < len(sinkAnswers); a++ {
			for _, pat := range patterns {
				n++
				x := saCfg{poll: poll, answer: a, pattern: pat, ring: 64, producers: 1 + n%3, each: 6}
				if n%4 == 0 {
					x.ring, x.held = 4, true
				} else if n%4 == 2 {
					x.held = true // everything is in the ring before the first delivery
				}
				cfgs = append(cfgs, x)
			}
		}
	}
	for i := 0; i < 24; i++ {
		r := c.R.Fork()
		mix := make([]int, 5+r.Intn(8))
		for j := range mix {
			mix[j] = r.Intn(len(sinkAnswers))
		}
		x := saCfg{poll: []time.Duration{0, time.Millisecond}[i%2], pattern: "mix", mix: mix, ring: []int{64, 64, 4}[i%3], producers: 1 + r.Intn(3), each: 4 + r.Intn(5), held: i%3 != 0}
		cfgs = append(cfgs, x)
	}
	out := make([]*hlib.Violation, len(cfgs))
	sem := make(chan struct{}, 32)
	var wg sync.WaitGroup
	for i := range cfgs {
		wg.Add(1)
		sem <- struct{}{}
		go func(i int) {
			defer wg.Done()
			defer func() { <-sem }()
			out[i] = runSinkAnswers(cfgs[i])
		}(i)
	}
	wg.Wait()
	seen := map[string]int{}
	for _, v := range out {
		if v != nil {
			if seen[v.Key] < 3 {
				c.Violate(*v)
			}
			seen[v.Key]++
		}
	}
	c.Res.ExtraCoverage["blackbox_sink_answer_runs"] = len(cfgs)
	c.Res.ExtraCoverage["blackbox_sink_answer_kinds"] = len(sinkAnswers)
}
