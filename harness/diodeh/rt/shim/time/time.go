// Package time is a drop-in for the names of package time the diode packages use.
package time

import (
	rt "time"

	"verifharness/diodeh/rt/vsched"
)

type Duration = rt.Duration
type Time = rt.Time

const (
	Nanosecond  = rt.Nanosecond
	Microsecond = rt.Microsecond
	Millisecond = rt.Millisecond
	Second      = rt.Second
	Minute      = rt.Minute
	Hour        = rt.Hour
)

func Now() Time { return rt.Now() }

// Sleep is a scheduling point that is always enabled; no real time passes.
func Sleep(d Duration) {
	vsched.Yield("sleep", nil)
	vsched.Observe(0)
}
