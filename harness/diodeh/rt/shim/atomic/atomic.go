// Package atomic is a drop-in for the sync/atomic functions used by the diode
// packages: every operation first parks in the scheduler, then performs the
// real operation and reports the observed value.
package atomic

import (
	ra "sync/atomic"
	"unsafe"

	"verifharness/diodeh/rt/vsched"
)

// Describe maps a pointer stored in the ring to the number logged for it
// (0 = nil, seq+1 otherwise); installed by the runner.
var Describe = func(p unsafe.Pointer) int64 {
	if p == nil {
		return 0
	}
	return 1
}

func b2i(b bool) int64 {
	if b {
		return 1
	}
	return 0
}

func AddUint64(addr *uint64, delta uint64) uint64 {
	vsched.Yield("add", nil)
	v := ra.AddUint64(addr, delta)
	vsched.Observe(int64(v))
	return v
}
func AddUint32(addr *uint32, delta uint32) uint32 {
	vsched.Yield("add", nil)
	v := ra.AddUint32(addr, delta)
	vsched.Observe(int64(v))
	return v
}
func AddInt64(addr *int64, delta int64) int64 {
	vsched.Yield("add", nil)
	v := ra.AddInt64(addr, delta)
	vsched.Observe(v)
	return v
}
func AddInt32(addr *int32, delta int32) int32 {
	vsched.Yield("add", nil)
	v := ra.AddInt32(addr, delta)
	vsched.Observe(int64(v))
	return v
}
func LoadUint64(addr *uint64) uint64 {
	vsched.Yield("loadu", nil)
	v := ra.LoadUint64(addr)
	vsched.Observe(int64(v))
	return v
}
func StoreUint64(addr *uint64, v uint64) {
	vsched.Yield("storeu", nil)
	ra.StoreUint64(addr, v)
	vsched.Observe(int64(v))
}
func CompareAndSwapUint64(addr *uint64, old, new uint64) bool {
	vsched.Yield("casu", nil)
	ok := ra.CompareAndSwapUint64(addr, old, new)
	vsched.Observe(b2i(ok))
	return ok
}
func LoadPointer(addr *unsafe.Pointer) unsafe.Pointer {
	vsched.Yield("load", nil)
	p := ra.LoadPointer(addr)
	vsched.Observe(Describe(p))
	return p
}
func StorePointer(addr *unsafe.Pointer, v unsafe.Pointer) {
	vsched.Yield("store", nil)
	ra.StorePointer(addr, v)
	vsched.Observe(Describe(v))
}
func SwapPointer(addr *unsafe.Pointer, new unsafe.Pointer) unsafe.Pointer {
	vsched.Yield("swap", nil)
	p := ra.SwapPointer(addr, new)
	vsched.Observe(Describe(p))
	return p
}
func CompareAndSwapPointer(addr *unsafe.Pointer, old, new unsafe.Pointer) bool {
	vsched.Yield("cas", nil)
	ok := ra.CompareAndSwapPointer(addr, old, new)
	vsched.Observe(b2i(ok))
	return ok
}
