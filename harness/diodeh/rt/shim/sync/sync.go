// Package sync is a drop-in for the parts of package sync the diode packages
// use, with Mutex and Cond controlled by the deterministic scheduler.
package sync

import (
	rs "sync"

	"verifharness/diodeh/rt/vsched"
)

type Locker = rs.Locker
type Pool = rs.Pool
type Once = rs.Once

type Mutex struct{ locked bool }

func (m *Mutex) Lock() {
	if vsched.Aborting() {
		return
	}
	vsched.Yield("lock", func() bool { return !m.locked })
	m.locked = true
}
func (m *Mutex) TryLock() bool {
	vsched.Yield("trylock", nil)
	if m.locked {
		return false
	}
	m.locked = true
	vsched.Observe(1)
	return true
}
func (m *Mutex) Unlock() {
	if vsched.Aborting() {
		return
	}
	vsched.Yield("unlock", nil)
	if !m.locked {
		panic("sync: unlock of unlocked mutex")
	}
	m.locked = false
}

type RWMutex struct{ Mutex }

func (m *RWMutex) RLock()   { m.Lock() }
func (m *RWMutex) RUnlock() { m.Unlock() }

type waiter struct{ signalled bool }

type Cond struct {
	L     Locker
	waits []*waiter
}

func NewCond(l Locker) *Cond { return &Cond{L: l} }

// Wait: one step "wait" = unlock + enqueue (atomically); then the goroutine is
// disabled until it has been signalled and the mutex is free; the step "wake"
// re-acquires the mutex.
func (c *Cond) Wait() {
	if vsched.Aborting() {
		return
	}
	vsched.Yield("wait", nil)
	w := &waiter{}
	c.waits = append(c.waits, w)
	if m, ok := c.L.(*Mutex); ok {
		if !m.locked {
			panic("sync: unlock of unlocked mutex")
		}
		m.locked = false
		vsched.Yield("wake", func() bool { return w.signalled && !m.locked })
		m.locked = true
		return
	}
	c.L.Unlock()
	vsched.Yield("wake", func() bool { return w.signalled })
	c.L.Lock()
}

func (c *Cond) Broadcast() {
	if vsched.Aborting() {
		return
	}
	vsched.Yield("bcast", nil)
	n := 0
	for _, w := range c.waits {
		w.signalled = true
		n++
	}
	c.waits = nil
	vsched.Observe(int64(n))
}

func (c *Cond) Signal() {
	if vsched.Aborting() {
		return
	}
	vsched.Yield("signal", nil)
	if len(c.waits) > 0 {
		c.waits[0].signalled = true
		c.waits = c.waits[1:]
		vsched.Observe(1)
	}
}

type WaitGroup struct{ n int }

func (g *WaitGroup) Add(d int) { g.n += d }
func (g *WaitGroup) Done()     { g.n-- }
func (g *WaitGroup) Wait() {
	if vsched.Aborting() {
		return
	}
	vsched.Yield("wgwait", func() bool { return g.n <= 0 })
}
