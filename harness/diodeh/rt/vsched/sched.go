// Package vsched is a deterministic goroutine hand-off scheduler: exactly one
// goroutine runs at a time; every instrumented operation first parks its
// goroutine here (Yield) until the controller chooses it.  A step of thread t =
// the operation t was parked at plus the thread-local code up to t's next Yield.
package vsched

import (
	"fmt"
	"runtime"
)

type Thread struct {
	ID       int
	wake     chan struct{}
	Kind     string      // operation the thread is parked at
	ready    func() bool // nil: always enabled
	val      int64       // value observed by the operation performed in the current step
	Done     bool
	Panicked string
	started  bool
	Fails    int // user counter (failed TryNext attempts), maintained by Observe callers via AddFail
}

type Step struct {
	T    int
	Kind string
	Val  int64
	En   uint64 // bitmask of enabled threads (by ID) before the step
}

var (
	cur      *Thread
	threads  []*Thread
	back     = make(chan struct{})
	aborting bool
)

// Reset forgets all threads (call after Abort).
func Reset() {
	cur = nil
	threads = nil
	aborting = false
}

func Threads() []*Thread { return threads }
func Current() *Thread   { return cur }
func Aborting() bool     { return aborting }

// Go replaces a go statement: the new goroutine is parked until it is started.
func Go(f func()) *Thread {
	t := &Thread{ID: len(threads), wake: make(chan struct{}), Kind: "start"}
	threads = append(threads, t)
	go func() {
		<-t.wake
		defer func() {
			if r := recover(); r != nil {
				t.Panicked = fmt.Sprint(r)
			}
			t.Done = true
			t.Kind = "done"
			t.ready = nil
			back <- struct{}{}
		}()
		if aborting {
			return
		}
		t.started = true
		f()
	}()
	return t
}

// Yield parks the calling goroutine at an operation of the given kind.
func Yield(kind string, ready func() bool) {
	t := cur
	if t == nil || aborting {
		return // set-up code on the controller goroutine, or tear-down
	}
	t.Kind = kind
	t.ready = ready
	back <- struct{}{}
	<-t.wake
	if aborting {
		runtime.Goexit()
	}
	t.ready = nil
}

// Observe records the value observed by the operation of the current step.
func Observe(v int64) {
	if cur != nil {
		cur.val = v
	}
}

// Await replaces a blocking receive used as a statement.
func Await[T any](ch <-chan T) { Recv(ch) }

// Recv replaces a blocking receive expression.
func Recv[T any](ch <-chan T) T {
	var v T
	if cur == nil || aborting {
		if aborting {
			return v
		}
		return <-ch
	}
	got := false
	Yield("await", func() bool {
		if got {
			return true
		}
		select {
		case v = <-ch:
			got = true
			return true
		default:
			return false
		}
	})
	if !got {
		v = <-ch
	}
	return v
}

func (t *Thread) Enabled() bool {
	if t.Done {
		return false
	}
	return t.ready == nil || t.ready()
}

func runThread(t *Thread) {
	cur = t
	t.val = 0
	t.wake <- struct{}{}
	<-back
	cur = nil
}

// Settle starts every thread that has not run yet and lets it run to its first operation.
func Settle() {
	for i := 0; i < len(threads); i++ {
		t := threads[i]
		if !t.started && !t.Done && t.Kind == "start" {
			runThread(t)
		}
	}
}

// EnabledMask returns the enabled threads as a bitmask.
func EnabledMask() uint64 {
	Settle()
	var m uint64
	for _, t := range threads {
		if t.Enabled() {
			m |= 1 << uint(t.ID)
		}
	}
	return m
}

// StepThread performs one step of thread id (which must be enabled).
func StepThread(id int) Step {
	en := EnabledMask()
	t := threads[id]
	s := Step{T: id, Kind: t.Kind, En: en}
	runThread(t)
	s.Val = t.val
	Settle()
	return s
}

// Abort terminates every parked goroutine (deferred functions run with all shims disabled).
func Abort() {
	aborting = true
	for _, t := range threads {
		if !t.Done {
			cur = t
			t.wake <- struct{}{}
			<-back
		}
	}
	cur = nil
}
