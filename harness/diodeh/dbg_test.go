package diodeh

import (
	"encoding/json"
	"fmt"
	"os"
	"testing"
)

func TestDbg(t *testing.T) {
	repo := os.Getenv("VERIF_REPO")
	if repo == "" {
		repo = "/repo"
	}
	b, err := BuildRunner(repo)
	if err != nil {
		t.Fatal(err)
	}
	defer b.Cleanup()
	fmt.Println(b.Counts)
	k2 := []int{3, 3, 3, 3, 3, 3, 4, 4, 0, 0, 4, 4, 4, 4}
	job := &Job{Level: "diode", Size: 2, Msgs: [][]uint64{{100, 101}, {102}}, Budget: 10, Mode: "list", Scheds: [][]int{k2}, Post: "drain"}
	_, _, err = b.RunJob(job, func(r *Res) { x, _ := json.Marshal(r); fmt.Println(string(x)) })
	fmt.Println(err)
	k4 := []int{0, 0, 0, 3, 3, 3, 3, 0}
	job = &Job{Level: "writer", Size: 2, Msgs: [][]uint64{{100}}, Bytes: map[string]string{"100": "hello"}, Waiter: true, Gated: true, Budget: 10, Mode: "list", Scheds: [][]int{k4}, Post: "finish"}
	_, _, err = b.RunJob(job, func(r *Res) { x, _ := json.Marshal(r); fmt.Println(string(x)) })
	fmt.Println(err)
	for _, cfg := range [][3]int{{2, 1, 2}, {1, 2, 1}, {2, 1, 1}} {
		msgs := [][]uint64{}
		id := uint64(100)
		for p := 0; p < cfg[0]; p++ {
			var l []uint64
			for i := 0; i < cfg[1]; i++ {
				l = append(l, id)
				id++
			}
			msgs = append(msgs, l)
		}
		job = &Job{Level: "diode", Size: cfg[2], Msgs: msgs, Budget: cfg[0]*cfg[1] + 2, Mode: "dfs", Post: "drain"}
		steps := 0
		n, tr, err := b.RunJob(job, func(r *Res) { steps += len(r.St) })
		fmt.Println(cfg, n, tr, steps, err)
	}
}
