// Package cborref is an independent RFC 8949 reference parser for the
// verification harness.  It shares no code with zerolog's internal/cbor: it
// checks well-formedness (appendix C of the RFC) and returns the generic data
// model value of each item, so that monitors can compare what was logged with
// what a generic CBOR reader sees.
package cborref

import (
	"bytes"
	"errors"
	"fmt"
)

type Kind int

const (
	Uint Kind = iota // major 0: N
	Neg              // major 1: the number -1-N
	Bytes            // major 2
	Text             // major 3
	Array            // major 4
	Map              // major 5
	Tag              // major 6
	Simple           // major 7 simple value
	F16
	F32
	F64
)

type Item struct {
	Kind   Kind
	N      uint64   // argument: Uint/Neg value, Tag number, Simple value, float bits
	B      []byte   // Bytes/Text content (chunks concatenated)
	Chunks [][]byte // for indefinite strings: the chunks
	Indef  bool     // indefinite-length string/array/map
	Items  []*Item  // Array elements; Map: k0,v0,k1,v1,...
	Inner  *Item    // Tag content
	Width  int      // bytes of the argument after the initial byte (0,1,2,4,8)
}

var (
	ErrTruncated = errors.New("truncated")
	ErrReserved  = errors.New("reserved additional information 28..30")
	ErrBreak     = errors.New("break outside an indefinite-length container")
	ErrIndef     = errors.New("indefinite length not allowed for this major type")
	ErrChunk     = errors.New("chunk of an indefinite-length string has the wrong major type or is itself indefinite")
	ErrSimple    = errors.New("two-byte simple value below 32")
	ErrOddMap    = errors.New("indefinite-length map with an odd number of items")
	ErrTooLong   = errors.New("length exceeds input")
	ErrDepth     = errors.New("nesting too deep")
)

type head struct {
	major, ai byte
	arg       uint64
	indef     bool
	width     int
}

func parseHead(b []byte) (head, []byte, error) {
	if len(b) == 0 {
		return head{}, nil, ErrTruncated
	}
	h := head{major: b[0] >> 5, ai: b[0] & 0x1f}
	b = b[1:]
	switch {
	case h.ai < 24:
		h.arg = uint64(h.ai)
	case h.ai <= 27:
		h.width = 1 << (h.ai - 24)
		if len(b) < h.width {
			return h, nil, ErrTruncated
		}
		for i := 0; i < h.width; i++ {
			h.arg = h.arg<<8 | uint64(b[i])
		}
		b = b[h.width:]
	case h.ai == 31:
		h.indef = true
	default:
		return h, nil, ErrReserved
	}
	return h, b, nil
}

const maxDepth = 200000

// ParseItem parses exactly one data item from the front of b.
func ParseItem(b []byte) (*Item, []byte, error) { return parseItem(b, 0) }

func parseItem(b []byte, depth int) (*Item, []byte, error) {
	if depth > maxDepth {
		return nil, nil, ErrDepth
	}
	h, r, err := parseHead(b)
	if err != nil {
		return nil, nil, err
	}
	it := &Item{Width: h.width}
	switch h.major {
	case 0, 1:
		if h.indef {
			return nil, nil, ErrIndef
		}
		it.Kind, it.N = Kind(h.major), h.arg
		return it, r, nil
	case 2, 3:
		it.Kind = Bytes
		if h.major == 3 {
			it.Kind = Text
		}
		if !h.indef {
			if h.arg > uint64(len(r)) {
				return nil, nil, ErrTooLong
			}
			it.B = r[:h.arg]
			return it, r[h.arg:], nil
		}
		it.Indef = true
		it.B = []byte{}
		for {
			if len(r) == 0 {
				return nil, nil, ErrTruncated
			}
			if r[0] == 0xff {
				return it, r[1:], nil
			}
			ch, r2, err := parseHead(r)
			if err != nil {
				return nil, nil, err
			}
			if ch.major != h.major || ch.indef {
				return nil, nil, ErrChunk
			}
			if ch.arg > uint64(len(r2)) {
				return nil, nil, ErrTooLong
			}
			it.Chunks = append(it.Chunks, r2[:ch.arg])
			it.B = append(it.B, r2[:ch.arg]...)
			r = r2[ch.arg:]
		}
	case 4, 5:
		it.Kind = Array
		per := uint64(1)
		if h.major == 5 {
			it.Kind = Map
			per = 2
		}
		it.Items = []*Item{}
		if !h.indef {
			if h.arg > uint64(len(r)) { // every item takes at least one byte
				return nil, nil, ErrTooLong
			}
			for i := uint64(0); i < h.arg*per; i++ {
				x, r2, err := parseItem(r, depth+1)
				if err != nil {
					return nil, nil, err
				}
				it.Items = append(it.Items, x)
				r = r2
			}
			return it, r, nil
		}
		it.Indef = true
		for {
			if len(r) == 0 {
				return nil, nil, ErrTruncated
			}
			if r[0] == 0xff {
				if h.major == 5 && len(it.Items)%2 != 0 {
					return nil, nil, ErrOddMap
				}
				return it, r[1:], nil
			}
			x, r2, err := parseItem(r, depth+1)
			if err != nil {
				return nil, nil, err
			}
			it.Items = append(it.Items, x)
			r = r2
		}
	case 6:
		if h.indef {
			return nil, nil, ErrIndef
		}
		it.Kind, it.N = Tag, h.arg
		x, r2, err := parseItem(r, depth+1)
		if err != nil {
			return nil, nil, err
		}
		it.Inner = x
		return it, r2, nil
	default: // 7
		switch {
		case h.ai < 24:
			it.Kind, it.N = Simple, h.arg
		case h.ai == 24:
			if h.arg < 32 {
				return nil, nil, ErrSimple
			}
			it.Kind, it.N = Simple, h.arg
		case h.ai == 25:
			it.Kind, it.N = F16, h.arg
		case h.ai == 26:
			it.Kind, it.N = F32, h.arg
		case h.ai == 27:
			it.Kind, it.N = F64, h.arg
		default:
			return nil, nil, ErrBreak
		}
		return it, r, nil
	}
}

// ParseStream parses a sequence of top-level items covering b entirely.
func ParseStream(b []byte) ([]*Item, error) {
	var out []*Item
	for len(b) > 0 {
		it, r, err := ParseItem(b)
		if err != nil {
			return out, err
		}
		out = append(out, it)
		b = r
	}
	return out, nil
}

// ---- constructors for expected values ----
func U(n uint64) *Item         { return &Item{Kind: Uint, N: n} }
func NegN(n uint64) *Item      { return &Item{Kind: Neg, N: n} }
func Int(v int64) *Item {
	if v < 0 {
		return NegN(uint64(-1 - v))
	}
	return U(uint64(v))
}
func Bs(b []byte) *Item        { return &Item{Kind: Bytes, B: append([]byte{}, b...)} }
func Tx(s string) *Item        { return &Item{Kind: Text, B: []byte(s)} }
func Arr(xs ...*Item) *Item    { return &Item{Kind: Array, Items: append([]*Item{}, xs...)} }
func ArrI(xs ...*Item) *Item   { return &Item{Kind: Array, Indef: true, Items: append([]*Item{}, xs...)} }
func MapD(xs ...*Item) *Item   { return &Item{Kind: Map, Items: append([]*Item{}, xs...)} }
func MapI(xs ...*Item) *Item   { return &Item{Kind: Map, Indef: true, Items: append([]*Item{}, xs...)} }
func Tg(t uint64, x *Item) *Item { return &Item{Kind: Tag, N: t, Inner: x} }
func Sv(v uint64) *Item        { return &Item{Kind: Simple, N: v} }
func Fl32(bits uint32) *Item   { return &Item{Kind: F32, N: uint64(bits)} }
func Fl64(bits uint64) *Item   { return &Item{Kind: F64, N: bits} }

// Equal compares generic data model values including definite/indefinite form
// (the argument width is not compared).
func Equal(a, b *Item) bool {
	if a == nil || b == nil {
		return a == b
	}
	if a.Kind != b.Kind || a.Indef != b.Indef {
		return false
	}
	switch a.Kind {
	case Uint, Neg, Simple, F16, F32, F64:
		return a.N == b.N
	case Bytes, Text:
		return bytes.Equal(a.B, b.B)
	case Array, Map:
		if len(a.Items) != len(b.Items) {
			return false
		}
		for i := range a.Items {
			if !Equal(a.Items[i], b.Items[i]) {
				return false
			}
		}
		return true
	case Tag:
		return a.N == b.N && Equal(a.Inner, b.Inner)
	}
	return false
}

func (it *Item) String() string {
	if it == nil {
		return "<nil>"
	}
	trunc := func(b []byte) string {
		if len(b) > 24 {
			return fmt.Sprintf("%x...(%d)", b[:24], len(b))
		}
		return fmt.Sprintf("%x", b)
	}
	switch it.Kind {
	case Uint:
		return fmt.Sprintf("%d", it.N)
	case Neg:
		return fmt.Sprintf("-1-%d", it.N)
	case Bytes:
		return "h'" + trunc(it.B) + "'"
	case Text:
		return "t'" + trunc(it.B) + "'"
	case Array, Map:
		o, c := "[", "]"
		if it.Kind == Map {
			o, c = "{", "}"
		}
		if it.Indef {
			o += "_ "
		}
		s := o
		for i, x := range it.Items {
			if i > 0 {
				s += ", "
			}
			if i >= 12 {
				s += fmt.Sprintf("...(%d)", len(it.Items))
				break
			}
			s += x.String()
		}
		return s + c
	case Tag:
		return fmt.Sprintf("%d(%s)", it.N, it.Inner.String())
	case Simple:
		return fmt.Sprintf("simple(%d)", it.N)
	case F16:
		return fmt.Sprintf("f16(%04x)", it.N)
	case F32:
		return fmt.Sprintf("f32(%08x)", it.N)
	case F64:
		return fmt.Sprintf("f64(%016x)", it.N)
	}
	return "?"
}
