module verifharness

go 1.21

require github.com/rs/zerolog v0.0.0

require (
	github.com/mattn/go-colorable v0.1.13 // indirect
	github.com/mattn/go-isatty v0.0.19 // indirect
	github.com/rs/xid v1.6.0 // indirect
	golang.org/x/sys v0.12.0 // indirect
)

replace github.com/rs/zerolog => /repo
