package progs

import (
	"fmt"
	"reflect"
	"sort"
	"time"

	"github.com/rs/zerolog"
	. "verifharness/hlib"
)

// ---------------------------------------------------------------- errors
type plainErr struct{ s string }

func (e plainErr) Error() string { return e.s }

type ptrErr struct{ s string }

func (e *ptrErr) Error() string { return e.s }

type objErr struct {
	ops []Op
	stk *ErrV
}

func (e objErr) Error() string                          { return "objErr" }
func (e objErr) MarshalZerologObject(ev *zerolog.Event) { ApplyEvent(ev, e.ops) }

type strErr struct {
	s   string
	stk *ErrV
}

func (e strErr) Error() string { return "strErr" }

type ifaceErr struct {
	v   interface{}
	stk *ErrV
}

func (e ifaceErr) Error() string { return "ifaceErr" }

type textErr struct {
	s   string
	stk *ErrV
}

func (e textErr) Error() string { return e.s }

// errorMarshal is installed as zerolog.ErrorMarshalFunc: idempotent on error results
func errorMarshal(err error) interface{} {
	switch e := err.(type) {
	case strErr:
		return e.s
	case ifaceErr:
		return e.v
	}
	return err
}

func stackMarshal(err error) interface{} {
	var stk *ErrV
	switch e := err.(type) {
	case objErr:
		stk = e.stk
	case strErr:
		stk = e.stk
	case ifaceErr:
		stk = e.stk
	case textErr:
		stk = e.stk
	}
	if stk == nil {
		return nil
	}
	switch stk.K {
	case "nil":
		return nil
	case "typednil":
		return (*ptrErr)(nil)
	case "obj":
		return objM{stk.Ops}
	case "text":
		if stk.ViaString {
			return string(stk.S)
		}
		return plainErr{string(stk.S)}
	default:
		return stk.V
	}
}

// ErrV mirrors coq errv: K in nil typednil obj text iface
type ErrV struct {
	K         string
	Ops       []Op
	S         []byte
	ViaString bool        // text produced by a string result of the marshal func rather than an error
	V         interface{} // iface
	Stk       *ErrV       // what ErrorStackMarshaler answers for this error
}

func (x *ErrV) GoErr() error {
	switch x.K {
	case "nil":
		return nil
	case "typednil":
		return (*ptrErr)(nil)
	case "obj":
		return objErr{x.Ops, x.Stk}
	case "text":
		if x.ViaString {
			return strErr{string(x.S), x.Stk}
		}
		return textErr{string(x.S), x.Stk}
	default:
		return ifaceErr{x.V, x.Stk}
	}
}

func (x *ErrV) Coq(s Settings) string {
	if x == nil {
		return "ENil"
	}
	switch x.K {
	case "nil":
		return "ENil"
	case "typednil":
		return "ETypedNil"
	case "obj":
		return "(EObj " + OpsCoq(x.Ops, s) + ")"
	case "text":
		return "(EText " + CoqBytes(x.S) + ")"
	default:
		b, err := zerolog.InterfaceMarshalFunc(x.V)
		return "(EIface " + ifaceCoq(b, err) + ")"
	}
}

// the stack answer the model must use for this error (what stackMarshal returns)
func (x *ErrV) StkCoq(s Settings) string {
	if x == nil || x.K == "nil" || x.K == "typednil" || x.Stk == nil {
		return "ENil"
	}
	return x.Stk.Coq(s)
}

// ---------------------------------------------------------------- ops
type FieldKV struct {
	Key    []byte
	NonStr bool   // a non-string key (skipped by Fields)
	K      string // prim obj err errs nilptr
	P      *Prim
	Ptr    bool // pass a pointer to the value (Fields pointer cases)
	Ops    []Op
	E      *ErrV
	Es     []*ErrV
}

type Op struct {
	K    string // key dict array object embed fields anerr err errs stack func timestamp mark discard log | aelem aobj adict aerr
	Key  []byte
	P    *Prim
	Sub  []Op
	Nil  bool // object/embed with a nil marshaler
	Via  bool // array through a LogArrayMarshaler / aobj through Interface / fields through a map
	KVs  []FieldKV
	E    *ErrV
	Es   []*ErrV
	ID   uint64
	When time.Time
	N    *Nested // log: another event started (and usually finished) at this point, see nested.go
}

// Marks is the global trace written by OMark (hooks / marshalers noting that they ran)
var Marks []uint64

type objM struct{ ops []Op }

func (o objM) MarshalZerologObject(e *zerolog.Event) { ApplyEvent(e, o.ops) }

type arrM struct{ ops []Op }

func (a arrM) MarshalZerologArray(arr *zerolog.Array) { ApplyArray(arr, a.ops) }

// HookM is a hook running a fragment
type HookM struct{ Ops []Op }

// HookCall: what the library handed one invocation of a harness hook (a Hook() hook, or the hook a LevelHook holds
// for the event's level)
type HookCall struct {
	ID       uint64 // the mark the hook's fragment starts with (0: none)
	Level    zerolog.Level
	Msg      string
	Discards bool // the hook's own fragment has a Discard() somewhere: the hooks after it may be handed Disabled
}

// HookCalls is the trace of hook invocations, kept like Marks (per event: see Case.Run and runNested).  Only written
// when RecordHookCalls is set, which a sequential driver does once at start-up (hooks also run in the goroutines of
// the concurrent drivers, which never set it).
var (
	HookCalls       []HookCall
	RecordHookCalls bool
)

func (h HookM) Run(e *zerolog.Event, level zerolog.Level, msg string) {
	if RecordHookCalls {
		hc := HookCall{Level: level, Msg: msg, Discards: hasDiscard(h.Ops)}
		if len(h.Ops) > 0 && h.Ops[0].K == "mark" {
			hc.ID = h.Ops[0].ID
		}
		HookCalls = append(HookCalls, hc)
	}
	ApplyEvent(e, h.Ops)
}

func callKeyed(recv reflect.Value, key []byte, p *Prim) reflect.Value {
	m := recv.MethodByName(p.M)
	if !m.IsValid() {
		panic("no method " + p.M + " on " + recv.Type().String())
	}
	return m.Call([]reflect.Value{reflect.ValueOf(string(key)), p.goArg()})[0]
}

func fieldsArg(kvs []FieldKV, asMap bool) interface{} {
	val := func(kv FieldKV) interface{} {
		switch kv.K {
		case "prim":
			v := kv.P.FieldsValue()
			if kv.Ptr {
				return ptrTo(v)
			}
			return v
		case "nilptr":
			return nilPtrOf(kv.P.V)
		case "obj":
			return objM{kv.Ops}
		case "err":
			return kv.E.GoErr()
		case "errs":
			es := make([]error, len(kv.Es))
			for i, x := range kv.Es {
				es[i] = x.GoErr()
			}
			return es
		}
		panic("fieldsArg")
	}
	if asMap {
		m := map[string]interface{}{}
		for _, kv := range kvs {
			m[string(kv.Key)] = val(kv)
		}
		return m
	}
	var s []interface{}
	for _, kv := range kvs {
		if kv.NonStr {
			s = append(s, 42, val(kv))
		} else {
			s = append(s, string(kv.Key), val(kv))
		}
	}
	return s
}

// pointer cases of the Fields type switch
func ptrTo(v interface{}) interface{} {
	switch x := v.(type) {
	case string:
		return &x
	case bool:
		return &x
	case int:
		return &x
	case int8:
		return &x
	case int16:
		return &x
	case int32:
		return &x
	case int64:
		return &x
	case uint:
		return &x
	case uint8:
		return &x
	case uint16:
		return &x
	case uint32:
		return &x
	case uint64:
		return &x
	case float32:
		return &x
	case float64:
		return &x
	case time.Time:
		return &x
	case time.Duration:
		return &x
	}
	return v
}

func HasPtrCase(v interface{}) bool {
	switch v.(type) {
	case string, bool, int, int8, int16, int32, int64, uint, uint8, uint16, uint32, uint64, float32, float64, time.Time, time.Duration:
		return true
	}
	return false
}

func nilPtrOf(v interface{}) interface{} {
	switch v.(type) {
	case string:
		return (*string)(nil)
	case bool:
		return (*bool)(nil)
	case int:
		return (*int)(nil)
	case int8:
		return (*int8)(nil)
	case int16:
		return (*int16)(nil)
	case int32:
		return (*int32)(nil)
	case int64:
		return (*int64)(nil)
	case uint:
		return (*uint)(nil)
	case uint8:
		return (*uint8)(nil)
	case uint16:
		return (*uint16)(nil)
	case uint32:
		return (*uint32)(nil)
	case uint64:
		return (*uint64)(nil)
	case float32:
		return (*float32)(nil)
	case float64:
		return (*float64)(nil)
	case time.Time:
		return (*time.Time)(nil)
	case time.Duration:
		return (*time.Duration)(nil)
	}
	return nil
}

func buildArray(es []Op) *zerolog.Array {
	a := zerolog.Arr()
	ApplyArray(a, es)
	return a
}

func buildDict(fs []Op) *zerolog.Event {
	d := zerolog.Dict()
	ApplyEvent(d, fs)
	return d
}

func goErrs(es []*ErrV) []error {
	out := make([]error, len(es))
	for i, x := range es {
		out[i] = x.GoErr()
	}
	return out
}

// ApplyEvent runs the ops on a real event
func ApplyEvent(e *zerolog.Event, ops []Op) *zerolog.Event {
	for i := range ops {
		o := &ops[i]
		switch o.K {
		case "key":
			callKeyed(reflect.ValueOf(e), o.Key, o.P)
		case "dict":
			e.Dict(string(o.Key), buildDict(o.Sub))
		case "array":
			if o.Via {
				e.Array(string(o.Key), arrM{o.Sub})
			} else {
				e.Array(string(o.Key), buildArray(o.Sub))
			}
		case "object":
			if o.Nil {
				e.Object(string(o.Key), nil)
			} else {
				e.Object(string(o.Key), objM{o.Sub})
			}
		case "embed":
			if o.Nil {
				e.EmbedObject(nil)
			} else {
				e.EmbedObject(objM{o.Sub})
			}
		case "fields":
			e.Fields(fieldsArg(o.KVs, o.Via))
		case "anerr":
			e.AnErr(string(o.Key), o.E.GoErr())
		case "err":
			e.Err(o.E.GoErr())
		case "errs":
			e.Errs(string(o.Key), goErrs(o.Es))
		case "stack":
			e.Stack()
		case "func":
			sub := o.Sub
			e.Func(func(e *zerolog.Event) { ApplyEvent(e, sub) })
		case "timestamp":
			e.Timestamp()
		case "mark":
			if o.ID != 0 {
				Marks = append(Marks, o.ID)
			}
		case "discard":
			e.Discard()
		case "log":
			runNested(o.N)
		default:
			panic("ApplyEvent: " + o.K)
		}
	}
	return e
}

func ApplyArray(a *zerolog.Array, ops []Op) *zerolog.Array {
	for i := range ops {
		o := &ops[i]
		switch o.K {
		case "aelem":
			m := reflect.ValueOf(a).MethodByName(o.P.M)
			if !m.IsValid() {
				panic("no Array method " + o.P.M)
			}
			m.Call([]reflect.Value{o.P.goArg()})
		case "aobj":
			if o.Via {
				a.Interface(objM{o.Sub})
			} else {
				a.Object(objM{o.Sub})
			}
		case "adict":
			d := buildDict(o.Sub)
			a.Dict(d)
		case "aerr":
			a.Err(o.E.GoErr())
		default:
			panic("ApplyArray: " + o.K)
		}
	}
	return a
}

// ---------------------------------------------------------------- context ops
type Cop struct {
	K   string // op anerr err errs object embed hook levelhook timestamp caller reset
	O   *Op
	Key []byte
	E   *ErrV
	Es  []*ErrV
	Sub []Op
	Nil bool
	// caller: Context.Caller() when Skip == CallerGlobal, else Context.CallerWithSkipFrameCount(Skip).
	// Both register a hook (like Timestamp()). A Skip of CallerBeyond or more is deeper than any stack: no field.
	Skip int
	// levelhook: Logger.Hook(zerolog.LevelHook{...}).  LH[i] is the fragment run by the hook installed for level i-1
	// (LH[0] TraceHook, LH[1] DebugHook ... LH[6] PanicHook, LH[7] NoLevelHook); nil = that field is left unset.
	LH [8][]Op
}

// LevelHookOf builds the zerolog.LevelHook a levelhook cop registers.
func LevelHookOf(lh [8][]Op) zerolog.LevelHook {
	mk := func(i int) zerolog.Hook {
		if lh[i] == nil {
			return nil
		}
		return HookM{lh[i]}
	}
	h := zerolog.NewLevelHook()
	h.TraceHook, h.DebugHook, h.InfoHook, h.WarnHook = mk(0), mk(1), mk(2), mk(3)
	h.ErrorHook, h.FatalHook, h.PanicHook, h.NoLevelHook = mk(4), mk(5), mk(6), mk(7)
	return h
}

// LevelHookFrag: the fragment a LevelHook runs for an event of the given level (nil: none), as its documentation
// says ("applies a different hook for each level"): the hook of that level, nothing for any other level value.
func (c *Cop) LevelHookFrag(level int) []Op {
	if c.K != "levelhook" || level < -1 || level > 6 {
		return nil
	}
	return c.LH[level+1]
}

const (
	CallerGlobal = -1 << 20
	CallerBeyond = 1 << 20
)

// CallerCop: the context op and the fragment the model runs for its hook
func CallerCop(skip int) Cop { return Cop{K: "caller", Skip: skip} }

func ApplyContext(c zerolog.Context, cops []Cop) zerolog.Context {
	for i := range cops {
		co := &cops[i]
		switch co.K {
		case "op":
			o := co.O
			switch o.K {
			case "key":
				c = callKeyed(reflect.ValueOf(c), o.Key, o.P).Interface().(zerolog.Context)
			case "dict":
				c = c.Dict(string(o.Key), buildDict(o.Sub))
			case "array":
				if o.Via {
					c = c.Array(string(o.Key), arrM{o.Sub})
				} else {
					c = c.Array(string(o.Key), buildArray(o.Sub))
				}
			case "fields":
				c = c.Fields(fieldsArg(o.KVs, o.Via))
			case "stack":
				c = c.Stack()
			default:
				panic("ApplyContext op: " + o.K)
			}
		case "anerr":
			c = c.AnErr(string(co.Key), co.E.GoErr())
		case "err":
			c = c.Err(co.E.GoErr())
		case "errs":
			c = c.Errs(string(co.Key), goErrs(co.Es))
		case "object":
			if co.Nil {
				c = c.Object(string(co.Key), nil)
			} else {
				c = c.Object(string(co.Key), objM{co.Sub})
			}
		case "embed":
			if co.Nil {
				c = c.EmbedObject(nil)
			} else {
				c = c.EmbedObject(objM{co.Sub})
			}
		case "timestamp":
			c = c.Timestamp()
		case "caller":
			if co.Skip == CallerGlobal {
				c = c.Caller()
			} else {
				c = c.CallerWithSkipFrameCount(co.Skip)
			}
		case "reset":
			c = c.Reset()
		case "hook", "levelhook":
			// applied by the caller after Logger() (see Step)
		default:
			panic("ApplyContext: " + co.K)
		}
	}
	return c
}

// A Step derives a logger: With()...Logger() followed by Hook(h) for its "hook" cops, or UpdateContext.
type Step struct {
	Update bool
	Cops   []Cop
	Noise  int // byte-neutral derivations interleaved: 1 Level(Trace), 2 Output(same writer), 3 Sample(nil)
	// Mute: a Level() call after this step that changes whether the chain is enabled at this point, and nothing else:
	// 1 Level(Disabled) - what is derived from here on is attached to a logger that emits nothing, until a later
	// Level() re-enables a descendant; 2 Level(-128) - re-enable.  (Case.Run re-enables at the end of the chain if needed.)
	Mute int
	// Out: an Output() call after this step that changes where the chain's events go, and nothing else: 1 Output(nil) -
	// New(nil) "writes" to io.Discard: what is derived from here on is a logger whose events are built, run their hooks
	// and go nowhere, until a later Output() attaches a writer again; 2 Output(w) - the case's writer again.
	// (Case.Run attaches the writer at the end of the chain if needed, unless Case.NoWriter.)
	Out int
}

func ApplyStep(l zerolog.Logger, st Step, w zerolog.LevelWriter) zerolog.Logger {
	if st.Update {
		l.UpdateContext(func(c zerolog.Context) zerolog.Context { return ApplyContext(c, st.Cops) })
	} else {
		l = ApplyContext(l.With(), st.Cops).Logger()
		for _, co := range st.Cops {
			switch co.K {
			case "hook":
				l = l.Hook(HookM{co.Sub})
			case "levelhook":
				l = l.Hook(LevelHookOf(co.LH))
			}
		}
	}
	switch st.Mute {
	case 1:
		l = l.Level(zerolog.Disabled)
	case 2:
		l = l.Level(zerolog.Level(-128))
	}
	switch st.Noise {
	case 1:
		l = l.Level(zerolog.Level(-128))
	case 2:
		if st.Out == 0 {
			l = l.Output(w)
		}
	case 3:
		l = l.Sample(nil)
	}
	switch st.Out {
	case 1:
		l = l.Output(nil)
	case 2:
		l = l.Output(w)
	}
	return l
}

// ---------------------------------------------------------------- printers
func optOpsCoq(nilObj bool, ops []Op, s Settings) string {
	if nilObj {
		return "None"
	}
	return "(Some " + OpsCoq(ops, s) + ")"
}

func errsCoq(es []*ErrV, s Settings) string {
	xs := make([]string, len(es))
	for i, x := range es {
		xs[i] = x.Coq(s)
	}
	return CoqList(xs)
}

func (o *Op) Coq(s Settings) string {
	switch o.K {
	case "key":
		return "(OKey " + CoqBytes(o.Key) + " " + o.P.Coq(s) + ")"
	case "dict":
		return "(ODict " + CoqBytes(o.Key) + " " + OpsCoq(o.Sub, s) + ")"
	case "array":
		return "(OArray " + CoqBytes(o.Key) + " " + OpsCoq(o.Sub, s) + ")"
	case "object":
		return "(OObject " + CoqBytes(o.Key) + " " + optOpsCoq(o.Nil, o.Sub, s) + ")"
	case "embed":
		return "(OEmbed " + optOpsCoq(o.Nil, o.Sub, s) + ")"
	case "fields":
		kvs := append([]FieldKV{}, o.KVs...)
		if o.Via {
			// a map: distinct keys, sorted (sort.Strings = bytewise); later duplicates win in Go map construction
			m := map[string]FieldKV{}
			for _, kv := range kvs {
				m[string(kv.Key)] = kv
			}
			keys := make([]string, 0, len(m))
			for k := range m {
				keys = append(keys, k)
			}
			sort.Strings(keys)
			kvs = kvs[:0]
			for _, k := range keys {
				kvs = append(kvs, m[k])
			}
		}
		xs := make([]string, len(kvs))
		for i, kv := range kvs {
			key := "(Some " + CoqBytes(kv.Key) + ")"
			if kv.NonStr {
				key = "None"
			}
			v := ""
			switch kv.K {
			case "prim":
				v = "(FVPrim " + kv.P.Coq(s) + ")"
			case "nilptr":
				v = "(FVPrim PNil)"
			case "obj":
				v = "(FVObj " + OpsCoq(kv.Ops, s) + ")"
			case "err":
				if kv.E.K == "obj" {
					// the harness's object errors are themselves LogObjectMarshalers: Fields takes them as objects before its type switch
					v = "(FVObj " + OpsCoq(kv.E.Ops, s) + ")"
				} else {
					v = "(FVErr " + kv.E.Coq(s) + " " + kv.E.StkCoq(s) + ")"
				}
			case "errs":
				v = "(FVErrs " + errsCoq(kv.Es, s) + ")"
			}
			xs[i] = "(" + key + ", " + v + ")"
		}
		return "(OFields " + CoqList(xs) + ")"
	case "anerr":
		return "(OAnErr " + CoqBytes(o.Key) + " " + o.E.Coq(s) + ")"
	case "err":
		return "(OErr " + o.E.Coq(s) + " " + o.E.StkCoq(s) + ")"
	case "errs":
		return "(OErrs " + CoqBytes(o.Key) + " " + errsCoq(o.Es, s) + ")"
	case "stack":
		return "OStack"
	case "func":
		return "(OFunc " + OpsCoq(o.Sub, s) + ")"
	case "timestamp":
		return "(OTimestamp " + timeCoq(o.When, s) + ")"
	case "mark":
		return fmt.Sprintf("(OMark %d)", o.ID)
	case "discard":
		return "ODiscard"
	case "aelem":
		return "(AElem " + o.P.Coq(s) + ")"
	case "aobj":
		return "(AObj " + OpsCoq(o.Sub, s) + ")"
	case "adict":
		return "(ADict " + OpsCoq(o.Sub, s) + ")"
	case "aerr":
		return "(AErr " + o.E.Coq(s) + ")"
	}
	panic("Op.Coq " + o.K)
}

// OpsCoq: a "log" op (another event started on another logger while this one is being built, nested.go) is no call on
// this event and is not printed: the model's claim for it is that this event is what it would be without it; the
// other event is a model case of its own.
func OpsCoq(ops []Op, s Settings) string {
	xs := make([]string, 0, len(ops))
	for i := range ops {
		if ops[i].K == "log" {
			continue
		}
		xs = append(xs, ops[i].Coq(s))
	}
	return CoqList(xs)
}

func (c *Cop) Coq(s Settings) string { return c.CoqAt(s, nil) }

// CoqAt: level = the level of the case's event (a LevelHook's dispatch on it is evaluated by the model: level_hook in
// coq/Harness/C01H.v is given the eight fragments and the level)
func (c *Cop) CoqAt(s Settings, level *int) string {
	switch c.K {
	case "levelhook":
		if level == nil {
			panic("Cop.Coq: a levelhook needs the event level (use StepsCoqAt)")
		}
		xs := make([]string, 8)
		for i := range xs {
			if c.LH[i] == nil {
				xs[i] = "None"
			} else {
				xs[i] = "(Some " + OpsCoq(c.LH[i], s) + ")"
			}
		}
		return "(CHook (level_hook " + CoqList(xs) + " " + ZS(int64(*level)) + "))"
	case "op":
		return "(COp " + c.O.Coq(s) + ")"
	case "anerr":
		return "(CAnErr " + CoqBytes(c.Key) + " " + c.E.Coq(s) + ")"
	case "err":
		return "(CErr " + c.E.Coq(s) + " " + c.E.StkCoq(s) + ")"
	case "errs":
		return "(CErrs " + CoqBytes(c.Key) + " " + errsCoq(c.Es, s) + ")"
	case "object":
		return "(CObject " + CoqBytes(c.Key) + " " + optOpsCoq(c.Nil, c.Sub, s) + ")"
	case "embed":
		return "(CEmbed " + optOpsCoq(c.Nil, c.Sub, s) + ")"
	case "timestamp", "hook":
		return "(CHook " + OpsCoq(c.Sub, s) + ")"
	case "caller":
		if c.Skip >= CallerBeyond {
			return "(CHook [OCaller None])"
		}
		return "(CHook [OCaller (Some " + CoqBytes([]byte(CallerText)) + ")])"
	case "reset":
		return "CReset"
	}
	panic("Cop.Coq " + c.K)
}

func StepsCoq(steps []Step, s Settings) string { return stepsCoq(steps, s, nil) }

// StepsCoqAt prints a chain that may hold LevelHooks, for an event of the given level
func StepsCoqAt(steps []Step, s Settings, level int) string { return stepsCoq(steps, s, &level) }

func stepsCoq(steps []Step, s Settings, level *int) string {
	xs := make([]string, len(steps))
	for i, st := range steps {
		cs := make([]string, len(st.Cops))
		for j := range st.Cops {
			cs[j] = st.Cops[j].CoqAt(s, level)
		}
		xs[i] = fmt.Sprintf("(%s, %s)", CoqBool(st.Update), CoqList(cs))
	}
	return CoqList(xs)
}

// ---------------------------------------------------------------- JSON twins
func DescribeOps(ops []Op) []interface{} {
	var out []interface{}
	for i := range ops {
		o := &ops[i]
		d := map[string]interface{}{"op": o.K}
		if o.Key != nil {
			d["key"] = fmt.Sprintf("%q", o.Key)
		}
		if o.P != nil {
			d["prim"] = o.P.Describe()
		}
		if len(o.Sub) > 0 {
			d["sub"] = DescribeOps(o.Sub)
		}
		if o.Nil {
			d["nil"] = true
		}
		if o.E != nil {
			d["err"] = o.E.K
		}
		if o.K == "mark" {
			d["id"] = o.ID
		}
		if o.K == "log" && o.N != nil {
			d["another_event_on_another_logger_and_writer"] = o.N.In.Describe()
			if o.N.After {
				d["started_and_finalized"] = "after this event's finalizer has returned (a following event of the program)"
			} else if o.N.Late {
				d["finalized"] = "after this event's finalizer has returned"
			} else {
				d["finalized"] = "at once, before the next call on this event"
			}
		}
		if len(o.KVs) > 0 {
			var ks []string
			for _, kv := range o.KVs {
				ks = append(ks, fmt.Sprintf("%q:%s", kv.Key, kv.K))
			}
			d["fields"] = ks
			d["map"] = o.Via
		}
		out = append(out, d)
	}
	return out
}
