package progs

import (
	"github.com/rs/zerolog"
)

// Interleaved events.  A "log" op stands where a program, in the middle of building one event (in the caller's code
// between two field calls, inside a Func callback, an object marshaler, a Dict under construction, a hook), starts
// ANOTHER event: on a logger of its own, derived at that point from zerolog.New(w2) with a writer of its own.  The other
// event is a complete Case (derivation chain, level, fields, message, finalizer; no "log" ops of its own); it is
// finalized at once, or - Late - only after the outer event's finalizer has returned (caller code that holds two
// events).  Both events must come out as if the other did not exist: the outer event's model case leaves the op out
// (OpsCoq), the inner event is evaluated by the model as a case of its own, and every Write that reaches w2 has to be
// accounted for by one inner event.
type Nested struct {
	In   *Case
	Late bool
	// After: the op only announces the event; it is started, built and finalized after the outer event's finalizer has
	// returned (in the order announced, together with the Late finalizers): a FOLLOWING event of the same program, on
	// the same goroutine.  What the outer event left behind in the pools is what it starts from.
	After bool
}

// NestedRun: what one executed "log" op did
type NestedRun struct {
	N        *Nested
	Done     bool // the inner event's finalizer returned
	Obs      Obs  // of the inner event: its line on w2, its marks (marshalers while it was built, hooks at its finalizer)
	From, To int  // the Write calls on w2 made during its finalizer: NestLines[From:To]
}

var (
	nestW      *capture
	nestedRuns []NestedRun
	deferred   []func()
)

func resetNested() {
	nestW = &capture{}
	nestedRuns, deferred = nil, nil
}

func runNested(n *Nested) {
	if nestW == nil {
		resetNested()
	}
	if n.After {
		deferred = append(deferred, func() { runNestedNow(n) })
		return
	}
	runNestedNow(n)
}

func runNestedNow(n *Nested) {
	w2 := nestW
	in := n.In
	idx := len(nestedRuns)
	nestedRuns = append(nestedRuns, NestedRun{N: n})
	// the inner event has a trace of its own
	outer, outerCalls := Marks, HookCalls
	Marks, HookCalls = nil, nil
	restore := func() []uint64 {
		m := Marks
		Marks = outer
		// (the hook invocations likewise: the inner event's hooks are handed the inner event's level and message)
		nestedRuns[idx].Obs.HookCalls = append(nestedRuns[idx].Obs.HookCalls, HookCalls...)
		HookCalls = outerCalls
		return m
	}
	var ev *zerolog.Event
	func() {
		defer func() { nestedRuns[idx].Obs.Marks = append(nestedRuns[idx].Obs.Marks, restore()...) }()
		l := zerolog.New(w2).Level(zerolog.Level(-128))
		muted := false
		for _, st := range in.Steps {
			l = ApplyStep(l, st, w2)
			switch {
			case st.Mute == 1:
				muted = true
			case st.Mute == 2 || st.Noise == 1:
				muted = false
			}
		}
		if muted {
			l = l.Level(zerolog.Level(-128))
		}
		Marks = nil // (as in Case.Run) marshalers run while deriving the logger are not part of the event's trace
		ev = startEvent(l, in.Level, in.EntryUsed())
		ApplyEvent(ev, in.Ops)
	}()
	fin := func() {
		outer, outerCalls = Marks, HookCalls
		Marks, HookCalls = nil, nil
		from := len(w2.lines)
		defer func() {
			r := &nestedRuns[idx]
			r.Obs.Marks = append(r.Obs.Marks, restore()...)
			r.From, r.To = from, len(w2.lines)
			r.Obs.Writes = r.To - r.From
			if r.Obs.Writes > 0 {
				r.Obs.Written = true
				r.Obs.Line = w2.lines[r.From]
			}
		}()
		if in.EntryUsed() == 6 {
			nestedRuns[idx].Obs.Recovered = finishRecovering(ev, in.Fin, string(in.Msg))
		} else {
			finish(ev, in.Fin, string(in.Msg))
		}
		nestedRuns[idx].Done = true
	}
	if n.Late && !n.After {
		deferred = append(deferred, fin)
	} else {
		fin()
	}
}

// FollowOp: the inner case as a following event of the program (Nested.After)
func FollowOp(outer *Case, in *Case) Op {
	op := LogOp(outer, in, false)
	op.N.After = true
	return op
}

// LogOp builds the op; the inner case shares the outer program's settings and clock (they are process-wide).
func LogOp(outer *Case, in *Case, late bool) Op {
	in.S, in.Now = outer.S, outer.Now
	in.Entry, in.Root, in.Pre = 0, 0, nil
	return Op{K: "log", N: &Nested{In: in, Late: late}}
}

// Fragments: every list of event ops of the program that the harness runs on a real *Event: the event's own calls,
// the bodies of Func callbacks, object / embedded marshalers, dicts under construction, objects and dicts inside
// arrays, marshalers of values given to Fields, hooks, the fragments of a LevelHook, marshalers and dicts given to the
// context.  (Not the Sub of a "timestamp" cop: that is only the model's rendering of Context.Timestamp().)
func (c *Case) Fragments() (out []*[]Op) {
	var walk func(l *[]Op)
	walk = func(l *[]Op) {
		out = append(out, l)
		for i := range *l {
			o := &(*l)[i]
			switch o.K {
			case "dict", "func", "adict", "aobj":
				walk(&o.Sub)
			case "object", "embed":
				if !o.Nil {
					walk(&o.Sub)
				}
			case "array":
				for j := range o.Sub {
					if k := o.Sub[j].K; k == "adict" || k == "aobj" {
						walk(&o.Sub[j].Sub)
					}
				}
			}
		}
	}
	for i := range c.Steps {
		for j := range c.Steps[i].Cops {
			co := &c.Steps[i].Cops[j]
			switch co.K {
			case "hook":
				if !c.Steps[i].Update {
					walk(&co.Sub)
				}
			case "object", "embed":
				if !co.Nil {
					walk(&co.Sub)
				}
			case "op":
				if co.O.K == "dict" {
					walk(&co.O.Sub)
				}
			}
		}
	}
	walk(&c.Ops)
	return
}

// InsertNested puts n "log" ops at random places of the program (drawn from g.R; generate the program first).  A
// fragment that ends in Discard() gets the op after the Discard() half of the time: the event is then still in the
// hands of the running Msg (or of the caller) while the other event is created.
func (c *Case) InsertNested(g *Gen, n int) {
	r := g.R
	for ; n > 0; n-- {
		fr := c.Fragments()
		l := fr[r.Intn(len(fr))]
		at := r.Intn(len(*l) + 1)
		if k := len(*l); k > 0 && (*l)[k-1].K == "discard" && r.Chance(50) {
			at = k
		}
		if at < len(*l) && (*l)[at].K == "mark" {
			at++ // a marshaler / hook notes that it ran before anything else
		}
		in := g.GenInner(2)
		op := LogOp(c, in, false)
		*l = append((*l)[:at:at], append([]Op{op}, (*l)[at:]...)...)
	}
}
