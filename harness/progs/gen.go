package progs

import (
	"encoding/json"
	"time"

	"github.com/rs/zerolog"
	. "verifharness/hlib"
)

// Case is one complete logging program: settings, a derivation chain from the
// root logger, one event (level, ops, message, finalizer).
type Case struct {
	S     Settings
	Now   time.Time
	Steps []Step
	Level int
	Ops   []Op
	Msg   []byte
	Fin   int      // 0 Msg 1 Send(only with empty msg) 2 Msgf 3 MsgFunc
	Pre   *Prelude // filtered events started before this one (not part of the model's case)
	// Entry: how the event is started (all of them are the same event for the model): 0 WithLevel(level); 1 the level's
	// own method (Trace() .. Error(), Log() for NoLevel); 2 the io.Writer bridge Logger.Write (NoLevel, no fields, Msg);
	// 3 / 4 Logger.Print / Printf (Debug, no fields); 5 Logger.Println (the same, for a message that ends in the newline
	// Println adds); 6 Logger.Panic() (level 5: the finalizer panics with the message after the line is written, and the
	// program recovers - Obs.Recovered).  See EntryUsed.
	Entry int
	// Root: 0 New(w); 1 Nop().Output(w) - Disabled from the start, a descendant is re-enabled by Level() (Step.Mute);
	// 2 New(nil) - no writer from the start, a descendant is given the writer by Output(w) (Step.Out)
	Root int
	// NoWriter: the event is logged through the chain's last logger also when that one has no writer (New(nil) /
	// Output(nil), Step.Out): it is an enabled event - built, its hooks run - whose bytes go to io.Discard.  There is
	// no line to observe then; the monitors judge the hooks.
	NoWriter bool
}

type Gen struct {
	R       *Rng
	NoMarks bool // concurrent runs: marshalers / hooks must not write the global trace
	MarkID  uint64
	Now     time.Time
	S       Settings
}

func (g *Gen) mark() Op {
	if g.NoMarks {
		return Op{K: "mark", ID: 0}
	}
	g.MarkID++
	return Op{K: "mark", ID: g.MarkID}
}

func (g *Gen) GenSettings() Settings {
	r := g.R
	s := DefaultSettings()
	if r.Chance(30) {
		names := []string{"lvl", "", "l\"evel", "level", "é", "time"}
		s.LevelName = names[r.Intn(len(names))]
	}
	if r.Chance(20) {
		names := []string{"msg", "m\n", "message", "error"}
		s.MessageName = names[r.Intn(len(names))]
	}
	if r.Chance(15) {
		s.ErrorName = []string{"err", "e\\", "error"}[r.Intn(3)]
	}
	if r.Chance(15) {
		s.StackName = []string{"st", "stack", "\x01"}[r.Intn(3)]
	}
	if r.Chance(15) {
		s.TimestampName = []string{"ts", "t\t", "time"}[r.Intn(3)]
	}
	fmts := []string{time.RFC3339, time.RFC3339, time.RFC3339Nano, zerolog.TimeFormatUnix, zerolog.TimeFormatUnixMs, zerolog.TimeFormatUnixMicro, zerolog.TimeFormatUnixNano, "2006-01-02", time.Kitchen, "Mon Jan _2 15:04:05.000 MST 2006"}
	s.TimeFormat = fmts[r.Intn(len(fmts))]
	units := []time.Duration{time.Millisecond, time.Millisecond, time.Nanosecond, time.Microsecond, time.Second, 7, time.Hour}
	s.DurUnit = units[r.Intn(len(units))]
	s.DurInt = r.Chance(30)
	s.Prec = []int{-1, -1, -1, 0, 3, 10}[r.Intn(6)]
	s.StackMarshaler = r.Chance(50)
	if r.Chance(20) {
		s.LevelStyle = 1 + r.Intn(3)
	}
	return s
}

func (g *Gen) genErr(depth int, allowObjStk bool) *ErrV {
	r := g.R
	x := &ErrV{}
	switch r.Intn(8) {
	case 0:
		x.K = "nil"
	case 1:
		x.K = "typednil"
	case 2:
		x.K = "obj"
		x.Ops = append([]Op{g.mark()}, g.GenOps(depth-1, 2)...)
	case 3:
		x.K = "text"
		x.S = GenBytes(r)
		x.ViaString = true
	case 4:
		x.K = "iface"
		x.V = []interface{}{42, 1.5, map[string]int{"a": 1}, "str-as-iface"}[r.Intn(3)]
	default:
		x.K = "text"
		x.S = GenBytes(r)
	}
	if x.K != "nil" && x.K != "typednil" && r.Chance(70) {
		st := &ErrV{}
		switch r.Intn(7) {
		case 0:
			st.K = "nil"
		case 1:
			st.K = "typednil"
		case 2:
			if allowObjStk {
				st.K = "obj"
				st.Ops = g.GenOps(depth-1, 2)
			} else {
				st.K = "text"
				st.S = []byte("trace")
			}
		case 3:
			st.K = "iface"
			st.V = []interface{}{[]string{"f1", "f2"}, 7}[r.Intn(2)]
		case 4:
			st.K = "text"
			st.S = GenBytes(r)
			st.ViaString = true
		default:
			st.K = "text"
			st.S = GenBytes(r)
		}
		x.Stk = st
	}
	return x
}

func (g *Gen) genKeyPrim() Op {
	m := EventMethods[g.R.Intn(len(EventMethods))]
	p := GenPrim(g.R, m)
	return Op{K: "key", Key: GenKey(g.R), P: &p}
}

func (g *Gen) genArrayOps(depth, n int) []Op {
	r := g.R
	var out []Op
	k := r.Intn(n + 1)
	for i := 0; i < k; i++ {
		switch c := r.Intn(12); {
		case c < 8 || depth <= 0:
			var m string
			for {
				m = EventMethods[r.Intn(len(EventMethods))]
				if ArrayMethods[m] {
					break
				}
			}
			p := GenPrim(r, m)
			out = append(out, Op{K: "aelem", P: &p})
		case c == 8:
			out = append(out, Op{K: "aobj", Sub: append([]Op{g.mark()}, g.GenOps(depth-1, 3)...), Via: r.Chance(30)})
		case c == 9:
			out = append(out, Op{K: "adict", Sub: g.GenOps(depth-1, 3)})
		default:
			out = append(out, Op{K: "aerr", E: g.genErr(depth, false)})
		}
	}
	return out
}

func (g *Gen) genFields(depth int) Op {
	r := g.R
	o := Op{K: "fields", Via: r.Chance(35)}
	n := r.Intn(5)
	for i := 0; i < n; i++ {
		kv := FieldKV{Key: GenKey(r)}
		if !o.Via && r.Chance(8) {
			kv.NonStr = true
		}
		switch c := r.Intn(12); {
		case c < 7 || depth <= 0:
			var m string
			for {
				m = EventMethods[r.Intn(len(EventMethods))]
				if m != "Hex" && m != "RawCBOR" && m != "Type" && m != "Stringer" && m != "Stringers" && m != "Any" {
					break
				}
			}
			p := GenPrim(r, m)
			if m == "RawJSON" {
				p.V = json.RawMessage(p.V.([]byte))
			}
			if m == "Uints8" {
				p = Prim{"Bytes", []byte(p.V.(uints8))} // []uint8 IS []byte for the type switch
			}
			if m == "Interface" {
				switch v := p.V.(type) {
				case string:
					p = Prim{"Str", v}
				case float64:
					p = Prim{"Float64", v}
				}
			}
			kv.K, kv.P = "prim", &p
			if m != "Interface" && m != "RawJSON" && HasPtrCase(p.V) {
				if r.Chance(25) {
					kv.Ptr = true
				} else if r.Chance(10) {
					kv.K = "nilptr"
				}
			}
			if m == "Interface" && p.V == nil {
				p.M = "Nil"
			}
		case c == 7:
			kv.K, kv.Ops = "obj", append([]Op{g.mark()}, g.GenOps(depth-1, 3)...)
		case c == 8 || c == 9:
			kv.K, kv.E = "err", g.genErr(depth, false)
		default:
			kv.K = "errs"
			k := r.Intn(4)
			for j := 0; j < k; j++ {
				kv.Es = append(kv.Es, g.genErr(depth, false))
			}
		}
		o.KVs = append(o.KVs, kv)
	}
	return o
}

// GenOps generates up to n event ops of nesting depth <= depth.
func (g *Gen) GenOps(depth, n int) []Op {
	r := g.R
	k := r.Intn(n + 1)
	var out []Op
	for i := 0; i < k; i++ {
		c := r.Intn(40)
		if depth <= 0 && c >= 22 && c < 34 {
			c = r.Intn(22)
		}
		switch {
		case c < 22:
			out = append(out, g.genKeyPrim())
		case c < 24:
			out = append(out, Op{K: "dict", Key: GenKey(r), Sub: g.GenOps(depth-1, 3)})
		case c < 26:
			out = append(out, Op{K: "array", Key: GenKey(r), Sub: g.genArrayOps(depth-1, 4), Via: r.Chance(30)})
		case c < 28:
			if r.Chance(15) {
				out = append(out, Op{K: "object", Key: GenKey(r), Nil: true})
			} else {
				out = append(out, Op{K: "object", Key: GenKey(r), Sub: append([]Op{g.mark()}, g.GenOps(depth-1, 3)...)})
			}
		case c < 30:
			if r.Chance(20) {
				out = append(out, Op{K: "embed", Nil: true})
			} else {
				out = append(out, Op{K: "embed", Sub: append([]Op{g.mark()}, g.GenOps(depth-1, 3)...)})
			}
		case c < 32:
			out = append(out, g.genFields(depth-1))
		case c < 34:
			out = append(out, Op{K: "func", Sub: append([]Op{g.mark()}, g.GenOps(depth-1, 2)...)})
		case c == 34:
			out = append(out, Op{K: "anerr", Key: GenKey(r), E: g.genErr(depth, true)})
		case c == 35 || c == 36:
			out = append(out, Op{K: "err", E: g.genErr(depth, true)})
		case c == 37:
			var es []*ErrV
			for j := r.Intn(4); j > 0; j-- {
				es = append(es, g.genErr(depth, false))
			}
			out = append(out, Op{K: "errs", Key: GenKey(r), Es: es})
		case c == 38:
			out = append(out, Op{K: "stack"})
		default:
			out = append(out, Op{K: "timestamp", When: g.Now})
		}
	}
	return out
}

func (g *Gen) genCops(depth, n int) []Cop {
	r := g.R
	k := r.Intn(n + 1)
	var out []Cop
	var hooks []Cop
	for i := 0; i < k; i++ {
		c := r.Intn(30)
		switch {
		case c < 14:
			o := g.genKeyPrim()
			for !ContextHas(o.P.M) { // Context lacks a few methods (Stringers, RawCBOR)
				o = g.genKeyPrim()
			}
			out = append(out, Cop{K: "op", O: &o})
		case c < 16:
			o := Op{K: "dict", Key: GenKey(r), Sub: g.GenOps(depth-1, 3)}
			out = append(out, Cop{K: "op", O: &o})
		case c < 18:
			o := Op{K: "array", Key: GenKey(r), Sub: g.genArrayOps(depth-1, 3), Via: r.Chance(30)}
			out = append(out, Cop{K: "op", O: &o})
		case c < 20:
			o := g.genFields(depth - 1)
			out = append(out, Cop{K: "op", O: &o})
		case c == 20:
			o := Op{K: "stack"}
			out = append(out, Cop{K: "op", O: &o})
		case c == 21:
			out = append(out, Cop{K: "anerr", Key: GenKey(r), E: g.genErr(depth, true)})
		case c == 22:
			out = append(out, Cop{K: "err", E: g.genErr(depth, true)})
		case c == 23:
			var es []*ErrV
			for j := r.Intn(4); j > 0; j-- {
				es = append(es, g.genErr(depth, false))
			}
			out = append(out, Cop{K: "errs", Key: GenKey(r), Es: es})
		case c == 24 || c == 25:
			if r.Chance(20) {
				out = append(out, Cop{K: "object", Key: GenKey(r), Nil: true})
			} else {
				out = append(out, Cop{K: "object", Key: GenKey(r), Sub: g.GenOps(depth-1, 3)})
			}
		case c == 26 || c == 27:
			switch r.Intn(3) {
			case 0:
				out = append(out, Cop{K: "embed", Nil: true})
			case 1:
				out = append(out, Cop{K: "embed", Sub: nil}) // a marshaler that adds no field
			default:
				out = append(out, Cop{K: "embed", Sub: g.GenOps(depth-1, 3)})
			}
		case c == 28:
			out = append(out, Cop{K: "timestamp", Sub: []Op{{K: "timestamp", When: g.Now}}})
		default:
			if r.Chance(10) {
				out = append(out, Cop{K: "reset"})
			} else {
				h := append([]Op{g.mark()}, g.GenOps(depth-1, 2)...)
				if r.Chance(8) {
					h = append(h, Op{K: "discard"})
				}
				hooks = append(hooks, Cop{K: "hook", Sub: h})
			}
		}
	}
	return append(out, hooks...)
}

// GenCopsPublic exposes the context-op generator to other drivers.
func (g *Gen) GenCopsPublic(depth, n int) []Cop { return g.genCops(depth, n) }

func (g *Gen) GenCase(depth int) *Case {
	g.S = g.GenSettings()
	g.Now = genTime(g.R)
	return g.genCaseBody(depth)
}

// GenInner: a program under the settings and clock g already has (the event a "log" op starts, nested.go)
func (g *Gen) GenInner(depth int) *Case { return g.genCaseBody(depth) }

func (g *Gen) genCaseBody(depth int) *Case {
	r := g.R
	c := &Case{S: g.S, Now: g.Now}
	ns := 0
	switch r.Intn(6) {
	case 0:
	case 1, 2, 3:
		ns = 1
	default:
		ns = 2 + r.Intn(3)
	}
	for i := 0; i < ns; i++ {
		st := Step{Update: r.Chance(20), Noise: r.Intn(5)}
		st.Cops = g.genCops(depth, 4)
		if st.Update {
			// hooks added inside UpdateContext are dropped by the code; keep only the Timestamp() form there
			var cs []Cop
			for _, co := range st.Cops {
				if co.K != "hook" {
					cs = append(cs, co)
				}
			}
			st.Cops = cs
		}
		c.Steps = append(c.Steps, st)
	}
	c.Level = GenLevels[1+r.Intn(len(GenLevels)-1)]
	if r.Chance(30) {
		c.Level = 1
	}
	c.Ops = g.GenOps(depth, 6)
	if r.Chance(5) {
		c.Ops = append(c.Ops, Op{K: "discard"})
	}
	if r.Chance(70) {
		c.Msg = GenBytes(r)
	}
	c.Fin = r.Intn(4)
	return c
}
