package progs

import (
	"fmt"
	"time"

	"github.com/rs/zerolog"
	. "verifharness/hlib"
)

type capture struct {
	lines  [][]byte
	levels []zerolog.Level
}

func (c *capture) Write(p []byte) (int, error) {
	c.lines = append(c.lines, append([]byte{}, p...))
	c.levels = append(c.levels, zerolog.NoLevel)
	return len(p), nil
}
func (c *capture) WriteLevel(l zerolog.Level, p []byte) (int, error) {
	c.lines = append(c.lines, append([]byte{}, p...))
	c.levels = append(c.levels, l)
	return len(p), nil
}

type Obs struct {
	Written bool
	Line    []byte
	Marks   []uint64
	Writes  int
	Panic   interface{}
	// what every harness hook that ran for this event was handed (only with RecordHookCalls)
	HookCalls []HookCall
	// what the filtered events of the prelude did (all of it should be nothing)
	PreWrites int
	PreLines  [][]byte
	PreMarks  []uint64
	// the other events the program started while this one was being built ("log" ops, nested.go), in the order they
	// were started, and every Write call that reached their writer
	Nested    []NestedRun
	NestLines [][]byte
	// the value the finalizer of an event started through Logger.Panic() panicked with (Entry 6; the program recovers it)
	Recovered interface{}
}

// Prelude: events that are NOT enabled, started on the case's logger before the case's own event, on the
// same goroutine.  They must be inert; what they were given (pooled Arr()/Dict() values, marshalers,
// callbacks) must not show up in, or change, the event that follows.  The model knows nothing of them.
type Prelude struct {
	Early bool // run on the root logger, before the derivation chain is built (default: on the derived logger, just before the event)
	Mode  int  // 0 logger level above the event's, 1 global level above, 2 sampler that rejects, 3 WithLevel(Disabled), 4 Disabled logger
	Ops   []Op
	Reps  int
	Fin   int
}

var PreludeModes = []string{"logger-level", "global-level", "sampler-rejects", "WithLevel(Disabled)", "logger-disabled"}

type rejectAll struct{}

func (rejectAll) Sample(zerolog.Level) bool { return false }

func finish(e *zerolog.Event, fin int, msg string) {
	switch {
	case fin == 1 && msg == "":
		e.Send()
	case fin == 2:
		e.Msgf("%s", msg)
	case fin == 3:
		e.MsgFunc(func() string { return msg })
	default:
		e.Msg(msg)
	}
}

// finishRecovering: the program's recover() around the finalizer of an event started through Logger.Panic() - what a
// request handler / worker loop does.  Returns the value recovered (nil: the finalizer returned).
func finishRecovering(e *zerolog.Event, fin int, msg string) (r interface{}) {
	defer func() { r = recover() }()
	finish(e, fin, msg)
	return nil
}

func (p *Prelude) run(l zerolog.Logger) {
	reps := p.Reps
	if reps < 1 {
		reps = 1
	}
	for i := 0; i < reps; i++ {
		var e *zerolog.Event
		switch p.Mode {
		case 0:
			fl := l.Level(zerolog.WarnLevel)
			e = fl.Info()
		case 1:
			zerolog.SetGlobalLevel(zerolog.ErrorLevel)
			e = l.WithLevel(zerolog.WarnLevel)
		case 2:
			fl := l.Sample(rejectAll{})
			e = fl.Log()
		case 3:
			e = l.WithLevel(zerolog.Disabled)
		default:
			fl := l.Level(zerolog.Disabled)
			e = fl.Error()
		}
		ApplyEvent(e, p.Ops)
		msg := "filtered"
		if p.Fin == 1 {
			msg = ""
		}
		finish(e, p.Fin, msg)
		if p.Mode == 1 {
			zerolog.SetGlobalLevel(zerolog.Level(-128))
		}
	}
}

// Run executes the case on the real zerolog (current build's encoder).
func (c *Case) Run() (obs Obs) {
	restore := c.S.Apply()
	defer restore()
	zerolog.SetGlobalLevel(zerolog.Level(-128))
	defer zerolog.SetGlobalLevel(zerolog.DebugLevel)
	now := c.Now
	zerolog.TimestampFunc = func() time.Time { return now }
	Marks, HookCalls = nil, nil
	w := &capture{}
	resetNested()
	defer func() {
		if r := recover(); r != nil {
			obs.Panic = r
		}
		obs.Nested, obs.NestLines = nestedRuns, nestW.lines
		obs.Marks = append([]uint64{}, Marks...)
		obs.HookCalls = append([]HookCall{}, HookCalls...)
		obs.Writes = len(w.lines)
		if len(w.lines) > 0 {
			obs.Written = true
			obs.Line = w.lines[0]
		}
	}()
	l := zerolog.New(w).Level(zerolog.Level(-128))
	muted, writerless := false, false
	switch c.Root {
	case 1:
		// the logger libraries hand out by default: Nop() = a Disabled logger, given a destination afterwards
		l = zerolog.Nop().Output(w)
		muted = true
	case 2:
		// a logger without a writer (New(nil) substitutes io.Discard), given a destination afterwards
		l = zerolog.New(nil).Level(zerolog.Level(-128))
		writerless = true
	}
	pre := func() {
		Marks = nil
		c.Pre.run(l)
		zerolog.SetGlobalLevel(zerolog.Level(-128))
		obs.PreMarks = append([]uint64{}, Marks...)
		obs.PreWrites = len(w.lines)
		obs.PreLines = w.lines
		w.lines, w.levels = nil, nil
	}
	if c.Pre != nil && c.Pre.Early {
		pre()
	}
	for _, st := range c.Steps {
		l = ApplyStep(l, st, w)
		switch {
		case st.Mute == 1:
			muted = true
		case st.Mute == 2 || st.Noise == 1:
			muted = false
		}
		switch {
		case st.Out == 1:
			writerless = true
		case st.Out == 2 || st.Noise == 2:
			writerless = false
		}
	}
	if muted {
		l = l.Level(zerolog.Level(-128)) // a descendant of the muted stretch is enabled again
	}
	if writerless && !c.NoWriter {
		l = l.Output(w) // a descendant of the writer-less stretch is given the writer again
	}
	if c.Pre != nil && !c.Pre.Early {
		pre()
	}
	Marks, HookCalls = nil, nil // marshalers run while deriving the logger are not part of the event's trace
	switch c.EntryUsed() {
	case 2:
		l.Write(append(append([]byte{}, c.Msg...), '\n'))
	case 3:
		l.Print(string(c.Msg))
	case 4:
		l.Printf("%s", c.Msg)
	case 5:
		l.Println(string(c.Msg[:len(c.Msg)-1])) // "in the manner of fmt.Println": the message is the text and a newline
	default:
		e := startEvent(l, c.Level, c.EntryUsed())
		ApplyEvent(e, c.Ops)
		if c.EntryUsed() == 6 {
			obs.Recovered = finishRecovering(e, c.Fin, string(c.Msg))
		} else {
			finish(e, c.Fin, string(c.Msg))
		}
	}
	// events the program started and kept (Nested.Late) are finalized now, in the order they were started
	for i := 0; i < len(deferred); i++ {
		deferred[i]()
	}
	return
}

// EndsWriterless: the event is logged through a logger that has no writer (New(nil) / Output(nil), not followed by an
// Output(w)), so that there is no line to observe
func (c *Case) EndsWriterless() bool {
	writerless := c.Root == 2
	for _, st := range c.Steps {
		switch {
		case st.Out == 1:
			writerless = true
		case st.Out == 2 || st.Noise == 2:
			writerless = false
		}
	}
	return writerless && c.NoWriter
}

// EntryNames: the ways an event of a given level is started (Case.Entry)
var EntryNames = []string{"WithLevel(level)", "the level's method (Trace..Error, Log)", "Logger.Write (io.Writer bridge)", "Logger.Print", "Logger.Printf", "Logger.Println (the message ends in the newline Println adds)",
	"Logger.Panic() (the finalizer panics after the line is written; the program recovers and goes on)"}

// EntryUsed: the entry point the case really goes through: an entry that does not exist for the case's level / fields
// / finalizer falls back to WithLevel(level).
func (c *Case) EntryUsed() int {
	plain := len(c.Ops) == 0 && c.Fin == 0
	switch c.Entry {
	case 1:
		if c.Level >= -1 && c.Level <= 3 || c.Level == 6 {
			return 1
		}
	case 2:
		if c.Level == 6 && plain {
			return 2
		}
	case 3, 4:
		if c.Level == 0 && plain {
			return c.Entry
		}
	case 5:
		if c.Level == 0 && plain && len(c.Msg) > 0 && c.Msg[len(c.Msg)-1] == '\n' {
			return 5
		}
	case 6:
		if c.Level == 5 {
			return 6
		}
	}
	return 0
}

// HasDiscard: is there a Discard() call anywhere in the fragment (marshalers and callbacks included)?
func HasDiscard(ops []Op) bool { return hasDiscard(ops) }

func startEvent(l zerolog.Logger, level, entry int) *zerolog.Event {
	if entry == 6 {
		return l.Panic()
	}
	if entry == 1 {
		switch zerolog.Level(level) {
		case zerolog.TraceLevel:
			return l.Trace()
		case zerolog.DebugLevel:
			return l.Debug()
		case zerolog.InfoLevel:
			return l.Info()
		case zerolog.WarnLevel:
			return l.Warn()
		case zerolog.ErrorLevel:
			return l.Error()
		case zerolog.NoLevel:
			return l.Log()
		}
	}
	return l.WithLevel(zerolog.Level(level))
}

// Coq prints ((settings, chain, level, ops, msg), observed)
func (c *Case) Coq(o Obs) string {
	line := "None"
	if o.Written {
		line = "(Some " + CoqBytes(o.Line) + ")"
	}
	ms := make([]string, len(o.Marks))
	for i, m := range o.Marks {
		ms[i] = fmt.Sprintf("%d", m)
	}
	return fmt.Sprintf("((%s, %s, %s, %s, %s), (%s, %s%%N))", c.S.Coq(), StepsCoqAt(c.Steps, c.S, c.Level), ZS(int64(c.Level)), OpsCoq(c.Ops, c.S), CoqBytes(c.Msg), line, CoqList(ms))
}

func (c *Case) Describe() interface{} {
	var steps []interface{}
	for _, st := range c.Steps {
		var cs []interface{}
		for _, co := range st.Cops {
			d := map[string]interface{}{"cop": co.K}
			if co.O != nil {
				d["op"] = DescribeOps([]Op{*co.O})
			}
			if len(co.Sub) > 0 {
				d["sub"] = DescribeOps(co.Sub)
			}
			if co.Key != nil {
				d["key"] = fmt.Sprintf("%q", co.Key)
			}
			if co.K == "levelhook" {
				lh := map[string]interface{}{}
				for i, name := range []string{"TraceHook", "DebugHook", "InfoHook", "WarnHook", "ErrorHook", "FatalHook", "PanicHook", "NoLevelHook"} {
					if co.LH[i] != nil {
						lh[name] = DescribeOps(co.LH[i])
					}
				}
				d["LevelHook"] = lh
			}
			cs = append(cs, d)
		}
		sd := map[string]interface{}{"update": st.Update, "cops": cs}
		switch st.Mute {
		case 1:
			sd["then"] = "Level(Disabled)"
		case 2:
			sd["then"] = "Level(-128)"
		}
		switch st.Out {
		case 1:
			sd["then_output"] = "Output(nil)"
		case 2:
			sd["then_output"] = "Output(w)"
		}
		steps = append(steps, sd)
	}
	d := map[string]interface{}{"settings": fmt.Sprintf("%+v", c.S), "steps": steps, "level": c.Level, "ops": DescribeOps(c.Ops), "msg": fmt.Sprintf("%q", c.Msg), "finalizer": c.Fin}
	if c.Entry != 0 {
		d["event_started_through"] = EntryNames[c.EntryUsed()]
	}
	if c.Root == 1 {
		d["root"] = "zerolog.Nop().Output(w), re-enabled by a later Level()"
	}
	if c.Root == 2 {
		d["root"] = "zerolog.New(nil).Level(-128), given the writer by a later Output(w)"
	}
	if c.NoWriter {
		d["event_logged_through"] = "the last logger of the chain as it is - without a writer if the chain ends inside a New(nil) / Output(nil) stretch"
	}
	if c.Pre != nil {
		d["before_the_event"] = map[string]interface{}{"a_filtered_event_on_the_same_logger": PreludeModes[c.Pre.Mode], "times": c.Pre.Reps, "before_the_logger_is_derived": c.Pre.Early, "ops": DescribeOps(c.Pre.Ops), "finalizer": c.Pre.Fin}
	}
	return d
}

// HookMarks returns the mark ids of the hooks attached along the derivation, in registration order.
// A LevelHook contributes the mark of the hook it holds for the case's level (if any) - unless an earlier hook of the
// chain discards the event: the hooks after a discarding hook are handed Disabled as level (DESIGN.md section 8), so a
// LevelHook then has no hook to apply; such LevelHooks are left out of what the monitors expect.
func (c *Case) HookMarks() []uint64 {
	var ids []uint64
	discards := hasDiscard(c.Ops) // the event may have been discarded by its own calls before the hooks run
	for _, st := range c.Steps {
		if st.Update {
			continue
		}
		for i := range st.Cops {
			co := &st.Cops[i]
			switch co.K {
			case "hook":
				if len(co.Sub) > 0 && co.Sub[0].K == "mark" {
					ids = append(ids, co.Sub[0].ID)
				}
				discards = discards || hasDiscard(co.Sub)
			case "levelhook":
				if f := co.LevelHookFrag(c.Level); !discards && len(f) > 0 && f[0].K == "mark" {
					ids = append(ids, f[0].ID)
				}
				for _, f := range co.LH {
					discards = discards || hasDiscard(f)
				}
			}
		}
	}
	return ids
}

// hasDiscard: is there a Discard() call anywhere in the fragment (marshalers and callbacks included)?
func hasDiscard(ops []Op) bool {
	inErr := func(e *ErrV) bool {
		return e != nil && (hasDiscard(e.Ops) || (e.Stk != nil && hasDiscard(e.Stk.Ops)))
	}
	for i := range ops {
		o := &ops[i]
		if o.K == "discard" || hasDiscard(o.Sub) || inErr(o.E) {
			return true
		}
		for _, e := range o.Es {
			if inErr(e) {
				return true
			}
		}
		for _, kv := range o.KVs {
			if hasDiscard(kv.Ops) || inErr(kv.E) {
				return true
			}
			for _, e := range kv.Es {
				if inErr(e) {
					return true
				}
			}
		}
	}
	return false
}

// RunTree builds the parent logger once, derives every kid from that SAME parent value (siblings), and only then emits
// the event through each kid in order: what one sibling does to shared structures shows up in another's output.
// Returns one observation per kid; kid i's model case is the chain parent ++ [kids[i]].
func RunTree(s Settings, now time.Time, parent []Step, kids []Step, level int, ops []Op, msg []byte) []Obs {
	restore := s.Apply()
	defer restore()
	zerolog.SetGlobalLevel(zerolog.Level(-128))
	defer zerolog.SetGlobalLevel(zerolog.DebugLevel)
	zerolog.TimestampFunc = func() time.Time { return now }
	w := &capture{}
	l := zerolog.New(w).Level(zerolog.Level(-128))
	for _, st := range parent {
		l = ApplyStep(l, st, w)
	}
	ls := make([]zerolog.Logger, len(kids))
	for i, k := range kids {
		ls[i] = ApplyStep(l, k, w)
	}
	out := make([]Obs, len(kids))
	for i := range kids {
		func() {
			Marks, HookCalls = nil, nil
			before := len(w.lines)
			defer func() {
				if r := recover(); r != nil {
					out[i].Panic = r
				}
				out[i].Marks = append([]uint64{}, Marks...)
				out[i].HookCalls = append([]HookCall{}, HookCalls...)
				out[i].Writes = len(w.lines) - before
				if out[i].Writes > 0 {
					out[i].Written = true
					out[i].Line = w.lines[before]
				}
			}()
			e := ls[i].WithLevel(zerolog.Level(level))
			ApplyEvent(e, ops)
			e.Msg(string(msg))
		}()
	}
	return out
}

// RunOutputFork: b := parent.Output(w); b.UpdateContext(upd1); parent.UpdateContext(upd2); then one event through b and
// one through parent.  Output must have given b its own copy of the context.
func RunOutputFork(s Settings, now time.Time, parent []Step, upd1, upd2 []Cop, level int, ops []Op, msg []byte) []Obs {
	restore := s.Apply()
	defer restore()
	zerolog.SetGlobalLevel(zerolog.Level(-128))
	defer zerolog.SetGlobalLevel(zerolog.DebugLevel)
	zerolog.TimestampFunc = func() time.Time { return now }
	w := &capture{}
	l := zerolog.New(w).Level(zerolog.Level(-128))
	for _, st := range parent {
		l = ApplyStep(l, st, w)
	}
	b := l.Output(w)
	b.UpdateContext(func(c zerolog.Context) zerolog.Context { return ApplyContext(c, upd1) })
	l.UpdateContext(func(c zerolog.Context) zerolog.Context { return ApplyContext(c, upd2) })
	out := make([]Obs, 2)
	for i, lg := range []*zerolog.Logger{&b, &l} {
		func() {
			Marks, HookCalls = nil, nil
			before := len(w.lines)
			defer func() {
				if r := recover(); r != nil {
					out[i].Panic = r
				}
				out[i].Marks = append([]uint64{}, Marks...)
				out[i].HookCalls = append([]HookCall{}, HookCalls...)
				out[i].Writes = len(w.lines) - before
				if out[i].Writes > 0 {
					out[i].Written = true
					out[i].Line = w.lines[before]
				}
			}()
			e := lg.WithLevel(zerolog.Level(level))
			ApplyEvent(e, ops)
			e.Msg(string(msg))
		}()
	}
	return out
}

// ---------------------------------------------------------------- relatives
//
// Loggers that share one context buffer without any Context value being used twice: Level / Sample / Hook and plain
// assignment copy the Logger struct, not the bytes of its context, so the parent and every such relative view the same
// backing array (each with its own length).  UpdateContext hands the callback the logger's own slice.  Whatever one
// member of the group does to ITS context - append fields, Reset() and start over - must leave what the others emit
// untouched: the others log AFTER the update.  (Only one member ever updates: two members appending into the spare
// capacity they share is the known finding K1's mechanism and is not generated.)

// Relative: a logger obtained from the parent by value
type Relative struct {
	Via  int   // 0 assignment, 1 Level(-128), 2 Sample(nil), 3 Hook(h), 4 Level(-128).Hook(h).Sample(nil), 5 Hook(h).Level(-128)
	Hook []Op  // Via 3, 4, 5
	Kid  []Cop // non-nil: after the update a child is derived from the relative (With()...Logger()); the child logs, not the relative
}

// HasHook: the relative registers Hook
func (r *Relative) HasHook() bool { return r.Via >= 3 }

// Steps: what the relative adds to the parent's chain, for the model (a Hook() is a step with only that hook)
func (r *Relative) Steps() (out []Step) {
	if r.HasHook() {
		out = append(out, Step{Cops: []Cop{{K: "hook", Sub: r.Hook}}})
	}
	if r.Kid != nil {
		out = append(out, Step{Cops: r.Kid})
	}
	return
}

func (r *Relative) derive(l zerolog.Logger) zerolog.Logger {
	switch r.Via {
	case 1:
		return l.Level(zerolog.Level(-128))
	case 2:
		return l.Sample(nil)
	case 3:
		return l.Hook(HookM{r.Hook})
	case 4:
		return l.Level(zerolog.Level(-128)).Hook(HookM{r.Hook}).Sample(nil)
	case 5:
		return l.Hook(HookM{r.Hook}).Level(zerolog.Level(-128))
	}
	return l
}

var RelativeVia = []string{"assignment", "Level(x)", "Sample(nil)", "Hook(h)", "Level(x).Hook(h).Sample(nil)", "Hook(h).Level(x)"}

// logOne: one event through lg; what reached w during it
func logOne(lg *zerolog.Logger, w *capture, level int, ops []Op, msg []byte) (o Obs) {
	Marks, HookCalls = nil, nil
	before := len(w.lines)
	defer func() {
		if r := recover(); r != nil {
			o.Panic = r
		}
		o.Marks = append([]uint64{}, Marks...)
		o.HookCalls = append([]HookCall{}, HookCalls...)
		o.Writes = len(w.lines) - before
		if o.Writes > 0 {
			o.Written = true
			o.Line = w.lines[before]
		}
	}()
	e := lg.WithLevel(zerolog.Level(level))
	ApplyEvent(e, ops)
	e.Msg(string(msg))
	return
}

// RunRelatives: p := the parent chain's logger; rels[i] derived from p by value; then ONE member of the group - the
// parent (updater < 0) or rels[updater] - calls UpdateContext(upd) on itself, twice if upd2 != nil; then the children
// (Relative.Kid) are derived; then every relative (or its child) logs one event, in order, and the parent last.
// Returns len(rels)+1 observations (the parent's is the last).  Model chains: parent ++ rels[i].Steps() (++ the update
// step(s) for the updater; an updater has no Kid).
func RunRelatives(s Settings, now time.Time, parent []Step, rels []Relative, updater int, upd, upd2 []Cop, level int, ops []Op, msg []byte) []Obs {
	restore := s.Apply()
	defer restore()
	zerolog.SetGlobalLevel(zerolog.Level(-128))
	defer zerolog.SetGlobalLevel(zerolog.DebugLevel)
	zerolog.TimestampFunc = func() time.Time { return now }
	w := &capture{}
	p := zerolog.New(w).Level(zerolog.Level(-128))
	for _, st := range parent {
		p = ApplyStep(p, st, w)
	}
	ls := make([]zerolog.Logger, len(rels))
	for i := range rels {
		ls[i] = rels[i].derive(p)
	}
	who := &p
	if updater >= 0 {
		who = &ls[updater]
	}
	who.UpdateContext(func(c zerolog.Context) zerolog.Context { return ApplyContext(c, upd) })
	if upd2 != nil {
		who.UpdateContext(func(c zerolog.Context) zerolog.Context { return ApplyContext(c, upd2) })
	}
	for i := range rels {
		if rels[i].Kid != nil {
			ls[i] = ApplyContext(ls[i].With(), rels[i].Kid).Logger()
		}
	}
	out := make([]Obs, len(rels)+1)
	for i := range rels {
		out[i] = logOne(&ls[i], w, level, ops, msg)
	}
	out[len(rels)] = logOne(&p, w, level, ops, msg)
	return out
}

// RunContextFork: ctx := parent.With()<first>; kept := ctx.Logger(); other := ctx.Reset()<rest>.Logger(); then one event
// through kept and one through other.  The Context value is the receiver of Logger() (which adds nothing) and of ONE
// field-adding continuation.  Model chains: parent ++ [first] and parent ++ [first ++ reset ++ rest].
func RunContextFork(s Settings, now time.Time, parent []Step, first, rest []Cop, level int, ops []Op, msg []byte) []Obs {
	restore := s.Apply()
	defer restore()
	zerolog.SetGlobalLevel(zerolog.Level(-128))
	defer zerolog.SetGlobalLevel(zerolog.DebugLevel)
	zerolog.TimestampFunc = func() time.Time { return now }
	w := &capture{}
	p := zerolog.New(w).Level(zerolog.Level(-128))
	for _, st := range parent {
		p = ApplyStep(p, st, w)
	}
	ctx := ApplyContext(p.With(), first)
	kept := ctx.Logger()
	other := ApplyContext(ctx.Reset(), rest).Logger()
	return []Obs{logOne(&kept, w, level, ops, msg), logOne(&other, w, level, ops, msg)}
}
