package progs

import (
	"fmt"
	"time"

	"github.com/rs/zerolog"
	. "verifharness/hlib"
)

type capture struct {
	lines  [][]byte
	levels []zerolog.Level
}

func (c *capture) Write(p []byte) (int, error) {
	c.lines = append(c.lines, append([]byte{}, p...))
	c.levels = append(c.levels, zerolog.NoLevel)
	return len(p), nil
}
func (c *capture) WriteLevel(l zerolog.Level, p []byte) (int, error) {
	c.lines = append(c.lines, append([]byte{}, p...))
	c.levels = append(c.levels, l)
	return len(p), nil
}

type Obs struct {
	Written bool
	Line    []byte
	Marks   []uint64
	Writes  int
	Panic   interface{}
}

// Run executes the case on the real zerolog (current build's encoder).
func (c *Case) Run() (obs Obs) {
	restore := c.S.Apply()
	defer restore()
	zerolog.SetGlobalLevel(zerolog.Level(-128))
	defer zerolog.SetGlobalLevel(zerolog.DebugLevel)
	now := c.Now
	zerolog.TimestampFunc = func() time.Time { return now }
	Marks = nil
	w := &capture{}
	defer func() {
		if r := recover(); r != nil {
			obs.Panic = r
		}
		obs.Marks = append([]uint64{}, Marks...)
		obs.Writes = len(w.lines)
		if len(w.lines) > 0 {
			obs.Written = true
			obs.Line = w.lines[0]
		}
	}()
	l := zerolog.New(w).Level(zerolog.Level(-128))
	for _, st := range c.Steps {
		l = ApplyStep(l, st, w)
	}
	Marks = nil // marshalers run while deriving the logger are not part of the event's trace
	e := l.WithLevel(zerolog.Level(c.Level))
	ApplyEvent(e, c.Ops)
	msg := string(c.Msg)
	switch {
	case c.Fin == 1 && len(c.Msg) == 0:
		e.Send()
	case c.Fin == 2:
		e.Msgf("%s", msg)
	case c.Fin == 3:
		e.MsgFunc(func() string { return msg })
	default:
		e.Msg(msg)
	}
	return
}

// Coq prints ((settings, chain, level, ops, msg), observed)
func (c *Case) Coq(o Obs) string {
	line := "None"
	if o.Written {
		line = "(Some " + CoqBytes(o.Line) + ")"
	}
	ms := make([]string, len(o.Marks))
	for i, m := range o.Marks {
		ms[i] = fmt.Sprintf("%d", m)
	}
	return fmt.Sprintf("((%s, %s, %s, %s, %s), (%s, %s%%N))", c.S.Coq(), StepsCoq(c.Steps, c.S), ZS(int64(c.Level)), OpsCoq(c.Ops, c.S), CoqBytes(c.Msg), line, CoqList(ms))
}

func (c *Case) Describe() interface{} {
	var steps []interface{}
	for _, st := range c.Steps {
		var cs []interface{}
		for _, co := range st.Cops {
			d := map[string]interface{}{"cop": co.K}
			if co.O != nil {
				d["op"] = DescribeOps([]Op{*co.O})
			}
			if len(co.Sub) > 0 {
				d["sub"] = DescribeOps(co.Sub)
			}
			if co.Key != nil {
				d["key"] = fmt.Sprintf("%q", co.Key)
			}
			cs = append(cs, d)
		}
		steps = append(steps, map[string]interface{}{"update": st.Update, "cops": cs})
	}
	return map[string]interface{}{"settings": fmt.Sprintf("%+v", c.S), "steps": steps, "level": c.Level, "ops": DescribeOps(c.Ops), "msg": fmt.Sprintf("%q", c.Msg), "finalizer": c.Fin}
}

// HookMarks returns the mark ids of the hooks attached along the derivation, in registration order.
func (c *Case) HookMarks() []uint64 {
	var ids []uint64
	for _, st := range c.Steps {
		if st.Update {
			continue
		}
		for _, co := range st.Cops {
			if co.K == "hook" && len(co.Sub) > 0 && co.Sub[0].K == "mark" {
				ids = append(ids, co.Sub[0].ID)
			}
		}
	}
	return ids
}

// RunTree builds the parent logger once, derives every kid from that SAME parent value (siblings), and only then emits
// the event through each kid in order: what one sibling does to shared structures shows up in another's output.
// Returns one observation per kid; kid i's model case is the chain parent ++ [kids[i]].
func RunTree(s Settings, now time.Time, parent []Step, kids []Step, level int, ops []Op, msg []byte) []Obs {
	restore := s.Apply()
	defer restore()
	zerolog.SetGlobalLevel(zerolog.Level(-128))
	defer zerolog.SetGlobalLevel(zerolog.DebugLevel)
	zerolog.TimestampFunc = func() time.Time { return now }
	w := &capture{}
	l := zerolog.New(w).Level(zerolog.Level(-128))
	for _, st := range parent {
		l = ApplyStep(l, st, w)
	}
	ls := make([]zerolog.Logger, len(kids))
	for i, k := range kids {
		ls[i] = ApplyStep(l, k, w)
	}
	out := make([]Obs, len(kids))
	for i := range kids {
		func() {
			Marks = nil
			before := len(w.lines)
			defer func() {
				if r := recover(); r != nil {
					out[i].Panic = r
				}
				out[i].Marks = append([]uint64{}, Marks...)
				out[i].Writes = len(w.lines) - before
				if out[i].Writes > 0 {
					out[i].Written = true
					out[i].Line = w.lines[before]
				}
			}()
			e := ls[i].WithLevel(zerolog.Level(level))
			ApplyEvent(e, ops)
			e.Msg(string(msg))
		}()
	}
	return out
}

// RunOutputFork: b := parent.Output(w); b.UpdateContext(upd1); parent.UpdateContext(upd2); then one event through b and
// one through parent.  Output must have given b its own copy of the context.
func RunOutputFork(s Settings, now time.Time, parent []Step, upd1, upd2 []Cop, level int, ops []Op, msg []byte) []Obs {
	restore := s.Apply()
	defer restore()
	zerolog.SetGlobalLevel(zerolog.Level(-128))
	defer zerolog.SetGlobalLevel(zerolog.DebugLevel)
	zerolog.TimestampFunc = func() time.Time { return now }
	w := &capture{}
	l := zerolog.New(w).Level(zerolog.Level(-128))
	for _, st := range parent {
		l = ApplyStep(l, st, w)
	}
	b := l.Output(w)
	b.UpdateContext(func(c zerolog.Context) zerolog.Context { return ApplyContext(c, upd1) })
	l.UpdateContext(func(c zerolog.Context) zerolog.Context { return ApplyContext(c, upd2) })
	out := make([]Obs, 2)
	for i, lg := range []*zerolog.Logger{&b, &l} {
		func() {
			Marks = nil
			before := len(w.lines)
			defer func() {
				if r := recover(); r != nil {
					out[i].Panic = r
				}
				out[i].Marks = append([]uint64{}, Marks...)
				out[i].Writes = len(w.lines) - before
				if out[i].Writes > 0 {
					out[i].Written = true
					out[i].Line = w.lines[before]
				}
			}()
			e := lg.WithLevel(zerolog.Level(level))
			ApplyEvent(e, ops)
			e.Msg(string(msg))
		}()
	}
	return out
}
