// Package progs: the common program language of the harness (mirror of
// coq/Api/Exec.v): seeded generators, an interpreter against the real zerolog
// API, and Gallina printers that ship the Go standard library's answers
// (oracle texts) with every value.
package progs

import (
	"encoding/base64"
	"encoding/json"
	"fmt"
	"math"
	"net"
	"reflect"
	"sort"
	"strconv"
	"strings"
	"time"

	"github.com/rs/zerolog"
	. "verifharness/hlib"
)

// ---------------------------------------------------------------- settings
type Settings struct {
	LevelName, MessageName, ErrorName, StackName, TimestampName, CallerName string
	TimeFormat                                                              string
	DurUnit                                                                 time.Duration
	DurInt                                                                  bool
	Prec                                                                    int
	StackMarshaler                                                          bool
	LevelStyle                                                              int // 0 default LevelFieldMarshalFunc; 1 upper-case with NoLevel -> "DEFAULT"; 2 numeric; 3 info -> ""; 4 (directed sweeps only) a text with a quote, a backslash, a control byte and an ill-formed byte around the level name
}

// the levels the generators use (a custom LevelFieldMarshalFunc is shipped to the model as a table over them)
var GenLevels = []int{-128, -5, -1, 0, 1, 2, 3, 4, 5, 6, 8, 127}

func (s Settings) levelText(l zerolog.Level) string {
	switch s.LevelStyle {
	case 1:
		if l == zerolog.NoLevel {
			return "DEFAULT"
		}
		return strings.ToUpper(l.String())
	case 2:
		return strconv.Itoa(int(l))
	case 3:
		if l == zerolog.InfoLevel {
			return ""
		}
		return l.String()
	case 4:
		return "l\"v\\" + l.String() + "\n\xff"
	}
	return l.String()
}

func (s Settings) levelTextCoq() string {
	if s.LevelStyle == 0 {
		return "level_string"
	}
	var b strings.Builder
	b.WriteString("(fun l => ")
	for _, l := range GenLevels {
		fmt.Fprintf(&b, "if (l =? %s)%%Z then %s else ", ZS(int64(l)), CoqBytes([]byte(s.levelText(zerolog.Level(l)))))
	}
	b.WriteString("level_string l)")
	return b.String()
}

func DefaultSettings() Settings {
	return Settings{"level", "message", "error", "stack", "time", "caller", time.RFC3339, time.Millisecond, false, -1, false, 0}
}

func (s Settings) timefmtCoq() string {
	switch s.TimeFormat {
	case zerolog.TimeFormatUnix:
		return "TFUnix"
	case zerolog.TimeFormatUnixMs:
		return "TFUnixMs"
	case zerolog.TimeFormatUnixMicro:
		return "TFUnixMicro"
	case zerolog.TimeFormatUnixNano:
		return "TFUnixNano"
	}
	return "TFLayout"
}

func nilIfaceCoq() string {
	b, err := zerolog.InterfaceMarshalFunc(nil)
	return ifaceCoq(b, err)
}

func ifaceCoq(b []byte, err error) string {
	if err != nil {
		return "(IfErr " + CoqBytes([]byte(fmt.Sprintf("marshaling error: %v", err))) + ")"
	}
	return "(IfOk " + CoqBytes(b) + ")"
}

func (s Settings) Coq() string {
	return fmt.Sprintf("{| s_level_name := %s; s_message_name := %s; s_error_name := %s; s_stack_name := %s; s_timestamp_name := %s; s_caller_name := %s; s_timefmt := %s; s_dur_unit := %s; s_dur_int := %s; s_prec := %s; s_nil_iface := %s; s_level_text := %s; s_stack_marshaler := %s |}",
		CoqBytes([]byte(s.LevelName)), CoqBytes([]byte(s.MessageName)), CoqBytes([]byte(s.ErrorName)), CoqBytes([]byte(s.StackName)),
		CoqBytes([]byte(s.TimestampName)), CoqBytes([]byte(s.CallerName)), s.timefmtCoq(), ZS(int64(s.DurUnit)), CoqBool(s.DurInt), ZS(int64(s.Prec)), nilIfaceCoq(), s.levelTextCoq(), CoqBool(s.StackMarshaler))
}

// Apply installs the settings into zerolog's globals; the returned func restores the defaults.
func (s Settings) Apply() func() {
	zerolog.LevelFieldName, zerolog.MessageFieldName, zerolog.ErrorFieldName = s.LevelName, s.MessageName, s.ErrorName
	zerolog.ErrorStackFieldName, zerolog.TimestampFieldName, zerolog.CallerFieldName = s.StackName, s.TimestampName, s.CallerName
	zerolog.TimeFieldFormat = s.TimeFormat
	zerolog.DurationFieldUnit = s.DurUnit
	zerolog.DurationFieldInteger = s.DurInt
	zerolog.FloatingPointPrecision = s.Prec
	zerolog.ErrorMarshalFunc = errorMarshal
	style := s
	zerolog.LevelFieldMarshalFunc = func(l zerolog.Level) string { return style.levelText(l) }
	// the frame a caller hook reports is C19's subject; here only whether / where the field appears
	zerolog.CallerMarshalFunc = func(pc uintptr, file string, line int) string { CallerRuns++; return CallerText }
	if s.StackMarshaler {
		zerolog.ErrorStackMarshaler = stackMarshal
	} else {
		zerolog.ErrorStackMarshaler = nil
	}
	return func() {
		d := DefaultSettings()
		zerolog.LevelFieldName, zerolog.MessageFieldName, zerolog.ErrorFieldName = d.LevelName, d.MessageName, d.ErrorName
		zerolog.ErrorStackFieldName, zerolog.TimestampFieldName, zerolog.CallerFieldName = d.StackName, d.TimestampName, d.CallerName
		zerolog.TimeFieldFormat = d.TimeFormat
		zerolog.DurationFieldUnit = d.DurUnit
		zerolog.DurationFieldInteger = d.DurInt
		zerolog.FloatingPointPrecision = d.Prec
		zerolog.ErrorMarshalFunc = func(err error) interface{} { return err }
		zerolog.ErrorStackMarshaler = nil
		zerolog.LevelFieldMarshalFunc = func(l zerolog.Level) string { return l.String() }
		zerolog.TimestampFunc = time.Now
		zerolog.CallerMarshalFunc = func(pc uintptr, file string, line int) string { return file + ":" + strconv.Itoa(line) }
	}
}

// CallerText is what the harness's CallerMarshalFunc answers (a directed sweep may set another text for the time of its
// cases: the printers read it when the case is printed); CallerRuns counts its invocations.
var CallerText = DefaultCallerText

const DefaultCallerText = "src.go:42"

var CallerRuns int

// ---------------------------------------------------------------- primitive values
// A Prim is one call of a regular method: M is the method name on Event /
// Context (and, without the key, on Array when it exists there); V is the
// argument with its exact Go type.
type Prim struct {
	M string
	V interface{}
}

type stringer struct{ s string }

func (s stringer) String() string { return s.s }

// typed values for Type()
type someStruct struct{ A int }

func fvalCoq(v float64, bits uint64, prec, bitSize int) string {
	f := strconv.AppendFloat(nil, v, 'f', prec, bitSize)
	e := strconv.AppendFloat(nil, v, 'e', prec, bitSize)
	return fmt.Sprintf("{| f_bits := %d; f_txt_f := %s; f_txt_e := %s |}", bits, CoqBytes(f), CoqBytes(e))
}
func f32Coq(f float32, prec int) string {
	return fvalCoq(float64(f), uint64(math.Float32bits(f)), prec, 32)
}
func f64Coq(f float64, prec int) string { return fvalCoq(f, math.Float64bits(f), prec, 64) }

func timeCoq(t time.Time, s Settings) string {
	layout := s.TimeFormat
	var txt []byte
	if s.timefmtCoq() == "TFLayout" {
		txt = t.AppendFormat(nil, layout)
	}
	return fmt.Sprintf("{| t_unix := %s; t_unixnano := %s; t_fmt := %s |}", ZS(t.Unix()), ZS(t.UnixNano()), CoqBytes(txt))
}

func durCoq(d time.Duration, s Settings) string {
	q := float64(d) / float64(s.DurUnit)
	return fmt.Sprintf("{| d_ns := %s; d_quot := %s |}", ZS(int64(d)), f64Coq(q, s.Prec))
}

func optBytesCoq(s fmt.Stringer) string {
	if s == nil {
		return "None"
	}
	return "(Some " + CoqBytes([]byte(s.String())) + ")"
}

func listCoq(n int, f func(i int) string) string {
	xs := make([]string, n)
	for i := range xs {
		xs[i] = f(i)
	}
	return CoqList(xs)
}

// Coq prints the primitive as the Gallina [prim] the model executes.
func (p Prim) Coq(s Settings) string {
	switch p.M {
	case "Hex":
		return "(PHex " + CoqBytes(p.V.([]byte)) + ")"
	case "RawJSON":
		if rm, ok := p.V.(json.RawMessage); ok {
			return "(PRawJSON " + CoqBytes(rm) + ")"
		}
		return "(PRawJSON " + CoqBytes(p.V.([]byte)) + ")"
	case "RawCBOR":
		return "(PRawCBOR " + CoqBytes([]byte(base64.StdEncoding.EncodeToString(p.V.([]byte)))) + ")"
	case "Type":
		if p.V == nil {
			return "(PStr " + CoqBytes([]byte("<nil>")) + ")"
		}
		return "(PStr " + CoqBytes([]byte(reflect.TypeOf(p.V).String())) + ")"
	case "Interface", "Any":
		b, err := zerolog.InterfaceMarshalFunc(p.V)
		return "(PIface " + ifaceCoq(b, err) + ")"
	case "Stringer":
		if p.V == nil {
			return "(PStringer None)"
		}
		return "(PStringer " + optBytesCoq(p.V.(fmt.Stringer)) + ")"
	case "Nil":
		return "PNil"
	}
	switch v := p.V.(type) {
	case string:
		return "(PStr " + CoqBytes([]byte(v)) + ")"
	case []byte:
		return "(PBytes " + CoqBytes(v) + ")"
	case []string:
		return "(PStrs " + listCoq(len(v), func(i int) string { return CoqBytes([]byte(v[i])) }) + ")"
	case []fmt.Stringer:
		return "(PStringers " + listCoq(len(v), func(i int) string { return optBytesCoq(v[i]) }) + ")"
	case bool:
		return "(PBool " + CoqBool(v) + ")"
	case []bool:
		return "(PBools " + CoqBools(v) + ")"
	case int:
		return "(PInt " + ZS(int64(v)) + ")"
	case int8:
		return "(PInt " + ZS(int64(v)) + ")"
	case int16:
		return "(PInt " + ZS(int64(v)) + ")"
	case int32:
		return "(PInt " + ZS(int64(v)) + ")"
	case int64:
		return "(PInt " + ZS(v) + ")"
	case []int:
		return "(PInts " + listCoq(len(v), func(i int) string { return ZS(int64(v[i])) }) + "%Z)"
	case []int8:
		return "(PInts " + listCoq(len(v), func(i int) string { return ZS(int64(v[i])) }) + "%Z)"
	case []int16:
		return "(PInts " + listCoq(len(v), func(i int) string { return ZS(int64(v[i])) }) + "%Z)"
	case []int32:
		return "(PInts " + listCoq(len(v), func(i int) string { return ZS(int64(v[i])) }) + "%Z)"
	case []int64:
		return "(PInts " + listCoq(len(v), func(i int) string { return ZS(v[i]) }) + "%Z)"
	case uint:
		return "(PUint " + NS(uint64(v)) + ")"
	case uint8:
		return "(PUint " + NS(uint64(v)) + ")"
	case uint16:
		return "(PUint " + NS(uint64(v)) + ")"
	case uint32:
		return "(PUint " + NS(uint64(v)) + ")"
	case uint64:
		return "(PUint " + NS(v) + ")"
	case []uint:
		return "(PUints " + listCoq(len(v), func(i int) string { return NS(uint64(v[i])) }) + "%N)"
	case []uint16:
		return "(PUints " + listCoq(len(v), func(i int) string { return NS(uint64(v[i])) }) + "%N)"
	case []uint32:
		return "(PUints " + listCoq(len(v), func(i int) string { return NS(uint64(v[i])) }) + "%N)"
	case []uint64:
		return "(PUints " + listCoq(len(v), func(i int) string { return NS(v[i]) }) + "%N)"
	case uints8: // []uint8 passed to Uints8 (a distinct named type so that it is not confused with []byte)
		return "(PUints " + listCoq(len(v), func(i int) string { return NS(uint64(v[i])) }) + "%N)"
	case float32:
		return "(PF32 " + f32Coq(v, s.Prec) + ")"
	case float64:
		return "(PF64 " + f64Coq(v, s.Prec) + ")"
	case []float32:
		return "(PFs32 " + listCoq(len(v), func(i int) string { return f32Coq(v[i], s.Prec) }) + ")"
	case []float64:
		return "(PFs64 " + listCoq(len(v), func(i int) string { return f64Coq(v[i], s.Prec) }) + ")"
	case time.Time:
		return "(PTime " + timeCoq(v, s) + ")"
	case []time.Time:
		return "(PTimes " + listCoq(len(v), func(i int) string { return timeCoq(v[i], s) }) + ")"
	case time.Duration:
		return "(PDur " + durCoq(v, s) + ")"
	case []time.Duration:
		return "(PDurs " + listCoq(len(v), func(i int) string { return durCoq(v[i], s) }) + ")"
	case net.IP:
		return "(PStr " + CoqBytes([]byte(v.String())) + ")"
	case net.IPNet:
		return "(PStr " + CoqBytes([]byte(v.String())) + ")"
	case net.HardwareAddr:
		return "(PStr " + CoqBytes([]byte(v.String())) + ")"
	case json.RawMessage:
		return "(PRawJSON " + CoqBytes(v) + ")"
	case nil:
		return "PNil"
	}
	panic(fmt.Sprintf("Prim.Coq: unsupported %s %T", p.M, p.V))
}

type uints8 []uint8

// goArg is the reflect argument for calling method M
func (p Prim) goArg() reflect.Value {
	switch p.M {
	case "Type", "Interface", "Any":
		if p.V == nil {
			return reflect.Zero(reflect.TypeOf((*interface{})(nil)).Elem())
		}
		return reflect.ValueOf(p.V)
	case "Stringer":
		if p.V == nil {
			return reflect.Zero(reflect.TypeOf((*fmt.Stringer)(nil)).Elem())
		}
		return reflect.ValueOf(p.V)
	}
	if u, ok := p.V.(uints8); ok {
		return reflect.ValueOf([]uint8(u))
	}
	return reflect.ValueOf(p.V)
}

// FieldsValue is what is put into a Fields() slice / map for this primitive
func (p Prim) FieldsValue() interface{} {
	if u, ok := p.V.(uints8); ok {
		return []byte(u)
	}
	return p.V
}

// ---------------------------------------------------------------- value generators
var byteClasses = [][]byte{
	[]byte("a"), []byte("Z"), []byte(" "), []byte("~"), []byte("\""), []byte("\\"), []byte("/"), []byte("<"), []byte(">"), []byte("&"),
	{8}, {12}, {10}, {13}, {9}, {0}, {1}, {0x1f}, {0x7f},
	[]byte("é"), []byte("€"), []byte(" "), []byte("𝄞"), []byte("�"), {0xef, 0xbf, 0xbe},
	{0x80}, {0xbf}, {0xc0}, {0xc1}, {0xc2}, {0xe0, 0x80}, {0xe0, 0xa0}, {0xed, 0xa0, 0x80}, {0xf0, 0x80, 0x80, 0x80}, {0xf4, 0x90, 0x80, 0x80}, {0xf5}, {0xff},
	{0xe2, 0x82}, {0xf0, 0x9d, 0x84}, {0xc0, 0xaf}, {0xf8, 0x88, 0x80, 0x80, 0x80},
	[]byte("{"), []byte("}"), []byte("["), []byte(","), []byte(":"), []byte("e-07"), []byte("null"),
}

// ByteClasses: the byte sequences strings are generated from (for directed sweeps)
func ByteClasses() [][]byte { return byteClasses }

// EscapeLookalikes: texts that are themselves the output of a JSON / string encoder (a logged request body,
// a Windows path, a regular expression): a backslash followed by what would be an escape if it were read
// at the wrong level.  They are data like any other text and must come back unchanged.
func EscapeLookalikes() [][]byte {
	var out [][]byte
	for _, s := range []string{`\u003c`, `\u003e`, `\u0026`, `\u2028`, `\u2029`, `\u0000`, `\u000a`, `\ufffd`, `\ud834\udd1e`, `\u00`, `\u`, `\n`, `\"`, `\\`, `\/`, `\`,
		`&lt;`, `&amp;`, `%3c`, "\u2028", "\u2029"} {
		out = append(out, []byte(s))
	}
	return out
}

// IfaceShape is one way a text can sit inside a value that goes through InterfaceMarshalFunc (reflection).
type IfaceShape struct {
	Name string
	Mk   func(txt string) interface{}
}

type ifaceBody struct {
	Method string
	Body   string
}

// IfaceShapes: the positions a text can take in a reflected value.
var IfaceShapes = []IfaceShape{
	{"string", func(t string) interface{} { return t }},
	{"struct-field", func(t string) interface{} { return ifaceBody{"POST", t} }},
	{"pointer", func(t string) interface{} { return &ifaceBody{"GET", t} }},
	{"slice-elem", func(t string) interface{} { return []string{"a", t} }},
	{"map-key", func(t string) interface{} { return map[string]int{t: 1} }},
	{"map-value", func(t string) interface{} { return map[string]interface{}{"k": t, "n": []interface{}{t, 1}} }},
	{"bytes-as-base64", func(t string) interface{} { return [][]byte{[]byte(t)} }},
}

// MkStringer: a Stringer primitive with the given text
func MkStringer(s string) Prim { return Prim{"Stringer", stringer{s}} }

// GenTime exposes the instant generator
func GenTime(r *Rng) time.Time { return genTime(r) }

func GenBytes(r *Rng) []byte {
	var n int
	switch r.Intn(20) {
	case 0:
		n = 0
	case 1:
		n = 20 + r.Intn(40)
	default:
		n = 1 + r.Intn(5)
	}
	var b []byte
	for i := 0; i < n; i++ {
		if r.Chance(55) {
			b = append(b, byte('a'+r.Intn(26)))
		} else {
			b = append(b, byteClasses[r.Intn(len(byteClasses))]...)
		}
	}
	return b
}

func GenKey(r *Rng) []byte {
	if r.Chance(70) {
		keys := []string{"k", "a", "b", "key", "foo", "id", "n", "v", "level", "message", "error", "time", "caller", "stack", ""}
		return []byte(keys[r.Intn(len(keys))])
	}
	return GenBytes(r)
}

var intEdges = []int64{0, 1, -1, 2, -2, 9, 10, 99, 100, 127, 128, -128, -129, 255, 256, 32767, 32768, -32768, -32769, 65535, 65536,
	2147483647, 2147483648, -2147483648, -2147483649, 4294967295, 4294967296, 9223372036854775807, -9223372036854775808, 9223372036854775806, -9223372036854775807, 1000000, 1234567890123}

func genInt(r *Rng, lo, hi int64) int64 {
	if r.Chance(70) {
		for i := 0; i < 20; i++ {
			v := intEdges[r.Intn(len(intEdges))]
			if v >= lo && v <= hi {
				return v
			}
		}
	}
	if hi-lo > 0 && hi-lo < math.MaxInt64 {
		return lo + int64(r.Next()%uint64(hi-lo+1))
	}
	return int64(r.Next())
}

var uintEdges = []uint64{0, 1, 2, 9, 10, 23, 24, 255, 256, 65535, 65536, 4294967295, 4294967296, 9223372036854775807, 9223372036854775808, 18446744073709551615, 18446744073709551614}

func genUint(r *Rng, hi uint64) uint64 {
	if r.Chance(70) {
		for i := 0; i < 20; i++ {
			v := uintEdges[r.Intn(len(uintEdges))]
			if v <= hi {
				return v
			}
		}
	}
	if hi == math.MaxUint64 {
		return r.Next()
	}
	return r.Next() % (hi + 1)
}

var f64Edges = []uint64{0, 1 << 63, 0x7ff0000000000000, 0xfff0000000000000, 0x7ff8000000000001, 0xfff8000000000000, 0x7ff0000000000001, 1, 0x000fffffffffffff, 0x0010000000000000,
	0x3eb0c6f7a0b5ed8d, 0x3eb0c6f7a0b5ed8c, 0x3eb0c6f7a0b5ed8e, 0xbeb0c6f7a0b5ed8d, 0xbeb0c6f7a0b5ed8c, 0x444b1ae4d6e2ef50, 0x444b1ae4d6e2ef4f, 0x444b1ae4d6e2ef51, 0xc44b1ae4d6e2ef50,
	0x3ff0000000000000, 0x4059000000000000, 0x7fefffffffffffff, 0x3fb999999999999a, 0x3e7ad7f29abcaf48 /*1e-7*/, 0x3e45798ee2308c3a /*1e-8*/, 0x3ddb7cdfd9d7bdbb /*1e-10*/, 0x4341c37937e08000 /*1e16*/}

func genF64(r *Rng) float64 {
	switch r.Intn(10) {
	case 0, 1, 2, 3:
		return math.Float64frombits(f64Edges[r.Intn(len(f64Edges))])
	case 4, 5:
		return math.Float64frombits(r.Next())
	case 6:
		return float64(genInt(r, -1000000, 1000000))
	case 7:
		return float64(genInt(r, -100000, 100000)) / 1000
	default:
		e := r.Intn(60) - 30
		return (float64(r.Intn(2000)) - 1000) * math.Pow(10, float64(e))
	}
}

var f32Edges = []uint32{0, 1 << 31, 0x7f800000, 0xff800000, 0x7fc00000, 0x7f800001, 1, 0x007fffff, 0x00800000, 0x358637bd, 0x358637bc, 0x358637be, 0xb58637bd, 0x6258d727, 0x6258d726, 0x6258d728, 0xe258d727, 0x3f800000, 0x7f7fffff, 0x3dcccccd}

func genF32(r *Rng) float32 {
	switch r.Intn(10) {
	case 0, 1, 2, 3:
		return math.Float32frombits(f32Edges[r.Intn(len(f32Edges))])
	case 4, 5:
		return math.Float32frombits(uint32(r.Next()))
	case 6:
		return float32(genInt(r, -100000, 100000))
	default:
		e := r.Intn(40) - 20
		return float32((float64(r.Intn(2000)) - 1000) * math.Pow(10, float64(e)))
	}
}

var zones = []*time.Location{time.UTC, time.FixedZone("", 3600*5+1800), time.FixedZone("X", -3600*8)}

func genTime(r *Rng) time.Time {
	var t time.Time
	switch r.Intn(10) {
	case 0:
		t = time.Unix(0, 0)
	case 1:
		t = time.Unix(0, -1) // just before the epoch, fractional
	case 2:
		t = time.Unix(-1, 500000000)
	case 3:
		t = time.Unix(0, math.MaxInt64)
	case 4:
		t = time.Unix(0, math.MinInt64)
	case 5:
		t = time.Unix(1700000000, int64(r.Intn(1000000000)))
	case 6:
		t = time.Unix(int64(r.Intn(4000000000))-2000000000, int64(r.Intn(1000000000)))
	case 7:
		t = time.Unix(1234567890, 123456789)
	default:
		t = time.Unix(int64(r.Intn(2000000000)), int64(r.Intn(1000)*1000000))
	}
	return t.In(zones[r.Intn(len(zones))])
}

func genDur(r *Rng) time.Duration {
	switch r.Intn(8) {
	case 0:
		return 0
	case 1:
		return time.Duration(genInt(r, -3, 3))
	case 2:
		return time.Duration(math.MaxInt64)
	case 3:
		return time.Duration(math.MinInt64)
	case 4:
		return time.Duration(r.Intn(100000)) * time.Microsecond
	default:
		return time.Duration(int64(r.Next()) >> uint(r.Intn(50)))
	}
}

func genIP(r *Rng) net.IP {
	switch r.Intn(5) {
	case 0:
		return net.IPv4(byte(r.Intn(256)), byte(r.Intn(256)), byte(r.Intn(256)), byte(r.Intn(256))).To4()
	case 1:
		return net.IPv4(10, 0, 0, byte(r.Intn(256)))
	case 2:
		b := make(net.IP, 16)
		for i := range b {
			b[i] = byte(r.Intn(256))
		}
		return b
	case 3:
		return net.ParseIP("::1")
	default:
		return net.ParseIP("2001:db8::ff00:42:8329")
	}
}

func genSliceLen(r *Rng) int {
	switch r.Intn(6) {
	case 0:
		return 0
	case 1:
		return 1
	default:
		return 2 + r.Intn(3)
	}
}

type ifaceStruct struct {
	A int               `json:"a"`
	B string            `json:"b"`
	C []float64         `json:"c,omitempty"`
	D map[string]string `json:"d,omitempty"`
}

func genIface(r *Rng) interface{} {
	switch r.Intn(9) {
	case 0:
		return nil
	case 1:
		return ifaceStruct{A: r.Intn(100), B: string(GenBytes(r))}
	case 2:
		return map[string]interface{}{"x": r.Intn(10), "y<": []int{1, 2}}
	case 3:
		return []interface{}{1, "two", nil, 3.5}
	case 4:
		return make(chan int) // json: unsupported type -> marshaling error path
	case 5:
		return math.Inf(1) // json: unsupported value
	case 6:
		return &ifaceStruct{A: 1, C: []float64{1.5}}
	case 7:
		return complex(1, 2)
	default:
		return string(GenBytes(r))
	}
}

// AllMethods lists the regular methods and whether Array has them.
var EventMethods = []string{"Str", "Strs", "Stringer", "Stringers", "Bytes", "Hex", "RawJSON", "RawCBOR", "Bool", "Bools",
	"Int", "Int8", "Int16", "Int32", "Int64", "Ints", "Ints8", "Ints16", "Ints32", "Ints64",
	"Uint", "Uint8", "Uint16", "Uint32", "Uint64", "Uints", "Uints8", "Uints16", "Uints32", "Uints64",
	"Float32", "Float64", "Floats32", "Floats64", "Time", "Times", "Dur", "Durs", "Type", "IPAddr", "IPPrefix", "MACAddr", "Interface", "Any"}

// ContextHas reports whether zerolog.Context has the regular method m (it lacks a few, e.g. Stringers, RawCBOR)
func ContextHas(m string) bool {
	_, ok := reflect.TypeOf(zerolog.Context{}).MethodByName(m)
	return ok
}

var ArrayMethods = map[string]bool{"Str": true, "Bytes": true, "Hex": true, "RawJSON": true, "Bool": true, "Int": true, "Int8": true, "Int16": true, "Int32": true, "Int64": true,
	"Uint": true, "Uint8": true, "Uint16": true, "Uint32": true, "Uint64": true, "Float32": true, "Float64": true, "Time": true, "Dur": true, "Interface": true, "IPAddr": true, "IPPrefix": true, "MACAddr": true}

var validJSONFragments = []string{`1`, `"x"`, `{"a":1}`, `[1,2,{"b":null}]`, `true`, `null`, `-0.5e+3`, ` {"sp" : [ ] } `, `"é\n"`, `{}`, `[]`}

// GenPrim generates an argument for method m.
func GenPrim(r *Rng, m string) Prim {
	switch m {
	case "Str":
		return Prim{m, string(GenBytes(r))}
	case "Strs":
		n := genSliceLen(r)
		v := make([]string, n)
		for i := range v {
			v[i] = string(GenBytes(r))
		}
		return Prim{m, v}
	case "Stringer":
		if r.Chance(25) {
			return Prim{m, nil}
		}
		return Prim{m, stringer{string(GenBytes(r))}}
	case "Stringers":
		n := genSliceLen(r)
		v := make([]fmt.Stringer, n)
		for i := range v {
			if !r.Chance(25) {
				v[i] = stringer{string(GenBytes(r))}
			}
		}
		return Prim{m, v}
	case "Bytes":
		return Prim{m, GenBytes(r)}
	case "Hex":
		b := GenBytes(r)
		if r.Chance(30) {
			b = []byte{0, 0x0f, 0xf0, 0xff, byte(r.Intn(256))}
		}
		return Prim{m, b}
	case "RawJSON":
		return Prim{m, []byte(validJSONFragments[r.Intn(len(validJSONFragments))])}
	case "RawCBOR":
		b := GenBytes(r)
		return Prim{m, b}
	case "Bool":
		return Prim{m, r.Bool()}
	case "Bools":
		n := genSliceLen(r)
		v := make([]bool, n)
		for i := range v {
			v[i] = r.Bool()
		}
		return Prim{m, v}
	case "Int":
		return Prim{m, int(genInt(r, math.MinInt64, math.MaxInt64))}
	case "Int8":
		return Prim{m, int8(genInt(r, -128, 127))}
	case "Int16":
		return Prim{m, int16(genInt(r, -32768, 32767))}
	case "Int32":
		return Prim{m, int32(genInt(r, math.MinInt32, math.MaxInt32))}
	case "Int64":
		return Prim{m, genInt(r, math.MinInt64, math.MaxInt64)}
	case "Ints":
		n := genSliceLen(r)
		v := make([]int, n)
		for i := range v {
			v[i] = int(genInt(r, math.MinInt64, math.MaxInt64))
		}
		return Prim{m, v}
	case "Ints8":
		n := genSliceLen(r)
		v := make([]int8, n)
		for i := range v {
			v[i] = int8(genInt(r, -128, 127))
		}
		return Prim{m, v}
	case "Ints16":
		n := genSliceLen(r)
		v := make([]int16, n)
		for i := range v {
			v[i] = int16(genInt(r, -32768, 32767))
		}
		return Prim{m, v}
	case "Ints32":
		n := genSliceLen(r)
		v := make([]int32, n)
		for i := range v {
			v[i] = int32(genInt(r, math.MinInt32, math.MaxInt32))
		}
		return Prim{m, v}
	case "Ints64":
		n := genSliceLen(r)
		v := make([]int64, n)
		for i := range v {
			v[i] = genInt(r, math.MinInt64, math.MaxInt64)
		}
		return Prim{m, v}
	case "Uint":
		return Prim{m, uint(genUint(r, math.MaxUint64))}
	case "Uint8":
		return Prim{m, uint8(genUint(r, 255))}
	case "Uint16":
		return Prim{m, uint16(genUint(r, 65535))}
	case "Uint32":
		return Prim{m, uint32(genUint(r, math.MaxUint32))}
	case "Uint64":
		return Prim{m, genUint(r, math.MaxUint64)}
	case "Uints":
		n := genSliceLen(r)
		v := make([]uint, n)
		for i := range v {
			v[i] = uint(genUint(r, math.MaxUint64))
		}
		return Prim{m, v}
	case "Uints8":
		n := genSliceLen(r)
		v := make(uints8, n)
		for i := range v {
			v[i] = uint8(genUint(r, 255))
		}
		return Prim{m, v}
	case "Uints16":
		n := genSliceLen(r)
		v := make([]uint16, n)
		for i := range v {
			v[i] = uint16(genUint(r, 65535))
		}
		return Prim{m, v}
	case "Uints32":
		n := genSliceLen(r)
		v := make([]uint32, n)
		for i := range v {
			v[i] = uint32(genUint(r, math.MaxUint32))
		}
		return Prim{m, v}
	case "Uints64":
		n := genSliceLen(r)
		v := make([]uint64, n)
		for i := range v {
			v[i] = genUint(r, math.MaxUint64)
		}
		return Prim{m, v}
	case "Float32":
		return Prim{m, genF32(r)}
	case "Float64":
		return Prim{m, genF64(r)}
	case "Floats32":
		n := genSliceLen(r)
		v := make([]float32, n)
		for i := range v {
			v[i] = genF32(r)
		}
		return Prim{m, v}
	case "Floats64":
		n := genSliceLen(r)
		v := make([]float64, n)
		for i := range v {
			v[i] = genF64(r)
		}
		return Prim{m, v}
	case "Time":
		return Prim{m, genTime(r)}
	case "Times":
		n := genSliceLen(r)
		v := make([]time.Time, n)
		for i := range v {
			v[i] = genTime(r)
		}
		return Prim{m, v}
	case "Dur":
		return Prim{m, genDur(r)}
	case "Durs":
		n := genSliceLen(r)
		v := make([]time.Duration, n)
		for i := range v {
			v[i] = genDur(r)
		}
		return Prim{m, v}
	case "Type":
		vals := []interface{}{nil, 1, "s", someStruct{}, &someStruct{}, []int{}, map[string]bool{}, errorsNew("x"), 1.5, func() {}}
		return Prim{m, vals[r.Intn(len(vals))]}
	case "IPAddr":
		return Prim{m, genIP(r)}
	case "IPPrefix":
		ip := genIP(r)
		bits := 32
		if len(ip) == 16 {
			bits = 128
		}
		ones := r.Intn(bits + 1)
		return Prim{m, net.IPNet{IP: ip, Mask: net.CIDRMask(ones, bits)}}
	case "MACAddr":
		b := make(net.HardwareAddr, 6)
		for i := range b {
			b[i] = byte(r.Intn(256))
		}
		return Prim{m, b}
	case "Interface", "Any":
		return Prim{m, genIface(r)}
	}
	panic("GenPrim: " + m)
}

func errorsNew(s string) error { return plainErr{s} }

// Describe is the JSON twin of a primitive (for samples / replays).
func (p Prim) Describe() interface{} {
	switch v := p.V.(type) {
	case json.RawMessage:
		return map[string]interface{}{"method": p.M, "arg": strings.ToValidUTF8(descValue(v), "?")}
	case *json.RawMessage:
		return map[string]interface{}{"method": p.M, "arg": strings.ToValidUTF8(descValue(v), "?")}
	case time.Time:
		return map[string]interface{}{"method": p.M, "arg": describeTime(v)}
	case []time.Time:
		xs := make([]string, len(v))
		for i := range v {
			xs[i] = describeTime(v[i])
		}
		return map[string]interface{}{"method": p.M, "arg": xs}
	}
	s := fmt.Sprintf("%#v", p.V)
	if len(s) > 200 {
		s = s[:200] + "..."
	}
	return map[string]interface{}{"method": p.M, "arg": strings.ToValidUTF8(s, "?")}
}

// describeTime: the instant and its zone, readable for any year and offset
func describeTime(t time.Time) string {
	name, off := t.Zone()
	return fmt.Sprintf("%s (unix %d s + %d ns, zone %q offset %d s)", t.Format("2006-01-02T15:04:05.999999999Z07:00:00"), t.Unix(), t.Nanosecond(), name, off)
}

// ---------------------------------------------------------------- directed value tables
type typeBox[T any] struct{ v T }

// AwkwardTypeValues: values whose TYPE NAME (reflect.Type.String(), what Type() logs) is not plain identifier
// text: unnamed struct types print their field tags as quoted Go strings (quote and backslash characters), field
// names may be any letters, instantiated generic types print their argument lists; wrapped in every type constructor.
func AwkwardTypeValues() []interface{} {
	type tagged = struct {
		ID int `json:"id"`
	}
	return []interface{}{
		tagged{},
		&tagged{},
		[]tagged{},
		map[string]tagged{},
		func(tagged) {},
		make(chan tagged),
		[2]tagged{},
		struct {
			A string "x:\"\\\\\""
			B bool   `yaml:"b,omitempty" json:"b"`
		}{},
		struct {
			D int "tab\there\nline"
		}{},
		struct {
			F int "\x80\xff"
		}{},
		struct {
			E int "é€𝄞 \u2028"
		}{},
		struct{ É, 世界 int }{},
		struct {
			G int `<script>&`
		}{},
		typeBox[tagged]{},
		typeBox[map[string][]*tagged]{},
		struct {
			Inner struct {
				X int "a\\b"
			}
		}{},
		someStruct{}, 1, nil, // the plain ones for comparison
	}
}

// ExtremeYears: years at which a hand-written date formatter changes shape: the sign, the number of digits, two's
// complement widths, the ends of what time.Time represents (its Unix seconds fit an int64 from -292277022399 to
// 292277026596).
var ExtremeYears = []int{-292277022399, -1 << 31, -1000000, -100000, -65537, -65536, -32769, -32768, -10001, -10000, -9999, -1001, -1000, -999, -101, -100, -99, -11, -10, -9, -1,
	0, 1, 9, 10, 99, 100, 999, 1000, 9999, 10000, 10001, 32767, 32768, 65535, 65536, 99999, 100000, 1000000, 1<<31 - 1, 1 << 31, 292277026596}

// ExtremeZoneOffsets (seconds east of UTC): beyond a day, beyond two digits of hours, beyond what fits 16 / 31 bits
var ExtremeZoneOffsets = []int{86399, -86399, 86400, -86400, 359999, -359999, 360000, -360000, 440 * 3600, -440 * 3600, 1000 * 3600, -1000*3600 - 59, 1 << 30, -(1 << 30), 1<<31 - 1, -(1 << 31)}

// YearTime: a fixed month / day / clock in the given year (UTC)
func YearTime(year int) time.Time { return time.Date(year, time.March, 4, 5, 6, 7, 0, time.UTC) }

// ---------------------------------------------------------------- json.Marshaler / TextMarshaler values
// Values whose own method produces the JSON (or the text) that ends up in the event when they are given to
// Interface / Any / Array.Interface / the default case of Fields / as an ErrorMarshalFunc answer.  The default
// InterfaceMarshalFunc hands them to encoding/json, which calls the method, VALIDATES what it returns and re-emits it
// compacted (no insignificant white space: no newline, tab or carriage return of a pretty-printed document survives),
// quotes and escapes the text of a TextMarshaler, and turns a method error or an invalid result into an error (which
// zerolog logs as a "marshaling error: ..." string).  A result that is valid JSON is not an excluded fragment,
// however it is laid out.

// indentV: MarshalJSON (value receiver) pretty-prints with json.MarshalIndent
type indentV struct {
	Name  string
	Count int
	Tags  []string
}

func (v indentV) MarshalJSON() ([]byte, error) {
	type plain indentV
	return json.MarshalIndent(plain(v), "", "  ")
}

// indentP: MarshalJSON on the pointer receiver, prefix and tab indentation
type indentP struct {
	Hosts map[string]int
	On    bool
}

func (v *indentP) MarshalJSON() ([]byte, error) {
	if v == nil {
		return []byte("null"), nil
	}
	type plain indentP
	return json.MarshalIndent((*plain)(v), " ", "\t")
}

// fixedJSON: MarshalJSON returns the bytes it holds, or the error
type fixedJSON struct {
	out []byte
	err error
}

func (v fixedJSON) MarshalJSON() ([]byte, error) { return v.out, v.err }

// fixedText: an encoding.TextMarshaler (encoding/json logs its text as a JSON string)
type fixedText struct {
	out []byte
	err error
}

func (v fixedText) MarshalText() ([]byte, error) { return v.out, v.err }

// textKey: a map key type that is a TextMarshaler
type textKey struct{ s string }

func (k textKey) MarshalText() ([]byte, error) { return []byte(k.s), nil }

type marshalErr struct{}

func (marshalErr) Error() string { return "marshaler \"failed\"\n\tat line 2 \xff" }

// holder: a struct with marshalers in its fields.  (GoString: the case descriptions print values with %#v, which
// would show the address of a pointer held inside.)
type holder struct {
	Raw json.RawMessage  `json:"raw"`
	Ptr *json.RawMessage `json:"ptr"`
	Any interface{}      `json:"any"`
}

func (holder) GoString() string {
	return "progs.holder{Raw: pretty-printed RawMessage, Ptr: &RawMessage with CR LF, Any: indentV}"
}

// descValue: %#v, but a pointer held inside a container is shown by what it points to, not by its address
func descValue(v interface{}) string {
	switch x := v.(type) {
	case json.RawMessage:
		if x == nil {
			return "json.RawMessage(nil)"
		}
		return fmt.Sprintf("json.RawMessage(%q)", []byte(x))
	case *json.RawMessage:
		if x != nil {
			return "&" + descValue(*x)
		}
	}
	if rv := reflect.ValueOf(v); rv.IsValid() && rv.Kind() == reflect.Ptr && !rv.IsNil() {
		return "&" + fmt.Sprintf("%#v", rv.Elem().Interface())
	}
	return fmt.Sprintf("%#v", v)
}

// WSlice, WMap, WStruct: a value inside a slice / a map / a struct field of interface type
type WSlice []interface{}

func (w WSlice) GoString() string {
	xs := make([]string, len(w))
	for i, e := range w {
		xs[i] = descValue(e)
	}
	return "[]interface{}{" + strings.Join(xs, ", ") + "}"
}

type WMap map[string]interface{}

func (w WMap) GoString() string {
	keys := make([]string, 0, len(w))
	for k := range w {
		keys = append(keys, k)
	}
	sort.Strings(keys)
	xs := make([]string, len(keys))
	for i, k := range keys {
		xs[i] = fmt.Sprintf("%q: %s", k, descValue(w[k]))
	}
	return "map[string]interface{}{" + strings.Join(xs, ", ") + "}"
}

type WStruct struct {
	N int         `json:"n"`
	V interface{} `json:"v"`
	W interface{} `json:"w,omitempty"`
}

func (w WStruct) GoString() string {
	return "struct{N int; V, W interface{}}{" + fmt.Sprint(w.N) + ", " + descValue(w.V) + ", " + descValue(w.W) + "}"
}

// MarshalerValue is one value of the table.  Invalid: its method returns something that is not valid JSON (an
// excluded caller-supplied fragment: nothing is demanded of the line's well-formedness then, only that the call does
// not panic and writes once).
type MarshalerValue struct {
	Name    string
	V       interface{}
	Invalid bool
}

const prettyDoc = "{\n\t\"retries\": 3,\n\t\"hosts\": [\n\t\t\"a\",\n\t\t\"b\"\n\t],\n\t\"nested\": {\n\t\t\"k\": null\n\t}\n}"

// MarshalerValues: every kind of result a MarshalJSON / MarshalText method can hand back, through value and pointer,
// nil and non-nil.
func MarshalerValues() []MarshalerValue {
	pretty := json.RawMessage(prettyDoc)
	crlf := json.RawMessage(" \r\n [ 1 ,\r\n 2 , { \"a\" : \"b c\" } ] \r\n")
	var nilRaw json.RawMessage
	emptyRaw := json.RawMessage{}
	return []MarshalerValue{
		{"RawMessage compact", json.RawMessage(`{"a":1,"b":[true,null]}`), false},
		{"RawMessage pretty-printed (newlines, tabs)", pretty, false},
		{"*RawMessage pretty-printed", &pretty, false},
		{"RawMessage with CR LF and spaces around every token", crlf, false},
		{"RawMessage scalar with newlines around it", json.RawMessage("\n\"s\"\n"), false},
		{"RawMessage number with spaces", json.RawMessage(" -0.5e+3\t"), false},
		{"RawMessage whose strings hold escapes", json.RawMessage("{ \"k\\n\\u003c\" : \"a\\tb <>&\" }"), false},
		{"RawMessage(nil)", nilRaw, false},
		{"(*RawMessage)(nil)", (*json.RawMessage)(nil), false},
		{"*RawMessage holding nil", &nilRaw, false},
		{"RawMessage empty", emptyRaw, true},
		{"MarshalIndent by value receiver", indentV{"nightly", 2, []string{"a", "b\n"}}, false},
		{"MarshalIndent by value receiver, through a pointer", &indentV{"p", 0, nil}, false},
		{"MarshalIndent by pointer receiver (prefix, tabs)", &indentP{map[string]int{"h1": 1, "h2": 2}, true}, false},
		{"pointer-receiver marshaler given by value (method not in the value's method set)", indentP{map[string]int{"h": 1}, false}, false},
		{"nil pointer of a pointer-receiver marshaler", (*indentP)(nil), false},
		{"nil pointer of a value-receiver marshaler", (*indentV)(nil), false},
		{"marshaler returning an error", fixedJSON{nil, marshalErr{}}, false},
		{"marshaler returning output and an error", fixedJSON{[]byte("{\n}"), marshalErr{}}, false},
		{"marshaler returning null with a newline", fixedJSON{[]byte("null\n"), nil}, false},
		{"marshaler returning an empty object over three lines", fixedJSON{[]byte("{\n\n}"), nil}, false},
		{"marshaler returning deeply indented arrays", fixedJSON{[]byte("[\n [\n  [\n   [ ]\n  ]\n ]\n]"), nil}, false},
		{"marshaler returning nothing", fixedJSON{nil, nil}, true},
		{"marshaler returning white space only", fixedJSON{[]byte(" \n\t"), nil}, true},
		{"marshaler returning a truncated object", fixedJSON{[]byte("{\"a\":"), nil}, true},
		{"marshaler returning two values", fixedJSON{[]byte("1\n2"), nil}, true},
		{"marshaler returning a string with a raw newline inside", fixedJSON{[]byte("\"a\nb\""), nil}, true},
		{"TextMarshaler with quote, backslash, newline, tab, ill-formed byte", fixedText{[]byte("line1\nline2\t\"q\" \\ \xff <&>"), nil}, false},
		{"TextMarshaler returning an error", fixedText{[]byte("x"), marshalErr{}}, false},
		{"TextMarshaler empty text", fixedText{nil, nil}, false},
		{"map with TextMarshaler keys holding control bytes", map[textKey]int{{"k\n1"}: 1, {"k\t\"2"}: 2}, false},
		{"time.Time (a Marshaler of the standard library)", time.Date(2024, 2, 29, 23, 59, 60, 123456789, time.FixedZone("", -5*3600)), false},
		{"struct holding RawMessage, *RawMessage and an indenting marshaler", holder{pretty, &crlf, indentV{"in", 1, nil}}, false},
		{"slice of marshalers", WSlice{pretty, &crlf, indentV{"e", 0, nil}, (*indentP)(nil), fixedText{[]byte("t\n"), nil}}, false},
		{"map of marshalers", WMap{"p\n": pretty, "i": &indentP{nil, false}, "n": nilRaw}, false},
	}
}
