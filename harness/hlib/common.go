// Package hlib is the shared part of the verification harness: seeded PRNG,
// case shards (Gallina printers), result/evidence bookkeeping.
package hlib

import (
	"encoding/json"
	"flag"
	"fmt"
	"os"
	"path/filepath"
	"sort"
	"strings"
)

// ---------------------------------------------------------------- PRNG
// splitmix64: every random choice of a run derives from the one seed.
type Rng struct{ s uint64 }

func (r *Rng) Next() uint64 {
	r.s += 0x9e3779b97f4a7c15
	z := r.s
	z = (z ^ (z >> 30)) * 0xbf58476d1ce4e5b9
	z = (z ^ (z >> 27)) * 0x94d049bb133111eb
	return z ^ (z >> 31)
}

// mix64 decorrelates consecutive seeds (the generator's state advances by a constant, so seeds must not be
// an affine function of that constant)
func mix64(z uint64) uint64 {
	z = (z ^ (z >> 30)) * 0xbf58476d1ce4e5b9
	z = (z ^ (z >> 27)) * 0x94d049bb133111eb
	z ^= z >> 31
	z = (z ^ (z >> 33)) * 0xff51afd7ed558ccd
	return z ^ (z >> 29)
}

func (r *Rng) Intn(n int) int {
	if n <= 0 {
		return 0
	}
	return int(r.Next() % uint64(n))
}
func (r *Rng) Bool() bool           { return r.Next()&1 == 1 }
func (r *Rng) Chance(p int) bool    { return r.Intn(100) < p }
func (r *Rng) Pick(xs []int) int    { return xs[r.Intn(len(xs))] }
func (r *Rng) Fork() *Rng           { return &Rng{s: r.Next()} }
func (r *Rng) Int64() int64         { return int64(r.Next()) }
func (r *Rng) Range(lo, hi int) int { return lo + r.Intn(hi-lo+1) }

// ---------------------------------------------------------------- context
type Violation struct {
	Key      string      `json:"key"`  // structural key (matched against KNOWN_FINDINGS.txt)
	Desc     string      `json:"desc"` // what fails
	Case     interface{} `json:"case"` // the concrete input / history / schedule
	Observed interface{} `json:"observed,omitempty"`
	Expected interface{} `json:"expected,omitempty"`
	Monitor  string      `json:"monitor"`
}

type Result struct {
	Property      string                    `json:"property"`
	Tier          string                    `json:"tier"`
	Seed          uint64                    `json:"seed"`
	Evaluations   int                       `json:"evaluations"`
	Distinct      int                       `json:"distinct_nontrivial"`
	Rule          string                    `json:"rule"`
	Samples       []interface{}             `json:"samples"`
	Histograms    map[string]map[string]int `json:"histograms"`
	Violations    []Violation               `json:"violations"`
	Shards        []string                  `json:"shards"`
	CaseIndex     map[string][]interface{}  `json:"-"`
	Notes         []string                  `json:"notes"`
	Exhaustive    bool                      `json:"exhaustive"`
	ModelCases    int                       `json:"model_cases"`
	ExtraCoverage map[string]interface{}    `json:"extra_coverage"`
	// obligations the driver itself checks (e.g. its own translator) and that no longer hold;
	// the run continues so that the monitors can look for a failing input
	Broken []string `json:"broken,omitempty"`
}

type Ctx struct {
	Prop, Tier   string
	Seed         uint64
	Out          string
	Replay       string
	R            *Rng
	Res          Result
	distinct     map[string]bool
	shardN       int
	modelBytes   int
	modelSkipped int
	cur          *shard
	caseLog      *os.File
	vioCount     map[string]int
}

const maxShardBytes = 900000

// about 10 minutes of model evaluation on 16 cores
const modelByteBudget = 600 << 20

type shard struct {
	bytes  int
	header string
	typ    string
	footer string
	cases  []string
	jsons  []interface{}
	limit  int
}

func NewCtx(prop, tier string, seed uint64, out, replay string) *Ctx {
	if out == "" {
		out = filepath.Join(os.TempDir(), "verif-"+prop)
	}
	os.MkdirAll(out, 0o755)
	c := &Ctx{Prop: prop, Tier: tier, Seed: seed, Out: out, Replay: replay, R: &Rng{s: mix64(seed ^ 0x5bf0_3635_d1c2_a7e9)}}
	c.Res = Result{Property: prop, Tier: tier, Seed: seed, Histograms: map[string]map[string]int{}, ExtraCoverage: map[string]interface{}{}}
	c.distinct = map[string]bool{}
	c.vioCount = map[string]int{}
	f, err := os.Create(filepath.Join(out, "cases.jsonl"))
	if err != nil {
		panic(err)
	}
	c.caseLog = f
	return c
}

func (c *Ctx) Thorough() bool { return c.Tier == "thorough" }

func (c *Ctx) Hist(name, key string) {
	m := c.Res.Histograms[name]
	if m == nil {
		m = map[string]int{}
		c.Res.Histograms[name] = m
	}
	m[key]++
}

// Count one executed case; key identifies it for distinctness; nontrivial by the property's own rule.
func (c *Ctx) Count(key string, nontrivial bool) {
	c.Res.Evaluations++
	if nontrivial && !c.distinct[key] {
		c.distinct[key] = true
		c.Res.Distinct++
	}
}

func (c *Ctx) Sample(x interface{}) {
	if len(c.Res.Samples) < 6 {
		c.Res.Samples = append(c.Res.Samples, x)
	}
}

func (c *Ctx) Violate(v Violation) {
	// keep at most 3 witnesses per structural key
	c.vioCount[v.Key]++
	if c.vioCount[v.Key] <= 3 && len(c.Res.Violations) < 300 {
		c.Res.Violations = append(c.Res.Violations, v)
	}
}

func (c *Ctx) Note(format string, a ...interface{}) {
	c.Res.Notes = append(c.Res.Notes, fmt.Sprintf(format, a...))
}

// ---- Coq shards ----
// header: Require lines; typ: the Gallina type of the list `cases`;
// footer: the run/eqb to use: "mismatches <run> <eqb>".
func (c *Ctx) OpenShards(header, typ, footer string, limit int) {
	c.flushShard()
	c.cur = &shard{header: header, typ: typ, footer: footer, limit: limit}
}

// AddCase appends one Gallina term (a pair (input, observed)) and its JSON twin.
func (c *Ctx) AddCase(term string, j interface{}) {
	if c.cur == nil {
		panic("no open shard")
	}
	// the model evaluates at most modelByteBudget bytes of case text per run (coqc needs about 17 CPU-seconds per MB of
	// literals): cases beyond it are still run on the implementation and judged by the driver's monitors, but are not
	// shipped to the model; how many were left out is reported in the evidence notes
	if c.modelBytes+len(term) > modelByteBudget {
		c.modelSkipped++
		if c.modelSkipped == 1 {
			c.Note("model evaluation budget of %d MB of case text reached: later cases are judged by the monitors only (count in extra_coverage.model_cases_over_budget)", modelByteBudget>>20)
		}
		if c.Res.ExtraCoverage == nil {
			c.Res.ExtraCoverage = map[string]interface{}{}
		}
		c.Res.ExtraCoverage["model_cases_over_budget"] = c.modelSkipped
		return
	}
	c.modelBytes += len(term)
	c.cur.cases = append(c.cur.cases, term)
	c.cur.jsons = append(c.cur.jsons, j)
	c.cur.bytes += len(term)
	c.Res.ModelCases++
	// a shard is cut by case count or by size: coqc's time on a shard grows with the size of its literals, and one
	// oversized shard would otherwise decide the wall time of the whole run
	if len(c.cur.cases) >= c.cur.limit || c.cur.bytes >= maxShardBytes {
		h, t, f, l := c.cur.header, c.cur.typ, c.cur.footer, c.cur.limit
		c.flushShard()
		c.cur = &shard{header: h, typ: t, footer: f, limit: l}
	}
}

func (c *Ctx) flushShard() {
	s := c.cur
	c.cur = nil
	if s == nil || len(s.cases) == 0 {
		return
	}
	name := fmt.Sprintf("cases_%s_%03d", c.Prop, c.shardN)
	c.shardN++
	var b strings.Builder
	b.WriteString(s.header)
	b.WriteString("\nDefinition cases : list (" + s.typ + ") := [\n")
	for i, t := range s.cases {
		if i > 0 {
			b.WriteString(";\n")
		}
		b.WriteString(" ")
		b.WriteString(t)
	}
	b.WriteString("\n].\n")
	b.WriteString("Definition M := Eval vm_compute in " + s.footer + " cases.\nPrint M.\n")
	if err := os.WriteFile(filepath.Join(c.Out, name+".v"), []byte(b.String()), 0o644); err != nil {
		panic(err)
	}
	c.Res.Shards = append(c.Res.Shards, name)
	for i, j := range s.jsons {
		line, _ := json.Marshal(map[string]interface{}{"shard": name, "index": i, "case": j})
		c.caseLog.Write(line)
		c.caseLog.Write([]byte("\n"))
	}
}

func (c *Ctx) Finish() {
	c.flushShard()
	c.caseLog.Close()
	if c.Res.Samples == nil {
		c.Res.Samples = []interface{}{}
	}
	if c.Res.Violations == nil {
		c.Res.Violations = []Violation{}
	}
	b, err := json.MarshalIndent(c.Res, "", " ")
	if err != nil {
		panic(err)
	}
	if err := os.WriteFile(filepath.Join(c.Out, "result.json"), b, 0o644); err != nil {
		panic(err)
	}
}

// ---------------------------------------------------------------- Gallina printers
func CoqZ(z int64) string {
	if z < 0 {
		return fmt.Sprintf("(%d)", z)
	}
	return fmt.Sprintf("%d", z)
}
func CoqN(n uint64) string { return fmt.Sprintf("%d", n) }

// ZS / NS: the same with an explicit scope delimiter (for positions whose expected type does not bind a scope, e.g. tuples)
func ZS(z int64) string {
	if z < 0 {
		return fmt.Sprintf("(%d)%%Z", z)
	}
	return fmt.Sprintf("%d%%Z", z)
}
func NS(n uint64) string { return fmt.Sprintf("%d%%N", n) }
func CoqBool(b bool) string {
	if b {
		return "true"
	}
	return "false"
}
func CoqList(xs []string) string { return "[" + strings.Join(xs, ";") + "]" }
func CoqBools(bs []bool) string {
	xs := make([]string, len(bs))
	for i, b := range bs {
		xs[i] = CoqBool(b)
	}
	return CoqList(xs)
}
func CoqBytes(bs []byte) string {
	xs := make([]string, len(bs))
	for i, b := range bs {
		xs[i] = fmt.Sprintf("%d", b)
	}
	return "[" + strings.Join(xs, ";") + "]%N"
}
func CoqOpt(s string, some bool) string {
	if !some {
		return "None"
	}
	return "(Some " + s + ")"
}

func SortedKeys(m map[string]int) []string {
	ks := make([]string, 0, len(m))
	for k := range m {
		ks = append(ks, k)
	}
	sort.Strings(ks)
	return ks
}

// Main parses the common flags and runs one property driver.
func Main(runners map[string]func(*Ctx)) {
	prop := flag.String("prop", "", "property id")
	tier := flag.String("tier", "quick", "quick|thorough")
	seed := flag.Uint64("seed", 1, "seed")
	out := flag.String("out", "", "output directory")
	replay := flag.String("replay", "", "replay file")
	flag.Parse()
	r, ok := runners[*prop]
	if !ok {
		fmt.Fprintf(os.Stderr, "driver: unknown property %q\n", *prop)
		os.Exit(2)
	}
	c := NewCtx(*prop, *tier, *seed, *out, *replay)
	r(c)
	c.Finish()
}
