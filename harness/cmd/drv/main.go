package main

import (
	"flag"
	"fmt"
	"os"
)

type propRunner func(c *Ctx)

var runners = map[string]propRunner{}

func main() {
	prop := flag.String("prop", "", "property id")
	tier := flag.String("tier", "quick", "quick|thorough")
	seed := flag.Uint64("seed", 1, "seed")
	out := flag.String("out", "", "output directory")
	replay := flag.String("replay", "", "replay file")
	flag.Parse()
	r, ok := runners[*prop]
	if !ok {
		fmt.Fprintf(os.Stderr, "drv: unknown property %q\n", *prop)
		os.Exit(2)
	}
	c := NewCtx(*prop, *tier, *seed, *out, *replay)
	r(c)
	c.Finish()
}
