package main

// Directed inputs for C06: "a writer wrapped in SyncWriter never sees two overlapping calls".
//
// The calls a wrapped writer receives are Write / WriteLevel AND Close (SyncWriter forwards Close when the
// destination is an io.Closer; Logger.Fatal closes the logger's writer before exiting, an application closes its
// log file on shutdown).  A destination sits behind SyncWriter precisely because it is not safe for concurrent
// use, so while one of its calls is running - whichever - no other may start.
//
// guardedDest counts the calls in progress on entry of Write / WriteLevel / Close and takes time: a scripted
// number of upcoming Close / Write calls "park" inside the destination (announce themselves, then wait until
// another call barges in - an overlap - or a few milliseconds pass).  Scripts:
//
//   close-parked:        one goroutine closes; once Close is inside the destination G goroutines log
//   write-parked:        one goroutine's Write is inside the destination; then one goroutine closes (its Close
//                        parks as well) while the others log
//   two-closes:          two goroutines close, G goroutines log
//   free-running:        closers and loggers start together, nothing parks (the destination only yields)
//
// x pipelines (how the SyncWriter is built and closed: over an io.Writer, over a LevelWriter, nested, closed
// through a MultiLevelWriter, over a ConsoleWriter whose Out is the destination) x G in {1, 4}.
// Monitors: no call started while another was running; every event arrives exactly once, byte-identical to the
// same pipeline run alone by one goroutine without any Close.
//
// On a SyncWriter that holds its mutex for the whole of every forwarded call nothing can overlap whatever the
// timing, so the sweep cannot fail on such a tree; a parked call then simply times out (3 ms each).

import (
	"fmt"
	"io"
	"runtime"
	"sort"
	"sync"
	"sync/atomic"
	"time"

	"github.com/rs/zerolog"
	. "verifharness/hlib"
)

type guardedDest struct {
	inside    int32
	overlaps  int64
	parkClose int32 // how many upcoming Close calls park
	parkWrite int32 // how many upcoming Write calls park
	hold      time.Duration
	entered   chan string   // a parked call announces itself
	barge     chan struct{} // a call that found another one running wakes the parked one
	rec       sync.Mutex
	lines     []string
	pairs     []string // "Write during Close", ...
	running   []string // kinds of the calls in progress (under rec)
	closes    int
}

func newGuardedDest() *guardedDest {
	return &guardedDest{hold: 3 * time.Millisecond, entered: make(chan string, 64), barge: make(chan struct{}, 64)}
}

func (d *guardedDest) call(kind string, park *int32, p []byte) {
	n := atomic.AddInt32(&d.inside, 1)
	d.rec.Lock()
	if n != 1 {
		atomic.AddInt64(&d.overlaps, 1)
		other := "another call"
		if len(d.running) > 0 {
			other = d.running[len(d.running)-1]
		}
		if len(d.pairs) < 8 {
			d.pairs = append(d.pairs, kind+" started while "+other+" was running")
		}
	}
	d.running = append(d.running, kind)
	if p != nil {
		d.lines = append(d.lines, string(p))
	} else {
		d.closes++
	}
	d.rec.Unlock()
	if n != 1 {
		select {
		case d.barge <- struct{}{}:
		default:
		}
	}
	if atomic.AddInt32(park, -1) >= 0 {
		select {
		case d.entered <- kind:
		default:
		}
		select {
		case <-d.barge:
		case <-time.After(d.hold):
		}
	} else {
		runtime.Gosched()
	}
	d.rec.Lock()
	for i := len(d.running) - 1; i >= 0; i-- {
		if d.running[i] == kind {
			d.running = append(d.running[:i], d.running[i+1:]...)
			break
		}
	}
	d.rec.Unlock()
	atomic.AddInt32(&d.inside, -1)
}

func (d *guardedDest) Write(p []byte) (int, error) {
	d.call("Write", &d.parkWrite, p)
	return len(p), nil
}

func (d *guardedDest) Close() error {
	d.call("Close", &d.parkClose, nil)
	return nil
}

// the same destination as a LevelWriter
type guardedLevelDest struct{ *guardedDest }

func (d guardedLevelDest) WriteLevel(l zerolog.Level, p []byte) (int, error) {
	d.call("WriteLevel", &d.parkWrite, p)
	return len(p), nil
}

type closePipeline struct {
	name  string
	build func(d *guardedDest) (ws []io.Writer, closer io.Closer) // the writers the loggers use (in rotation) and what is closed
}

func closePipelines() []closePipeline {
	asCloser := func(w io.Writer) io.Closer {
		c, _ := w.(io.Closer)
		return c
	}
	return []closePipeline{
		{"sw := SyncWriter(dest), dest an io.Writer + io.Closer; loggers New(sw); sw.Close()", func(d *guardedDest) ([]io.Writer, io.Closer) {
			sw := zerolog.SyncWriter(d)
			return []io.Writer{sw}, asCloser(sw)
		}},
		{"sw := SyncWriter(dest), dest a LevelWriter + io.Closer; loggers New(sw); sw.Close()", func(d *guardedDest) ([]io.Writer, io.Closer) {
			sw := zerolog.SyncWriter(guardedLevelDest{d})
			return []io.Writer{sw}, asCloser(sw)
		}},
		{"inner := SyncWriter(dest); outer := SyncWriter(inner); loggers New(inner) and New(outer) in rotation; outer.Close()", func(d *guardedDest) ([]io.Writer, io.Closer) {
			inner := zerolog.SyncWriter(d)
			outer := zerolog.SyncWriter(inner)
			return []io.Writer{inner, outer}, asCloser(outer)
		}},
		{"sw := SyncWriter(dest); m := MultiLevelWriter(sw); loggers New(m) and New(sw) in rotation; m.Close()", func(d *guardedDest) ([]io.Writer, io.Closer) {
			sw := zerolog.SyncWriter(d)
			m := zerolog.MultiLevelWriter(sw)
			return []io.Writer{m, sw}, asCloser(m)
		}},
		{"sw := SyncWriter(ConsoleWriter{Out: dest, NoColor}); loggers New(sw); sw.Close()", func(d *guardedDest) ([]io.Writer, io.Closer) {
			sw := zerolog.SyncWriter(zerolog.ConsoleWriter{Out: d, NoColor: true, PartsExclude: []string{zerolog.TimestampFieldName}})
			return []io.Writer{sw}, asCloser(sw)
		}},
	}
}

type closeScript struct {
	name                 string
	parkClose, parkWrite int32
	closers              int
	first                string // which call must be inside the destination before the others are released: "Close", "Write", ""
	repeat               int
}

func closeScripts() []closeScript {
	return []closeScript{
		{"close-parked: one goroutine closes; once its Close is inside the destination the loggers start", 1, 0, 1, "Close", 1},
		{"write-parked: one logger's Write is inside the destination; then one goroutine closes (Close takes time too) while the others log", 1, 1, 1, "Write", 1},
		{"two-closes: two goroutines close (the first Close inside the destination) and the loggers start", 2, 0, 2, "Close", 1},
		{"free-running: closers and loggers start together, every call only yields", 0, 0, 2, "", 6},
	}
}

func syncWriterClosers(c *Ctx) {
	const N = 3
	logAll := func(ws []io.Writer, g int) {
		l := zerolog.New(ws[g%len(ws)]).With().Int("g", g).Logger()
		for i := 0; i < N; i++ {
			if i%2 == 0 {
				l.Info().Int("i", i).Msg("m")
			} else {
				child := l.With().Str("kid", "1").Logger()
				child.Warn().Int("i", i).Msg("m")
			}
		}
	}
	runs := 0
	reported := map[string]bool{}
	for pi, pl := range closePipelines() {
		for si, sc := range closeScripts() {
			for _, G := range []int{1, 4} {
				// reference: the same loggers one after the other, nothing closed
				rd := newGuardedDest()
				rws, _ := pl.build(rd)
				for g := 0; g < G; g++ {
					logAll(rws, g)
				}
				want := append([]string{}, rd.lines...)
				sort.Strings(want)
				for rep := 0; rep < sc.repeat; rep++ {
					d := newGuardedDest()
					ws, closer := pl.build(d)
					if closer == nil {
						c.Note("closers: pipeline %d gives no io.Closer", pi)
						continue
					}
					atomic.StoreInt32(&d.parkClose, sc.parkClose)
					atomic.StoreInt32(&d.parkWrite, sc.parkWrite)
					var wg sync.WaitGroup
					goClose := func() {
						wg.Add(1)
						go func() { defer wg.Done(); _ = closer.Close() }()
					}
					goLog := func(g int) {
						wg.Add(1)
						go func() { defer wg.Done(); logAll(ws, g) }()
					}
					waitEntered := func(kind string) {
						deadline := time.After(2 * time.Second)
						for {
							select {
							case k := <-d.entered:
								if k == kind || (kind == "Write" && k == "WriteLevel") {
									return
								}
							case <-deadline:
								return
							}
						}
					}
					first := 0
					switch sc.first {
					case "Close":
						goClose()
						waitEntered("Close")
						for k := 1; k < sc.closers; k++ {
							goClose()
						}
					case "Write":
						goLog(0)
						first = 1
						waitEntered("Write")
						for k := 0; k < sc.closers; k++ {
							goClose()
						}
						if G == 1 {
							// the only logger is the parked one: a second logger supplies the calls that follow
							goLog(1)
						}
					default:
						for k := 0; k < sc.closers; k++ {
							goClose()
						}
					}
					for g := first; g < G; g++ {
						goLog(g)
					}
					wg.Wait()
					runs++
					got := append([]string{}, d.lines...)
					sort.Strings(got)
					exp := want
					if sc.first == "Write" && G == 1 {
						rd2 := newGuardedDest()
						rws2, _ := pl.build(rd2)
						logAll(rws2, 0)
						logAll(rws2, 1)
						exp = append([]string{}, rd2.lines...)
						sort.Strings(exp)
					}
					id := fmt.Sprintf("%d/%d", pi, si)
					cs := map[string]interface{}{"kind": "syncwriter-close", "pipeline": pl.name, "pipeline_index": pi, "script": sc.name, "script_index": si,
						"logging_goroutines": G, "events_each": N, "destination": "Write / WriteLevel / Close count the calls in progress on entry; a parked call waits inside the destination for 3 ms or until another call enters"}
					if ov := atomic.LoadInt64(&d.overlaps); ov != 0 && !reported["o"+id] {
						reported["o"+id] = true
						c.Violate(Violation{Key: "syncwriter-overlap", Monitor: "syncwriter-close",
							Desc:     fmt.Sprintf("the destination behind SyncWriter saw %d call(s) start while another call was still running (%v) - pipeline [%s], script [%s], %d logging goroutine(s)", ov, d.pairs, pl.name, sc.name, G),
							Case:     cs,
							Observed: d.pairs, Expected: "Write, WriteLevel and Close of the wrapped writer never overlap"})
					}
					if !sameLines(got, exp) && !reported["l"+id] {
						reported["l"+id] = true
						c.Violate(Violation{Key: "syncwriter-close-lines", Monitor: "syncwriter-close",
							Desc:     fmt.Sprintf("while the SyncWriter was being closed the destination received %d Write calls %q; the same loggers run one after the other, nothing closed, give %d: %q", len(got), quoteLines(got), len(exp), quoteLines(exp)),
							Case:     cs,
							Observed: got, Expected: exp})
					}
				}
			}
		}
	}
	c.Res.Evaluations += runs * N
	c.Res.ExtraCoverage["syncwriter_close_runs"] = runs
}
