package main

// C06 - concurrent logging: one intact Write per event, independent of the schedule.
// Generated programs are first run alone (reference bytes; the Coq model must
// predict them), then from G goroutines through loggers derived from shared
// parents into one shared writer that checksums its argument on entry and on
// return, delays and sometimes blocks.  Built with the race detector.

import (
	"bytes"
	"fmt"
	"hash/crc32"
	"io"
	"os"
	"path/filepath"
	"runtime"
	"strings"
	"sync"
	"sync/atomic"
	"time"

	"github.com/rs/zerolog"
	zlog "github.com/rs/zerolog/log"
	"verifharness/hlib"
	. "verifharness/hlib"
	"verifharness/progs"
)

func main() { hlib.Main(map[string]func(*hlib.Ctx){"C06": run}) }

type sharedWriter struct {
	mu       sync.Mutex
	lines    [][]byte
	levels   []zerolog.Level
	modified int64
	seed     uint64
}

func (w *sharedWriter) delay(n uint32) {
	switch n % 7 {
	case 0:
		runtime.Gosched()
	case 1:
		time.Sleep(time.Duration(n%40) * time.Microsecond)
	case 2:
		if n%97 == 0 {
			time.Sleep(2 * time.Millisecond) // a writer that blocks for a while
		}
	}
}

func (w *sharedWriter) WriteLevel(l zerolog.Level, p []byte) (int, error) {
	before := crc32.ChecksumIEEE(p)
	cp := append([]byte{}, p...)
	w.delay(before)
	after := crc32.ChecksumIEEE(p)
	if before != after || !bytes.Equal(cp, p) {
		atomic.AddInt64(&w.modified, 1)
	}
	w.mu.Lock()
	w.lines = append(w.lines, cp)
	w.levels = append(w.levels, l)
	w.mu.Unlock()
	return len(p), nil
}
func (w *sharedWriter) Write(p []byte) (int, error) { return w.WriteLevel(zerolog.NoLevel, p) }

// a deliberately non-reentrant writer for SyncWriter
type fragileWriter struct {
	inside   int32
	overlaps int64
	n        int64
}

func (f *fragileWriter) Write(p []byte) (int, error) {
	if atomic.AddInt32(&f.inside, 1) != 1 {
		atomic.AddInt64(&f.overlaps, 1)
	}
	if len(p)%3 == 0 {
		runtime.Gosched()
	}
	atomic.AddInt64(&f.n, 1)
	atomic.AddInt32(&f.inside, -1)
	return len(p), nil
}

func idOf(line []byte) string {
	i := bytes.Index(line, []byte(`"verifid":"`))
	if i < 0 {
		return ""
	}
	rest := line[i+11:]
	j := bytes.IndexByte(rest, '"')
	if j < 0 {
		return ""
	}
	return string(rest[:j])
}

func run(c *Ctx) {
	c.Res.Rule = "programs of the C01 generator (default global settings, no trace marks), each tagged with a unique id field; payload classes: ordinary, > 500 bytes (pooled buffer grows), > 64 KiB (buffer not returned to the pool); first run alone (reference, model-checked), then every program `rounds` times from G in {2,4,16} goroutines through loggers derived from shared parents into one checksumming/delaying/blocking writer; programs a hook or the chain discards stay in the concurrent mix (must write nothing); three of four runs are preceded by the same chain on a FILTERED twin of the logger (Level(Disabled) / a sampler that admits nothing / Nop()), which is handed the same pooled arguments and must write nothing; plus SyncWriter over a non-reentrant writer and the global logger; SyncWriter closed while goroutines log (closers.go: a destination whose Write / WriteLevel / Close count the calls in progress and take time; 5 pipelines - over an io.Writer, over a LevelWriter, nested, closed through a MultiLevelWriter, over a ConsoleWriter - x 4 scripts - Close inside the destination before the loggers start, a Write inside the destination before Close and the other loggers start, two closers, free-running - x 1|4 logging goroutines: no overlapping calls, every event exactly once as run alone); plus directed sweeps (directed.go): a table of 58 call chains (13 leave per-event state on the pooled Event: stack flag, skip-frame count, context, hooks, Disabled level, grown / oversized buffer; 24 hand pooled arguments - Arr(), Dict(), arrays of pooled Dict / Object / Err, array and object marshalers, Errs, Fields, grown arrays - to a FILTERED event: logger level, Disabled level, a sampler that admits nothing, the Nop logger, a nil writer, after Discard(), a child below its parent's level; 21 draw pooled events / arrays outside a Logger: prebuilt / nested Dict, scratch events of Fields / Errs / Array.Err / Array.Object / Context.Object, Dict().Caller(), GetCtx, Arr() plain / empty / held across a yield / through a LogArrayMarshaler / in a context / inside an object) under a configured ErrorStackMarshaler, every state-leaving chain run 1..2 times before every other chain on emptied pools (sequential histories) and the whole table from 4 and 16 goroutines, each line compared with the chain alone on emptied pools; scripted schedules under GOMAXPROCS(1): goroutine A parked inside a hook of its event (9 hook orders over discard / add-field / park) while goroutine B completes 1..2 events, or starts an event before and finishes it after A resumes (12 modes); 60 generated programs under Settings with a stack marshaler (a third with Stack().Err, a third with errors inside Dict / Fields / Array) run alone on emptied pools, sequentially with history and from 8 goroutines; faults on the way to the destination (faults.go): 5 pipelines (Logger, SyncWriter, ConsoleWriter plain / with FormatPrepare+FormatFieldValue+FormatExtra, SyncWriter over that) x one event that meets a fault (the destination answers (0,err) / (n/2,err) / (n/2,nil) / (0,nil) / (n,err); a formatter fails before / after rendering or panics and is recovered) after 0 / 2 warm events, followed by two events through the same pipeline and one through a second pipeline sharing only the package pools, every Write compared with the event alone on emptied pools; the same pipelines from 6 goroutines into a destination refusing every 4th call (both watched: a logging call that does not come back for 5 s is a lost event); a destination behind SyncWriter that panics and a caller that recovers (panics.go: 7 pipelines - SyncWriter over an io.Writer / a LevelWriter, nested, behind and around a MultiLevelWriter, around a ConsoleWriter, around a ConsoleWriter whose formatter panics on a poisoned event - x 5 schedules - the 1st / 3rd / 2nd and 5th Write or WriteLevel of the destination panics, its Close panics before or while the loggers log - x 1|4 goroutines x 6 events, every call under recover(): every goroutine finishes (no progress for 5 s = violation; at most 2 scenarios of a run may hang), no overlapping calls, the destination is handed every event exactly once as logged alone); children of one shared parent derived with a hook inside the goroutine that uses them (hookkids.go: 11 parents - 0..7 hooks added one call at a time, three in one call, a With().Timestamp() hook, an Output copy - x 6 derivations - Hook / With().Logger().Hook / Level().Hook / Hook(h,h2) / With().Timestamp().Logger().Hook / Hook().Hook - x 6 goroutines, all children made before the first logs; every line as the chain run alone); a BasicSampler{1,2,3,5} shared by a logger, a child and a copy from 8 goroutines (one intact Write per admitted event); race detector on. Non-trivial = program with nesting (Dict/Array/Object/hooks) or a grown buffer"
	c.OpenShards("From Verif Require Import Base.Prelude Base.Decimal Enc.JsonEnc Misc.Level Api.Exec Harness.C01H Harness.C06H.", "c01_case * option bytes", "mismatches c06_run c06_eqb", 30)
	nprog := 120
	rounds := 3
	if c.Thorough() {
		nprog, rounds = 1500, 5
	}
	s := progs.DefaultSettings()
	now := time.Unix(1700000000, 5000).UTC()
	var cases []*progs.Case
	ref := map[string][]byte{}
	discarded := map[string]bool{} // programs a hook (or the chain) discards: run concurrently as well, must write nothing
	for i := 0; i < nprog; i++ {
		g := &progs.Gen{R: c.R.Fork(), NoMarks: true, S: s, Now: now}
		cs := g.GenCase(3)
		cs.S = s
		cs.Now = now
		// timestamps inside the program were generated with g.Now before we fixed it: regenerate with the fixed clock
		g2 := &progs.Gen{R: c.R.Fork(), NoMarks: true, S: s, Now: now}
		cs.Steps = nil
		for k := g2.R.Intn(3); k > 0; k-- {
			st := progs.Step{Noise: g2.R.Intn(5)}
			st.Cops = g2.GenCopsPublic(2, 3)
			cs.Steps = append(cs.Steps, st)
		}
		cs.Ops = g2.GenOps(3, 6)
		id := fmt.Sprintf("c%d", i)
		idp := progs.Prim{M: "Str", V: id}
		cs.Ops = append([]progs.Op{{K: "key", Key: []byte("verifid"), P: &idp}}, cs.Ops...)
		if i%9 == 4 {
			// a Fields call whose []error holds several marshaler errors (each is encoded through a pooled helper event)
			var es []*progs.ErrV
			for k := 2 + g2.R.Intn(2); k > 0; k-- {
				es = append(es, &progs.ErrV{K: "obj", Ops: g2.GenOps(1, 2)})
			}
			cs.Ops = append(cs.Ops, progs.Op{K: "fields", KVs: []progs.FieldKV{{Key: []byte("errs"), K: "errs", Es: es}}})
			dp := progs.Prim{M: "Int", V: i}
			cs.Ops = append(cs.Ops, progs.Op{K: "dict", Key: []byte("after"), Sub: []progs.Op{{K: "key", Key: []byte("n"), P: &dp}}})
		}
		switch {
		case i%17 == 3:
			big := progs.Prim{M: "Str", V: string(bytes.Repeat([]byte("x\"y"), 250))}
			cs.Ops = append(cs.Ops, progs.Op{K: "key", Key: []byte("big"), P: &big})
		case i%53 == 7:
			big := progs.Prim{M: "Bytes", V: bytes.Repeat([]byte("z"), 70000)}
			cs.Ops = append(cs.Ops, progs.Op{K: "key", Key: []byte("huge"), P: &big})
		}
		if cs.Level == 5 || cs.Level == 4 {
			cs.Level = 1
		}
		o := cs.Run()
		if o.Panic != nil {
			c.Violate(Violation{Key: "logging-call-panicked", Monitor: "no-panic", Desc: fmt.Sprintf("a logging call chain panicked (run alone, after the earlier chains of this run had used the pools): %v", o.Panic), Case: cs.Describe()})
			continue
		}
		if !o.Written {
			// discarded by a hook or by the chain: no line to compare, but the chain still runs in the concurrent
			// mix below (a discarded event must stay silent there too and must not disturb the others)
			discarded[id] = true
			cases = append(cases, cs)
			c.Hist("discarded_programs", "1")
			continue
		}
		ref[id] = o.Line
		line := "(Some " + CoqBytes(o.Line) + ")"
		term := cs.Coq(o)
		// cs.Coq prints ((case), (line, marks)): rebuild as ((case), line)
		k := bytes.LastIndex([]byte(term), []byte(", ("))
		term = term[:k] + ", " + line + ")"
		c.AddCase(term, map[string]interface{}{"id": id, "case": cs.Describe()})
		cases = append(cases, cs)
		nested := false
		for _, op := range cs.Ops {
			if op.K != "key" {
				nested = true
			}
		}
		c.Count(term, nested || len(o.Line) > 500)
		c.Hist("line_bytes", fmt.Sprintf("%d", sizeClass(len(o.Line))))
		c.Sample(map[string]interface{}{"id": id, "line_bytes": len(o.Line), "ops": progs.DescribeOps(cs.Ops)})
	}

	// ---- no pooled event is handed back twice (checked without any concurrency: a doubly-put object is
	//      returned twice by the pool) ----
	{
		restore0 := s.Apply()
		zerolog.TimestampFunc = func() time.Time { return now }
		zerolog.SetGlobalLevel(zerolog.Level(-128))
		old := runtime.GOMAXPROCS(1)
		dups := 0
		var first *progs.Case
		for _, cs := range cases {
			func() {
				defer func() {
					if r := recover(); r != nil && first == nil {
						first = cs
						dups = -1
					}
				}()
				l := zerolog.New(&sharedWriter{}).Level(zerolog.Level(-128))
				e := l.WithLevel(zerolog.Level(cs.Level))
				progs.ApplyEvent(e, cs.Ops)
				e.Msg(string(cs.Msg))
				if d := zerolog.VerifDrainEventPool(32); d > 0 && first == nil {
					dups += d
					first = cs
				}
			}()
		}
		runtime.GOMAXPROCS(old)
		restore0()
		zerolog.SetGlobalLevel(zerolog.DebugLevel)
		if first != nil {
			c.Violate(Violation{Key: "pooled-event-put-twice", Monitor: "pool-drain", Desc: fmt.Sprintf("after this chain the event pool returned the same *Event object %d time(s) more than once: it was handed back to the pool twice, so two later events would share one buffer", dups), Case: first.Describe()})
		}
	}

	// ---- concurrent runs ----
	concurrent := func(s progs.Settings, cases []*progs.Case, ref map[string][]byte, discarded map[string]bool, Gs []int) {
		restore := s.Apply()
		zerolog.TimestampFunc = func() time.Time { return now }
		zerolog.SetGlobalLevel(zerolog.Level(-128))
		for _, G := range Gs {
			w := &sharedWriter{}
			root := zerolog.New(w).Level(zerolog.Level(-128))
			// loggers are derived from the shared root before the goroutines start and also inside them
			loggers := make([]zerolog.Logger, len(cases))
			for i, cs := range cases {
				l := root
				for _, st := range cs.Steps {
					l = progs.ApplyStep(l, st, w)
				}
				loggers[i] = l
			}
			var wg sync.WaitGroup
			var panics int64
			var pmu sync.Mutex
			var panicCase *progs.Case
			var panicVal interface{}
			stop := make(chan struct{})
			// a goroutine hammering the atomics behind global level / sampling switch with the values already in force
			go func() {
				for {
					select {
					case <-stop:
						return
					default:
						zerolog.SetGlobalLevel(zerolog.Level(-128))
						zerolog.DisableSampling(false)
						runtime.Gosched()
					}
				}
			}()
			for g := 0; g < G; g++ {
				wg.Add(1)
				go func(g int) {
					defer wg.Done()
					for r := 0; r < rounds; r++ {
						for i := g; i < len(cases); i += G {
							cs := cases[(i+r*7)%len(cases)]
							idx := (i + r*7) % len(cases)
							l := loggers[idx]
							if (i+r)%3 == 0 {
								l = l.With().Logger() // derive a child inside the goroutine as well
							}
							emit := func(l zerolog.Logger) {
								defer func() {
									if r := recover(); r != nil {
										atomic.AddInt64(&panics, 1)
										pmu.Lock()
										if panicCase == nil {
											panicCase, panicVal = cs, r
										}
										pmu.Unlock()
									}
								}()
								e := l.WithLevel(zerolog.Level(cs.Level))
								progs.ApplyEvent(e, cs.Ops)
								e.Msg(string(cs.Msg))
							}
							// the same chain on a FILTERED twin of the logger first (level above every event's / a sampler
							// that admits nothing / the Nop logger): it is handed the same pooled arguments (Arr(), Dict(),
							// marshalers), must write nothing, and what it gives back to the pools must not show in any
							// other goroutine's event
							mode := (idx + r + g) % 4
							if mode == 0 && zerolog.Level(cs.Level) >= zerolog.Disabled {
								mode = 1 // a level beyond Disabled passes Level(Disabled): not a filtered event
							}
							switch mode {
							case 0:
								emit(l.Level(zerolog.Disabled))
							case 1:
								emit(l.Sample(rejectSampler{}))
							case 2:
								emit(zerolog.Nop())
							}
							emit(l)
						}
					}
				}(g)
			}
			wg.Wait()
			close(stop)
			if panics != 0 {
				c.Violate(Violation{Key: "logging-call-panicked", Monitor: "no-panic-concurrent", Desc: fmt.Sprintf("G=%d: %d logging calls panicked while other goroutines were logging (first: %v): pooled buffers are shared between events", G, panics, panicVal), Case: panicCase.Describe()})
			}
			if m := atomic.LoadInt64(&w.modified); m != 0 {
				c.Violate(Violation{Key: "buffer-modified-during-write", Monitor: "checksum-on-entry-and-return", Desc: fmt.Sprintf("%d Write calls saw their argument change before they returned (G=%d)", m, G), Case: map[string]interface{}{"goroutines": G}})
			}
			got := map[string]int{}
			for _, ln := range w.lines {
				id := idOf(ln)
				want, ok := ref[id]
				if discarded[id] {
					c.Violate(Violation{Key: "discarded-event-written", Monitor: "concurrent-multiset", Desc: fmt.Sprintf("G=%d: event %s is discarded (by a hook or in its chain) and writes nothing when run alone, but a line carrying its id reached the writer while other goroutines were logging: %.200q", G, id, ln), Case: map[string]interface{}{"goroutines": G, "id": id, "program": describeByID(cases, id)}})
					continue
				}
				if !ok {
					c.Violate(Violation{Key: "unknown-or-torn-line", Monitor: "concurrent-multiset", Desc: fmt.Sprintf("G=%d: a written line carries no known id: %.200q", G, ln), Case: map[string]interface{}{"goroutines": G}})
					continue
				}
				got[id]++
				if !bytes.Equal(want, ln) {
					c.Violate(Violation{Key: "line-differs-from-sequential", Monitor: "concurrent-multiset", Desc: fmt.Sprintf("G=%d: event %s written concurrently differs from the same call chain run alone", G, id), Case: map[string]interface{}{"goroutines": G, "id": id, "settings": fmt.Sprintf("%+v", s), "program": describeByID(cases, id)}, Observed: fmt.Sprintf("%.300q", ln), Expected: fmt.Sprintf("%.300q", want)})
				}
			}
			// each goroutine g runs indices i = g, g+G, ...; every index is run `rounds` times in total (shifted)
			total := 0
			for _, n := range got {
				total += n
			}
			expected := 0 // every program is run once per round (the shift is a permutation); discarded ones write nothing
			for _, cs := range cases {
				if !discarded[caseID(cs)] {
					expected += rounds
				}
			}
			if total != expected {
				c.Violate(Violation{Key: "write-count", Monitor: "concurrent-multiset", Desc: fmt.Sprintf("G=%d: %d events emitted, %d Write calls with a known id", G, expected, total), Case: map[string]interface{}{"goroutines": G}, Observed: total, Expected: expected})
			}
			c.Res.Evaluations += expected
			c.Hist("goroutines", fmt.Sprint(G))
		}
		restore()
		zerolog.SetGlobalLevel(zerolog.DebugLevel)
	}
	// the directed sweeps run first: their witnesses (a two-chain history, a scripted schedule) are the easiest to read
	scriptedHookInterleavings(c)
	directedHistories(c)
	syncWriterPanics(c)
	faultHistories(c)
	faultConcurrent(c)
	sampledLoggers(c)
	concurrent(s, cases, ref, discarded, []int{2, 4, 16})
	stackSettingsPrograms(c, now, rounds, concurrent)

	// ---- SyncWriter over a writer that must never be entered twice ----
	{
		fw := &fragileWriter{}
		l := zerolog.New(zerolog.SyncWriter(fw))
		var wg sync.WaitGroup
		for g := 0; g < 8; g++ {
			wg.Add(1)
			go func(g int) {
				defer wg.Done()
				for i := 0; i < 400; i++ {
					l.Info().Int("g", g).Int("i", i).Msg("sync")
				}
			}(g)
		}
		wg.Wait()
		if fw.overlaps != 0 || fw.n != 3200 {
			c.Violate(Violation{Key: "syncwriter-overlap", Monitor: "syncwriter", Desc: fmt.Sprintf("SyncWriter: %d overlapping calls, %d of 3200 writes", fw.overlaps, fw.n), Case: "8 goroutines x 400 events through zerolog.SyncWriter"})
		}
		c.Res.Evaluations += 3200
	}
	// ---- SyncWriter wrapped again (e.g. a child logger's Output(SyncWriter(appWriter))): still one call at a time ----
	{
		fw := &fragileWriter{}
		appW := zerolog.SyncWriter(fw)
		app := zerolog.New(appW)
		child := app.Output(zerolog.SyncWriter(appW))
		var wg sync.WaitGroup
		for g := 0; g < 8; g++ {
			wg.Add(1)
			go func(g int) {
				defer wg.Done()
				for i := 0; i < 300; i++ {
					if (g+i)%2 == 0 {
						app.Info().Int("g", g).Int("i", i).Msg("app")
					} else {
						child.Info().Int("g", g).Int("i", i).Msg("child")
					}
				}
			}(g)
		}
		wg.Wait()
		if fw.overlaps != 0 || fw.n != 2400 {
			c.Violate(Violation{Key: "syncwriter-overlap", Monitor: "syncwriter-nested", Desc: fmt.Sprintf("SyncWriter(SyncWriter(w)) used next to SyncWriter(w): %d overlapping calls into w, %d of 2400 writes", fw.overlaps, fw.n), Case: "app := New(SyncWriter(w)); child := app.Output(SyncWriter(SyncWriter(w) as above)); 8 goroutines alternate"})
		}
		c.Res.Evaluations += 2400
	}
	// ---- SyncWriter being closed while goroutines log: Write / WriteLevel / Close of the destination never overlap (closers.go) ----
	syncWriterClosers(c)
	// ---- children of one shared parent, one per goroutine; parent contexts below and above the 500-byte buffer ----
	{
		zerolog.SetGlobalLevel(zerolog.Level(-128))
		for _, size := range []int{10, 480, 600, 5000} {
			mkParent := func(w io.Writer) zerolog.Logger {
				return zerolog.New(w).With().Str("pad", strings.Repeat("p", size)).Logger()
			}
			const G, N = 8, 40
			// reference: each child alone, from a parent of its own
			want := map[string]bool{}
			for g := 0; g < G; g++ {
				rw := &sharedWriter{}
				child := mkParent(rw).With().Int("g", g).Str("own", fmt.Sprintf("child-%d", g)).Logger()
				for i := 0; i < N; i++ {
					child.Info().Int("i", i).Msg("m")
				}
				for _, ln := range rw.lines {
					want[string(ln)] = true
				}
			}
			w := &sharedWriter{}
			parent := mkParent(w)
			var wg sync.WaitGroup
			start := make(chan struct{})
			for g := 0; g < G; g++ {
				wg.Add(1)
				go func(g int) {
					defer wg.Done()
					child := parent.With().Int("g", g).Str("own", fmt.Sprintf("child-%d", g)).Logger()
					<-start // every child exists before the first one logs
					for i := 0; i < N; i++ {
						child.Info().Int("i", i).Msg("m")
					}
				}(g)
			}
			time.Sleep(2 * time.Millisecond)
			close(start)
			wg.Wait()
			bad, seen := 0, map[string]bool{}
			var example string
			for _, ln := range w.lines {
				if !want[string(ln)] || seen[string(ln)] {
					bad++
					if example == "" {
						example = fmt.Sprintf("%.120q", ln[len(ln)-min(len(ln), 110):])
					}
				}
				seen[string(ln)] = true
			}
			if bad != 0 || len(w.lines) != G*N || w.modified != 0 {
				c.Violate(Violation{Key: "sibling-children-mixed", Monitor: "children-of-shared-parent", Desc: fmt.Sprintf("%d goroutines, each with its own child of one shared parent (parent context %d bytes): %d of %d lines differ from the same chain run alone or repeat (e.g. ...%s), %d writes, %d modified during Write", G, size, bad, G*N, example, len(w.lines), w.modified),
					Case: map[string]interface{}{"parent_context_bytes": size, "goroutines": G, "events_each": N}})
			}
			c.Res.Evaluations += G * N
		}
		zerolog.SetGlobalLevel(zerolog.DebugLevel)
	}
	// ---- children of one shared parent derived with Hook() inside the goroutines that use them (hookkids.go) ----
	sharedParentHookChildren(c)
	// ---- a ConsoleWriter in front of the shared destination: what it hands to Out stays intact until Out.Write returns ----
	{
		const G, N = 8, 60
		render := func(w io.Writer, g, i int) {
			l := zerolog.New(zerolog.ConsoleWriter{Out: w, NoColor: true, PartsExclude: []string{zerolog.TimestampFieldName}})
			l.Info().Int("g", g).Int("i", i).Str("pad", strings.Repeat("c", (g*7+i)%90)).Msg("console")
		}
		want := map[string]bool{}
		for g := 0; g < G; g++ {
			for i := 0; i < N; i++ {
				rw := &sharedWriter{}
				render(rw, g, i)
				for _, ln := range rw.lines {
					want[string(ln)] = true
				}
			}
		}
		w := &sharedWriter{}
		var wg sync.WaitGroup
		for g := 0; g < G; g++ {
			wg.Add(1)
			go func(g int) {
				defer wg.Done()
				for i := 0; i < N; i++ {
					render(w, g, i)
				}
			}(g)
		}
		wg.Wait()
		bad, seen := 0, map[string]bool{}
		var example string
		for _, ln := range w.lines {
			if !want[string(ln)] || seen[string(ln)] {
				bad++
				if example == "" {
					example = fmt.Sprintf("%.140q", ln)
				}
			}
			seen[string(ln)] = true
		}
		if bad != 0 || len(w.lines) != G*N || w.modified != 0 {
			c.Violate(Violation{Key: "console-writer-buffer-reused-during-write", Monitor: "console-writer-concurrent", Desc: fmt.Sprintf("%d goroutines x %d events through ConsoleWriter into a destination that delays: %d lines differ from the sequential rendering or repeat (e.g. %s), %d writes, %d arguments modified before Out.Write returned", G, N, bad, example, len(w.lines), w.modified),
				Case: map[string]interface{}{"goroutines": G, "events_each": N}})
		}
		c.Res.Evaluations += G * N
	}
	// ---- the global logger ----
	{
		w := &sharedWriter{}
		old := zlog.Logger
		zlog.Logger = zerolog.New(w)
		var wg sync.WaitGroup
		for g := 0; g < 8; g++ {
			wg.Add(1)
			go func(g int) {
				defer wg.Done()
				for i := 0; i < 200; i++ {
					zlog.Info().Int("g", g).Int("i", i).Msg("global")
				}
			}(g)
		}
		wg.Wait()
		zlog.Logger = old
		seen := map[string]bool{}
		for _, ln := range w.lines {
			seen[string(ln)] = true
		}
		if len(w.lines) != 1600 || len(seen) != 1600 || w.modified != 0 {
			c.Violate(Violation{Key: "global-logger-lines", Monitor: "global-logger", Desc: fmt.Sprintf("global logger: %d writes, %d distinct, %d modified-during-write; want 1600 distinct intact", len(w.lines), len(seen), w.modified), Case: "8 goroutines x 200 events through log.Info()"})
		}
		c.Res.Evaluations += 1600
	}
	// ---- race reports ----
	if dir := os.Getenv("VERIF_WORK"); dir != "" {
		files, _ := filepath.Glob(filepath.Join(dir, "race.*"))
		for _, f := range files {
			b, _ := os.ReadFile(f)
			if len(b) > 0 {
				if len(b) > 3000 {
					b = b[:3000]
				}
				desc := "the race detector reported a data race while goroutines logged concurrently"
				if n := atomic.LoadInt32(&hungScenarios); n > 0 {
					desc += fmt.Sprintf(" (note: %d panic scenario(s) of this run hung, reported separately, and left goroutines blocked inside a logging call; a report whose write is the harness emptying the pools - VerifC06FreshPools - against a read of one of those goroutines is a consequence of that)", n)
				}
				c.Violate(Violation{Key: "data-race", Monitor: "go-race-detector", Desc: desc, Case: string(b)})
				break
			}
		}
		c.Res.ExtraCoverage["race_detector"] = raceEnabled
	}
}

// the id every program carries as its first field
func caseID(cs *progs.Case) string {
	if len(cs.Ops) > 0 && cs.Ops[0].P != nil {
		if v, ok := cs.Ops[0].P.V.(string); ok {
			return v
		}
	}
	return ""
}

func describeByID(cases []*progs.Case, id string) interface{} {
	for _, cs := range cases {
		if caseID(cs) == id {
			return cs.Describe()
		}
	}
	return nil
}

func sizeClass(n int) int {
	switch {
	case n <= 500:
		return 500
	case n <= 65536:
		return 65536
	}
	return 1 << 20
}
