package main

// Directed inputs for C06: faults on the way to the destination.
//
// "the destination receives exactly one Write per emitted event, each carrying one complete event byte-identical to
// what the same call chain produces when run alone; nothing is lost, duplicated, torn or mixed between events".
// Every wrapper between the Logger and the destination that renders into a pooled buffer (the Event itself,
// ConsoleWriter's consoleBufPool) has error paths: the destination returns an error, a short count, or both; a
// formatter of the ConsoleWriter fails before / after something was rendered, or panics and the caller recovers.
// Whatever was rendered for the event that met the fault must not travel with a later event (of the same
// goroutine, of another writer value sharing the pool, of another goroutine), must not be retried as a second
// Write, and the later events must arrive exactly as when run alone.
//
//   faultHistories:  sequential (GOMAXPROCS(1), pools emptied): 0 / 2 warm events, ONE event that meets a fault
//                    (5 destination answers x every pipeline; 4 formatter faults x the ConsoleWriter pipelines),
//                    then two events through the same pipeline and one through a second pipeline of its own
//                    (same package pools, healthy destination).
//   faultConcurrent: the same pipelines from 6 goroutines into a destination that refuses every 4th call with the
//                    answers in rotation, every 7th event carrying a formatter fault.
//   sampledLoggers:  a BasicSampler shared by a logger, its children and copies under G goroutines: one intact
//                    Write per event THE SAMPLER ADMITTED (how many it must admit is C13's subject, not C06's).

import (
	"bytes"
	"errors"
	"fmt"
	"io"
	"runtime"
	"strings"
	"sync"
	"sync/atomic"

	"github.com/rs/zerolog"
	. "verifharness/hlib"
)

var errRefused = errors.New("verif: destination refused the write")
var errFormatter = errors.New("verif: formatter failed")

const formatterPanic = "verif: formatter panicked"

// ---------------------------------------------------------------- a destination that answers some calls with a fault
type outFault struct {
	name, src string
	answer    func(p []byte) (int, error)
}

func outFaults() []outFault {
	return []outFault{
		{"err-0", "returns (0, err)", func(p []byte) (int, error) { return 0, errRefused }},
		{"err-half", "returns (len(p)/2, err)", func(p []byte) (int, error) { return len(p) / 2, errRefused }},
		{"short-half", "returns (len(p)/2, nil): a short count without an error", func(p []byte) (int, error) { return len(p) / 2, nil }},
		{"short-0", "returns (0, nil)", func(p []byte) (int, error) { return 0, nil }},
		{"err-full", "returns (len(p), err)", func(p []byte) (int, error) { return len(p), errRefused }},
	}
}

type faultW struct {
	mu     sync.Mutex
	calls  []string
	faults []outFault
	// faultAt decides, from the 1-based number of the call, which fault (index into faults) answers it; < 0 = healthy
	faultAt func(n int) int
}

func (w *faultW) Write(p []byte) (int, error) {
	w.mu.Lock()
	w.calls = append(w.calls, string(p)) // copied on entry
	n := len(w.calls)
	w.mu.Unlock()
	if w.faultAt != nil {
		if k := w.faultAt(n); k >= 0 {
			return w.faults[k].answer(p)
		}
	}
	return len(p), nil
}

// ---------------------------------------------------------------- pipelines: how a Logger reaches the destination
type pipeline struct {
	name, src string
	console   bool // renders through ConsoleWriter with the fault-aware formatters
	mk        func(out io.Writer) zerolog.Logger
}

// the formatters react to fields of the event itself, so a pipeline value is the same in the reference run and in
// the history
func hookedConsole(out io.Writer) zerolog.ConsoleWriter {
	return zerolog.ConsoleWriter{
		Out: out,
		FormatPrepare: func(evt map[string]interface{}) error {
			if evt["fault"] == "prepare-fails" {
				return errFormatter
			}
			return nil
		},
		FormatFieldValue: func(i interface{}) string {
			if s, ok := i.(string); ok && s == "panic-value" {
				panic(formatterPanic)
			}
			return fmt.Sprintf("%s", i)
		},
		FormatExtra: func(evt map[string]interface{}, buf *bytes.Buffer) error {
			switch evt["fault"] {
			case "extra-fails-early":
				return errFormatter
			case "extra-fails-late":
				buf.WriteString(" half-an-extra")
				return errFormatter
			}
			buf.WriteString(" extra=1")
			return nil
		},
	}
}

func pipelines() []pipeline {
	return []pipeline{
		{"logger", `zerolog.New(dest)`, false, func(out io.Writer) zerolog.Logger { return zerolog.New(out) }},
		{"syncwriter", `zerolog.New(zerolog.SyncWriter(dest))`, false, func(out io.Writer) zerolog.Logger { return zerolog.New(zerolog.SyncWriter(out)) }},
		{"console", `zerolog.New(zerolog.ConsoleWriter{Out: dest, NoColor: true, PartsExclude: []string{"time"}})`, false, func(out io.Writer) zerolog.Logger {
			return zerolog.New(zerolog.ConsoleWriter{Out: out, NoColor: true, PartsExclude: []string{zerolog.TimestampFieldName}})
		}},
		{"console-formatters", `zerolog.New(zerolog.ConsoleWriter{Out: dest, FormatPrepare: fails on fault=prepare-fails, FormatFieldValue: panics on "panic-value", FormatExtra: appends " extra=1" / fails before or after writing on fault=extra-fails-early / -late})`, true, func(out io.Writer) zerolog.Logger {
			return zerolog.New(hookedConsole(out))
		}},
		{"syncwriter-console-formatters", `zerolog.New(zerolog.SyncWriter(ConsoleWriter as in console-formatters))`, true, func(out io.Writer) zerolog.Logger {
			return zerolog.New(zerolog.SyncWriter(hookedConsole(out)))
		}},
	}
}

var formatterFaults = []string{"prepare-fails", "extra-fails-early", "extra-fails-late", "formatter-panics"}

// emitSlot logs the event of one slot; fault is "" or the name of a formatter fault the event carries.
// A panic other than the formatter's own is returned.
func emitSlot(l zerolog.Logger, slot string, k int, fault string) (pv interface{}) {
	defer func() {
		if r := recover(); r != nil && r != formatterPanic {
			pv = r
		}
	}()
	e := l.Info().Str("verifid", slot).Int("k", k).Str("pad", strings.Repeat("p", (k*37)%150))
	if fault != "" {
		e.Str("fault", fault)
	}
	if k%3 == 0 {
		e.Dict("d", zerolog.Dict().Int("n", k).Str("s", slot))
	}
	if fault == "formatter-panics" {
		e.Str("zz", "panic-value")
	}
	e.Msg("m-" + slot)
	return nil
}

func slotSrc(slot string, k int, fault string) string {
	s := fmt.Sprintf(`e := l.Info().Str("verifid", %q).Int("k", %d).Str("pad", %d x "p")`, slot, k, (k*37)%150)
	if fault != "" {
		s += fmt.Sprintf(`; e.Str("fault", %q)`, fault)
	}
	if k%3 == 0 {
		s += fmt.Sprintf(`; e.Dict("d", Dict().Int("n", %d).Str("s", %q))`, k, slot)
	}
	if fault == "formatter-panics" {
		s += `; e.Str("zz", "panic-value")`
	}
	return s + fmt.Sprintf(`; e.Msg(%q)`, "m-"+slot)
}

func freshAll() {
	zerolog.VerifC06FreshPools()
	zerolog.VerifC06FreshConsolePool()
}

// alone: what the destination is handed when the slot's event is the only one ever logged (pools emptied, a
// healthy destination: the bytes handed over do not depend on what the destination answers afterwards)
func alone(p *pipeline, slot string, k int, fault string) ([]string, interface{}) {
	freshAll()
	w := &faultW{}
	pv := emitSlot(p.mk(w), slot, k, fault)
	return w.calls, pv
}

type slotT struct {
	slot  string
	k     int
	fault string // formatter fault carried by the event
}

func faultHistories(c *Ctx) {
	oldH := zerolog.ErrorHandler
	zerolog.ErrorHandler = func(error) {}
	defer func() { zerolog.ErrorHandler = oldH }()
	zerolog.SetGlobalLevel(zerolog.DebugLevel)
	oldProcs := runtime.GOMAXPROCS(1)
	defer runtime.GOMAXPROCS(oldProcs)
	pipes := pipelines()
	outs := outFaults()
	reps := 4 // under the race detector sync.Pool drops a quarter of the Puts at random
	if c.Thorough() {
		reps = 12
	}
	histories := 0
	for pi := range pipes {
		p := &pipes[pi]
		other := &pipes[(pi+2)%len(pipes)] // the second pipeline of the history: shares the package's pools only
		if p.console {
			other = &pipes[2]
		}
		type faultCase struct {
			name, src string
			out       int    // index into outs, or -1
			fmtFault  string // or ""
		}
		var fcs []faultCase
		for oi, of := range outs {
			fcs = append(fcs, faultCase{"destination-" + of.name, "the destination " + of.src + " for this one call", oi, ""})
		}
		if p.console {
			for _, ff := range formatterFaults {
				fcs = append(fcs, faultCase{ff, "the event carries fault=" + ff + " (see the pipeline's formatters); the caller recovers the formatter's panic", -1, ff})
			}
		}
		for _, fc := range fcs {
			for _, warm := range []int{0, 2} {
				// the slots of the history, in order; `mine` = through p into the faulting destination
				var seq []slotT
				for i := 0; i < warm; i++ {
					seq = append(seq, slotT{fmt.Sprintf("w%d", i), 3 + i, ""})
				}
				faultPos := len(seq)
				seq = append(seq, slotT{"f", 7, fc.fmtFault})
				seq = append(seq, slotT{"v0", 1, ""}, slotT{"o0", 5, ""}, slotT{"v1", 9, ""})
				// references first, every slot alone
				refs := make([][]string, len(seq))
				var steps []string
				broken := false
				for i, sl := range seq {
					pp := p
					if sl.slot == "o0" {
						pp = other
					}
					r, pv := alone(pp, sl.slot, sl.k, sl.fault)
					if pv != nil {
						c.Violate(Violation{Key: "logging-call-panicked", Monitor: "fault-history-sequential", Desc: fmt.Sprintf("a logging call panicked when run alone: %v", pv), Case: map[string]interface{}{"pipeline": pp.src, "chain": slotSrc(sl.slot, sl.k, sl.fault)}})
						broken = true
					}
					refs[i] = r
					who := "l"
					if sl.slot == "o0" {
						who = "l2"
					}
					st := strings.Replace(slotSrc(sl.slot, sl.k, sl.fault), "l.Info()", who+".Info()", 1)
					if i == faultPos {
						st += "    <- " + fc.src
					}
					steps = append(steps, st)
				}
				if broken {
					continue
				}
				for rep := 0; rep < reps; rep++ {
					freshAll()
					w := &faultW{faults: outs}
					if fc.out >= 0 {
						at, k := faultPos+1, fc.out
						w.faultAt = func(n int) int {
							if n == at {
								return k
							}
							return -1
						}
					}
					w2 := &faultW{}
					l, l2 := p.mk(w), other.mk(w2)
					var want, want2 []string
					var pv interface{}
					for i, sl := range seq {
						if sl.slot == "o0" {
							want2 = append(want2, refs[i]...)
						} else {
							want = append(want, refs[i]...)
						}
					}
					desc := map[string]interface{}{"l :=": p.src, "l2 :=": other.src + "   (a destination of its own that never fails)", "history (one goroutine, GOMAXPROCS(1), event / array / console pools emptied first; ErrorHandler is a no-op)": steps, "fault": fc.src}
					if fc.fmtFault == "formatter-panics" && tooManyHung() {
						break // earlier panic scenarios of this run hung and left their goroutines behind: no more of them
					}
					// the history runs on a goroutine of its own, watched: an event that never comes back (a lock still
					// held after the recovered panic of the event before it) is a lost event, not a hung check
					var progress int64
					if !runWatched(func() {
						for _, sl := range seq {
							ll := l
							if sl.slot == "o0" {
								ll = l2
							}
							if r := emitSlot(ll, sl.slot, sl.k, sl.fault); r != nil {
								pv = r
							}
							atomic.AddInt64(&progress, 1)
						}
					}, &progress, stallLimit) {
						histories++
						n := int(atomic.LoadInt64(&progress))
						c.Violate(Violation{Key: "logging-call-blocked-after-fault", Monitor: "fault-history-sequential", Desc: fmt.Sprintf("pipeline %s; one event meets a fault (%s); the logging call of step %d of the history (0-based) did not come back within %v: that event and every later one through this pipeline are lost", p.name, fc.name, n, stallLimit), Case: desc, Observed: fmt.Sprintf("steps 0..%d returned, step %d blocked", n-1, n), Expected: "every logging call returns and its event reaches the destination"})
						break
					}
					histories++
					if pv != nil {
						c.Violate(Violation{Key: "logging-call-panicked", Monitor: "fault-history-sequential", Desc: fmt.Sprintf("pipeline %s, fault %s: a logging call of the history panicked: %v", p.name, fc.name, pv), Case: desc})
						break
					}
					if sameLines(w.calls, want) && sameLines(w2.calls, want2) {
						continue
					}
					got, exp, where := w.calls, want, "dest"
					if sameLines(w.calls, want) {
						got, exp, where = w2.calls, want2, "the destination of l2"
					}
					key, what := "event-mixed-after-fault", "a Write carries something else than one event as rendered alone (bytes of the event that met the fault travel with a later event, or an event is torn)"
					if len(got) != len(exp) {
						key, what = "write-count", fmt.Sprintf("%d Write calls where the same chains run alone make %d (an event lost, retried or split)", len(got), len(exp))
					}
					c.Violate(Violation{Key: key, Monitor: "fault-history-sequential", Desc: fmt.Sprintf("pipeline %s; one event meets a fault (%s), then events are logged through the same pipeline and through a second one: %s receives: %s", p.name, fc.name, where, what), Case: desc, Observed: quoteLines(got), Expected: quoteLines(exp)})
					break
				}
				c.Count("fault-history "+p.name+" "+fc.name+fmt.Sprint(warm), true)
			}
		}
	}
	freshAll()
	c.Res.Evaluations += histories
	c.Res.ExtraCoverage["fault_histories_sequential"] = histories
}

func faultConcurrent(c *Ctx) {
	oldH := zerolog.ErrorHandler
	zerolog.ErrorHandler = func(error) {}
	defer func() { zerolog.ErrorHandler = oldH }()
	zerolog.SetGlobalLevel(zerolog.DebugLevel)
	pipes := pipelines()
	outs := outFaults()
	G, N := 6, 40
	if c.Thorough() {
		N = 200
	}
	for pi := range pipes {
		p := &pipes[pi]
		faultOf := func(g, i int) string {
			if p.console && (g*N+i)%7 == 3 {
				return formatterFaults[(g+i)%len(formatterFaults)]
			}
			return ""
		}
		// references: every event alone
		ref := map[string]string{}   // rendering -> slot
		refN := map[string]int{}     // slot -> number of Writes when alone (0 for an event its formatter refuses)
		srcOf := map[string]string{} // slot -> chain
		old := runtime.GOMAXPROCS(1)
		for g := 0; g < G; g++ {
			for i := 0; i < N; i++ {
				slot := fmt.Sprintf("g%d-%d", g, i)
				r, pv := alone(p, slot, g+i, faultOf(g, i))
				if pv != nil {
					c.Violate(Violation{Key: "logging-call-panicked", Monitor: "fault-concurrent", Desc: fmt.Sprintf("a logging call panicked when run alone: %v", pv), Case: map[string]interface{}{"pipeline": p.src, "chain": slotSrc(slot, g+i, faultOf(g, i))}})
				}
				refN[slot] = len(r)
				srcOf[slot] = slotSrc(slot, g+i, faultOf(g, i))
				for _, ln := range r {
					ref[ln] = slot
				}
			}
		}
		runtime.GOMAXPROCS(old)
		freshAll()
		w := &faultW{faults: outs, faultAt: func(n int) int {
			if n%4 == 0 {
				return (n / 4) % len(outs)
			}
			return -1
		}}
		l := p.mk(w)
		var wg sync.WaitGroup
		var pmu sync.Mutex
		var panicked []string
		var progress int64
		if p.console && tooManyHung() {
			continue // earlier panic scenarios of this run hung and left their goroutines behind: no more of them
		}
		for g := 0; g < G; g++ {
			wg.Add(1)
			go func(g int) {
				defer wg.Done()
				for i := 0; i < N; i++ {
					if pv := emitSlot(l, fmt.Sprintf("g%d-%d", g, i), g+i, faultOf(g, i)); pv != nil {
						pmu.Lock()
						panicked = append(panicked, fmt.Sprint(pv))
						pmu.Unlock()
					}
					atomic.AddInt64(&progress, 1)
					if i%5 == 0 {
						runtime.Gosched()
					}
				}
			}(g)
		}
		desc := map[string]interface{}{"l :=": p.src, "goroutines": G, "each logs": fmt.Sprintf(`for i in 0..%d: e := l.Info().Str("verifid", "g<g>-<i>").Int("k", g+i).Str("pad", ((g+i)*37)%%150 x "p"); every third with a Dict; e.Msg("m-g<g>-<i>")`, N-1),
			"destination": "answers every 4th call with a fault, in rotation: (0, err), (len/2, err), (len/2, nil), (0, nil), (len, err); records its argument on entry", "formatter faults": "ConsoleWriter pipelines with formatters: every 7th event carries fault=prepare-fails / extra-fails-early / extra-fails-late / formatter-panics (recovered by the caller) in rotation", "ErrorHandler": "no-op"}
		if !runWatched(wg.Wait, &progress, stallLimit) {
			w.mu.Lock()
			n := len(w.calls)
			w.mu.Unlock()
			c.Violate(Violation{Key: "logging-call-blocked-after-fault", Monitor: "fault-concurrent", Desc: fmt.Sprintf("pipeline %s, %d goroutines, a destination that refuses every 4th call, formatter faults (one of them a panic the caller recovers): no logging call came back for %v, %d of %d calls returned, the destination received %d Writes: the remaining events are lost", p.name, G, stallLimit, atomic.LoadInt64(&progress), G*N, n), Case: desc, Observed: fmt.Sprintf("%d of %d logging calls returned", atomic.LoadInt64(&progress), G*N), Expected: "every logging call returns"})
			continue
		}
		if len(panicked) != 0 {
			c.Violate(Violation{Key: "logging-call-panicked", Monitor: "fault-concurrent", Desc: fmt.Sprintf("pipeline %s: %d logging calls panicked (first: %s)", p.name, len(panicked), panicked[0]), Case: desc})
		}
		seen := map[string]int{}
		reported := false
		for _, ln := range w.calls {
			slot, ok := ref[ln]
			if !ok {
				if !reported {
					d2 := map[string]interface{}{}
					for k, v := range desc {
						d2[k] = v
					}
					var exp interface{}
					if id := idOfConsole(ln); srcOf[id] != "" {
						d2["chain of the id found in the Write"] = srcOf[id]
						r, _ := alone(p, id, slotK(id), faultOfSlot(id, faultOf))
						exp = quoteLines(r)
					}
					c.Violate(Violation{Key: "event-mixed-after-fault", Monitor: "fault-concurrent", Desc: fmt.Sprintf("pipeline %s, %d goroutines, a destination that refuses every 4th call: a Write carries something else than one event as rendered alone", p.name, G), Case: d2, Observed: fmt.Sprintf("%.400q", ln), Expected: exp})
					reported = true
				}
				continue
			}
			seen[slot]++
		}
		if !reported {
			for slot, n := range refN {
				if seen[slot] != n {
					c.Violate(Violation{Key: "write-count", Monitor: "fault-concurrent", Desc: fmt.Sprintf("pipeline %s, %d goroutines, a destination that refuses every 4th call: event %s reached the destination in %d Write calls, %d when run alone (lost, retried or duplicated)", p.name, G, slot, seen[slot], n), Case: desc, Observed: seen[slot], Expected: n})
					break
				}
			}
		}
		c.Res.Evaluations += G * N
	}
	freshAll()
}

// the id inside a rendered line: JSON ("verifid":"x") or console (verifid=x)
func idOfConsole(ln string) string {
	if id := idOf([]byte(ln)); id != "" {
		return id
	}
	i := strings.Index(ln, "verifid=")
	if i < 0 {
		return ""
	}
	rest := ln[i+8:]
	// colored output: the value follows the reset sequence
	rest = strings.TrimPrefix(rest, "\x1b[0m")
	j := strings.IndexAny(rest, " \n\x1b")
	if j < 0 {
		return rest
	}
	return rest[:j]
}

func slotK(id string) int {
	var g, i int
	fmt.Sscanf(id, "g%d-%d", &g, &i)
	return g + i
}

func faultOfSlot(id string, f func(g, i int) string) string {
	var g, i int
	fmt.Sscanf(id, "g%d-%d", &g, &i)
	return f(g, i)
}

// ---------------------------------------------------------------- a sampler shared by a logger, its children and copies
type countingSampler struct {
	inner    zerolog.Sampler
	admitted int64
}

func (s *countingSampler) Sample(l zerolog.Level) bool {
	if s.inner.Sample(l) {
		atomic.AddInt64(&s.admitted, 1)
		return true
	}
	return false
}

func sampledLoggers(c *Ctx) {
	zerolog.SetGlobalLevel(zerolog.DebugLevel)
	const G, N = 8, 150
	ref := map[string]string{}
	for g := 0; g < G; g++ {
		for i := 0; i < N; i++ {
			w := &capW{}
			emitSlot(zerolog.New(w).With().Str("svc", "x").Logger(), fmt.Sprintf("g%d-%d", g, i), g+i, "")
			for _, ln := range w.lines {
				ref[ln] = fmt.Sprintf("g%d-%d", g, i)
			}
		}
	}
	for _, n := range []uint32{1, 2, 3, 5} {
		cs := &countingSampler{inner: &zerolog.BasicSampler{N: n}}
		w := &sharedWriter{}
		parent := zerolog.New(w).Sample(cs).With().Str("svc", "x").Logger()
		var wg sync.WaitGroup
		for g := 0; g < G; g++ {
			wg.Add(1)
			go func(g int) {
				defer wg.Done()
				l := parent
				switch g % 3 {
				case 1:
					l = parent.With().Logger() // a child: shares the sampler
				case 2:
					l = parent.Level(zerolog.DebugLevel) // a copy
				}
				for i := 0; i < N; i++ {
					emitSlot(l, fmt.Sprintf("g%d-%d", g, i), g+i, "")
				}
			}(g)
		}
		wg.Wait()
		admitted := int(atomic.LoadInt64(&cs.admitted))
		bad, dup := 0, 0
		seen := map[string]bool{}
		example := ""
		for _, b := range w.lines {
			ln := string(b)
			if _, ok := ref[ln]; !ok {
				bad++
				if example == "" {
					example = fmt.Sprintf("%.200q", ln)
				}
			}
			if seen[ln] {
				dup++
			}
			seen[ln] = true
		}
		if bad != 0 || dup != 0 || len(w.lines) != admitted || w.modified != 0 {
			c.Violate(Violation{Key: "sampled-logger-writes", Monitor: "sampled-logger-concurrent", Desc: fmt.Sprintf("%d goroutines x %d events through a logger, a child and a copy sharing one BasicSampler{N:%d}: the sampler admitted %d events, the destination received %d Writes; %d differ from the chain run alone (e.g. %s), %d repeat, %d modified during Write", G, N, n, admitted, len(w.lines), bad, example, dup, w.modified),
				Case: map[string]interface{}{"N": n, "goroutines": G, "events_each": N, "loggers": "parent := New(w).Sample(counting(&BasicSampler{N})).With().Str(\"svc\", \"x\").Logger(); goroutine g uses parent / parent.With().Logger() / parent.Level(DebugLevel) for g%3 = 0 / 1 / 2"}, Observed: len(w.lines), Expected: admitted})
		}
		c.Res.Evaluations += G * N
	}
}
