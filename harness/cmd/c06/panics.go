package main

// Directed inputs for C06: a destination behind SyncWriter that PANICS, and a caller that recovers.
//
// "When any number of goroutines log through the same Logger, its children ..., the destination receives exactly
// one Write/WriteLevel call per emitted event ...; nothing is lost ...; a writer wrapped in SyncWriter never sees
// two overlapping calls."  A destination sits behind SyncWriter because it is fragile; a fragile destination (or a
// formatter of the ConsoleWriter in front of it) may panic on one call - a type assertion, a send on a closed
// channel, an index out of range - and a library user with a recover() middleware (http.Server, a worker loop)
// carries on.  The events emitted AFTER the recovered panic, by the same goroutine and by every other one, are
// emitted events like any other: each must reach the destination exactly once, byte-identical to the chain run
// alone, one call at a time.  A goroutine that makes no progress for 5 s inside a logging call has lost its event.
//
//   pipelines: SyncWriter over an io.Writer / over a LevelWriter / nested (inner and outer used in rotation) /
//              behind a MultiLevelWriter / around a MultiLevelWriter / around a ConsoleWriter whose Out is the
//              destination / around a ConsoleWriter whose formatter panics on a poisoned event
//   schedules: the k-th Write/WriteLevel of the destination panics (k = 1; 3; 2 and 5); Close of the destination
//              panics (called and recovered before the loggers start; called while they log, together with a
//              panicking Write)
//   callers:   G in {1, 4} goroutines x 6 events through a logger and a child of it, every call under recover()
//
// Monitors: liveness (every goroutine finishes; no progress for 5 s = violation, the scenario is the input);
// no overlapping calls in the destination; the multiset of calls the destination was handed (recorded on entry,
// the panicking calls included) equals what the same events, each logged alone through a pipeline of its own, hand a healthy destination.
// A scenario that hangs leaves its goroutines behind, so at most maxHung scenarios of the whole run may hang:
// after that the remaining panic scenarios (here and in faults.go) are skipped.

import (
	"fmt"
	"io"
	"runtime"
	"sort"
	"sync"
	"sync/atomic"
	"time"

	"github.com/rs/zerolog"
	. "verifharness/hlib"
)

const destPanic = "verif: destination panicked"

const stallLimit = 5 * time.Second
const maxHung = 2

// scenarios that hung so far in this run (each leaves blocked goroutines behind)
var hungScenarios int32

func tooManyHung() bool { return atomic.LoadInt32(&hungScenarios) >= maxHung }

// runWatched runs f on a goroutine of its own and waits for it; progress is bumped by f (and the goroutines it
// starts) whenever a logging call came back.  It gives up - returning false - when f has not returned and the
// counter has not moved for `stall`.
func runWatched(f func(), progress *int64, stall time.Duration) bool {
	done := make(chan struct{})
	go func() {
		defer close(done)
		f()
	}()
	last := atomic.LoadInt64(progress)
	lastMove := time.Now()
	tick := time.NewTicker(5 * time.Millisecond)
	defer tick.Stop()
	for {
		select {
		case <-done:
			return true
		case <-tick.C:
			if now := atomic.LoadInt64(progress); now != last {
				last, lastMove = now, time.Now()
			} else if time.Since(lastMove) > stall {
				atomic.AddInt32(&hungScenarios, 1)
				return false
			}
		}
	}
}

// ---------------------------------------------------------------- the destination
type panicDest struct {
	inside   int32
	overlaps int64
	rec      sync.Mutex
	calls    []string     // the argument of every Write / WriteLevel, copied on entry
	kinds    []string     // "Write" / "WriteLevel" / "Close", in order of entry
	panicAt  map[int]bool // 1-based numbers of the Write/WriteLevel calls that panic
	panicCl  bool         // Close panics
	panicked int
}

func (d *panicDest) call(kind string, p []byte) {
	if atomic.AddInt32(&d.inside, 1) != 1 {
		atomic.AddInt64(&d.overlaps, 1)
	}
	defer atomic.AddInt32(&d.inside, -1)
	d.rec.Lock()
	d.kinds = append(d.kinds, kind)
	boom := false
	if p != nil {
		d.calls = append(d.calls, string(p))
		boom = d.panicAt[len(d.calls)]
	} else {
		boom = d.panicCl
	}
	if boom {
		d.panicked++
	}
	d.rec.Unlock()
	runtime.Gosched() // the call takes a moment: others queue up behind the SyncWriter
	if boom {
		panic(destPanic)
	}
}

func (d *panicDest) Write(p []byte) (int, error) { d.call("Write", p); return len(p), nil }
func (d *panicDest) Close() error                { d.call("Close", nil); return nil }

type panicLevelDest struct{ *panicDest }

func (d panicLevelDest) WriteLevel(_ zerolog.Level, p []byte) (int, error) {
	d.call("WriteLevel", p)
	return len(p), nil
}

// ---------------------------------------------------------------- pipelines and schedules
type panicPipeline struct {
	name   string
	poison bool // some events carry the value the ConsoleWriter's formatter panics on
	build  func(d *panicDest) (ws []io.Writer, closer io.Closer)
}

func panicPipelines() []panicPipeline {
	asCloser := func(w io.Writer) io.Closer {
		c, _ := w.(io.Closer)
		return c
	}
	return []panicPipeline{
		{"sw := SyncWriter(dest), dest an io.Writer + io.Closer; loggers New(sw)", false, func(d *panicDest) ([]io.Writer, io.Closer) {
			sw := zerolog.SyncWriter(d)
			return []io.Writer{sw}, asCloser(sw)
		}},
		{"sw := SyncWriter(dest), dest a LevelWriter + io.Closer; loggers New(sw)", false, func(d *panicDest) ([]io.Writer, io.Closer) {
			sw := zerolog.SyncWriter(panicLevelDest{d})
			return []io.Writer{sw}, asCloser(sw)
		}},
		{"inner := SyncWriter(dest); outer := SyncWriter(inner); loggers New(inner) and New(outer) in rotation; outer is closed", false, func(d *panicDest) ([]io.Writer, io.Closer) {
			inner := zerolog.SyncWriter(d)
			outer := zerolog.SyncWriter(inner)
			return []io.Writer{inner, outer}, asCloser(outer)
		}},
		{"sw := SyncWriter(dest); m := MultiLevelWriter(sw); loggers New(m) and New(sw) in rotation; m is closed", false, func(d *panicDest) ([]io.Writer, io.Closer) {
			sw := zerolog.SyncWriter(d)
			m := zerolog.MultiLevelWriter(sw)
			return []io.Writer{m, sw}, asCloser(m)
		}},
		{"sw := SyncWriter(MultiLevelWriter(dest)), dest a LevelWriter; loggers New(sw)", false, func(d *panicDest) ([]io.Writer, io.Closer) {
			sw := zerolog.SyncWriter(zerolog.MultiLevelWriter(panicLevelDest{d}))
			return []io.Writer{sw}, asCloser(sw)
		}},
		{"sw := SyncWriter(ConsoleWriter{Out: dest, NoColor, no timestamp}); loggers New(sw)", false, func(d *panicDest) ([]io.Writer, io.Closer) {
			sw := zerolog.SyncWriter(zerolog.ConsoleWriter{Out: d, NoColor: true, PartsExclude: []string{zerolog.TimestampFieldName}})
			return []io.Writer{sw}, asCloser(sw)
		}},
		{`sw := SyncWriter(ConsoleWriter{Out: dest, FormatFieldValue: panics on "panic-value", ...}); loggers New(sw); every 4th event carries Str("zz", "panic-value")`, true, func(d *panicDest) ([]io.Writer, io.Closer) {
			sw := zerolog.SyncWriter(hookedConsole(d))
			return []io.Writer{sw}, asCloser(sw)
		}},
	}
}

type panicSchedule struct {
	name        string
	panicAt     []int
	closeFirst  bool // the destination's Close panics; Close is called (and recovered) before the loggers start
	closeDuring bool // ... while the loggers log
}

func panicSchedules() []panicSchedule {
	return []panicSchedule{
		{"the destination panics inside its 1st Write/WriteLevel call", []int{1}, false, false},
		{"the destination panics inside its 3rd Write/WriteLevel call", []int{3}, false, false},
		{"the destination panics inside its 2nd and its 5th Write/WriteLevel call", []int{2, 5}, false, false},
		{"the destination's Close panics; Close is called (recovered) before the loggers start", nil, true, false},
		{"the destination's Close panics, called (recovered) while the loggers log; its 4th Write/WriteLevel call panics as well", []int{4}, false, true},
	}
}

// emitSafely: event i of goroutine g, the logging call under recover() as a recover middleware would run it
func emitSafely(ws []io.Writer, g, i int, poison bool, progress *int64, foreign *[]string, fmu *sync.Mutex) {
	defer func() {
		if r := recover(); r != nil && r != destPanic && r != formatterPanic {
			fmu.Lock()
			*foreign = append(*foreign, fmt.Sprint(r))
			fmu.Unlock()
		}
		atomic.AddInt64(progress, 1)
	}()
	l := zerolog.New(ws[g%len(ws)]).With().Int("g", g).Logger()
	var e *zerolog.Event
	if i%2 == 0 {
		e = l.Info()
	} else {
		child := l.With().Str("kid", "1").Logger()
		e = child.Warn()
	}
	e.Int("i", i)
	if poison && (g+i)%4 == 1 {
		e.Str("zz", "panic-value")
	}
	e.Msg("m")
}

func logSafely(ws []io.Writer, g, n int, poison bool, progress *int64, foreign *[]string, fmu *sync.Mutex) {
	for i := 0; i < n; i++ {
		emitSafely(ws, g, i, poison, progress, foreign, fmu)
	}
}

func closeSafely(cl io.Closer, progress *int64) {
	defer func() {
		recover()
		atomic.AddInt64(progress, 1)
	}()
	_ = cl.Close()
}

func syncWriterPanics(c *Ctx) {
	zerolog.SetGlobalLevel(zerolog.DebugLevel)
	const N = 6
	runs, skipped := 0, 0
	reps := 1
	if c.Thorough() {
		reps = 10
	}
	for pi, pl := range panicPipelines() {
		for si, sc := range panicSchedules() {
			for _, G := range []int{1, 4} {
				pl, sc, G := pl, sc, G // a scenario that hangs leaves goroutines behind that still hold these
				// reference: every event alone, through a pipeline of its own into a destination that never panics
				var want []string
				var rp int64
				var rf []string
				var rmu sync.Mutex
				for g := 0; g < G; g++ {
					for i := 0; i < N; i++ {
						rd := &panicDest{}
						rws, _ := pl.build(rd)
						emitSafely(rws, g, i, pl.poison, &rp, &rf, &rmu)
						want = append(want, rd.calls...)
					}
				}
				sort.Strings(want)
				for rep := 0; rep < reps; rep++ {
					if tooManyHung() {
						skipped++
						continue
					}
					d := &panicDest{panicAt: map[int]bool{}, panicCl: sc.closeFirst || sc.closeDuring}
					for _, k := range sc.panicAt {
						d.panicAt[k] = true
					}
					ws, closer := pl.build(d)
					if closer == nil {
						c.Note("panics: pipeline %d gives no io.Closer", pi)
						continue
					}
					var progress int64
					var foreign []string
					var fmu sync.Mutex
					finished := make([]int32, G)
					ok := runWatched(func() {
						if sc.closeFirst {
							closeSafely(closer, &progress)
						}
						var wg sync.WaitGroup
						if sc.closeDuring {
							wg.Add(1)
							go func() { defer wg.Done(); closeSafely(closer, &progress) }()
						}
						for g := 0; g < G; g++ {
							wg.Add(1)
							go func(g int) {
								defer wg.Done()
								logSafely(ws, g, N, pl.poison, &progress, &foreign, &fmu)
								atomic.StoreInt32(&finished[g], 1)
							}(g)
						}
						wg.Wait()
					}, &progress, stallLimit)
					runs++
					d.rec.Lock()
					got := append([]string{}, d.calls...)
					kinds := append([]string{}, d.kinds...)
					panicked := d.panicked
					d.rec.Unlock()
					sort.Strings(got)
					cs := map[string]interface{}{"kind": "syncwriter-destination-panics", "pipeline": pl.name, "pipeline_index": pi, "schedule": sc.name, "schedule_index": si,
						"logging_goroutines": G, "events_each": N,
						"each goroutine g": `for i in 0..5: l := zerolog.New(w).With().Int("g", g).Logger(); (i even: l.Info() | i odd: l.With().Str("kid", "1").Logger().Warn()).Int("i", i).Msg("m"), every call under defer recover()`,
						"destination":      "records its argument on entry, counts the calls in progress, yields, then panics on the scheduled calls", "calls the destination saw, in order": kinds}
					if !ok {
						var blocked []int
						for g := range finished {
							if atomic.LoadInt32(&finished[g]) == 0 {
								blocked = append(blocked, g)
							}
						}
						c.Violate(Violation{Key: "syncwriter-blocked-after-panic", Monitor: "syncwriter-panic-liveness",
							Desc: fmt.Sprintf("after the destination behind SyncWriter panicked %d time(s) and the caller recovered, logging goroutine(s) %v made no progress for %v inside a logging call: the destination received %d of %d events, the rest are lost - pipeline [%s], schedule [%s], %d logging goroutine(s)", panicked, blocked, stallLimit, len(got), len(want), pl.name, sc.name, G),
							Case: cs, Observed: fmt.Sprintf("%d of %d events delivered; goroutines %v blocked", len(got), len(want), blocked), Expected: "every event emitted after the recovered panic reaches the destination exactly once"})
						continue
					}
					if len(foreign) != 0 {
						c.Violate(Violation{Key: "logging-call-panicked", Monitor: "syncwriter-panic", Desc: fmt.Sprintf("a logging call panicked with something else than the destination's own panic: %v", foreign), Case: cs})
					}
					if ov := atomic.LoadInt64(&d.overlaps); ov != 0 {
						c.Violate(Violation{Key: "syncwriter-overlap", Monitor: "syncwriter-panic",
							Desc: fmt.Sprintf("the destination behind SyncWriter saw %d call(s) start while another call was still running, after one of its calls panicked and the caller recovered - pipeline [%s], schedule [%s], %d logging goroutine(s)", ov, pl.name, sc.name, G),
							Case: cs, Observed: ov, Expected: 0})
					}
					if !sameLines(got, want) {
						c.Violate(Violation{Key: "syncwriter-panic-lines", Monitor: "syncwriter-panic",
							Desc: fmt.Sprintf("a destination behind SyncWriter panicked (recovered by the caller) on some calls: it was handed %d Write calls, the same events, each logged alone into a destination that never panics, make %d (an event lost, duplicated or mixed after the panic) - pipeline [%s], schedule [%s], %d logging goroutine(s)", len(got), len(want), pl.name, sc.name, G),
							Case: cs, Observed: quoteLines(got), Expected: quoteLines(want)})
					}
					c.Count(fmt.Sprintf("syncwriter-panic %d/%d/%d", pi, si, G), true)
				}
			}
		}
	}
	c.Res.Evaluations += runs * N
	c.Res.ExtraCoverage["syncwriter_panic_runs"] = map[string]interface{}{"runs": runs, "skipped_after_hangs": skipped}
}
