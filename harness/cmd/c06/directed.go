package main

// Directed inputs for C06: "each [Write carries] one complete event byte-identical to what the same call chain
// produces when run alone ... nothing is lost, duplicated, torn or mixed between events".
//
// A pooled *Event carries per-event state (buffer, writer, level, stack flag, skip-frame count, context, hooks,
// done callback).  Events are drawn from the pool in two ways: through a Logger (Logger.newEvent) and outside
// any Logger (zerolog.Dict(), the scratch events of Fields / Array.Err / Array.Object / Context.Object).  What a
// chain renders must not depend on who used the pooled object before, nor on what other goroutines do while a
// hook of the chain is running.  Three sweeps:
//
//   1. directedHistories: a table of call chains; every chain that leaves some per-event state behind
//      ("tainter") is run 1..2 times before every other chain on fresh pools (sequential = the simplest
//      schedule), and the whole table is run from G goroutines; every line must equal the chain's rendering on
//      fresh pools.  Needs ErrorStackMarshaler (the stack flag is invisible without it).
//   2. scriptedHookInterleavings: goroutine A is parked inside a hook of its event (before / after a hook that
//      discards or adds a field) while goroutine B starts and / or finishes events through a sibling logger.
//   3. stackSettingsPrograms: generated programs under Settings with a stack marshaler, sequentially with
//      history and concurrently.

import (
	"context"
	"errors"
	"fmt"
	"runtime"
	"sort"
	"strings"
	"sync"
	"time"

	"github.com/rs/zerolog"
	. "verifharness/hlib"
	"verifharness/progs"
)

// ---------------------------------------------------------------- plain recording writer (no delays)
type capW struct {
	mu    sync.Mutex
	lines []string
}

func (w *capW) Write(p []byte) (int, error) {
	w.mu.Lock()
	w.lines = append(w.lines, string(p))
	w.mu.Unlock()
	return len(p), nil
}

// ---------------------------------------------------------------- values the chains log
var errInner = errors.New("inner failed")

// an error that renders itself as an object and logs its cause with Err (on whatever event it is handed)
type wrapErr struct {
	inner error
	code  int
}

func (w wrapErr) Error() string { return "wrapped: " + w.inner.Error() }
func (w wrapErr) MarshalZerologObject(e *zerolog.Event) {
	e.Err(w.inner).Int("code", w.code)
}

// an object (not an error) doing the same
type causeObj struct{ inner error }

func (o causeObj) MarshalZerologObject(e *zerolog.Event) { e.Str("what", "obj").Err(o.inner) }

type ctxKey struct{}

var taintCtx = context.WithValue(context.Background(), ctxKey{}, "secret")

type discardHook struct{}

func (discardHook) Run(e *zerolog.Event, _ zerolog.Level, _ string) { e.Discard() }

type yieldHook struct{}

func (yieldHook) Run(e *zerolog.Event, _ zerolog.Level, _ string) { runtime.Gosched() }

type fieldHook struct{}

func (fieldHook) Run(e *zerolog.Event, _ zerolog.Level, _ string) { e.Str("hook", "ran") }

// a sampler that admits nothing: every event of a logger carrying it is filtered out
type rejectSampler struct{}

func (rejectSampler) Sample(zerolog.Level) bool { return false }

// an array rendered through the LogArrayMarshaler interface (Event.Array draws the pooled *Array itself)
type idsArr []int

func (a idsArr) MarshalZerologArray(arr *zerolog.Array) {
	for _, v := range a {
		arr.Int(v)
	}
}

// an object whose rendering draws a pooled array and a pooled dict
type arrObj struct{ n int }

func (o arrObj) MarshalZerologObject(e *zerolog.Event) {
	e.Array("ids", zerolog.Arr().Int(o.n).Int(o.n+1)).Dict("sub", zerolog.Dict().Int("n", o.n))
}

var pad600 = strings.Repeat("s", 600)

// the pooled arguments a FILTERED event (nil *Event) is handed: it must give them back to their pools in a state
// that leaves no trace in whatever draws them next
func secretArr() *zerolog.Array {
	return zerolog.Arr().Str("secret-a").Str("secret-b").Int(7)
}
func secretDict() *zerolog.Event {
	return zerolog.Dict().Str("secret", "dict").Int("n", 7)
}

const secretArrSrc = `Arr().Str("secret-a").Str("secret-b").Int(7)`
const secretDictSrc = `Dict().Str("secret", "dict").Int("n", 7)`

// how an event gets filtered out: the chain receives the logger under test and returns the event (nil) the
// pooled arguments are then handed to
type filterMode struct {
	name, src string
	start     func(l zerolog.Logger) *zerolog.Event
}

func filterModes() []filterMode {
	return []filterMode{
		{"level", `l.Level(WarnLevel).Info()`, func(l zerolog.Logger) *zerolog.Event { l2 := l.Level(zerolog.WarnLevel); return l2.Info() }},
		{"disabled-level", `l.Level(Disabled).Error()`, func(l zerolog.Logger) *zerolog.Event { l2 := l.Level(zerolog.Disabled); return l2.Error() }},
		{"sampled-out", `l.Sample(rejectAll).Info()`, func(l zerolog.Logger) *zerolog.Event { l2 := l.Sample(rejectSampler{}); return l2.Info() }},
		{"nop-logger", `zerolog.Nop().Info()`, func(l zerolog.Logger) *zerolog.Event { l2 := zerolog.Nop(); return l2.Info() }},
		{"nil-writer", `l.Output(nil).Warn()`, func(l zerolog.Logger) *zerolog.Event { l2 := l.Output(nil); return l2.Warn() }},
		{"discard-then", `l.Info().Str("k", "v").Discard()`, func(l zerolog.Logger) *zerolog.Event { return l.Info().Str("k", "v").Discard() }},
		{"child-below-level", `l.Level(ErrorLevel).With().Str("c", "1").Logger().Debug()`, func(l zerolog.Logger) *zerolog.Event {
			l2 := l.Level(zerolog.ErrorLevel).With().Str("c", "1").Logger()
			return l2.Debug()
		}},
	}
}

// what the filtered event is given (every entry draws at least one pooled object before the event sees it)
type filteredArgs struct {
	name, src string
	apply     func(e *zerolog.Event)
}

func filteredArgSets() []filteredArgs {
	return []filteredArgs{
		{"array", `.Array("tokens", ` + secretArrSrc + `).Msg("verbose")`, func(e *zerolog.Event) { e.Array("tokens", secretArr()).Msg("verbose") }},
		{"dict", `.Dict("d", ` + secretDictSrc + `).Msg("verbose")`, func(e *zerolog.Event) { e.Dict("d", secretDict()).Msg("verbose") }},
		{"array-and-dict", `.Array("a", ` + secretArrSrc + `).Dict("d", ` + secretDictSrc + `).Array("b", Arr().Str("secret-c")).Send()`, func(e *zerolog.Event) {
			e.Array("a", secretArr()).Dict("d", secretDict()).Array("b", zerolog.Arr().Str("secret-c")).Send()
		}},
		{"array-of-pooled", `.Array("a", Arr().Dict(` + secretDictSrc + `).Object(causeObj{errInner}).Err(wrapErr{errInner, 9}).Str("secret-a")).Msg("verbose")`, func(e *zerolog.Event) {
			e.Array("a", zerolog.Arr().Dict(secretDict()).Object(causeObj{errInner}).Err(wrapErr{errInner, 9}).Str("secret-a")).Msg("verbose")
		}},
		{"dict-with-array", `.Dict("d", Dict().Array("a", ` + secretArrSrc + `).Stack().Err(errInner)).Msg("verbose")`, func(e *zerolog.Event) {
			e.Dict("d", zerolog.Dict().Array("a", secretArr()).Stack().Err(errInner)).Msg("verbose")
		}},
		{"grown-array", `.Array("a", Arr().Str(600 bytes).Str("secret-a")).Dict("d", Dict().Str("pad", 600 bytes)).Msg("verbose")`, func(e *zerolog.Event) {
			e.Array("a", zerolog.Arr().Str(pad600).Str("secret-a")).Dict("d", zerolog.Dict().Str("pad", pad600)).Msg("verbose")
		}},
		{"marshalers", `.Array("m", idsArr{7, 8, 9}).Object("o", arrObj{7}).Errs("es", []error{wrapErr{errInner, 7}, errInner}).Fields(map[string]interface{}{"es": []error{wrapErr{errInner, 8}}, "o": causeObj{errInner}}).EmbedObject(arrObj{8}).Msg("verbose")`, func(e *zerolog.Event) {
			e.Array("m", idsArr{7, 8, 9}).Object("o", arrObj{7}).Errs("es", []error{wrapErr{errInner, 7}, errInner}).Fields(map[string]interface{}{"es": []error{wrapErr{errInner, 8}}, "o": causeObj{errInner}}).EmbedObject(arrObj{8}).Msg("verbose")
		}},
	}
}

// the chains that hand pooled arguments to a filtered event: filter modes x argument sets (each argument set with
// every filter mode; the table stays small by pairing them in rotation and taking the full product for "level")
func filteredChains() []*dchain {
	var out []*dchain
	modes, args := filterModes(), filteredArgSets()
	add := func(m filterMode, a filteredArgs) {
		out = append(out, &dchain{"filtered-" + m.name + "-" + a.name, "pooled arguments of a FILTERED event (" + m.name + "): " + a.name, m.src + a.src, func(l zerolog.Logger) {
			a.apply(m.start(l))
		}})
	}
	for ai, a := range args {
		add(modes[0], a)
		add(modes[1+ai%(len(modes)-1)], a)
	}
	// every other filter mode with the plain array and the plain dict
	for mi := 1; mi < len(modes); mi++ {
		for ai := 0; ai < 2; ai++ {
			if mi == 1+ai%(len(modes)-1) {
				continue // already there
			}
			add(modes[mi], args[ai])
		}
	}
	return out
}

// ---------------------------------------------------------------- the chain table
type dchain struct {
	name   string
	taints string // per-event state this chain leaves on the pooled object(s) it used ("" = none in particular)
	src    string // the chain as Go text (goes into the replay file)
	run    func(l zerolog.Logger)
}

var pad2000 = strings.Repeat("x", 2000)
var pad70k = strings.Repeat("y", 70000)

func chainTable() []*dchain {
	t := []*dchain{
		// ---- chains that leave per-event state behind
		{"stack-err", "stack", `l.Error().Stack().Err(errInner).Msg("boom")`, func(l zerolog.Logger) {
			l.Error().Stack().Err(errInner).Msg("boom")
		}},
		{"context-stack-err", "stack", `l.With().Stack().Logger().Error().Err(errInner).Msg("boom")`, func(l zerolog.Logger) {
			l2 := l.With().Stack().Logger()
			l2.Error().Err(errInner).Msg("boom")
		}},
		{"stack-two-in-flight", "stack (two events at once)", `l.Error().Stack().Func(func(*Event) { l.Warn().Stack().Err(errInner).Msg("inner") }).Err(errInner).Msg("outer")`, func(l zerolog.Logger) {
			l.Error().Stack().Func(func(*zerolog.Event) { l.Warn().Stack().Err(errInner).Msg("inner") }).Err(errInner).Msg("outer")
		}},
		{"stack-dict-in-flight", "stack (event and its Dict)", `l.Error().Stack().Dict("d", Dict().Stack().Err(errInner)).Err(errInner).Msg("both")`, func(l zerolog.Logger) {
			l.Error().Stack().Dict("d", zerolog.Dict().Stack().Err(errInner)).Err(errInner).Msg("both")
		}},
		{"skip-frame", "skipFrame", `l.Info().CallerSkipFrame(1).Caller().Msg("skip")`, func(l zerolog.Logger) {
			l.Info().CallerSkipFrame(1).Caller().Msg("skip")
		}},
		{"event-ctx", "ctx", `l.Info().Ctx(ctxWithValue).Msg("ctx")`, func(l zerolog.Logger) {
			l.Info().Ctx(taintCtx).Msg("ctx")
		}},
		{"grown-buffer", "buf > 500 bytes", `l.Info().Str("pad", 2000 bytes).Msg("big")`, func(l zerolog.Logger) {
			l.Info().Str("pad", pad2000).Msg("big")
		}},
		{"oversized-buffer", "buf > 64 KiB (not pooled)", `l.Info().Str("pad", 70000 bytes).Msg("huge")`, func(l zerolog.Logger) {
			l.Info().Str("pad", pad70k).Msg("huge")
		}},
		{"hook-discard", "level = Disabled, hooks", `l.Hook(discard).Info().Str("k", "v").Msg("noise")`, func(l zerolog.Logger) {
			l2 := l.Hook(discardHook{})
			l2.Info().Str("k", "v").Msg("noise")
		}},
		{"hook-discard-yield", "level = Disabled, hooks", `l.Hook(discard).Hook(gosched).Info().Str("k", "v").Dict("d", Dict().Str("a", "b")).Msg("noise")`, func(l zerolog.Logger) {
			l2 := l.Hook(discardHook{}).Hook(yieldHook{})
			l2.Info().Str("k", "v").Dict("d", zerolog.Dict().Str("a", "b")).Msg("noise")
		}},
		{"hook-yield-discard-field", "level = Disabled, hooks", `l.Hook(gosched).Hook(discard).Hook(addField).Warn().Str("junk", 16 bytes).Msg("noise")`, func(l zerolog.Logger) {
			l2 := l.Hook(yieldHook{}).Hook(discardHook{}).Hook(fieldHook{})
			l2.Warn().Str("junk", "xxxxxxxxxxxxxxxx").Msg("noise")
		}},
		{"chain-discard", "level = Disabled (event never finished)", `l.Info().Str("k", "v").Discard().Msg("never")`, func(l zerolog.Logger) {
			l.Info().Str("k", "v").Discard().Msg("never")
		}},
		{"hook-field-yield", "hooks", `l.Hook(addField).Hook(gosched).Info().Msg("hooked")`, func(l zerolog.Logger) {
			l2 := l.Hook(fieldHook{}).Hook(yieldHook{})
			l2.Info().Msg("hooked")
		}},
		// ---- chains that draw pooled events outside a Logger
		{"plain", "", `l.Info().Str("k", "v").Int("n", 1).Msg("clean")`, func(l zerolog.Logger) {
			l.Info().Str("k", "v").Int("n", 1).Msg("clean")
		}},
		{"prebuilt-dict-err", "", `d := Dict().Err(errInner).Int("code", 7); l.Info().Dict("cause", d).Msg("plain")`, func(l zerolog.Logger) {
			d := zerolog.Dict().Err(errInner).Int("code", 7)
			l.Info().Dict("cause", d).Msg("plain")
		}},
		{"nested-dict-err", "", `l.Info().Dict("cause", Dict().Err(errInner)).Msg("nested")`, func(l zerolog.Logger) {
			l.Info().Dict("cause", zerolog.Dict().Err(errInner)).Msg("nested")
		}},
		{"two-prebuilt-dicts", "", `d1 := Dict().Err(errInner); d2 := Dict().Err(errInner); l.Info().Dict("a", d1).Dict("b", d2).Msg("two")`, func(l zerolog.Logger) {
			d1 := zerolog.Dict().Err(errInner)
			d2 := zerolog.Dict().Str("x", "y").Err(errInner)
			l.Info().Dict("a", d1).Dict("b", d2).Msg("two")
		}},
		{"dict-in-dict", "", `l.Info().Dict("o", Dict().Dict("i", Dict().Err(errInner)).Err(errInner)).Msg("deep")`, func(l zerolog.Logger) {
			l.Info().Dict("o", zerolog.Dict().Dict("i", zerolog.Dict().Err(errInner)).Err(errInner)).Msg("deep")
		}},
		{"dict-fields-err", "", `l.Info().Dict("d", Dict().Fields(map[string]interface{}{"e": errInner})).Msg("fields")`, func(l zerolog.Logger) {
			l.Info().Dict("d", zerolog.Dict().Fields(map[string]interface{}{"e": errInner})).Msg("fields")
		}},
		{"fields-marshaler-err", "", `l.Info().Fields([]interface{}{"e", wrapErr{errInner, 7}, "o", causeObj{errInner}}).Msg("scratch")`, func(l zerolog.Logger) {
			l.Info().Fields([]interface{}{"e", wrapErr{errInner, 7}, "o", causeObj{errInner}}).Msg("scratch")
		}},
		{"fields-errs-marshalers", "", `l.Info().Fields(map[string]interface{}{"es": []error{wrapErr{errInner, 1}, wrapErr{errInner, 2}}}).Msg("scratch2")`, func(l zerolog.Logger) {
			l.Info().Fields(map[string]interface{}{"es": []error{wrapErr{errInner, 1}, wrapErr{errInner, 2}}}).Msg("scratch2")
		}},
		{"errs-marshalers", "", `l.Warn().Errs("causes", []error{wrapErr{errInner, 3}, errInner}).Msg("list")`, func(l zerolog.Logger) {
			l.Warn().Errs("causes", []error{wrapErr{errInner, 3}, errInner}).Msg("list")
		}},
		{"array-err-object-dict", "", `l.Info().Array("a", Arr().Err(wrapErr{errInner, 4}).Object(causeObj{errInner}).Dict(Dict().Err(errInner))).Msg("arr")`, func(l zerolog.Logger) {
			l.Info().Array("a", zerolog.Arr().Err(wrapErr{errInner, 4}).Object(causeObj{errInner}).Dict(zerolog.Dict().Err(errInner))).Msg("arr")
		}},
		{"context-object-err", "", `l.With().Object("o", causeObj{errInner}).Logger().Info().Msg("ctxobj")`, func(l zerolog.Logger) {
			l2 := l.With().Object("o", causeObj{errInner}).Logger()
			l2.Info().Msg("ctxobj")
		}},
		{"dict-caller", "", `l.Info().Dict("d", Dict().Caller()).Msg("where")`, func(l zerolog.Logger) {
			l.Info().Dict("d", zerolog.Dict().Caller()).Msg("where")
		}},
		{"dict-getctx", "", `l.Info().Dict("d", Dict().Func(func(e *Event) { if e.GetCtx().Value(key) != nil { e.Str("leak", "ctx") } })).Msg("getctx")`, func(l zerolog.Logger) {
			l.Info().Dict("d", zerolog.Dict().Func(func(e *zerolog.Event) {
				if e.GetCtx().Value(ctxKey{}) != nil {
					e.Str("leak", "ctx")
				}
			})).Msg("getctx")
		}},
		{"held-dict", "", `e := l.Info().Int("i", 1); d := Dict().Str("a", "b"); runtime.Gosched(); e.Dict("d", d).Msg("held")`, func(l zerolog.Logger) {
			e := l.Info().Int("i", 1)
			d := zerolog.Dict().Str("a", "b")
			runtime.Gosched()
			e.Dict("d", d).Msg("held")
		}},
		{"held-event-err", "", `e := l.Error(); runtime.Gosched(); e.Err(errInner).Msg("held2")`, func(l zerolog.Logger) {
			e := l.Error()
			runtime.Gosched()
			e.Err(errInner).Msg("held2")
		}},
		// ---- chains that draw pooled arrays (Arr() itself, through a LogArrayMarshaler, Errs, a context, an object)
		{"plain-array", "", `l.Info().Int("g", 7).Array("ids", Arr().Int(0).Int(1)).Msg("done")`, func(l zerolog.Logger) {
			l.Info().Int("g", 7).Array("ids", zerolog.Arr().Int(0).Int(1)).Msg("done")
		}},
		{"empty-array", "", `l.Info().Array("none", Arr()).Dict("nothing", Dict()).Msg("empty")`, func(l zerolog.Logger) {
			l.Info().Array("none", zerolog.Arr()).Dict("nothing", zerolog.Dict()).Msg("empty")
		}},
		{"array-marshaler", "", `l.Info().Array("m", idsArr{0, 1}).Errs("es", []error{errInner}).Msg("marshaled")`, func(l zerolog.Logger) {
			l.Info().Array("m", idsArr{0, 1}).Errs("es", []error{errInner}).Msg("marshaled")
		}},
		{"context-array", "", `l.With().Array("ctxids", Arr().Int(0).Int(1)).Dict("ctxd", Dict().Int("n", 0)).Logger().Info().Msg("ctxarr")`, func(l zerolog.Logger) {
			l2 := l.With().Array("ctxids", zerolog.Arr().Int(0).Int(1)).Dict("ctxd", zerolog.Dict().Int("n", 0)).Logger()
			l2.Info().Msg("ctxarr")
		}},
		{"object-with-array", "", `l.Info().Object("o", arrObj{0}).Msg("objarr")`, func(l zerolog.Logger) {
			l.Info().Object("o", arrObj{0}).Msg("objarr")
		}},
		{"held-array", "", `a := Arr().Int(0); e := l.Info(); runtime.Gosched(); a.Int(1); e.Array("ids", a).Msg("heldarr")`, func(l zerolog.Logger) {
			a := zerolog.Arr().Int(0)
			e := l.Info()
			runtime.Gosched()
			a.Int(1)
			e.Array("ids", a).Msg("heldarr")
		}},
	}
	// ---- chains that hand pooled arguments to a FILTERED event (they write nothing; what they leave in the pools
	//      must not show in any other chain)
	return append(t, filteredChains()...)
}

// invoke runs one chain through a child of root that carries the chain's id; always entered from here so that
// Caller fields name the same frames in every run.
//
//go:noinline
func invoke(ch *dchain, root zerolog.Logger, id string) (pv interface{}) {
	defer func() { pv = recover() }()
	ch.run(root.With().Str("verifid", id).Logger())
	return nil
}

func quoteLines(ls []string) []string {
	out := make([]string, len(ls))
	for i, l := range ls {
		out[i] = fmt.Sprintf("%.300q", l)
	}
	return out
}

func sameLines(a, b []string) bool {
	if len(a) != len(b) {
		return false
	}
	for i := range a {
		if a[i] != b[i] {
			return false
		}
	}
	return true
}

func sameMultiset(a, b []string) bool {
	a, b = append([]string{}, a...), append([]string{}, b...)
	sort.Strings(a)
	sort.Strings(b)
	return sameLines(a, b)
}

func directedHistories(c *Ctx) {
	oldStack := zerolog.ErrorStackMarshaler
	zerolog.ErrorStackMarshaler = func(error) interface{} { return "trace" }
	defer func() { zerolog.ErrorStackMarshaler = oldStack }()
	zerolog.SetGlobalLevel(zerolog.DebugLevel)
	chains := chainTable()
	ids := make([]string, len(chains))
	ref := make([][]string, len(chains))
	settings := `ErrorStackMarshaler = func(error) interface{} { return "trace" }; everything else default`
	oldProcs := runtime.GOMAXPROCS(1)
	// ---- reference: every chain alone on fresh pools
	for i, ch := range chains {
		ids[i] = fmt.Sprintf("d%d", i)
		zerolog.VerifC06FreshPools()
		w := &capW{}
		if pv := invoke(ch, zerolog.New(w), ids[i]); pv != nil {
			c.Violate(Violation{Key: "logging-call-panicked", Monitor: "pool-history-sequential", Desc: fmt.Sprintf("chain %q panicked when run alone on fresh pools: %v", ch.name, pv), Case: map[string]interface{}{"settings": settings, "chain": ch.src}})
		}
		ref[i] = w.lines
	}
	// ---- sequential histories: tainter x k, then the victim
	reps := 5
	if c.Thorough() {
		reps = 12
	}
	histories := 0
	for ti, T := range chains {
		if T.taints == "" {
			continue
		}
		for vi, V := range chains {
			if vi == ti {
				continue
			}
			for _, k := range []int{1, 2} {
				bad := false
				for rep := 0; rep < reps && !bad; rep++ {
					zerolog.VerifC06FreshPools()
					w := &capW{}
					root := zerolog.New(w)
					var want []string
					var pv interface{}
					for j := 0; j < k; j++ {
						if p := invoke(T, root, ids[ti]); p != nil {
							pv = p
						}
						want = append(want, ref[ti]...)
					}
					mark := len(w.lines)
					if p := invoke(V, root, ids[vi]); p != nil {
						pv = p
					}
					want = append(want, ref[vi]...)
					histories++
					desc := map[string]interface{}{"settings": settings, "history": fmt.Sprintf("%d x [%s]  (leaves behind: %s)", k, T.src, T.taints), "then": V.src, "pools": "emptied before the history; GOMAXPROCS(1); one goroutine"}
					switch {
					case pv != nil:
						bad = true
						c.Violate(Violation{Key: "logging-call-panicked", Monitor: "pool-history-sequential", Desc: fmt.Sprintf("chain %q after %d x %q: a logging call panicked: %v", V.name, k, T.name, pv), Case: desc})
					case !sameLines(w.lines, want):
						bad = true
						got := w.lines
						exp := want
						if mark <= len(got) && sameLines(got[:mark], want[:len(want)-len(ref[vi])]) {
							got, exp = got[mark:], ref[vi]
						}
						c.Violate(Violation{Key: "line-depends-on-pool-history", Monitor: "pool-history-sequential", Desc: fmt.Sprintf("chain %q run after %d x chain %q (same goroutine, nothing else running) writes something else than the same chain run alone on fresh pools: state of a pooled Event / Array leaked from one event into another", V.name, k, T.name), Case: desc, Observed: quoteLines(got), Expected: quoteLines(exp)})
					}
				}
			}
		}
	}
	runtime.GOMAXPROCS(oldProcs)
	c.Res.Evaluations += histories
	c.Res.ExtraCoverage["pool_history_sequential"] = map[string]interface{}{"chains": len(chains), "histories": histories}

	// ---- the same table from G goroutines into one delaying writer
	rounds := 4
	if c.Thorough() {
		rounds = 12
	}
	stride := 5
	for gcd(stride, len(chains)) != 1 {
		stride++
	}
	for _, G := range []int{4, 16} {
		zerolog.VerifC06FreshPools()
		w := &sharedWriter{}
		root := zerolog.New(w)
		var wg sync.WaitGroup
		var pmu sync.Mutex
		var panicked []string
		for g := 0; g < G; g++ {
			wg.Add(1)
			go func(g int) {
				defer wg.Done()
				for r := 0; r < rounds; r++ {
					for i := range chains {
						j := (i*stride + g*3 + r) % len(chains) // stride is coprime to the table size: a permutation per (g, r)
						if pv := invoke(chains[j], root, ids[j]); pv != nil {
							pmu.Lock()
							panicked = append(panicked, fmt.Sprintf("%s: %v", chains[j].name, pv))
							pmu.Unlock()
						}
					}
				}
			}(g)
		}
		wg.Wait()
		desc := map[string]interface{}{"settings": settings, "goroutines": G, "rounds": rounds, "each goroutine runs, in rotated order": srcs(chains)}
		if len(panicked) != 0 {
			c.Violate(Violation{Key: "logging-call-panicked", Monitor: "pool-history-concurrent", Desc: fmt.Sprintf("G=%d: %d logging calls panicked while other goroutines were logging (first: %s)", G, len(panicked), panicked[0]), Case: desc})
		}
		if w.modified != 0 {
			c.Violate(Violation{Key: "buffer-modified-during-write", Monitor: "pool-history-concurrent", Desc: fmt.Sprintf("%d Write calls saw their argument change before they returned (G=%d)", w.modified, G), Case: desc})
		}
		wantCount := map[string]int{}
		owner := map[string]int{}
		for i := range chains {
			for _, ln := range ref[i] {
				wantCount[ln] += G * rounds
				owner[ln] = i
			}
		}
		gotCount := map[string]int{}
		differs := map[int]bool{} // chains with a foreign rendering: already reported, not counted as lost below
		for _, b := range w.lines {
			ln := string(b)
			gotCount[ln]++
			if _, ok := wantCount[ln]; ok {
				continue
			}
			id := idOf(b)
			var i int
			if n, _ := fmt.Sscanf(id, "d%d", &i); n != 1 || i < 0 || i >= len(chains) {
				c.Violate(Violation{Key: "unknown-or-torn-line", Monitor: "pool-history-concurrent", Desc: fmt.Sprintf("G=%d: a written line carries no known id: %.200q", G, ln), Case: desc})
				continue
			}
			differs[i] = true
			d2 := map[string]interface{}{"settings": settings, "goroutines": G, "rounds": rounds, "chain": chains[i].src, "other goroutines run, in rotated order": srcs(chains)}
			if len(ref[i]) == 0 {
				c.Violate(Violation{Key: "discarded-event-written", Monitor: "pool-history-concurrent", Desc: fmt.Sprintf("G=%d: chain %q writes nothing when run alone (discarded), but a line carrying its id reached the writer", G, chains[i].name), Case: d2, Observed: fmt.Sprintf("%.300q", ln)})
				continue
			}
			c.Violate(Violation{Key: "line-differs-from-sequential", Monitor: "pool-history-concurrent", Desc: fmt.Sprintf("G=%d: chain %q written while other goroutines log differs from the same chain run alone", G, chains[i].name), Case: d2, Observed: fmt.Sprintf("%.300q", ln), Expected: quoteLines(ref[i])})
		}
		for ln, n := range wantCount {
			if gotCount[ln] != n && !differs[owner[ln]] {
				c.Violate(Violation{Key: "write-count", Monitor: "pool-history-concurrent", Desc: fmt.Sprintf("G=%d: chain %q was run %d times, its line reached the writer %d times (lost or duplicated)", G, chains[owner[ln]].name, n, gotCount[ln]), Case: map[string]interface{}{"settings": settings, "goroutines": G, "rounds": rounds, "chain": chains[owner[ln]].src, "other goroutines run, in rotated order": srcs(chains)}, Observed: gotCount[ln], Expected: n})
			}
		}
		c.Res.Evaluations += G * rounds * len(chains)
	}
	zerolog.VerifC06FreshPools()
}

func gcd(a, b int) int {
	for b != 0 {
		a, b = b, a%b
	}
	return a
}

func srcs(chains []*dchain) []string {
	out := make([]string, len(chains))
	for i, ch := range chains {
		out[i] = ch.src
	}
	return out
}

// ---------------------------------------------------------------- scripted interleavings around hooks
type parkHook struct{ parked, resume chan struct{} }

func (h parkHook) Run(*zerolog.Event, zerolog.Level, string) {
	h.parked <- struct{}{}
	<-h.resume
}

// what goroutine B does while A is parked inside its hook (phase 1) and after A has finished (phase 2)
type bMode struct {
	name string
	src  string
	run  func(lb zerolog.Logger, letAFinish func())
}

func bModes() []bMode {
	complete := []struct {
		name, src string
		f         func(lb zerolog.Logger)
	}{
		{"plain", `lb.Info().Str("k", "v").Msg("clean")`, func(lb zerolog.Logger) { lb.Info().Str("k", "v").Msg("clean") }},
		{"prebuilt-dict", `d := Dict().Str("a", "b"); lb.Info().Dict("d", d).Msg("clean")`, func(lb zerolog.Logger) {
			d := zerolog.Dict().Str("a", "b")
			lb.Info().Dict("d", d).Msg("clean")
		}},
		{"nested-dict-array", `lb.Warn().Dict("d", Dict().Int("n", 1)).Array("a", Arr().Str("x")).Msg("clean")`, func(lb zerolog.Logger) {
			lb.Warn().Dict("d", zerolog.Dict().Int("n", 1)).Array("a", zerolog.Arr().Str("x")).Msg("clean")
		}},
	}
	var ms []bMode
	for _, cp := range complete {
		cp := cp
		for _, k := range []int{1, 2} {
			k := k
			ms = append(ms, bMode{fmt.Sprintf("%dx-%s-while-parked", k, cp.name), fmt.Sprintf("while A is parked: %d x [%s]; then A resumes and finishes", k, cp.src), func(lb zerolog.Logger, letAFinish func()) {
				for i := 0; i < k; i++ {
					cp.f(lb)
				}
				letAFinish()
			}})
		}
		ms = append(ms, bMode{cp.name + "-after", fmt.Sprintf("A resumes and finishes; then %s", cp.src), func(lb zerolog.Logger, letAFinish func()) {
			letAFinish()
			cp.f(lb)
		}})
	}
	ms = append(ms,
		bMode{"straddle-plain", `while A is parked: e := lb.Info().Str("k", "v"); A resumes and finishes; e.Int("n", 1).Msg("clean")`, func(lb zerolog.Logger, letAFinish func()) {
			e := lb.Info().Str("k", "v")
			letAFinish()
			e.Int("n", 1).Msg("clean")
		}},
		bMode{"straddle-dict", `while A is parked: e := lb.Info(); d := Dict().Str("a", "b"); A resumes and finishes; e.Dict("d", d).Msg("clean")`, func(lb zerolog.Logger, letAFinish func()) {
			e := lb.Info()
			d := zerolog.Dict().Str("a", "b")
			letAFinish()
			e.Dict("d", d).Msg("clean")
		}},
		bMode{"straddle-then-more", `while A is parked: e := lb.Info().Str("k", "v"); A resumes and finishes; e.Msg("clean"); lb.Warn().Str("junk", 16 bytes).Msg("clean2")`, func(lb zerolog.Logger, letAFinish func()) {
			e := lb.Info().Str("k", "v")
			letAFinish()
			e.Msg("clean")
			lb.Warn().Str("junk", "xxxxxxxxxxxxxxxx").Msg("clean2")
		}},
	)
	return ms
}

// runScript: A's event passes through the hooks named by cfg (D = discard, F = add a field, P = park until released);
// B acts while A is parked.  withA / withB select the solo runs used as reference.
func runScript(cfg string, bm *bMode, withA, withB bool) (lines []string, panics []string) {
	zerolog.VerifC06FreshPools()
	w := &capW{}
	root := zerolog.New(w)
	parked, resume, adone := make(chan struct{}), make(chan struct{}), make(chan struct{})
	var pmu sync.Mutex
	la := root.With().Str("verifid", "sa").Logger()
	for _, h := range cfg {
		switch h {
		case 'D':
			la = la.Hook(discardHook{})
		case 'F':
			la = la.Hook(fieldHook{})
		case 'P':
			la = la.Hook(parkHook{parked, resume})
		}
	}
	lb := root.With().Str("verifid", "sb").Logger()
	released := false
	letAFinish := func() {
		if released {
			return
		}
		released = true
		close(resume)
		for {
			select {
			case <-parked: // a park hook entered again: nothing to wait for any more, it falls through
			case <-adone:
				return
			}
		}
	}
	if withA {
		go func() {
			defer close(adone)
			defer func() {
				if pv := recover(); pv != nil {
					pmu.Lock()
					panics = append(panics, fmt.Sprintf("A: %v", pv))
					pmu.Unlock()
				}
			}()
			la.Info().Str("k", "v").Msg("noise")
		}()
		select {
		case <-parked:
		case <-adone:
		}
	} else {
		close(adone)
	}
	func() {
		defer func() {
			if pv := recover(); pv != nil {
				pmu.Lock()
				panics = append(panics, fmt.Sprintf("B: %v", pv))
				pmu.Unlock()
			}
		}()
		if withB {
			bm.run(lb, letAFinish)
		}
	}()
	letAFinish()
	w.mu.Lock()
	lines = append(lines, w.lines...)
	w.mu.Unlock()
	return
}

func scriptedHookInterleavings(c *Ctx) {
	oldProcs := runtime.GOMAXPROCS(1)
	defer runtime.GOMAXPROCS(oldProcs)
	zerolog.SetGlobalLevel(zerolog.DebugLevel)
	cfgs := []string{"P", "DP", "PD", "FP", "PF", "DPF", "DFP", "FDP", "PP"}
	cfgText := func(cfg string) string {
		var hs []string
		for _, h := range cfg {
			hs = append(hs, map[rune]string{'D': "Hook(discard: e.Discard())", 'F': `Hook(e.Str("hook", "ran"))`, 'P': "Hook(park: blocks until B lets it go on)"}[h])
		}
		return `la := root.With().Str("verifid", "sa").Logger().` + strings.Join(hs, ".") + `; la.Info().Str("k", "v").Msg("noise")`
	}
	modes := bModes()
	reps := 6
	if c.Thorough() {
		reps = 20
	}
	scripts := 0
	for _, cfg := range cfgs {
		refA, pa := runScript(cfg, nil, true, false)
		for mi := range modes {
			bm := &modes[mi]
			refB, pb := runScript(cfg, bm, false, true)
			want := append(append([]string{}, refA...), refB...)
			desc := map[string]interface{}{"goroutine A": cfgText(cfg), "goroutine B (sibling logger lb of the same root)": bm.src, "schedule": "GOMAXPROCS(1); pools emptied first; A runs until its park hook, then B as described", "alone, A writes": quoteLines(refA), "alone, B writes": quoteLines(refB)}
			if len(pa)+len(pb) != 0 {
				c.Violate(Violation{Key: "logging-call-panicked", Monitor: "scripted-hook-interleaving", Desc: fmt.Sprintf("a logging call panicked when run alone: %v %v", pa, pb), Case: desc})
				continue
			}
			for rep := 0; rep < reps; rep++ {
				got, ps := runScript(cfg, bm, true, true)
				scripts++
				if len(ps) != 0 {
					c.Violate(Violation{Key: "logging-call-panicked", Monitor: "scripted-hook-interleaving", Desc: fmt.Sprintf("hooks %s / B %s: a logging call panicked while another goroutine's event was parked inside a hook: %v", cfg, bm.name, ps), Case: desc, Observed: quoteLines(got), Expected: quoteLines(want)})
					break
				}
				if sameMultiset(got, want) {
					continue
				}
				key, what := "line-differs-from-sequential", "the lines written differ from what the two chains write when run alone (torn, mixed or foreign payload)"
				if len(got) != len(want) {
					key, what = "write-count", fmt.Sprintf("%d Write calls for %d emitted events", len(got), len(want))
				}
				c.Violate(Violation{Key: key, Monitor: "scripted-hook-interleaving", Desc: fmt.Sprintf("goroutine A is inside a hook of its event (hooks %s) while goroutine B logs through a sibling logger (%s): %s", cfg, bm.name, what), Case: desc, Observed: quoteLines(got), Expected: quoteLines(want)})
				break
			}
		}
	}
	zerolog.VerifC06FreshPools()
	c.Res.Evaluations += scripts
	c.Res.ExtraCoverage["scripted_hook_interleavings"] = map[string]interface{}{"hook_configurations": len(cfgs), "b_modes": len(modes), "scripts": scripts}
}

// ---------------------------------------------------------------- generated programs under settings with a stack marshaler
func stackSettingsPrograms(c *Ctx, now time.Time, rounds int, concurrent func(progs.Settings, []*progs.Case, map[string][]byte, map[string]bool, []int)) {
	s := progs.DefaultSettings()
	s.StackMarshaler = true
	n := 60
	if c.Thorough() {
		n = 600
	}
	var cases []*progs.Case
	ref := map[string][]byte{}
	discarded := map[string]bool{}
	stackErr := &progs.ErrV{K: "text", S: []byte("boom"), Stk: &progs.ErrV{K: "text", S: []byte("trace")}}
	for i := 0; i < n; i++ {
		g := &progs.Gen{R: c.R.Fork(), NoMarks: true, S: s, Now: now}
		cs := &progs.Case{S: s, Now: now, Level: 1}
		for k := g.R.Intn(3); k > 0; k-- {
			cs.Steps = append(cs.Steps, progs.Step{Noise: g.R.Intn(5), Cops: g.GenCopsPublic(2, 3)})
		}
		id := fmt.Sprintf("s%d", i)
		idp := progs.Prim{M: "Str", V: id}
		cs.Ops = []progs.Op{{K: "key", Key: []byte("verifid"), P: &idp}}
		switch i % 3 {
		case 0: // an event that asks for the stack of its error
			cs.Ops = append(cs.Ops, progs.Op{K: "stack"}, progs.Op{K: "err", E: stackErr})
			cs.Ops = append(cs.Ops, g.GenOps(2, 3)...)
		case 1: // an event that does not, with errors inside Dict / Array / Fields
			cs.Ops = append(cs.Ops, progs.Op{K: "dict", Key: []byte("cause"), Sub: []progs.Op{{K: "err", E: stackErr}}})
			cs.Ops = append(cs.Ops, progs.Op{K: "fields", KVs: []progs.FieldKV{{Key: []byte("e"), K: "err", E: &progs.ErrV{K: "obj", Ops: []progs.Op{{K: "err", E: stackErr}}}}}})
			cs.Ops = append(cs.Ops, progs.Op{K: "array", Key: []byte("arr"), Sub: []progs.Op{{K: "adict", Sub: []progs.Op{{K: "err", E: stackErr}}}, {K: "aobj", Sub: []progs.Op{{K: "err", E: stackErr}}}}})
		default:
			cs.Ops = append(cs.Ops, g.GenOps(3, 6)...)
		}
		cs.Msg = []byte("m")
		zerolog.VerifC06FreshPools()
		o := cs.Run()
		if o.Panic != nil {
			c.Violate(Violation{Key: "logging-call-panicked", Monitor: "no-panic", Desc: fmt.Sprintf("a logging call chain panicked (run alone on fresh pools): %v", o.Panic), Case: cs.Describe()})
			continue
		}
		cases = append(cases, cs)
		if !o.Written {
			discarded[id] = true
			continue
		}
		ref[id] = o.Line
	}
	// sequential, with history: every program again, nothing emptied in between (three passes in different orders)
	oldProcs := runtime.GOMAXPROCS(1)
	for pass := 0; pass < 3; pass++ {
		for i := range cases {
			cs := cases[(i*(2*pass+1)+pass)%len(cases)]
			id := caseID(cs)
			o := cs.Run()
			c.Res.Evaluations++
			switch {
			case o.Panic != nil:
				c.Violate(Violation{Key: "logging-call-panicked", Monitor: "pool-history-programs", Desc: fmt.Sprintf("a logging call chain panicked when run after other chains had used the pools: %v", o.Panic), Case: cs.Describe()})
			case o.Written != !discarded[id] || (o.Written && string(o.Line) != string(ref[id])):
				c.Violate(Violation{Key: "line-depends-on-pool-history", Monitor: "pool-history-programs", Desc: "a program run after other programs of this list (same goroutine) writes something else than when run alone on fresh pools", Case: map[string]interface{}{"program": cs.Describe(), "history": "the programs s0.. of this stream (every third one uses Stack().Err), pass " + fmt.Sprint(pass)}, Observed: fmt.Sprintf("%.300q", o.Line), Expected: fmt.Sprintf("%.300q", ref[id])})
			}
		}
	}
	runtime.GOMAXPROCS(oldProcs)
	concurrent(s, cases, ref, discarded, []int{8})
}
