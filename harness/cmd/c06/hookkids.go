package main

// Directed inputs for C06: children of ONE shared parent that are derived AND used in different goroutines,
// where the derivation adds a hook.  "When any number of goroutines log through the same Logger, its children
// ..., each [Write carries] one complete event byte-identical to what the same call chain produces when run
// alone; nothing is ... mixed between events, and there are no data races."
//
// Deriving a child reads the parent value; it must not write to anything the parent or a sibling can reach.
// The parent's hook slice is the state concerned here (its context buffer is covered by the neighbouring
// scenario): parents whose hooks were added one Hook() call at a time (0..7 calls: whatever capacity the slice
// then has), in one call, or through With().Timestamp(); children derived inside the goroutines with Hook(h) /
// With()...Logger().Hook(h) / Level().Hook(h) / Hook(h, h2) / With().Timestamp().Logger().Hook(h), every child
// existing before the first one logs.  Each hook writes a field naming its child, so a line that ran another
// child's hook differs from the chain run alone; the race detector watches the derivations themselves.
// (The sequential sibling effect - one goroutine, first child used after the second was made - is C03's and
// C05's subject; here every child is made and used by its own goroutine.)

import (
	"fmt"
	"io"
	"sync"
	"time"

	"github.com/rs/zerolog"
	. "verifharness/hlib"
)

type fieldNameHook struct {
	k string
	v int
}

func (h fieldNameHook) Run(e *zerolog.Event, _ zerolog.Level, _ string) { e.Int(h.k, h.v) }

func sharedParentHookChildren(c *Ctx) {
	zerolog.SetGlobalLevel(zerolog.Level(-128))
	oldTS := zerolog.TimestampFunc
	zerolog.TimestampFunc = func() time.Time { return time.Unix(1700000000, 0).UTC() }
	defer func() {
		zerolog.TimestampFunc = oldTS
		zerolog.SetGlobalLevel(zerolog.DebugLevel)
	}()
	type parentT struct {
		name string
		mk   func(w io.Writer) zerolog.Logger
	}
	var parents []parentT
	for nh := 0; nh <= 7; nh++ {
		nh := nh
		parents = append(parents, parentT{fmt.Sprintf("New(w) followed by %d Hook(h) calls, one hook each", nh), func(w io.Writer) zerolog.Logger {
			l := zerolog.New(w)
			for i := 0; i < nh; i++ {
				l = l.Hook(fieldNameHook{fmt.Sprintf("p%d", i), i})
			}
			return l
		}})
	}
	parents = append(parents,
		parentT{"New(w).Hook(h0, h1, h2) (one call)", func(w io.Writer) zerolog.Logger {
			return zerolog.New(w).Hook(fieldNameHook{"p0", 0}, fieldNameHook{"p1", 1}, fieldNameHook{"p2", 2})
		}},
		parentT{"New(w).Hook(h0).Hook(h1).With().Timestamp().Str(..).Logger() (the timestamp is the third hook)", func(w io.Writer) zerolog.Logger {
			return zerolog.New(w).Hook(fieldNameHook{"p0", 0}).Hook(fieldNameHook{"p1", 1}).With().Timestamp().Str("svc", "api").Logger()
		}},
		parentT{"New(w).Hook(h0).Hook(h1).Hook(h2).Output(w) (the copy Output makes)", func(w io.Writer) zerolog.Logger {
			return zerolog.New(io.Discard).Hook(fieldNameHook{"p0", 0}).Hook(fieldNameHook{"p1", 1}).Hook(fieldNameHook{"p2", 2}).Output(w)
		}},
	)
	vias := []struct {
		name string
		mk   func(p zerolog.Logger, g int) zerolog.Logger
	}{
		{"parent.Hook(req{g})", func(p zerolog.Logger, g int) zerolog.Logger { return p.Hook(fieldNameHook{"req", g}) }},
		{"parent.With().Int(g).Logger().Hook(req{g})", func(p zerolog.Logger, g int) zerolog.Logger {
			return p.With().Int("g", g).Logger().Hook(fieldNameHook{"req", g})
		}},
		{"parent.Level(..).Hook(req{g})", func(p zerolog.Logger, g int) zerolog.Logger {
			return p.Level(zerolog.Level(-128)).Hook(fieldNameHook{"req", g})
		}},
		{"parent.Hook(req{g}, user{g})", func(p zerolog.Logger, g int) zerolog.Logger {
			return p.Hook(fieldNameHook{"req", g}, fieldNameHook{"user", 100 + g})
		}},
		{"parent.With().Timestamp().Logger().Hook(req{g})", func(p zerolog.Logger, g int) zerolog.Logger {
			return p.With().Timestamp().Logger().Hook(fieldNameHook{"req", g})
		}},
		{"parent.Hook(req{g}).Hook(user{g})", func(p zerolog.Logger, g int) zerolog.Logger {
			return p.Hook(fieldNameHook{"req", g}).Hook(fieldNameHook{"user", 100 + g})
		}},
	}
	const G, N = 6, 4
	runs := 0
	reported := 0
	for pi, pt := range parents {
		for vi, via := range vias {
			// reference: each child alone, from a parent of its own
			want := map[string]bool{}
			for g := 0; g < G; g++ {
				rw := &capW{}
				child := via.mk(pt.mk(rw), g)
				for i := 0; i < N; i++ {
					child.Info().Int("n", g).Int("i", i).Msg("step")
				}
				for _, ln := range rw.lines {
					want[ln] = true
				}
			}
			w := &sharedWriter{}
			parent := pt.mk(w)
			var wg, made sync.WaitGroup
			start := make(chan struct{})
			for g := 0; g < G; g++ {
				wg.Add(1)
				made.Add(1)
				go func(g int) {
					defer wg.Done()
					child := via.mk(parent, g)
					made.Done()
					<-start // every child exists before the first one logs
					for i := 0; i < N; i++ {
						child.Info().Int("n", g).Int("i", i).Msg("step")
					}
				}(g)
			}
			made.Wait()
			close(start)
			wg.Wait()
			// the parent itself still runs its own hooks only
			pw := &capW{}
			solo := pt.mk(pw)
			solo.Info().Msg("parent")
			before := len(w.lines)
			parent.Info().Msg("parent")
			parentBad := len(w.lines) != before+1 || len(pw.lines) != 1 || string(w.lines[len(w.lines)-1]) != pw.lines[0]
			runs++
			bad, seen := 0, map[string]bool{}
			var example string
			for _, ln := range w.lines[:before] {
				if !want[string(ln)] || seen[string(ln)] {
					bad++
					if example == "" {
						example = fmt.Sprintf("%.200q", ln)
					}
				}
				seen[string(ln)] = true
			}
			if (bad != 0 || before != G*N || w.modified != 0 || parentBad) && reported < 4 {
				reported++
				pl := ""
				if parentBad {
					pl = fmt.Sprintf("; afterwards the parent's own event reads %q, alone %q", w.lines[before:], pw.lines)
				}
				c.Violate(Violation{Key: "sibling-children-mixed", Monitor: "hook-children-of-shared-parent",
					Desc: fmt.Sprintf("%d goroutines, each deriving its own child of one shared parent [%s] with [%s] and logging %d events through it: %d of %d lines differ from the same chain run alone or repeat (e.g. %s), %d writes%s", G, pt.name, via.name, N, bad, G*N, example, before, pl),
					Case: map[string]interface{}{"kind": "hook-children", "parent": pt.name, "parent_index": pi, "derivation": via.name, "derivation_index": vi, "goroutines": G, "events_each": N,
						"program": "parent built once; goroutine g: child := <derivation>(parent, g); wait until all children exist; N x child.Info().Int(n, g).Int(i, i).Msg(step); every hook h{k,v} adds the field k: v"},
					Observed: example})
			}
			c.Res.Evaluations += G*N + 1
		}
	}
	c.Res.ExtraCoverage["hook_children_runs"] = runs
}
