// srcgen: a translator from a subset of Go to Gallina (shallow embedding).
//
//	srcgen -repo <dir> -out <dir>
//
// For every unit in `units` it type-checks the package in the repository's WORKING TREE and writes
// <out>/<Unit>.v containing one Gallina definition per Go function it can translate (and one Fixpoint per
// loop), over the vocabulary of coq/Base/GoSem.v and coq/Enc/GoStd.v.  A function that uses a construct outside
// the subset is not translated: it is listed in a comment and in the `skipped` table of the generated file,
// never guessed.  The hand-written models are then PROVED equal to these definitions (coq/Proofs/Src*P.v),
// so the property theorems hold of what the source says now.
//
// The subset: functions and methods whose parameters and results are booleans, integers of any width, floats
// (as tagged bit patterns), strings, slices and arrays of those, time.Time / time.Duration; statements :=, =,
// op=, ++/--, var, if/else, switch (tag and tagless, no fallthrough), for (all three forms), range over
// slices and arrays, break, continue, return; expressions: constants, arithmetic with Go's wrap-around,
// comparisons, && ||, indexing and slicing (bounds become guards that yield Panic), len, append, make,
// conversions, calls to translated functions of the same unit set and to the standard-library functions listed
// in `externs`.  Everything else (pointers, maps, interfaces, closures, goroutines, defer, labels, goto,
// struct values other than the empty receiver, writes to package variables outside init) is rejected.
package main

import (
	"flag"
	"fmt"
	"go/ast"
	"go/build"
	"go/constant"
	"go/importer"
	"go/parser"
	"go/token"
	"go/types"
	"math"
	"os"
	"path/filepath"
	"sort"
	"strings"
)

type unit struct {
	out    string   // Gallina file name without .v
	pkgDir string   // relative to the repository
	tags   []string // build tags
	files  []string // base names; nil = every non-test file that matches the tags
	only   []string // if non-nil, only these function names (and what they call)
	deps   []string // units whose functions may be called (already translated)
}

var units = []unit{
	{out: "JsonSrc", pkgDir: "internal/json"},
	{out: "CborSrc", pkgDir: "internal/cbor", files: []string{"base.go", "cbor.go", "string.go", "types.go", "time.go"}},
	{out: "RootSrc", pkgDir: ".", files: []string{"console.go", "encoder_json.go"}, only: []string{"needsQuote", "appendJSON"}},
}

func main() {
	repo := flag.String("repo", "/repo", "repository")
	out := flag.String("out", "", "output directory")
	flag.Parse()
	if *out == "" {
		fmt.Fprintln(os.Stderr, "srcgen: -out required")
		os.Exit(2)
	}
	var summary []string
	for _, u := range units {
		g, err := translateUnit(*repo, u)
		if err != nil {
			fmt.Fprintf(os.Stderr, "srcgen: %s: %v\n", u.out, err)
			os.Exit(1)
		}
		if err := os.WriteFile(filepath.Join(*out, u.out+".v"), []byte(g.text), 0o644); err != nil {
			fmt.Fprintln(os.Stderr, err)
			os.Exit(1)
		}
		summary = append(summary, fmt.Sprintf("%s: %d functions, %d loops, %d skipped", u.out, g.nfun, g.nloop, g.nskip))
	}
	fmt.Println("srcgen: " + strings.Join(summary, "; "))
}

type genOut struct {
	text               string
	nfun, nloop, nskip int
}

// ---------------------------------------------------------------------------------------------------------

type pkgCtx struct {
	fset    *token.FileSet
	info    *types.Info
	pkg     *types.Package
	funcs   map[*types.Func]*ast.FuncDecl
	fname   map[*types.Func]string // Gallina name of a translated (or to be translated) function
	done    map[*types.Func]bool   // translated successfully
	fuelFn  map[*types.Func]bool   // takes a fuel parameter
	orcFn   map[*types.Func]bool   // takes the strconv.AppendFloat oracle
	divFn   map[*types.Func]bool   // takes the float64(a)/float64(b) oracle
	skipped map[*types.Func]string
	globals map[*types.Var]string // package variables set by init(): Gallina name
}

type unsupported struct{ msg string }

func fail(format string, a ...interface{}) { panic(unsupported{fmt.Sprintf(format, a...)}) }

func translateUnit(repo string, u unit) (g genOut, err error) {
	dir := filepath.Join(repo, u.pkgDir)
	fset := token.NewFileSet()
	bctx := build.Default
	bctx.BuildTags = u.tags
	ents, e := os.ReadDir(dir)
	if e != nil {
		return g, e
	}
	var files []*ast.File
	for _, ent := range ents {
		n := ent.Name()
		if !strings.HasSuffix(n, ".go") || strings.HasSuffix(n, "_test.go") {
			continue
		}
		if ok, _ := bctx.MatchFile(dir, n); !ok {
			continue
		}
		f, e := parser.ParseFile(fset, filepath.Join(dir, n), nil, parser.ParseComments)
		if e != nil {
			return g, e
		}
		files = append(files, f)
	}
	info := &types.Info{Types: map[ast.Expr]types.TypeAndValue{}, Defs: map[*ast.Ident]types.Object{}, Uses: map[*ast.Ident]types.Object{},
		Selections: map[*ast.SelectorExpr]*types.Selection{}, Implicits: map[ast.Node]types.Object{}}
	conf := types.Config{Importer: importer.ForCompiler(fset, "source", nil), Error: func(error) {}}
	pkg, _ := conf.Check(u.pkgDir, fset, files, info)
	if pkg == nil {
		return g, fmt.Errorf("type check failed")
	}
	p := &pkgCtx{fset: fset, info: info, pkg: pkg, funcs: map[*types.Func]*ast.FuncDecl{}, fname: map[*types.Func]string{},
		done: map[*types.Func]bool{}, fuelFn: map[*types.Func]bool{}, orcFn: map[*types.Func]bool{}, divFn: map[*types.Func]bool{}, skipped: map[*types.Func]string{}, globals: map[*types.Var]string{}}
	want := map[string]bool{}
	for _, f := range u.files {
		want[f] = true
	}
	var order []*types.Func
	var initDecl *ast.FuncDecl
	used := map[string]int{}
	for _, f := range files {
		base := filepath.Base(fset.Position(f.Pos()).Filename)
		for _, d := range f.Decls {
			fd, ok := d.(*ast.FuncDecl)
			if !ok || fd.Body == nil {
				continue
			}
			if fd.Name.Name == "init" && fd.Recv == nil {
				if len(want) == 0 || want[base] {
					initDecl = fd
				}
				continue
			}
			obj, _ := info.Defs[fd.Name].(*types.Func)
			if obj == nil {
				continue
			}
			p.funcs[obj] = fd
			if len(want) > 0 && !want[base] {
				p.skipped[obj] = "file not in the unit"
				continue
			}
			name := fd.Name.Name
			if len(u.only) > 0 {
				keep := false
				for _, o := range u.only {
					if o == name {
						keep = true
					}
				}
				if !keep {
					p.skipped[obj] = "not selected"
					continue
				}
			}
			used[name]++
			order = append(order, obj)
		}
	}
	for _, obj := range order {
		name := obj.Name()
		if used[name] > 1 { // same method name on two receiver types
			if sig := obj.Type().(*types.Signature); sig.Recv() != nil {
				name = recvName(sig.Recv().Type()) + "_" + name
			}
		}
		p.fname[obj] = coqIdent(name)
	}
	var b strings.Builder
	fmt.Fprintf(&b, "(* GENERATED by harness/cmd/srcgen from %s of the working tree - do not edit.\n   One definition per Go function (one Fixpoint per loop); semantics in Base/GoSem.v. *)\n", u.pkgDir)
	b.WriteString("From Verif Require Import Base.Prelude Base.Decimal Base.GoSem Enc.JsonEnc Enc.GoStd.\nOpen Scope Z_scope.\n\n")
	// init(): package variables it assigns become definitions
	if initDecl != nil {
		txt, e := p.translateInit(initDecl)
		if e != nil {
			fmt.Fprintf(&b, "(* SKIPPED init: %s *)\n\n", e)
		} else {
			b.WriteString(txt)
		}
	}
	// translate in dependency order: repeatedly pick functions whose callees are done
	emitted := map[*types.Func]bool{}
	var names, skippedNames []string
	progress := true
	for progress {
		progress = false
		for _, obj := range order {
			if emitted[obj] || p.skipped[obj] != "" {
				continue
			}
			ready := true
			for _, c := range p.callees(p.funcs[obj]) {
				if c == obj {
					p.skipped[obj] = "recursive"
					ready = false
					break
				}
				if _, mine := p.fname[c]; mine && !p.done[c] {
					if p.skipped[c] != "" {
						p.skipped[obj] = "calls " + c.Name() + " (skipped)"
					}
					ready = false
					break
				}
			}
			if !ready {
				if p.skipped[obj] != "" {
					progress = true
				}
				continue
			}
			txt, nl, e := p.translateFunc(obj)
			emitted[obj] = true
			progress = true
			if e != nil {
				p.skipped[obj] = e.Error()
				continue
			}
			p.done[obj] = true
			g.nfun++
			g.nloop += nl
			names = append(names, p.fname[obj])
			pos := fset.Position(p.funcs[obj].Pos())
			fmt.Fprintf(&b, "(* %s:%d *)\n%s\n", filepath.Base(pos.Filename), pos.Line, txt)
		}
	}
	for _, obj := range order {
		if !p.done[obj] {
			why := p.skipped[obj]
			if why == "not selected" || why == "file not in the unit" {
				continue
			}
			if why == "" {
				why = "call cycle"
			}
			g.nskip++
			skippedNames = append(skippedNames, obj.Name())
			fmt.Fprintf(&b, "(* SKIPPED %s: %s *)\n", obj.Name(), why)
		}
	}
	sort.Strings(skippedNames)
	fmt.Fprintf(&b, "\nDefinition translated_functions : list (list N) := [%s].\n", strings.Join(mapS(names, bytesLit), "; "))
	fmt.Fprintf(&b, "Definition skipped_functions : list (list N) := [%s].\n", strings.Join(mapS(skippedNames, bytesLit), "; "))
	g.text = b.String()
	return g, nil
}

func mapS(l []string, f func(string) string) []string {
	r := make([]string, len(l))
	for i, x := range l {
		r[i] = f(x)
	}
	return r
}

func recvName(t types.Type) string {
	if pt, ok := t.(*types.Pointer); ok {
		t = pt.Elem()
	}
	if n, ok := t.(*types.Named); ok {
		return n.Obj().Name()
	}
	return "recv"
}

var reserved = map[string]bool{"len": true, "idx": true, "slice": true, "guard": true, "bind": true, "fuel": true, "Ok": true, "Panic": true, "Fuel": true,
	"fun": true, "let": true, "in": true, "match": true, "with": true, "end": true, "if": true, "then": true, "else": true, "as": true, "at": true,
	"Type": true, "Set": true, "Prop": true, "fix": true, "cofix": true, "forall": true, "exists": true, "return": true, "using": true, "where": true,
	"N": true, "Z": true, "nat": true, "list": true, "bool": true, "true": true, "false": true, "nil": true, "cons": true, "length": true, "rem": true,
	"quot": true, "upd": true, "res": true, "lres": true, "O": true, "S": true, "tt": true, "unit": true, "fst": true, "snd": true, "app": true,
	"nth": true, "map": true, "repeat": true, "last": true, "hd": true, "tl": true, "rev": true, "pair": true, "Some": true, "None": true, "option": true}

func coqIdent(s string) string {
	if s == "_" {
		return "_"
	}
	if reserved[s] {
		return s + "_"
	}
	return s
}

func bytesLit(s string) string {
	var parts []string
	for i := 0; i < len(s); i++ {
		parts = append(parts, fmt.Sprint(s[i]))
	}
	return "[" + strings.Join(parts, ";") + "]%N"
}

// callees: the package-level functions / methods of this package that fd calls
func (p *pkgCtx) callees(fd *ast.FuncDecl) []*types.Func {
	seen := map[*types.Func]bool{}
	var out []*types.Func
	ast.Inspect(fd.Body, func(n ast.Node) bool {
		call, ok := n.(*ast.CallExpr)
		if !ok {
			return true
		}
		if f := p.calledFunc(call); f != nil && f.Pkg() == p.pkg && !seen[f] {
			seen[f] = true
			out = append(out, f)
		}
		return true
	})
	return out
}

func (p *pkgCtx) calledFunc(call *ast.CallExpr) *types.Func {
	switch fn := call.Fun.(type) {
	case *ast.Ident:
		f, _ := p.info.Uses[fn].(*types.Func)
		return f
	case *ast.SelectorExpr:
		if sel := p.info.Selections[fn]; sel != nil {
			f, _ := sel.Obj().(*types.Func)
			return f
		}
		f, _ := p.info.Uses[fn.Sel].(*types.Func)
		return f
	}
	return nil
}

// ---------------------------------------------------------------------------------------------------------
// types

func intInfo(t types.Type) (signed bool, width int, ok bool) {
	b, isb := t.Underlying().(*types.Basic)
	if !isb {
		return
	}
	switch b.Kind() {
	case types.Int8:
		return true, 8, true
	case types.Int16:
		return true, 16, true
	case types.Int32:
		return true, 32, true
	case types.Int64, types.Int, types.UntypedInt, types.UntypedRune:
		return true, 64, true
	case types.Uint8:
		return false, 8, true
	case types.Uint16:
		return false, 16, true
	case types.Uint32:
		return false, 32, true
	case types.Uint64, types.Uint, types.Uintptr:
		return false, 64, true
	}
	return
}

func isFloat(t types.Type) (w32 bool, ok bool) {
	b, isb := t.Underlying().(*types.Basic)
	if !isb {
		return
	}
	switch b.Kind() {
	case types.Float32:
		return true, true
	case types.Float64, types.UntypedFloat:
		return false, true
	}
	return
}

func isBool(t types.Type) bool {
	b, ok := t.Underlying().(*types.Basic)
	return ok && b.Info()&types.IsBoolean != 0
}

func isString(t types.Type) bool {
	b, ok := t.Underlying().(*types.Basic)
	return ok && b.Info()&types.IsString != 0
}

func isNamed(t types.Type, pkg, name string) bool {
	n, ok := t.(*types.Named)
	return ok && n.Obj().Pkg() != nil && n.Obj().Pkg().Path() == pkg && n.Obj().Name() == name
}

func coqType(t types.Type) string {
	if isNamed(t, "time", "Time") {
		return "tval"
	}
	if isNamed(t, "time", "Duration") {
		return "Z"
	}
	switch u := t.Underlying().(type) {
	case *types.Basic:
		if isBool(t) {
			return "bool"
		}
		if isString(t) {
			return "(list N)"
		}
		if s, _, ok := intInfo(t); ok {
			if s {
				return "Z"
			}
			return "N"
		}
		if _, ok := isFloat(t); ok {
			return "gofl"
		}
	case *types.Slice:
		return "(list " + coqType(u.Elem()) + ")"
	case *types.Array:
		return "(list " + coqType(u.Elem()) + ")"
	case *types.Struct:
		if u.NumFields() == 0 {
			return "unit"
		}
	case *types.Tuple:
		var parts []string
		for i := 0; i < u.Len(); i++ {
			parts = append(parts, coqType(u.At(i).Type()))
		}
		if len(parts) == 1 {
			return parts[0]
		}
		return "(" + strings.Join(parts, " * ") + ")"
	}
	fail("type %s is outside the subset", t)
	return ""
}

func zeroOf(t types.Type) string {
	if isNamed(t, "time", "Duration") {
		return "0"
	}
	if isNamed(t, "time", "Time") {
		return "tval0"
	}
	switch u := t.Underlying().(type) {
	case *types.Basic:
		if isBool(t) {
			return "false"
		}
		if isString(t) {
			return "[]"
		}
		if s, _, ok := intInfo(t); ok {
			if s {
				return "0"
			}
			return "0%N"
		}
		if w32, ok := isFloat(t); ok {
			return fmt.Sprintf("{| fl32 := %v; flbits := 0%%N |}", w32)
		}
	case *types.Slice:
		return "[]"
	case *types.Array:
		return fmt.Sprintf("(repeat %s (Z.to_nat %d))", zeroOf(u.Elem()), u.Len())
	}
	fail("no zero value for %s", t)
	return ""
}

// ---------------------------------------------------------------------------------------------------------
// per-function translation

type fnCtx struct {
	p        *pkgCtx
	names    map[types.Object]string
	taken    map[string]bool
	resType  string
	loops    []string
	fname    string
	nloop    int
	nk       int
	ntmp     int
	needFuel bool
	needOrc  bool
	needDiv  bool
	pre      []func(string) string // pending wrappers (guards, binds) of the statement being translated
	cond     []string              // enclosing short-circuit conditions (guards become implications)
	locals   map[types.Object]bool // objects treated as local variables (params, locals, init's globals)
}

// where control goes when a statement list is left
type exits struct {
	next   func() string // falling off the end
	brk    func() string
	cont   func() string
	ret    func(string) string // return with this value
	inLoop bool
}

func (p *pkgCtx) newFn(name string) *fnCtx {
	return &fnCtx{p: p, names: map[types.Object]string{}, taken: map[string]bool{}, fname: name, locals: map[types.Object]bool{}}
}

func (f *fnCtx) nameOf(o types.Object) string {
	if n, ok := f.names[o]; ok {
		return n
	}
	base := coqIdent(o.Name())
	if base == "_" {
		base = "blank"
	}
	n := base
	for i := 1; f.taken[n] || f.globalName(n); i++ {
		n = fmt.Sprintf("%s_%d", base, i)
	}
	f.taken[n] = true
	f.names[o] = n
	f.locals[o] = true
	return n
}

func (f *fnCtx) globalName(n string) bool {
	for _, g := range f.p.fname {
		if g == n {
			return true
		}
	}
	for _, g := range f.p.globals {
		if g == n {
			return true
		}
	}
	return false
}

func (f *fnCtx) tmp(prefix string) string {
	f.ntmp++
	n := fmt.Sprintf("%s%d", prefix, f.ntmp)
	for f.taken[n] {
		f.ntmp++
		n = fmt.Sprintf("%s%d", prefix, f.ntmp)
	}
	f.taken[n] = true
	return n
}

func (p *pkgCtx) translateFunc(obj *types.Func) (txt string, nloops int, err error) {
	defer func() {
		if r := recover(); r != nil {
			if u, ok := r.(unsupported); ok {
				err = fmt.Errorf("%s", u.msg)
				return
			}
			panic(r)
		}
	}()
	fd := p.funcs[obj]
	f := p.newFn(p.fname[obj])
	sig := obj.Type().(*types.Signature)
	if sig.Variadic() {
		fail("variadic")
	}
	var params []string
	if fd.Recv != nil {
		rt := sig.Recv().Type()
		if st, ok := rt.Underlying().(*types.Struct); !ok || st.NumFields() != 0 {
			fail("receiver %s is not an empty struct", rt)
		}
		// the receiver carries no data: dropped
	}
	for i := 0; i < sig.Params().Len(); i++ {
		v := sig.Params().At(i)
		params = append(params, fmt.Sprintf("(%s : %s)", f.nameOf(v), coqType(v.Type())))
	}
	if sig.Results().Len() == 0 {
		fail("no result")
	}
	f.resType = coqType(sig.Results())
	var named []*types.Var
	for i := 0; i < sig.Results().Len(); i++ {
		if v := sig.Results().At(i); v.Name() != "" && v.Name() != "_" {
			named = append(named, v)
		}
	}
	if len(named) > 0 {
		fail("named results")
	}
	ex := exits{next: func() string { fail("control reaches the end of the function"); return "" }, ret: func(v string) string { return "Ok " + paren(v) }}
	body := f.block(fd.Body.List, ex)
	var b strings.Builder
	for _, l := range f.loops {
		b.WriteString(f.orcFill(l))
		b.WriteString("\n")
	}
	fuelParam := ""
	if f.needOrc {
		fuelParam = " (fo : float_oracle)"
		p.orcFn[obj] = true
	}
	if f.needDiv {
		fuelParam += " (fq : Z -> Z -> gofl)"
		p.divFn[obj] = true
	}
	if f.needFuel {
		fuelParam += " (fuel : nat)"
		p.fuelFn[obj] = true
	}
	fmt.Fprintf(&b, "Definition %s%s %s : res %s :=\n%s.\n", f.fname, fuelParam, strings.Join(params, " "), f.resType, indent(f.orcFill(body), 1))
	return b.String(), f.nloop, nil
}

// init(): the package variables it assigns are its result
func (p *pkgCtx) translateInit(fd *ast.FuncDecl) (txt string, err error) {
	defer func() {
		if r := recover(); r != nil {
			if u, ok := r.(unsupported); ok {
				err = fmt.Errorf("%s", u.msg)
				return
			}
			panic(r)
		}
	}()
	f := p.newFn("init_")
	var gl []*types.Var
	seen := map[*types.Var]bool{}
	ast.Inspect(fd.Body, func(n ast.Node) bool {
		as, ok := n.(*ast.AssignStmt)
		if !ok {
			return true
		}
		for _, l := range as.Lhs {
			id := baseIdent(l)
			if id == nil {
				continue
			}
			if v, ok := p.info.Uses[id].(*types.Var); ok && v.Parent() == p.pkg.Scope() && !seen[v] {
				seen[v] = true
				gl = append(gl, v)
			}
		}
		return true
	})
	if len(gl) == 0 {
		return "", nil
	}
	var tys, nms, inits []string
	for _, v := range gl {
		n := f.nameOf(v)
		nms = append(nms, n)
		tys = append(tys, coqType(v.Type()))
		inits = append(inits, fmt.Sprintf("let %s := %s in", n, zeroOf(v.Type())))
	}
	f.resType = "(" + strings.Join(tys, " * ") + ")"
	if len(tys) == 1 {
		f.resType = tys[0]
	}
	tuple := "(" + strings.Join(nms, ", ") + ")"
	if len(nms) == 1 {
		tuple = nms[0]
	}
	ex := exits{next: func() string { return "Ok " + tuple }, ret: func(string) string { return "Ok " + tuple }}
	body := f.block(fd.Body.List, ex)
	var b strings.Builder
	for _, l := range f.loops {
		b.WriteString(f.orcFill(l) + "\n")
	}
	body = f.orcFill(body)
	if f.needFuel || f.needOrc || f.needDiv {
		fail("init needs explicit fuel or an oracle")
	}
	fmt.Fprintf(&b, "Definition init_ : res %s :=\n%s\n%s.\n", f.resType, indent(strings.Join(inits, "\n"), 1), indent(body, 1))
	for i, v := range gl {
		proj := "t"
		if len(gl) > 1 {
			pat := make([]string, len(gl))
			for j := range pat {
				pat[j] = "_"
			}
			pat[i] = "x"
			proj = "let '(" + strings.Join(pat, ", ") + ") := t in x"
		}
		name := coqIdent(v.Name())
		fmt.Fprintf(&b, "Definition %s : %s := match init_ with Ok t => %s | _ => %s end.\n", name, coqType(v.Type()), proj, zeroOf(v.Type()))
		p.globals[v] = name
	}
	b.WriteString("\n")
	return b.String(), nil
}

func baseIdent(e ast.Expr) *ast.Ident {
	switch x := e.(type) {
	case *ast.Ident:
		return x
	case *ast.IndexExpr:
		return baseIdent(x.X)
	case *ast.ParenExpr:
		return baseIdent(x.X)
	}
	return nil
}

func indent(s string, n int) string {
	pad := strings.Repeat("  ", n)
	lines := strings.Split(s, "\n")
	for i, l := range lines {
		if l != "" {
			lines[i] = pad + l
		}
	}
	return strings.Join(lines, "\n")
}

func paren(s string) string {
	if strings.ContainsAny(s, " \n") && !(strings.HasPrefix(s, "(") && matchingParen(s)) && !(strings.HasPrefix(s, "[") && strings.HasSuffix(s, "]")) {
		return "(" + s + ")"
	}
	return s
}

func matchingParen(s string) bool {
	d := 0
	for i, c := range s {
		if c == '(' {
			d++
		} else if c == ')' {
			d--
			if d == 0 && i != len(s)-1 {
				return false
			}
		}
	}
	return d == 0 && strings.HasSuffix(s, ")")
}

// ---------------------------------------------------------------------------------------------------------
// statements

// loops are emitted before it is known whether the function needs the float oracle: placeholders are filled at the end
func (f *fnCtx) orcFill(s string) string {
	par, arg := "", ""
	if f.needOrc {
		par, arg = "(fo : float_oracle) ", " fo"
	}
	if f.needDiv {
		par, arg = par+"(fq : Z -> Z -> gofl) ", arg+" fq"
	}
	return strings.ReplaceAll(strings.ReplaceAll(s, "(*ORC*)", par), "(*ORCA*)", arg)
}

func (f *fnCtx) wrapPre(code string) string {
	for i := len(f.pre) - 1; i >= 0; i-- {
		code = f.pre[i](code)
	}
	f.pre = nil
	return code
}

// prefix (an incomplete `let .. in` / `bind .. (fun x =>`) followed by what cont generates and suffix, all inside the
// guards and binds pending for the current statement
func (f *fnCtx) then(prefix, suffix string, cont func() string) string {
	pre := f.pre
	f.pre = nil
	body := cont() + suffix
	if prefix != "" {
		body = prefix + "\n" + body
	}
	f.pre = pre
	return f.wrapPre(body)
}

func (f *fnCtx) block(stmts []ast.Stmt, ex exits) string {
	if len(f.pre) != 0 {
		panic("internal: pending guards at a statement boundary")
	}
	if len(stmts) == 0 {
		return ex.next()
	}
	s, rest := stmts[0], stmts[1:]
	switch s := s.(type) {
	case *ast.BlockStmt:
		return f.block(append(append([]ast.Stmt{}, s.List...), rest...), ex)
	case *ast.EmptyStmt:
		return f.block(rest, ex)
	case *ast.DeclStmt:
		gd, ok := s.Decl.(*ast.GenDecl)
		if !ok || gd.Tok != token.VAR {
			if ok && gd.Tok == token.CONST {
				return f.block(rest, ex)
			}
			fail("declaration statement")
		}
		type vdecl struct {
			o   types.Object
			val ast.Expr
		}
		var ds []vdecl
		for _, sp := range gd.Specs {
			vs := sp.(*ast.ValueSpec)
			if len(vs.Values) != 0 && len(vs.Values) != len(vs.Names) {
				fail("var declaration from a tuple")
			}
			for i, id := range vs.Names {
				o := f.p.info.Defs[id]
				if o == nil {
					continue
				}
				var v ast.Expr
				if i < len(vs.Values) {
					v = vs.Values[i]
				}
				ds = append(ds, vdecl{o, v})
			}
		}
		var emit func(i int) string
		emit = func(i int) string {
			if i == len(ds) {
				return f.block(rest, ex)
			}
			val := zeroOf(ds[i].o.Type())
			if ds[i].val != nil {
				val = f.expr(ds[i].val)
			}
			return f.then(fmt.Sprintf("let %s : %s := %s in", f.nameOf(ds[i].o), coqType(ds[i].o.Type()), val), "", func() string { return emit(i + 1) })
		}
		return emit(0)
	case *ast.AssignStmt:
		return f.assign(s, rest, ex)
	case *ast.IncDecStmt:
		op := token.ADD
		if s.Tok == token.DEC {
			op = token.SUB
		}
		t := f.p.info.TypeOf(s.X)
		one := "1"
		if sg, _, _ := intInfo(t); !sg {
			one = "1%N"
		}
		val := f.arith(op, f.expr(s.X), one, t)
		return f.store(s.X, val, rest, ex)
	case *ast.ReturnStmt:
		if len(s.Results) == 0 {
			return ex.ret("")
		}
		if len(s.Results) == 1 && !ex.inLoop {
			// tail call of a translated function: no bind
			if call, ok := s.Results[0].(*ast.CallExpr); ok {
				if fn := f.p.calledFunc(call); fn != nil && f.p.done[fn] {
					code := f.callTranslated(fn, call)
					return f.wrapPre(code)
				}
			}
		}
		var vals []string
		for _, r := range s.Results {
			vals = append(vals, f.expr(r))
		}
		v := strings.Join(vals, ", ")
		if len(vals) > 1 {
			v = "(" + v + ")"
		}
		return f.wrapPre(ex.ret(v))
	case *ast.IfStmt:
		return f.ifStmt(s, rest, ex)
	case *ast.SwitchStmt:
		return f.switchStmt(s, rest, ex)
	case *ast.ForStmt:
		return f.forStmt(s, rest, ex)
	case *ast.RangeStmt:
		return f.rangeStmt(s, rest, ex)
	case *ast.BranchStmt:
		if s.Label != nil {
			fail("labelled branch")
		}
		switch s.Tok {
		case token.BREAK:
			if ex.brk == nil {
				fail("break outside a loop or switch")
			}
			return ex.brk()
		case token.CONTINUE:
			if ex.cont == nil {
				fail("continue outside a loop")
			}
			return ex.cont()
		}
		fail("branch statement %s", s.Tok)
	case *ast.ExprStmt:
		fail("expression statement")
	}
	fail("statement %T", s)
	return ""
}

func (f *fnCtx) assign(s *ast.AssignStmt, rest []ast.Stmt, ex exits) string {
	if len(s.Lhs) == 1 && len(s.Rhs) == 1 {
		lhs := s.Lhs[0]
		var val string
		if s.Tok == token.DEFINE || s.Tok == token.ASSIGN {
			val = f.expr(s.Rhs[0])
		} else {
			op := map[token.Token]token.Token{token.ADD_ASSIGN: token.ADD, token.SUB_ASSIGN: token.SUB, token.MUL_ASSIGN: token.MUL, token.QUO_ASSIGN: token.QUO,
				token.REM_ASSIGN: token.REM, token.AND_ASSIGN: token.AND, token.OR_ASSIGN: token.OR, token.XOR_ASSIGN: token.XOR, token.SHL_ASSIGN: token.SHL,
				token.SHR_ASSIGN: token.SHR, token.AND_NOT_ASSIGN: token.AND_NOT}[s.Tok]
			t := f.p.info.TypeOf(lhs)
			if op == token.SHL || op == token.SHR {
				val = f.shift(op, f.expr(lhs), s.Rhs[0], t)
			} else {
				val = f.arith(op, f.expr(lhs), f.expr(s.Rhs[0]), t)
			}
		}
		return f.store(lhs, val, rest, ex)
	}
	if len(s.Rhs) == 1 && len(s.Lhs) > 1 {
		// tuple from a call
		call, ok := s.Rhs[0].(*ast.CallExpr)
		if !ok {
			fail("tuple assignment from a non-call")
		}
		var pats []string
		for _, l := range s.Lhs {
			id, ok := l.(*ast.Ident)
			if !ok {
				fail("tuple assignment to a non-identifier")
			}
			if id.Name == "_" {
				pats = append(pats, "_")
				continue
			}
			o := f.p.info.ObjectOf(id)
			pats = append(pats, f.nameOf(o))
		}
		pat := "'(" + strings.Join(pats, ", ") + ")"
		if fn := f.p.calledFunc(call); fn != nil && f.p.done[fn] {
			code := f.callTranslated(fn, call)
			return f.then(fmt.Sprintf("bind %s (fun %s =>", paren(code), pat), ")", func() string { return f.block(rest, ex) })
		}
		code := f.expr(call)
		return f.then(fmt.Sprintf("let %s := %s in", pat, code), "", func() string { return f.block(rest, ex) })
	}
	if len(s.Lhs) == len(s.Rhs) {
		var pats, vals []string
		for i, l := range s.Lhs {
			id, ok := l.(*ast.Ident)
			if !ok {
				fail("parallel assignment to a non-identifier")
			}
			vals = append(vals, f.expr(s.Rhs[i]))
			if id.Name == "_" {
				pats = append(pats, "_")
			} else {
				pats = append(pats, f.nameOf(f.p.info.ObjectOf(id)))
			}
		}
		return f.then(fmt.Sprintf("let '(%s) := (%s) in", strings.Join(pats, ", "), strings.Join(vals, ", ")), "", func() string { return f.block(rest, ex) })
	}
	fail("assignment shape")
	return ""
}

// store val into the place lhs, then continue with rest
func (f *fnCtx) store(lhs ast.Expr, val string, rest []ast.Stmt, ex exits) string {
	switch l := lhs.(type) {
	case *ast.Ident:
		if l.Name == "_" {
			return f.then("", "", func() string { return f.block(rest, ex) })
		}
		o := f.p.info.ObjectOf(l)
		if v, ok := o.(*types.Var); ok && v.Parent() == f.p.pkg.Scope() && !f.locals[o] {
			fail("assignment to package variable %s", l.Name)
		}
		return f.then(fmt.Sprintf("let %s := %s in", f.nameOf(o), val), "", func() string { return f.block(rest, ex) })
	case *ast.IndexExpr:
		id, ok := l.X.(*ast.Ident)
		if !ok {
			fail("indexed assignment to a non-variable")
		}
		o := f.p.info.ObjectOf(id)
		if _, isMap := f.p.info.TypeOf(l.X).Underlying().(*types.Map); isMap {
			fail("map assignment")
		}
		if v, ok := o.(*types.Var); ok && v.Parent() == f.p.pkg.Scope() && !f.locals[o] {
			fail("assignment to package variable %s", id.Name)
		}
		a := f.nameOf(o)
		i := f.toZ(l.Index)
		f.addGuard(fmt.Sprintf("inb %s %s", paren(i), a))
		return f.then(fmt.Sprintf("let %s := set_idx %s %s %s in", a, a, paren(i), paren(val)), "", func() string { return f.block(rest, ex) })
	}
	fail("assignment target %T", lhs)
	return ""
}

// variables assigned in the nodes that are declared outside them (and are locals)
func (f *fnCtx) assigned(nodes []ast.Node) []types.Object {
	var lo, hi token.Pos
	for i, n := range nodes {
		if n == nil {
			continue
		}
		if i == 0 || lo == 0 || n.Pos() < lo {
			lo = n.Pos()
		}
		if n.End() > hi {
			hi = n.End()
		}
	}
	seen := map[types.Object]bool{}
	var out []types.Object
	add := func(e ast.Expr) {
		id := baseIdent(e)
		if id == nil || id.Name == "_" {
			return
		}
		o := f.p.info.ObjectOf(id)
		if o == nil || seen[o] {
			return
		}
		if _, isVar := o.(*types.Var); !isVar {
			return
		}
		if o.Pos() >= lo && o.Pos() < hi { // declared inside
			return
		}
		if o.Parent() == f.p.pkg.Scope() && !f.locals[o] {
			return
		}
		seen[o] = true
		out = append(out, o)
	}
	for _, n := range nodes {
		if n == nil {
			continue
		}
		ast.Inspect(n, func(n ast.Node) bool {
			switch s := n.(type) {
			case *ast.AssignStmt:
				for _, l := range s.Lhs {
					add(l)
				}
			case *ast.IncDecStmt:
				add(s.X)
			case *ast.RangeStmt:
				if s.Tok == token.ASSIGN {
					if s.Key != nil {
						add(s.Key)
					}
					if s.Value != nil {
						add(s.Value)
					}
				}
			case *ast.FuncLit:
				fail("function literal")
			}
			return true
		})
	}
	sort.Slice(out, func(i, j int) bool { return out[i].Pos() < out[j].Pos() })
	return out
}

// local variables used in the nodes and declared outside them
func (f *fnCtx) freeVars(nodes []ast.Node) []types.Object {
	var lo, hi token.Pos
	for _, n := range nodes {
		if n == nil {
			continue
		}
		if lo == 0 || n.Pos() < lo {
			lo = n.Pos()
		}
		if n.End() > hi {
			hi = n.End()
		}
	}
	seen := map[types.Object]bool{}
	var out []types.Object
	for _, n := range nodes {
		if n == nil {
			continue
		}
		ast.Inspect(n, func(n ast.Node) bool {
			id, ok := n.(*ast.Ident)
			if !ok {
				return true
			}
			o := f.p.info.ObjectOf(id)
			v, isVar := o.(*types.Var)
			if !isVar || seen[o] || v.IsField() {
				return true
			}
			if st, ok := v.Type().Underlying().(*types.Struct); ok && st.NumFields() == 0 {
				return true // the data-less receiver
			}
			if o.Pos() >= lo && o.Pos() < hi {
				return true
			}
			if o.Parent() == f.p.pkg.Scope() && !f.locals[o] {
				return true
			}
			if o.Pkg() != f.p.pkg {
				return true
			}
			seen[o] = true
			out = append(out, o)
			return true
		})
	}
	sort.Slice(out, func(i, j int) bool { return out[i].Pos() < out[j].Pos() })
	return out
}

func fallsThrough(stmts []ast.Stmt) bool {
	if len(stmts) == 0 {
		return true
	}
	switch s := stmts[len(stmts)-1].(type) {
	case *ast.ReturnStmt:
		return false
	case *ast.BranchStmt:
		return false
	case *ast.BlockStmt:
		return fallsThrough(s.List)
	case *ast.IfStmt:
		if s.Else == nil {
			return true
		}
		var els []ast.Stmt
		switch e := s.Else.(type) {
		case *ast.BlockStmt:
			els = e.List
		default:
			els = []ast.Stmt{e}
		}
		return fallsThrough(s.Body.List) || fallsThrough(els)
	case *ast.SwitchStmt:
		hasDefault := false
		for _, c := range s.Body.List {
			cc := c.(*ast.CaseClause)
			if cc.List == nil {
				hasDefault = true
			}
			if fallsThrough(cc.Body) || containsBreak(cc.Body) {
				return true
			}
		}
		return !hasDefault
	case *ast.ExprStmt:
		if call, ok := s.X.(*ast.CallExpr); ok {
			if id, ok := call.Fun.(*ast.Ident); ok && id.Name == "panic" {
				return false
			}
		}
	}
	return true
}

// an unlabelled break that belongs to the enclosing switch (not to an inner loop)
func containsBreak(stmts []ast.Stmt) bool {
	found := false
	var walk func(n ast.Node) bool
	walk = func(n ast.Node) bool {
		switch s := n.(type) {
		case *ast.ForStmt, *ast.RangeStmt, *ast.SwitchStmt, *ast.FuncLit:
			return false
		case *ast.BranchStmt:
			if s.Tok == token.BREAK {
				found = true
			}
		}
		return true
	}
	for _, s := range stmts {
		ast.Inspect(s, walk)
	}
	return found
}

type branch struct {
	cond string // "" for the default branch
	body []ast.Stmt
}

// a multi-way branch followed by rest. brkToNext: a break inside a branch leaves the branch statement (switch).
func (f *fnCtx) branches(brs []branch, nodes []ast.Node, rest []ast.Stmt, ex exits, brkToNext bool) string {
	jumps := 0
	if brs[len(brs)-1].cond != "" { // no default branch: the implicit one falls through
		jumps++
	}
	for _, b := range brs {
		if fallsThrough(b.body) {
			jumps++
		}
		if brkToNext && containsBreak(b.body) {
			jumps++
		}
	}
	inner := ex
	var header string
	switch {
	case len(rest) == 0:
		// the continuation is already a small piece of code
	case jumps <= 1:
		n := ex.next
		done := false
		inner.next = func() string {
			if done {
				fail("internal: continuation emitted twice")
			}
			done = true
			saved := f.pre
			f.pre = nil
			r := f.block(rest, exits{next: n, brk: ex.brk, cont: ex.cont, ret: ex.ret, inLoop: ex.inLoop})
			f.pre = saved
			return r
		}
	default:
		mods := f.assigned(nodes)
		f.nk++
		k := fmt.Sprintf("k%d", f.nk)
		var ps, as []string
		for _, o := range mods {
			ps = append(ps, fmt.Sprintf("(%s : %s)", f.nameOf(o), coqType(o.Type())))
			as = append(as, f.nameOf(o))
		}
		if len(ps) == 0 {
			ps = []string{"(_ : unit)"}
			as = []string{"tt"}
		}
		saved := f.pre
		f.pre = nil
		body := f.block(rest, ex)
		f.pre = saved
		header = fmt.Sprintf("let %s := fun %s =>\n%s in\n", k, strings.Join(ps, " "), indent(body, 2))
		call := k + " " + strings.Join(as, " ")
		inner.next = func() string { return call }
	}
	if brkToNext {
		inner.brk = inner.next
	}
	var b strings.Builder
	b.WriteString(header)
	hasDefault := false
	for i, br := range brs {
		if br.cond == "" {
			if i != len(brs)-1 {
				fail("internal: default branch not last")
			}
			hasDefault = true
			b.WriteString("(\n" + indent(f.block(br.body, inner), 1) + ")")
			break
		}
		fmt.Fprintf(&b, "if %s then (\n%s)\nelse ", br.cond, indent(f.block(br.body, inner), 1))
	}
	if !hasDefault {
		b.WriteString(paren(inner.next()))
	}
	return b.String()
}

func (f *fnCtx) ifStmt(s *ast.IfStmt, rest []ast.Stmt, ex exits) string {
	if s.Init != nil {
		// if x := e; cond {...}: the init statement first (its variables are uniquely named)
		return f.block(append([]ast.Stmt{s.Init, &ast.IfStmt{If: s.If, Cond: s.Cond, Body: s.Body, Else: s.Else}}, rest...), ex)
	}
	cond := f.expr(s.Cond)
	pre := f.pre
	f.pre = nil
	brs := []branch{{cond: cond, body: s.Body.List}}
	nodes := []ast.Node{s.Body}
	if s.Else != nil {
		var els []ast.Stmt
		switch e := s.Else.(type) {
		case *ast.BlockStmt:
			els = e.List
		default:
			els = []ast.Stmt{e}
		}
		brs = append(brs, branch{body: els})
		nodes = append(nodes, s.Else)
	}
	code := f.branches(brs, nodes, rest, ex, false)
	f.pre = pre
	return f.wrapPre(code)
}

func (f *fnCtx) switchStmt(s *ast.SwitchStmt, rest []ast.Stmt, ex exits) string {
	if s.Init != nil {
		return f.block(append([]ast.Stmt{s.Init, &ast.SwitchStmt{Switch: s.Switch, Tag: s.Tag, Body: s.Body}}, rest...), ex)
	}
	var tag string
	var tagT types.Type
	if s.Tag != nil {
		tagT = f.p.info.TypeOf(s.Tag)
		v := f.expr(s.Tag)
		tag = f.tmp("sw")
		return f.then(fmt.Sprintf("let %s := %s in", tag, v), "", func() string { return f.switchBody(s, tag, tagT, rest, ex) })
	}
	return f.switchBody(s, tag, tagT, rest, ex)
}

func (f *fnCtx) switchBody(s *ast.SwitchStmt, tag string, tagT types.Type, rest []ast.Stmt, ex exits) string {
	header := ""
	var brs []branch
	var deflt *branch
	var nodes []ast.Node
	for _, c := range s.Body.List {
		cc := c.(*ast.CaseClause)
		for _, st := range cc.Body {
			if bs, ok := st.(*ast.BranchStmt); ok && bs.Tok == token.FALLTHROUGH {
				fail("fallthrough")
			}
		}
		nodes = append(nodes, cc)
		if cc.List == nil {
			deflt = &branch{body: cc.Body}
			continue
		}
		var conds []string
		for _, e := range cc.List {
			if s.Tag != nil {
				conds = append(conds, f.compare(token.EQL, tag, f.expr(e), tagT))
			} else {
				conds = append(conds, f.expr(e))
			}
			if len(f.pre) > 0 {
				fail("case expression with a guard or call")
			}
		}
		brs = append(brs, branch{cond: strings.Join(conds, " || "), body: cc.Body})
	}
	if deflt != nil {
		brs = append(brs, *deflt)
	}
	if len(brs) == 0 {
		return header + f.block(rest, ex)
	}
	return header + f.branches(brs, nodes, rest, ex, true)
}

func (f *fnCtx) loopSig(name string, lead string, consts, mods []types.Object) (params string, args []string, modArgs []string, mty string, mpat string) {
	var ps []string
	isMod := map[types.Object]bool{}
	for _, o := range mods {
		isMod[o] = true
	}
	for _, o := range consts {
		if !isMod[o] {
			ps = append(ps, fmt.Sprintf("(%s : %s)", f.nameOf(o), coqType(o.Type())))
			args = append(args, f.nameOf(o))
		}
	}
	var tys []string
	for _, o := range mods {
		ps = append(ps, fmt.Sprintf("(%s : %s)", f.nameOf(o), coqType(o.Type())))
		args = append(args, f.nameOf(o))
		modArgs = append(modArgs, f.nameOf(o))
		tys = append(tys, coqType(o.Type()))
	}
	switch len(mods) {
	case 0:
		mty, mpat = "unit", "_"
	case 1:
		mty, mpat = tys[0], modArgs[0]
	default:
		mty, mpat = "("+strings.Join(tys, " * ")+")", "'("+strings.Join(modArgs, ", ")+")"
	}
	return strings.Join(ps, " "), args, modArgs, mty, mpat
}

func tupleOf(names []string) string {
	switch len(names) {
	case 0:
		return "tt"
	case 1:
		return names[0]
	}
	return "(" + strings.Join(names, ", ") + ")"
}

func (f *fnCtx) afterLoop(call string, mpat string, rest []ast.Stmt, ex exits) string {
	b := "lbind"
	if ex.inLoop {
		b = "lbind2"
	}
	return fmt.Sprintf("%s (%s) (fun %s =>\n%s)", b, call, mpat, indent(f.block(rest, ex), 1))
}

func (f *fnCtx) forStmt(s *ast.ForStmt, rest []ast.Stmt, ex exits) string {
	if s.Init != nil {
		return f.block(append([]ast.Stmt{s.Init, &ast.ForStmt{For: s.For, Cond: s.Cond, Post: s.Post, Body: s.Body}}, rest...), ex)
	}
	f.nloop++
	name := fmt.Sprintf("%s_loop%d", f.fname, f.nloop)
	nodes := []ast.Node{s.Body}
	if s.Cond != nil {
		nodes = append(nodes, s.Cond)
	}
	if s.Post != nil {
		nodes = append(nodes, s.Post)
	}
	free := f.freeVars(nodes)
	mods := f.assigned(nodes)
	params, args, modArgs, mty, mpat := f.loopSig(name, "", free, mods)
	// fuel at the call site: a measure read off the condition, or the function's own fuel parameter
	fuel := f.fuelFor(s)
	// the loop body
	savedPre := f.pre
	f.pre = nil
	rec := fmt.Sprintf("%s(*ORCA*) fuel %s", name, strings.Join(args, " "))
	exit := "Ok (LExit " + tupleOf(modArgs) + ")"
	inner := exits{inLoop: true, ret: func(v string) string { return "Ok (LRet " + paren(v) + ")" }, brk: func() string { return exit }}
	step := func() string {
		if s.Post != nil {
			return f.block([]ast.Stmt{s.Post}, exits{next: func() string { return rec }, ret: inner.ret, inLoop: true})
		}
		return rec
	}
	inner.next = step
	inner.cont = step
	var body string
	if s.Cond != nil {
		c := f.expr(s.Cond)
		cpre := f.pre
		f.pre = nil
		b := f.block(s.Body.List, inner)
		f.pre = cpre
		body = f.wrapPre(fmt.Sprintf("if %s then (\n%s)\nelse %s", c, indent(b, 1), exit))
	} else {
		body = f.block(s.Body.List, inner)
	}
	f.pre = savedPre
	f.loops = append(f.loops, fmt.Sprintf("Fixpoint %s (*ORC*)(fuel : nat) %s {struct fuel} : res (lres %s %s) :=\n  match fuel with\n  | O => Fuel\n  | S fuel =>\n%s\n  end.\n",
		name, params, f.resType, mty, indent(body, 2)))
	call := fmt.Sprintf("%s(*ORCA*) %s %s", name, paren(fuel), strings.Join(args, " "))
	return f.afterLoop(call, mpat, rest, ex)
}

// a fuel expression that suffices for loops counting towards a bound; otherwise the explicit fuel parameter
func (f *fnCtx) fuelFor(s *ast.ForStmt) string {
	if be, ok := s.Cond.(*ast.BinaryExpr); ok {
		tx, ty := f.p.info.TypeOf(be.X), f.p.info.TypeOf(be.Y)
		_, _, okx := intInfo(tx)
		_, _, oky := intInfo(ty)
		if okx && oky {
			saved := f.pre
			f.pre = nil
			x, y := f.toZ(be.X), f.toZ(be.Y)
			clean := len(f.pre) == 0
			f.pre = saved
			if clean {
				switch be.Op {
				case token.LSS, token.LEQ:
					return fmt.Sprintf("S (Z.to_nat (%s - %s + 1))", y, x)
				case token.GTR, token.GEQ:
					return fmt.Sprintf("S (Z.to_nat (%s - %s + 1))", x, y)
				}
			}
		}
	}
	f.needFuel = true
	return "fuel"
}

func (f *fnCtx) rangeStmt(s *ast.RangeStmt, rest []ast.Stmt, ex exits) string {
	xt := f.p.info.TypeOf(s.X)
	var elem types.Type
	switch u := xt.Underlying().(type) {
	case *types.Slice:
		elem = u.Elem()
	case *types.Array:
		elem = u.Elem()
	case *types.Basic:
		if isString(xt) {
			return f.rangeString(s, rest, ex)
		}
		fail("range over %s", xt)
	default:
		fail("range over %s", xt)
	}
	if s.Tok == token.ASSIGN {
		fail("range with = instead of :=")
	}
	rng := f.expr(s.X)
	rvar := f.tmp("rng")
	return f.then(fmt.Sprintf("let %s := %s in", rvar, rng), "", func() string { return f.rangeBody(s, rvar, elem, rest, ex) })
}

// for i := range s over a string: i takes the byte offset of every rune start (utf8.DecodeRuneInString widths)
func (f *fnCtx) rangeString(s *ast.RangeStmt, rest []ast.Stmt, ex exits) string {
	if s.Tok != token.DEFINE {
		fail("range over a string with =")
	}
	if id, ok := s.Value.(*ast.Ident); s.Value != nil && !(ok && id.Name == "_") {
		fail("range over a string with a rune variable")
	}
	kid, ok := s.Key.(*ast.Ident)
	if !ok || kid.Name == "_" {
		fail("range over a string without an index variable")
	}
	rng := f.expr(s.X)
	rvar := f.tmp("rng")
	return f.then(fmt.Sprintf("let %s := %s in", rvar, rng), "", func() string {
		f.nloop++
		name := fmt.Sprintf("%s_loop%d", f.fname, f.nloop)
		key := f.nameOf(f.p.info.ObjectOf(kid))
		free := f.freeVars([]ast.Node{s.Body})
		mods := f.assigned([]ast.Node{s.Body})
		filter := func(l []types.Object) []types.Object {
			var r []types.Object
			for _, o := range l {
				if f.names[o] != key {
					r = append(r, o)
				}
			}
			return r
		}
		free, mods = filter(free), filter(mods)
		params, args, modArgs, mty, mpat := f.loopSig(name, "", free, mods)
		savedPre := f.pre
		f.pre = nil
		step := fmt.Sprintf("(%s + snd (utf8_DecodeRune (slice %s %s (len %s))))", key, rvar, key, rvar)
		rec := fmt.Sprintf("%s(*ORCA*) fuel %s %s %s", name, rvar, step, strings.Join(args, " "))
		exit := "Ok (LExit " + tupleOf(modArgs) + ")"
		inner := exits{inLoop: true, ret: func(v string) string { return "Ok (LRet " + paren(v) + ")" }, brk: func() string { return exit },
			next: func() string { return rec }, cont: func() string { return rec }}
		body := f.block(s.Body.List, inner)
		f.pre = savedPre
		f.loops = append(f.loops, fmt.Sprintf("Fixpoint %s (*ORC*)(fuel : nat) (%s : list N) (%s : Z) %s {struct fuel} : res (lres %s %s) :=\n  match fuel with\n  | O => Fuel\n  | S fuel =>\n    if (%s <? len %s) then (\n%s)\n    else %s\n  end.\n",
			name, rvar, key, params, f.resType, mty, key, rvar, indent(body, 3), exit))
		call := fmt.Sprintf("%s(*ORCA*) (S (length %s)) %s 0 %s", name, rvar, rvar, strings.Join(args, " "))
		return f.afterLoop(call, mpat, rest, ex)
	})
}

func (f *fnCtx) rangeBody(s *ast.RangeStmt, rvar string, elem types.Type, rest []ast.Stmt, ex exits) string {
	f.nloop++
	name := fmt.Sprintf("%s_loop%d", f.fname, f.nloop)
	free := f.freeVars([]ast.Node{s.Body})
	mods := f.assigned([]ast.Node{s.Body})
	// the ranged variable must not be assigned in the body (Go iterates over the original header)
	var keyName, valName string
	useKey := false
	if id, ok := s.Key.(*ast.Ident); ok && id.Name != "_" {
		keyName = f.nameOf(f.p.info.ObjectOf(id))
		useKey = true
	}
	if id, ok := s.Value.(*ast.Ident); ok && id.Name != "_" {
		valName = f.nameOf(f.p.info.ObjectOf(id))
	}
	// key / value are declared by the range statement itself: not free, not modified-outside
	filter := func(l []types.Object) []types.Object {
		var r []types.Object
		for _, o := range l {
			if n := f.names[o]; (n == keyName && keyName != "") || (n == valName && valName != "") {
				continue
			}
			r = append(r, o)
		}
		return r
	}
	free, mods = filter(free), filter(mods)
	params, args, modArgs, mty, mpat := f.loopSig(name, "", free, mods)
	if keyName == "" {
		keyName = f.tmp("ix")
	}
	if valName == "" {
		valName = "_"
	}
	savedPre := f.pre
	f.pre = nil
	keyArg, keyParam, keyNext := "", "", ""
	if useKey {
		keyParam = fmt.Sprintf("(%s : Z) ", keyName)
		keyNext = fmt.Sprintf("(%s + 1) ", keyName)
		keyArg = "0 "
	}
	rec := fmt.Sprintf("%s(*ORCA*) %s %s%s", name, "rest_", keyNext, strings.Join(args, " "))
	exit := "Ok (LExit " + tupleOf(modArgs) + ")"
	inner := exits{inLoop: true, ret: func(v string) string { return "Ok (LRet " + paren(v) + ")" }, brk: func() string { return exit },
		next: func() string { return rec }, cont: func() string { return rec }}
	body := f.block(s.Body.List, inner)
	f.pre = savedPre
	f.loops = append(f.loops, fmt.Sprintf("Fixpoint %s (*ORC*)(rng_ : list %s) %s%s {struct rng_} : res (lres %s %s) :=\n  match rng_ with\n  | [] => %s\n  | %s :: rest_ =>\n%s\n  end.\n",
		name, coqType(elem), keyParam, params, f.resType, mty, exit, valName, indent(body, 2)))
	call := fmt.Sprintf("%s(*ORCA*) %s %s%s", name, rvar, keyArg, strings.Join(args, " "))
	return f.afterLoop(call, mpat, rest, ex)
}

// ---------------------------------------------------------------------------------------------------------
// expressions

func (f *fnCtx) addGuard(g string) { f.addCheck("guard", g) }

// a check that only matters when the enclosing short-circuit operands let the expression be evaluated
func (f *fnCtx) addCheck(kind, g string) {
	for i := len(f.cond) - 1; i >= 0; i-- {
		g = fmt.Sprintf("(%s || %s)", f.cond[i], paren(g))
	}
	f.pre = append(f.pre, func(k string) string { return fmt.Sprintf("%s %s (\n%s)", kind, paren(g), k) })
}

func (f *fnCtx) constant(tv types.TypeAndValue) (string, bool) {
	if tv.Value == nil {
		return "", false
	}
	t := tv.Type
	switch tv.Value.Kind() {
	case constant.Bool:
		if constant.BoolVal(tv.Value) {
			return "true", true
		}
		return "false", true
	case constant.String:
		return bytesLit(constant.StringVal(tv.Value)), true
	case constant.Int:
		if sg, _, ok := intInfo(t); ok {
			s := tv.Value.ExactString()
			if sg {
				if strings.HasPrefix(s, "-") {
					return "(" + s + ")", true
				}
				return s, true
			}
			return s + "%N", true
		}
		if w32, ok := isFloat(t); ok {
			fv, _ := constant.Float64Val(tv.Value)
			return floatLit(fv, w32), true
		}
	case constant.Float:
		if w32, ok := isFloat(t); ok {
			fv, _ := constant.Float64Val(tv.Value)
			return floatLit(fv, w32), true
		}
	}
	return "", false
}

func floatLit(v float64, w32 bool) string {
	if w32 {
		return fmt.Sprintf("{| fl32 := true; flbits := %d%%N |}", math.Float32bits(float32(v)))
	}
	return fmt.Sprintf("{| fl32 := false; flbits := %d%%N |}", math.Float64bits(v))
}

// e as a Z (for indices, lengths, shift counts)
func (f *fnCtx) toZ(e ast.Expr) string {
	t := f.p.info.TypeOf(e)
	c := f.expr(e)
	sg, _, ok := intInfo(t)
	if !ok {
		fail("integer expected, got %s", t)
	}
	if sg {
		return c
	}
	return "Z.of_N " + paren(c)
}

func (f *fnCtx) toN(e ast.Expr) string {
	if tv, ok := f.p.info.Types[e]; ok && tv.Value != nil && tv.Value.Kind() == constant.Int && constant.Sign(tv.Value) >= 0 {
		return tv.Value.ExactString() + "%N"
	}
	t := f.p.info.TypeOf(e)
	c := f.expr(e)
	sg, _, ok := intInfo(t)
	if !ok {
		fail("integer expected, got %s", t)
	}
	if !sg {
		return c
	}
	f.addGuard(fmt.Sprintf("0 <=? %s", paren(c))) // a negative shift count panics
	return "Z.to_N " + paren(c)
}

func (f *fnCtx) arith(op token.Token, x, y string, t types.Type) string {
	sg, w, ok := intInfo(t)
	if !ok {
		if _, isf := isFloat(t); isf {
			fail("float arithmetic")
		}
		if isString(t) && op == token.ADD {
			return fmt.Sprintf("(%s ++ %s)", x, y)
		}
		fail("arithmetic on %s", t)
	}
	x, y = paren(x), paren(y)
	if sg {
		switch op {
		case token.ADD:
			return fmt.Sprintf("wraps %d (%s + %s)", w, x, y)
		case token.SUB:
			return fmt.Sprintf("wraps %d (%s - %s)", w, x, y)
		case token.MUL:
			return fmt.Sprintf("wraps %d (%s * %s)", w, x, y)
		case token.QUO:
			f.addGuard(fmt.Sprintf("negb (%s =? 0)", y))
			return fmt.Sprintf("wraps %d (quot %s %s)", w, x, y)
		case token.REM:
			f.addGuard(fmt.Sprintf("negb (%s =? 0)", y))
			return fmt.Sprintf("rem %s %s", x, y)
		case token.AND:
			return fmt.Sprintf("Z.land %s %s", x, y)
		case token.OR:
			return fmt.Sprintf("Z.lor %s %s", x, y)
		case token.XOR:
			return fmt.Sprintf("Z.lxor %s %s", x, y)
		case token.AND_NOT:
			return fmt.Sprintf("Z.ldiff %s %s", x, y)
		}
	} else {
		switch op {
		case token.ADD:
			return fmt.Sprintf("wrapu %d (%s + %s)%%N", w, x, y)
		case token.SUB:
			return fmt.Sprintf("subu %d %s %s", w, x, y)
		case token.MUL:
			return fmt.Sprintf("wrapu %d (%s * %s)%%N", w, x, y)
		case token.QUO:
			f.addGuard(fmt.Sprintf("negb (%s =? 0)%%N", y))
			return fmt.Sprintf("(%s / %s)%%N", x, y)
		case token.REM:
			f.addGuard(fmt.Sprintf("negb (%s =? 0)%%N", y))
			return fmt.Sprintf("(%s mod %s)%%N", x, y)
		case token.AND:
			return fmt.Sprintf("N.land %s %s", x, y)
		case token.OR:
			return fmt.Sprintf("N.lor %s %s", x, y)
		case token.XOR:
			return fmt.Sprintf("N.lxor %s %s", x, y)
		case token.AND_NOT:
			return fmt.Sprintf("N.ldiff %s %s", x, y)
		}
	}
	fail("operator %s", op)
	return ""
}

func (f *fnCtx) shift(op token.Token, x string, count ast.Expr, t types.Type) string {
	sg, w, ok := intInfo(t)
	if !ok {
		fail("shift of %s", t)
	}
	x = paren(x)
	if sg {
		k := paren(f.toZ(count))
		if s2, _, _ := intInfo(f.p.info.TypeOf(count)); s2 {
			f.addGuard(fmt.Sprintf("0 <=? %s", k))
		}
		if op == token.SHL {
			return fmt.Sprintf("wraps %d (Z.shiftl %s %s)", w, x, k)
		}
		return fmt.Sprintf("Z.shiftr %s %s", x, k)
	}
	k := paren(f.toN(count))
	if op == token.SHL {
		return fmt.Sprintf("wrapu %d (N.shiftl %s %s)", w, x, k)
	}
	return fmt.Sprintf("N.shiftr %s %s", x, k)
}

func (f *fnCtx) compare(op token.Token, x, y string, t types.Type) string {
	x, y = paren(x), paren(y)
	neg := false
	if op == token.NEQ {
		neg, op = true, token.EQL
	}
	var r string
	if sg, _, ok := intInfo(t); ok {
		sc := "%N"
		if sg {
			sc = "%Z"
		}
		sym := map[token.Token]string{token.EQL: "=?", token.LSS: "<?", token.LEQ: "<=?", token.GTR: ">?", token.GEQ: ">=?"}[op]
		switch op {
		case token.GTR:
			r = fmt.Sprintf("(%s <? %s)%s", y, x, sc)
		case token.GEQ:
			r = fmt.Sprintf("(%s <=? %s)%s", y, x, sc)
		default:
			r = fmt.Sprintf("(%s %s %s)%s", x, sym, y, sc)
		}
	} else if isBool(t) {
		if op != token.EQL {
			fail("ordering of booleans")
		}
		r = fmt.Sprintf("Bool.eqb %s %s", x, y)
	} else if _, ok := isFloat(t); ok {
		f.addCheck("unsup_unless", fmt.Sprintf("fl_same_width %s %s", x, y))
		switch op {
		case token.EQL:
			r = fmt.Sprintf("fl_eq %s %s", x, y)
		case token.LSS:
			r = fmt.Sprintf("fl_lt %s %s", x, y)
		case token.LEQ:
			r = fmt.Sprintf("fl_le %s %s", x, y)
		case token.GTR:
			r = fmt.Sprintf("fl_lt %s %s", y, x)
		case token.GEQ:
			r = fmt.Sprintf("fl_le %s %s", y, x)
		}
	} else if isString(t) {
		if op != token.EQL {
			fail("ordering of strings")
		}
		r = fmt.Sprintf("list_eqb N.eqb %s %s", x, y)
	} else {
		fail("comparison of %s", t)
	}
	if neg {
		return "negb (" + r + ")"
	}
	return r
}

func (f *fnCtx) expr(e ast.Expr) string {
	if tv, ok := f.p.info.Types[e]; ok {
		if c, ok := f.constant(tv); ok {
			return c
		}
	}
	switch e := e.(type) {
	case *ast.ParenExpr:
		return paren(f.expr(e.X))
	case *ast.Ident:
		o := f.p.info.ObjectOf(e)
		switch o := o.(type) {
		case *types.Var:
			if f.locals[o] {
				return f.nameOf(o)
			}
			if o.Parent() == f.p.pkg.Scope() {
				if g, ok := f.p.globals[o]; ok {
					return g
				}
				fail("package variable %s", e.Name)
			}
			if o.Pkg() != f.p.pkg {
				fail("variable %s of another package", e.Name)
			}
			return f.nameOf(o)
		case *types.Nil:
			t := f.p.info.TypeOf(e)
			if _, ok := t.Underlying().(*types.Slice); ok {
				return "[]"
			}
			fail("nil of type %s", t)
		}
		fail("identifier %s", e.Name)
	case *ast.UnaryExpr:
		t := f.p.info.TypeOf(e)
		switch e.Op {
		case token.NOT:
			return "negb " + paren(f.expr(e.X))
		case token.SUB:
			if sg, w, ok := intInfo(t); ok && sg {
				return fmt.Sprintf("wraps %d (- %s)", w, paren(f.expr(e.X)))
			}
		case token.ADD:
			return f.expr(e.X)
		}
		fail("unary %s on %s", e.Op, t)
	case *ast.BinaryExpr:
		tx := f.p.info.TypeOf(e.X)
		switch e.Op {
		case token.LAND, token.LOR:
			x := f.expr(e.X)
			// guards of the right operand only matter when it is evaluated
			if e.Op == token.LAND {
				f.cond = append(f.cond, "negb "+paren(x))
			} else {
				f.cond = append(f.cond, paren(x))
			}
			npre := len(f.pre)
			y := f.expr(e.Y)
			f.cond = f.cond[:len(f.cond)-1]
			_ = npre
			if e.Op == token.LAND {
				return fmt.Sprintf("(%s && %s)", paren(x), paren(y))
			}
			return fmt.Sprintf("(%s || %s)", paren(x), paren(y))
		case token.EQL, token.NEQ, token.LSS, token.LEQ, token.GTR, token.GEQ:
			// an untyped constant operand takes the other operand's type
			t := tx
			if b, ok := t.Underlying().(*types.Basic); ok && b.Info()&types.IsUntyped != 0 {
				t = f.p.info.TypeOf(e.Y)
			}
			if _, isSlice := t.Underlying().(*types.Slice); isSlice {
				fail("comparison of a slice with nil")
			}
			return f.compare(e.Op, f.expr(e.X), f.expr(e.Y), t)
		case token.SHL, token.SHR:
			return f.shift(e.Op, f.expr(e.X), e.Y, f.p.info.TypeOf(e))
		default:
			if e.Op == token.QUO {
				if _, isf := isFloat(f.p.info.TypeOf(e)); isf {
					// float64(a) / float64(b) with integer a, b: the quotient is an oracle of the two integers
					if a, ok1 := f.intUnderFloatConv(e.X); ok1 {
						if b, ok2 := f.intUnderFloatConv(e.Y); ok2 {
							f.needDiv = true
							return fmt.Sprintf("fq %s %s", paren(a), paren(b))
						}
					}
				}
			}
			return f.arith(e.Op, f.expr(e.X), f.expr(e.Y), f.p.info.TypeOf(e))
		}
	case *ast.IndexExpr:
		xt := f.p.info.TypeOf(e.X)
		var elem types.Type
		switch u := xt.Underlying().(type) {
		case *types.Slice:
			elem = u.Elem()
		case *types.Array:
			elem = u.Elem()
		case *types.Basic:
			if !isString(xt) {
				fail("index of %s", xt)
			}
			elem = types.Typ[types.Uint8]
		default:
			fail("index of %s", xt)
		}
		a := f.expr(e.X)
		i := f.toZ(e.Index)
		f.addGuard(fmt.Sprintf("inb %s %s", paren(i), paren(a)))
		return fmt.Sprintf("idx %s %s %s", paren(zeroOf(elem)), paren(a), paren(i))
	case *ast.SliceExpr:
		if e.Slice3 {
			fail("three-index slice")
		}
		xt := f.p.info.TypeOf(e.X)
		switch xt.Underlying().(type) {
		case *types.Slice, *types.Array:
		case *types.Basic:
			if !isString(xt) {
				fail("slice of %s", xt)
			}
		default:
			fail("slice of %s", xt)
		}
		a := f.expr(e.X)
		lo, hi := "0", fmt.Sprintf("len %s", paren(a))
		if e.Low != nil {
			lo = f.toZ(e.Low)
		}
		if e.High != nil {
			hi = f.toZ(e.High)
		}
		f.addGuard(fmt.Sprintf("slice_ok %s %s %s", paren(a), paren(lo), paren(hi)))
		return fmt.Sprintf("slice %s %s %s", paren(a), paren(lo), paren(hi))
	case *ast.CallExpr:
		return f.call(e)
	case *ast.CompositeLit:
		t := f.p.info.TypeOf(e)
		switch u := t.Underlying().(type) {
		case *types.Slice:
			var els []string
			for _, x := range e.Elts {
				if _, ok := x.(*ast.KeyValueExpr); ok {
					fail("keyed composite literal")
				}
				els = append(els, f.expr(x))
			}
			return "[" + strings.Join(els, "; ") + "]"
		case *types.Array:
			if len(e.Elts) == 0 {
				return zeroOf(t)
			}
			if int64(len(e.Elts)) == u.Len() {
				var els []string
				for _, x := range e.Elts {
					if _, ok := x.(*ast.KeyValueExpr); ok {
						fail("keyed composite literal")
					}
					els = append(els, f.expr(x))
				}
				return "[" + strings.Join(els, "; ") + "]"
			}
		case *types.Struct:
			if u.NumFields() == 0 {
				return "tt"
			}
		}
		fail("composite literal of %s", t)
	case *ast.SelectorExpr:
		fail("selector %s", e.Sel.Name)
	}
	fail("expression %T", e)
	return ""
}

// float64(x) with x of a signed integer type: returns x as a Z expression
func (f *fnCtx) intUnderFloatConv(e ast.Expr) (string, bool) {
	call, ok := e.(*ast.CallExpr)
	if !ok || len(call.Args) != 1 {
		return "", false
	}
	tv, ok := f.p.info.Types[call.Fun]
	if !ok || !tv.IsType() {
		return "", false
	}
	if w32, isf := isFloat(tv.Type); !isf || w32 {
		return "", false
	}
	if sg, _, ok := intInfo(f.p.info.TypeOf(call.Args[0])); !ok || !sg {
		return "", false
	}
	return f.expr(call.Args[0]), true
}

func (f *fnCtx) callTranslated(fn *types.Func, call *ast.CallExpr) string {
	var args []string
	if f.p.orcFn[fn] {
		f.needOrc = true
		args = append(args, "fo")
	}
	if f.p.divFn[fn] {
		f.needDiv = true
		args = append(args, "fq")
	}
	if f.p.fuelFn[fn] {
		f.needFuel = true
		args = append(args, "fuel")
	}
	for _, a := range call.Args {
		args = append(args, paren(f.expr(a)))
	}
	if call.Ellipsis != token.NoPos {
		fail("call with ...")
	}
	return f.p.fname[fn] + " " + strings.Join(args, " ")
}

func (f *fnCtx) call(e *ast.CallExpr) string {
	// conversion
	if tv, ok := f.p.info.Types[e.Fun]; ok && tv.IsType() {
		if len(e.Args) != 1 {
			fail("conversion arity")
		}
		return f.convert(e.Args[0], tv.Type)
	}
	// builtin
	if id, ok := e.Fun.(*ast.Ident); ok {
		if _, isB := f.p.info.Uses[id].(*types.Builtin); isB {
			return f.builtin(id.Name, e)
		}
	}
	fn := f.p.calledFunc(e)
	if fn == nil {
		fail("call of a function value")
	}
	if fn.Pkg() == f.p.pkg {
		if !f.p.done[fn] {
			fail("call of %s (not translated)", fn.Name())
		}
		if len(f.cond) > 0 {
			fail("call under a short-circuit operator")
		}
		code := f.callTranslated(fn, e)
		t := f.tmp("r")
		f.pre = append(f.pre, func(k string) string { return fmt.Sprintf("bind %s (fun %s =>\n%s)", paren(code), t, k) })
		return t
	}
	return f.extern(fn, e)
}

func (f *fnCtx) builtin(name string, e *ast.CallExpr) string {
	switch name {
	case "len":
		return "len " + paren(f.expr(e.Args[0]))
	case "append":
		dst := f.expr(e.Args[0])
		if e.Ellipsis != token.NoPos {
			if len(e.Args) != 2 {
				fail("append shape")
			}
			return fmt.Sprintf("(%s ++ %s)", paren(dst), paren(f.expr(e.Args[1])))
		}
		var els []string
		for _, a := range e.Args[1:] {
			els = append(els, f.expr(a))
		}
		return fmt.Sprintf("(%s ++ [%s])", paren(dst), strings.Join(els, "; "))
	case "make":
		t := f.p.info.TypeOf(e)
		sl, ok := t.Underlying().(*types.Slice)
		if !ok {
			fail("make of %s", t)
		}
		n := f.toZ(e.Args[1])
		f.addGuard(fmt.Sprintf("0 <=? %s", paren(n)))
		return fmt.Sprintf("repeat %s (Z.to_nat %s)", paren(zeroOf(sl.Elem())), paren(n))
	}
	fail("builtin %s", name)
	return ""
}

func (f *fnCtx) convert(arg ast.Expr, to types.Type) string {
	from := f.p.info.TypeOf(arg)
	x := f.expr(arg)
	// string <-> []byte
	_, toSlice := to.Underlying().(*types.Slice)
	_, fromSlice := from.Underlying().(*types.Slice)
	if (isString(to) || toSlice) && (isString(from) || fromSlice) {
		return x
	}
	fs, fw, fok := intInfo(from)
	ts, tw, tok := intInfo(to)
	if fok && tok {
		switch {
		case fs && ts:
			if tw >= fw {
				return x
			}
			return fmt.Sprintf("wraps %d %s", tw, paren(x))
		case !fs && !ts:
			if tw >= fw {
				return x
			}
			return fmt.Sprintf("wrapu %d %s", tw, paren(x))
		case fs && !ts:
			return fmt.Sprintf("z2n %d %s", tw, paren(x))
		default:
			if tw > fw {
				return "Z.of_N " + paren(x)
			}
			return fmt.Sprintf("n2z %d %s", tw, paren(x))
		}
	}
	if _, ok := isFloat(from); ok {
		if w32, ok := isFloat(to); ok {
			if w32 {
				f.addCheck("unsup_unless", "fl_to32_ok "+paren(x))
				return "fl_to32 " + paren(x)
			}
			return "fl_to64 " + paren(x)
		}
	}
	fail("conversion from %s to %s", from, to)
	return ""
}

// calls into the standard library: only the ones listed here
func (f *fnCtx) extern(fn *types.Func, e *ast.CallExpr) string {
	full := fn.FullName()
	arg := func(i int) string { return paren(f.expr(e.Args[i])) }
	isConst := func(i int, v int64) bool {
		tv := f.p.info.Types[e.Args[i]]
		if tv.Value == nil {
			return false
		}
		n, ok := constant.Int64Val(constant.ToInt(tv.Value))
		return ok && n == v
	}
	switch full {
	case "strconv.AppendInt":
		if !isConst(2, 10) {
			fail("strconv.AppendInt with a base other than 10")
		}
		return fmt.Sprintf("strconv_AppendInt %s %s", arg(0), arg(1))
	case "strconv.AppendUint":
		if !isConst(2, 10) {
			fail("strconv.AppendUint with a base other than 10")
		}
		return fmt.Sprintf("strconv_AppendUint %s %s", arg(0), arg(1))
	case "strconv.AppendBool":
		return fmt.Sprintf("strconv_AppendBool %s %s", arg(0), arg(1))
	case "strconv.AppendFloat":
		f.needOrc = true
		return fmt.Sprintf("strconv_AppendFloat fo %s %s %s %s %s", arg(0), arg(1), arg(2), arg(3), arg(4))
	case "unicode/utf8.DecodeRuneInString", "unicode/utf8.DecodeRune":
		return "utf8_DecodeRune " + arg(0)
	case "math.IsNaN":
		return "fl_isnan " + arg(0)
	case "math.IsInf":
		return fmt.Sprintf("fl_isinf %s %s", arg(0), arg(1))
	case "math.Abs":
		return "fl_abs " + arg(0)
	case "math.Float32bits":
		x := arg(0)
		f.addCheck("unsup_unless", "fl32 "+x)
		return "flbits " + x
	case "math.Float64bits":
		x := arg(0)
		f.addCheck("unsup_unless", "negb (fl32 "+x+")")
		return "flbits " + x
	case "(time.Time).Unix":
		return "t_unix " + paren(f.expr(e.Fun.(*ast.SelectorExpr).X))
	case "(time.Time).UnixNano":
		return "t_unixnano " + paren(f.expr(e.Fun.(*ast.SelectorExpr).X))
	case "(time.Time).AppendFormat":
		// the oracle text is the one for the layout in force; the layout argument must be the function's format parameter
		return fmt.Sprintf("time_AppendFormat %s %s %s", paren(f.expr(e.Fun.(*ast.SelectorExpr).X)), arg(0), arg(1))
	}
	fail("call of %s", full)
	return ""
}
