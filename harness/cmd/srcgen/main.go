// srcgen: a translator from a subset of Go to Gallina (shallow embedding).
//
//	srcgen -repo <dir> -out <dir>
//
// For every unit in `units` it type-checks the package in the repository's WORKING TREE and writes
// <out>/<Unit>.v containing one Gallina definition per Go function it can translate (and one Fixpoint per
// loop), over the vocabulary of coq/Base/GoSem.v and coq/Enc/GoStd.v.  A function that uses a construct outside
// the subset is not translated: it is listed in a comment and in the `skipped` table of the generated file,
// never guessed.  The hand-written models are then PROVED equal to these definitions (coq/Proofs/Src*P.v),
// so the property theorems hold of what the source says now.
//
// The subset: functions and methods whose parameters and results are booleans, integers of any width, floats
// (as tagged bit patterns), strings, slices and arrays of those, time.Time / time.Duration; statements :=, =,
// op=, ++/--, var, if/else, switch (tag and tagless, no fallthrough), for (all three forms), range over
// slices and arrays, break, continue, return; expressions: constants, arithmetic with Go's wrap-around,
// comparisons, && ||, indexing and slicing (bounds become guards that yield Panic), len, append, make,
// conversions, calls to translated functions of the same unit set and to the standard-library functions listed
// in `externs`.  Everything else (pointers, maps, interfaces, closures, goroutines, defer, labels, goto,
// struct values other than the empty receiver, writes to package variables outside init) is rejected.
package main

import (
	"flag"
	"fmt"
	"go/ast"
	"go/build"
	"go/constant"
	"go/importer"
	"go/parser"
	"go/printer"
	"go/token"
	"go/types"
	"math"
	"os"
	"path/filepath"
	"sort"
	"strings"
)

type unit struct {
	out      string   // Gallina file name without .v
	pkgDir   string   // relative to the repository
	tags     []string // build tags
	files    []string // base names; nil = every non-test file that matches the tags
	only     []string // if non-nil, only these function names (and what they call)
	onlyRecv []string // if non-nil, only methods of these receiver types (and plain functions)
	deps     []string // units whose functions may be called (already translated)
	// effect units: functions with a *bufio.Reader / io.Reader / io.Writer parameter become state transformers (Base/GoEff.v)
	imports string          // extra modules the generated file imports
	section string          // if non-empty: the definitions are wrapped in a Section with these Variable declarations
	stubs   map[string]stub // functions of the unit that are not translated but may be called: hand-written contracts
	externs map[string]bool // additional standard-library calls allowed in this unit
	// receiver-state units: methods with a pointer receiver of one of these struct types take the struct's (scalar) fields
	// as a record and return the updated record next to their result
	stateStructs []string
	clockVars    map[string]bool // package variables of type func() time.Time whose (single) call is the oracle parameter clk
	// interface-typed fields of state structs that may be tested against nil and called through: what is behind them is the
	// environment (Base/GoExt.v): the record carries a non-nil flag per field and the log of the calls made
	opaque map[string][]string
	// package variables of type *int32 read with atomic.LoadInt32: Section variables env_<name> of the generated file
	envVars map[string]bool
	// functions whose body is `return <expression without guards>` are also emitted as plain values <name>_val
	valueFns bool
	// package variables of function type whose calls are the Section variables env_<name> (applied to the arguments)
	envFuncs map[string]bool
	// calls into another package that another unit translates: package path -> that unit's module (the callee keeps its Go name)
	depUnits map[string]string
	// depExtra: leading (oracle) arguments of functions of a dependency unit, by Go name: Section variables of this unit
	depExtra map[string]string
	// nested: state struct -> struct-typed field -> sub-fields carried in the record as <field>_<sub> (c.l.context)
	nested map[string]map[string][]string
	// valueCopy: a method with a value receiver may assign to the fields of its (local) copy; the receiver handed back to
	// the caller next to the result is the record as it was on entry (only for state structs without a call log)
	valueCopy bool
	// functions of this package that take the state receiver and are not translated: a call is logged like a call through an
	// opaque field (field "", method = the function's name)
	loggedFuncs map[string]bool
	// the state receiver is assumed non-nil: `recv == nil` is false (the nil case is go2coq's nil-guard obligation)
	recvNonNil bool
	// fields of type *bytes.Buffer of state structs: carried as `option (list N)` (nil, or the content); WriteByte / Write /
	// Bytes / Reset act on the content, Cap is answered by the environment
	bufferFields map[string][]string
	// package variables of type *sync.Pool whose Get().(*bytes.Buffer) yields an empty buffer and whose Put is logged
	pools map[string]bool
	// comma-ok type assertions on opaque fields: struct -> field -> asserted interface names; the record carries one flag each
	asserts map[string]map[string][]string
	// a method that starts with recv.<mutex>.Lock(); defer recv.<mutex>.Unlock(): the bracket is dropped (single-threaded
	// reading of one call; that every method is bracketed is lockgen's obligation)
	mutexBrackets bool
}

type stub struct {
	coq  string // Gallina name
	eff  bool
	fuel bool
}

var units = []unit{
	{out: "JsonSrc", pkgDir: "internal/json"},
	{out: "CborSrc", pkgDir: "internal/cbor", files: []string{"base.go", "cbor.go", "string.go", "types.go", "time.go"}},
	{out: "RootSrc", pkgDir: ".", files: []string{"console.go", "encoder_json.go"}, only: []string{"needsQuote", "appendJSON"}},
	{out: "DecSrc", pkgDir: "internal/cbor", files: []string{"decode_stream.go"},
		imports: "Base.GoEff Enc.DecStd", section: "Variable Orc : dec_oracle.",
		stubs: map[string]stub{
			"decodeStringToDataUrl": {coq: "stub_decodeStringToDataUrl", eff: true},
			"decodeTimeStamp":       {coq: "stub_decodeTimeStamp Orc", eff: true},
		},
		externs: map[string]bool{"net": true, "math.frombits": true, "strconv.Itoa": true}},
	{out: "SamplerSrc", pkgDir: ".", files: []string{"sampler.go"}, only: []string{"Sample", "inc"},
		imports: "Base.GoEff Base.GoExt", section: "Variable ans : nat -> oval.\nVariable env_rand_Intn : Z -> Z.",
		stateStructs: []string{"BasicSampler", "BurstSampler", "LevelSampler"}, clockVars: map[string]bool{"TimestampFunc": true},
		opaque: map[string][]string{"BurstSampler": {"NextSampler"},
			"LevelSampler": {"TraceSampler", "DebugSampler", "InfoSampler", "WarnSampler", "ErrorSampler"}},
		externs: map[string]bool{"atomic": true, "rand.Intn": true}},
	{out: "GateSrc", pkgDir: ".", files: []string{"log.go", "globals.go"}, only: []string{"should", "GlobalLevel", "samplingDisabled"},
		imports: "Base.GoEff Base.GoExt", section: "Variable env_gLevel : Z.\nVariable env_disableSampling : Z.\nVariable ans : nat -> oval.",
		stateStructs: []string{"Logger"}, opaque: map[string][]string{"Logger": {"w", "sampler"}},
		envVars: map[string]bool{"gLevel": true, "disableSampling": true}, externs: map[string]bool{"atomic": true}, valueFns: true},
	{out: "ProxySrc", pkgDir: "hlog/internal/mutil", files: []string{"writer_proxy.go"},
		only:    []string{"WriteHeader", "Write", "maybeWriteHeader", "Status", "BytesWritten"},
		imports: "Base.GoEff Base.GoExt", section: "Variable ans : nat -> oval.",
		stateStructs: []string{"basicWriter"}, opaque: map[string][]string{"basicWriter": {"ResponseWriter", "tee"}}},
	{out: "EventSrc", pkgDir: ".", files: []string{"event.go"}, only: []string{"write", "Enabled"},
		imports: "Base.GoEff Base.GoExt Gen.JsonSrc", section: "Variable ans : nat -> oval.",
		stateStructs: []string{"Event"}, opaque: map[string][]string{"Event": {"w"}},
		depUnits:    map[string]string{"github.com/rs/zerolog/internal/json": "JsonSrc"},
		loggedFuncs: map[string]bool{"putEvent": true}, recvNonNil: true},
	// the field methods of Event whose arguments are in the subset: each is AppendKey + one encoder call on e.buf
	{out: "FieldSrc", pkgDir: ".", files: []string{"event.go", "encoder_json.go"}, only: []string{"Str", "Strs", "Bytes", "Hex", "RawJSON", "Bool", "Bools", "Int", "Ints", "Int8", "Ints8", "Int16", "Ints16", "Int32", "Ints32", "Int64", "Ints64", "Uint", "Uints", "Uint8", "Uints8", "Uint16", "Uints16", "Uint32", "Uints32", "Uint64", "Uints64", "Float32", "Floats32", "Float64", "Floats64", "Time", "Times", "Dur", "Durs", "Stack", "CallerSkipFrame", "appendJSON"},
		imports:      "Base.GoEff Base.GoExt Gen.JsonSrc",
		section:      "Variable ans : nat -> oval.\nVariable fo : float_oracle.\nVariable fq : Z -> Z -> gofl.\nVariable env_FloatingPointPrecision : Z.\nVariable env_TimeFieldFormat : list N.\nVariable env_DurationFieldUnit : Z.\nVariable env_DurationFieldInteger : bool.",
		stateStructs: []string{"Event"}, opaque: map[string][]string{"Event": {"w"}},
		depUnits:    map[string]string{"github.com/rs/zerolog/internal/json": "JsonSrc"},
		depExtra:    map[string]string{"AppendFloat32": "fo", "AppendFloats32": "fo", "AppendFloat64": "fo", "AppendFloats64": "fo", "AppendDuration": "fo fq", "AppendDurations": "fo fq"},
		loggedFuncs: map[string]bool{"putEvent": true}, recvNonNil: true,
		envVars: map[string]bool{"FloatingPointPrecision": true, "TimeFieldFormat": true, "DurationFieldUnit": true, "DurationFieldInteger": true}},
	// the element methods of Array: each is AppendArrayDelim + one encoder call on a.buf; write brackets the buffer
	{out: "ArraySrc", pkgDir: ".", files: []string{"array.go", "encoder_json.go"}, only: []string{"write", "Str", "Bytes", "Hex", "RawJSON", "Bool", "Int", "Int8", "Int16", "Int32", "Int64", "Uint", "Uint8", "Uint16", "Uint32", "Uint64", "Float32", "Float64", "Time", "Dur", "appendJSON"}, onlyRecv: []string{"Array"},
		imports:      "Base.GoEff Base.GoExt Gen.JsonSrc",
		section:      "Variable ans : nat -> oval.\nVariable fo : float_oracle.\nVariable fq : Z -> Z -> gofl.\nVariable env_FloatingPointPrecision : Z.\nVariable env_TimeFieldFormat : list N.\nVariable env_DurationFieldUnit : Z.\nVariable env_DurationFieldInteger : bool.",
		stateStructs: []string{"Array"},
		depUnits:     map[string]string{"github.com/rs/zerolog/internal/json": "JsonSrc"},
		depExtra:     map[string]string{"AppendFloat32": "fo", "AppendFloats32": "fo", "AppendFloat64": "fo", "AppendFloats64": "fo", "AppendDuration": "fo fq", "AppendDurations": "fo fq"},
		loggedFuncs:  map[string]bool{"putArray": true}, recvNonNil: true,
		envVars: map[string]bool{"FloatingPointPrecision": true, "TimeFieldFormat": true, "DurationFieldUnit": true, "DurationFieldInteger": true}},
	// the field methods of Context (value receiver; the logger's context buffer c.l.context is the state)
	{out: "ContextSrc", pkgDir: ".", files: []string{"context.go", "encoder_json.go"}, only: []string{"Str", "Strs", "Bytes", "Hex", "RawJSON", "Bool", "Bools", "Int", "Ints", "Int8", "Ints8", "Int16", "Ints16", "Int32", "Ints32", "Int64", "Ints64", "Uint", "Uints", "Uint8", "Uints8", "Uint16", "Uints16", "Uint32", "Uints32", "Uint64", "Uints64", "Float32", "Floats32", "Float64", "Floats64", "Time", "Times", "Dur", "Durs", "appendJSON"}, onlyRecv: []string{"Context"},
		imports:      "Base.GoEff Base.GoExt Gen.JsonSrc",
		section:      "Variable fo : float_oracle.\nVariable fq : Z -> Z -> gofl.\nVariable env_FloatingPointPrecision : Z.\nVariable env_TimeFieldFormat : list N.\nVariable env_DurationFieldUnit : Z.\nVariable env_DurationFieldInteger : bool.",
		stateStructs: []string{"Context"}, valueCopy: true, nested: map[string]map[string][]string{"Context": {"l": {"context"}}},
		depUnits: map[string]string{"github.com/rs/zerolog/internal/json": "JsonSrc"},
		depExtra: map[string]string{"AppendFloat32": "fo", "AppendFloats32": "fo", "AppendFloat64": "fo", "AppendFloats64": "fo", "AppendDuration": "fo fq", "AppendDurations": "fo fq"},
		envVars:  map[string]bool{"FloatingPointPrecision": true, "TimeFieldFormat": true, "DurationFieldUnit": true, "DurationFieldInteger": true}},
	// the same field methods of Event as the binary build compiles them (enc = the CBOR encoder)
	{out: "FieldCborSrc", pkgDir: ".", tags: []string{"binary_log"}, files: []string{"event.go"}, only: []string{"Str", "Strs", "Bytes", "Hex", "Bool", "Bools", "Int", "Ints", "Int8", "Ints8", "Int16", "Ints16", "Int32", "Ints32", "Int64", "Ints64", "Uint", "Uints", "Uint8", "Uints8", "Uint16", "Uints16", "Uint32", "Uints32", "Uint64", "Uints64", "Float32", "Floats32", "Float64", "Floats64", "Dur", "Durs", "IPAddr", "MACAddr", "Stack", "CallerSkipFrame"},
		imports:      "Base.GoEff Base.GoExt Gen.CborSrc",
		section:      "Variable ans : nat -> oval.\nVariable fq : Z -> Z -> gofl.\nVariable env_FloatingPointPrecision : Z.\nVariable env_DurationFieldUnit : Z.\nVariable env_DurationFieldInteger : bool.",
		stateStructs: []string{"Event"}, opaque: map[string][]string{"Event": {"w"}},
		depUnits:    map[string]string{"github.com/rs/zerolog/internal/cbor": "CborSrc"},
		depExtra:    map[string]string{"AppendDuration": "fq", "AppendDurations": "fq"},
		loggedFuncs: map[string]bool{"putEvent": true}, recvNonNil: true,
		envVars: map[string]bool{"FloatingPointPrecision": true, "DurationFieldUnit": true, "DurationFieldInteger": true}},
	{out: "TriggerSrc", pkgDir: ".", files: []string{"writer.go"}, only: []string{"WriteLevel", "trigger", "Trigger", "Close"}, onlyRecv: []string{"TriggerLevelWriter"},
		imports: "Base.GoEff Base.GoExt", section: "Variable env_TriggerLevelWriterBufferReuseLimit : Z.\nVariable ans : nat -> oval.",
		stateStructs: []string{"TriggerLevelWriter"}, opaque: map[string][]string{"TriggerLevelWriter": {"Writer"}},
		bufferFields: map[string][]string{"TriggerLevelWriter": {"buf"}}, pools: map[string]bool{"triggerWriterPool": true},
		asserts: map[string]map[string][]string{"TriggerLevelWriter": {"Writer": {"LevelWriter"}}},
		envVars: map[string]bool{"TriggerLevelWriterBufferReuseLimit": true},
		externs: map[string]bool{"bytes.IndexByte": true}, mutexBrackets: true},
	// syncWriter: the mutex bracket is dropped (lockgen's obligation), what remains is the forwarded call
	{out: "SyncSrc", pkgDir: ".", files: []string{"writer.go"}, only: []string{"Write", "WriteLevel", "Close"}, onlyRecv: []string{"syncWriter"},
		imports: "Base.GoEff Base.GoExt", section: "Variable ans : nat -> oval.",
		stateStructs: []string{"syncWriter"}, opaque: map[string][]string{"syncWriter": {"lw"}},
		asserts: map[string]map[string][]string{"syncWriter": {"lw": {"Closer"}}}, mutexBrackets: true},
	{out: "LevelSrc", pkgDir: ".", files: []string{"log.go"}, only: []string{"String", "ParseLevel"},
		imports: "Base.GoEff",
		section: "Variable env_LevelTraceValue env_LevelDebugValue env_LevelInfoValue env_LevelWarnValue env_LevelErrorValue env_LevelFatalValue env_LevelPanicValue : list N.\nVariable env_LevelFieldMarshalFunc : Z -> list N.",
		envVars: map[string]bool{"LevelTraceValue": true, "LevelDebugValue": true, "LevelInfoValue": true, "LevelWarnValue": true,
			"LevelErrorValue": true, "LevelFatalValue": true, "LevelPanicValue": true},
		envFuncs: map[string]bool{"LevelFieldMarshalFunc": true},
		externs:  map[string]bool{"strconv.Itoa": true, "strings.EqualFold": true, "strconv.Atoi": true, "errorf-value": true}},
	{out: "WriterSrc", pkgDir: ".", files: []string{"writer.go"}, only: []string{"Write", "WriteLevel"},
		imports: "Base.GoEff Base.GoExt", section: "Variable ans : nat -> oval.",
		stateStructs: []string{"multiLevelWriter", "FilteredLevelWriter", "LevelWriterAdapter"},
		opaque:       map[string][]string{"multiLevelWriter": {"writers"}, "FilteredLevelWriter": {"Writer"}, "LevelWriterAdapter": {"Writer"}},
		externs:      map[string]bool{"sentinel-errors": true}},
}

func main() {
	repo := flag.String("repo", "/repo", "repository")
	out := flag.String("out", "", "output directory")
	flag.Parse()
	if *out == "" {
		fmt.Fprintln(os.Stderr, "srcgen: -out required")
		os.Exit(2)
	}
	// imports of the repository's own packages are resolved by the go command: run it inside the repository, whatever the
	// caller's working directory is (otherwise those imports fail silently and functions that use them are skipped)
	if abs, err := filepath.Abs(*repo); err == nil {
		build.Default.Dir = abs
	}
	var summary []string
	for _, u := range units {
		g, err := translateUnit(*repo, u)
		if err != nil {
			// only the proofs about this unit may break: an empty file stands for it
			fmt.Fprintf(os.Stderr, "srcgen: %s: %v\n", u.out, err)
			g = genOut{text: fmt.Sprintf("(* GENERATED by harness/cmd/srcgen: the translation of %s FAILED (%s): no definitions. *)\n", u.pkgDir, strings.ReplaceAll(err.Error(), "*)", "* )"))}
			summary = append(summary, fmt.Sprintf("%s: FAILED", u.out))
			os.WriteFile(filepath.Join(*out, u.out+".v"), []byte(g.text), 0o644)
			continue
		}
		if err := os.WriteFile(filepath.Join(*out, u.out+".v"), []byte(g.text), 0o644); err != nil {
			fmt.Fprintln(os.Stderr, err)
			os.Exit(1)
		}
		summary = append(summary, fmt.Sprintf("%s: %d functions, %d loops, %d skipped", u.out, g.nfun, g.nloop, g.nskip))
	}
	fmt.Println("srcgen: " + strings.Join(summary, "; "))
}

type genOut struct {
	text               string
	nfun, nloop, nskip int
}

// ---------------------------------------------------------------------------------------------------------

type pkgCtx struct {
	fset     *token.FileSet
	info     *types.Info
	pkg      *types.Package
	funcs    map[*types.Func]*ast.FuncDecl
	fname    map[*types.Func]string // Gallina name of a translated (or to be translated) function
	done     map[*types.Func]bool   // translated successfully
	fuelFn   map[*types.Func]bool   // takes a fuel parameter
	orcFn    map[*types.Func]bool   // takes the strconv.AppendFloat oracle
	divFn    map[*types.Func]bool   // takes the float64(a)/float64(b) oracle
	skipped  map[*types.Func]string
	globals  map[*types.Var]string // package variables set by init(): Gallina name
	u        unit
	effFn    map[*types.Func]bool        // translated into the effect monad M (has a reader / writer parameter)
	recOf    map[*types.Func]*types.Func // member of a call cycle -> the entry of that cycle (open recursion through rec_<entry>)
	stubFn   map[*types.Func]bool
	clkFn    map[*types.Func]bool       // takes the clock oracle
	stFields map[string][]*types.Var    // state struct name -> the fields carried in its record
	stBuf    map[string]map[string]bool // state struct name -> its *bytes.Buffer fields
	stOpaque map[string]map[string]bool // state struct name -> its opaque (interface-typed) fields
	valFn    map[*types.Func]bool       // `Ok (expression)`: also available as the plain value <name>_val
}

type unsupported struct{ msg string }

func fail(format string, a ...interface{}) { panic(unsupported{fmt.Sprintf(format, a...)}) }

// the unit being translated (coqType consults its extern allow-list)
var curUnit unit

// text that goes inside a Gallina comment must not open or close one
func commentSafe(s string) string {
	return strings.ReplaceAll(strings.ReplaceAll(s, "(*", "( *"), "*)", "* )")
}

func translateUnit(repo string, u unit) (g genOut, err error) {
	curUnit = u
	dir := filepath.Join(repo, u.pkgDir)
	fset := token.NewFileSet()
	bctx := build.Default
	bctx.BuildTags = u.tags
	ents, e := os.ReadDir(dir)
	if e != nil {
		return g, e
	}
	var files []*ast.File
	for _, ent := range ents {
		n := ent.Name()
		if !strings.HasSuffix(n, ".go") || strings.HasSuffix(n, "_test.go") {
			continue
		}
		if ok, _ := bctx.MatchFile(dir, n); !ok {
			continue
		}
		f, e := parser.ParseFile(fset, filepath.Join(dir, n), nil, parser.ParseComments)
		if e != nil {
			return g, e
		}
		files = append(files, f)
	}
	info := &types.Info{Types: map[ast.Expr]types.TypeAndValue{}, Defs: map[*ast.Ident]types.Object{}, Uses: map[*ast.Ident]types.Object{},
		Selections: map[*ast.SelectorExpr]*types.Selection{}, Implicits: map[ast.Node]types.Object{}}
	conf := types.Config{Importer: importer.ForCompiler(fset, "source", nil), Error: func(error) {}}
	pkg, _ := conf.Check(u.pkgDir, fset, files, info)
	if pkg == nil {
		return g, fmt.Errorf("type check failed")
	}
	p := &pkgCtx{fset: fset, info: info, pkg: pkg, funcs: map[*types.Func]*ast.FuncDecl{}, fname: map[*types.Func]string{},
		done: map[*types.Func]bool{}, fuelFn: map[*types.Func]bool{}, orcFn: map[*types.Func]bool{}, divFn: map[*types.Func]bool{}, skipped: map[*types.Func]string{}, globals: map[*types.Var]string{},
		u: u, effFn: map[*types.Func]bool{}, recOf: map[*types.Func]*types.Func{}, stubFn: map[*types.Func]bool{},
		clkFn: map[*types.Func]bool{}, stFields: map[string][]*types.Var{}, stOpaque: map[string]map[string]bool{}, stBuf: map[string]map[string]bool{}, valFn: map[*types.Func]bool{}}
	want := map[string]bool{}
	for _, f := range u.files {
		want[f] = true
	}
	var order []*types.Func
	var stubNames []string
	var initDecl *ast.FuncDecl
	used := map[string]int{}
	for _, f := range files {
		base := filepath.Base(fset.Position(f.Pos()).Filename)
		for _, d := range f.Decls {
			fd, ok := d.(*ast.FuncDecl)
			if !ok || fd.Body == nil {
				continue
			}
			if fd.Name.Name == "init" && fd.Recv == nil {
				if len(want) == 0 || want[base] {
					initDecl = fd
				}
				continue
			}
			obj, _ := info.Defs[fd.Name].(*types.Func)
			if obj == nil {
				continue
			}
			p.funcs[obj] = fd
			if len(want) > 0 && !want[base] {
				p.skipped[obj] = "file not in the unit"
				continue
			}
			name := fd.Name.Name
			if len(u.only) > 0 {
				keep := false
				for _, o := range u.only {
					if o == name {
						keep = true
					}
				}
				if !keep {
					p.skipped[obj] = "not selected"
					continue
				}
			}
			if len(u.onlyRecv) > 0 {
				if sig := obj.Type().(*types.Signature); sig.Recv() != nil {
					keep := false
					for _, r := range u.onlyRecv {
						if recvName(sig.Recv().Type()) == r {
							keep = true
						}
					}
					if !keep {
						p.skipped[obj] = "not selected"
						continue
					}
				}
			}
			if st, ok := u.stubs[name]; ok {
				// not translated: a hand-written contract stands for it (listed in stub_functions)
				p.fname[obj] = st.coq
				p.done[obj] = true
				p.stubFn[obj] = true
				p.effFn[obj] = st.eff
				p.fuelFn[obj] = st.fuel
				stubNames = append(stubNames, name)
				continue
			}
			if hasHandleParam(obj) {
				p.effFn[obj] = true
			}
			used[name]++
			order = append(order, obj)
		}
	}
	p.findCycles(order)
	for _, obj := range order {
		name := obj.Name()
		if used[name] > 1 { // same method name on two receiver types
			if sig := obj.Type().(*types.Signature); sig.Recv() != nil {
				name = recvName(sig.Recv().Type()) + "_" + name
			}
		}
		p.fname[obj] = coqIdent(name)
	}
	var b strings.Builder
	fmt.Fprintf(&b, "(* GENERATED by harness/cmd/srcgen from %s of the working tree - do not edit.\n   One definition per Go function (one Fixpoint per loop); semantics in Base/GoSem.v. *)\n", u.pkgDir)
	imports := "Base.Prelude Base.Decimal Base.GoSem Enc.JsonEnc Enc.GoStd"
	if u.imports != "" {
		imports += " " + u.imports
	}
	b.WriteString("From Verif Require Import " + imports + ".\nOpen Scope Z_scope.\n\n")
	if u.section != "" {
		b.WriteString("Section Src.\n" + u.section + "\n\n")
	}
	// state structs: a record of the fields whose types are in the subset (a function touching another field is not translated)
	for _, sn := range u.stateStructs {
		obj := pkg.Scope().Lookup(sn)
		if obj == nil {
			return g, fmt.Errorf("state struct %s not found", sn)
		}
		st, ok := obj.Type().Underlying().(*types.Struct)
		if !ok {
			return g, fmt.Errorf("%s is not a struct", sn)
		}
		var flds []*types.Var
		var dropped []string
		opq := map[string]bool{}
		for _, on := range u.opaque[sn] {
			opq[on] = true
		}
		p.stOpaque[sn] = map[string]bool{}
		p.stBuf[sn] = map[string]bool{}
		isBuf := map[string]bool{}
		for _, bn := range u.bufferFields[sn] {
			isBuf[bn] = true
		}
		type rfield struct{ name, typ string }
		var rf []rfield
		for i := 0; i < st.NumFields(); i++ {
			fv := st.Field(i)
			if isBuf[fv.Name()] {
				pt, isP := fv.Type().(*types.Pointer)
				if !isP || !isNamed(pt.Elem(), "bytes", "Buffer") {
					return g, fmt.Errorf("buffer field %s.%s is not a *bytes.Buffer", sn, fv.Name())
				}
				p.stBuf[sn][fv.Name()] = true
				rf = append(rf, rfield{fv.Name(), "option (list N)"})
				continue
			}
			if opq[fv.Name()] {
				if sl, isSl := fv.Type().Underlying().(*types.Slice); isSl {
					if _, isIface := sl.Elem().Underlying().(*types.Interface); !isIface {
						return g, fmt.Errorf("opaque field %s.%s is not a slice of an interface type", sn, fv.Name())
					}
					p.stOpaque[sn][fv.Name()] = true
					rf = append(rf, rfield{fv.Name(), "list N"}) // the identities of the elements
					continue
				}
				if _, isIface := fv.Type().Underlying().(*types.Interface); !isIface {
					return g, fmt.Errorf("opaque field %s.%s is not of interface type", sn, fv.Name())
				}
				p.stOpaque[sn][fv.Name()] = true
				rf = append(rf, rfield{fv.Name(), "bool"}) // non-nil
			} else if subs := u.nested[sn][fv.Name()]; len(subs) > 0 {
				ist, isSt := fv.Type().Underlying().(*types.Struct)
				if !isSt {
					return g, fmt.Errorf("nested field %s.%s is not a struct", sn, fv.Name())
				}
				for _, sub := range subs {
					found := false
					for j := 0; j < ist.NumFields(); j++ {
						if sv := ist.Field(j); sv.Name() == sub && typeInSubset(sv.Type()) {
							nv := types.NewField(sv.Pos(), sv.Pkg(), fv.Name()+"_"+sub, sv.Type(), false)
							flds = append(flds, nv)
							rf = append(rf, rfield{nv.Name(), coqType(sv.Type())})
							found = true
						}
					}
					if !found {
						return g, fmt.Errorf("nested field %s.%s.%s not found or outside the subset", sn, fv.Name(), sub)
					}
				}
			} else if typeInSubset(fv.Type()) {
				flds = append(flds, fv)
				rf = append(rf, rfield{fv.Name(), coqType(fv.Type())})
			} else {
				dropped = append(dropped, fv.Name())
			}
		}
		for fld, ifaces := range u.asserts[sn] {
			for _, in := range ifaces {
				rf = append(rf, rfield{fld + "_is_" + in, "bool"}) // the dynamic type behind the field implements that interface
			}
		}
		if len(p.stOpaque[sn]) > 0 || len(p.stBuf[sn]) > 0 || (len(u.loggedFuncs) > 0 && len(u.stateStructs) == 1) {
			rf = append(rf, rfield{"calls", "list ocall"})
		}
		p.stFields[sn] = flds
		var decl []string
		for _, r := range rf {
			decl = append(decl, fmt.Sprintf("%s_%s : %s", sn, r.name, r.typ))
		}
		fmt.Fprintf(&b, "(* struct %s: fields not carried (outside the subset): %s *)\nRecord %s_st := { %s }.\n", sn, commentSafe(strings.Join(dropped, ", ")), sn, strings.Join(decl, "; "))
		for _, r := range rf {
			var cons []string
			for _, q := range rf {
				if q.name == r.name {
					cons = append(cons, fmt.Sprintf("%s_%s := v", sn, q.name))
				} else {
					cons = append(cons, fmt.Sprintf("%s_%s := %s_%s s", sn, q.name, sn, q.name))
				}
			}
			fmt.Fprintf(&b, "Definition set_%s_%s (s : %s_st) (v : %s) : %s_st := {| %s |}.\n", sn, r.name, sn, r.typ, sn, strings.Join(cons, "; "))
		}
		b.WriteString("\n")
	}
	// init(): package variables it assigns become definitions
	if initDecl != nil {
		txt, e := p.translateInit(initDecl)
		if e != nil {
			fmt.Fprintf(&b, "(* SKIPPED init: %s *)\n\n", commentSafe(e.Error()))
		} else {
			b.WriteString(txt)
		}
	}
	// translate in dependency order: repeatedly pick functions whose callees are done
	emitted := map[*types.Func]bool{}
	var names, skippedNames []string
	progress := true
	for progress {
		progress = false
		for _, obj := range order {
			if emitted[obj] || p.skipped[obj] != "" {
				continue
			}
			ready := true
			for _, c := range p.callees(p.funcs[obj]) {
				if e := p.recOf[obj]; e != nil && c == e {
					continue // a call of the cycle's entry goes through the rec_ parameter
				}
				if c == obj {
					p.skipped[obj] = "recursive"
					ready = false
					break
				}
				if _, mine := p.fname[c]; mine && !p.done[c] {
					if p.skipped[c] != "" {
						p.skipped[obj] = "calls " + c.Name() + " (skipped)"
					}
					ready = false
					break
				}
			}
			if !ready {
				if p.skipped[obj] != "" {
					progress = true
				}
				continue
			}
			txt, nl, e := p.translateFunc(obj)
			emitted[obj] = true
			progress = true
			if e != nil {
				p.skipped[obj] = e.Error()
				continue
			}
			p.done[obj] = true
			g.nfun++
			g.nloop += nl
			names = append(names, p.fname[obj])
			pos := fset.Position(p.funcs[obj].Pos())
			fmt.Fprintf(&b, "(* %s:%d *)\n%s\n", filepath.Base(pos.Filename), pos.Line, txt)
		}
	}
	for _, obj := range order {
		if !p.done[obj] {
			why := p.skipped[obj]
			if why == "not selected" || why == "file not in the unit" {
				continue
			}
			if why == "" {
				why = "call cycle"
			}
			g.nskip++
			skippedNames = append(skippedNames, obj.Name())
			fmt.Fprintf(&b, "(* SKIPPED %s: %s *)\n", obj.Name(), commentSafe(why))
		}
	}
	sort.Strings(skippedNames)
	if u.section != "" {
		b.WriteString("End Src.\n")
	}
	if len(u.stubs) > 0 {
		sort.Strings(stubNames)
		fmt.Fprintf(&b, "\nDefinition stub_functions : list (list N) := [%s].", strings.Join(mapS(stubNames, bytesLit), "; "))
	}
	fmt.Fprintf(&b, "\nDefinition translated_functions : list (list N) := [%s].\n", strings.Join(mapS(names, bytesLit), "; "))
	fmt.Fprintf(&b, "Definition skipped_functions : list (list N) := [%s].\n", strings.Join(mapS(skippedNames, bytesLit), "; "))
	g.text = b.String()
	return g, nil
}

func mapS(l []string, f func(string) string) []string {
	r := make([]string, len(l))
	for i, x := range l {
		r[i] = f(x)
	}
	return r
}

func recvName(t types.Type) string {
	if pt, ok := t.(*types.Pointer); ok {
		t = pt.Elem()
	}
	if n, ok := t.(*types.Named); ok {
		return n.Obj().Name()
	}
	return "recv"
}

var reserved = map[string]bool{"len": true, "idx": true, "slice": true, "guard": true, "bind": true, "fuel": true, "Ok": true, "Panic": true, "Fuel": true,
	"fun": true, "let": true, "in": true, "match": true, "with": true, "end": true, "if": true, "then": true, "else": true, "as": true, "at": true,
	"Type": true, "Set": true, "Prop": true, "fix": true, "cofix": true, "forall": true, "exists": true, "return": true, "using": true, "where": true,
	"N": true, "Z": true, "nat": true, "list": true, "bool": true, "true": true, "false": true, "nil": true, "cons": true, "length": true, "rem": true,
	"quot": true, "upd": true, "res": true, "lres": true, "O": true, "S": true, "tt": true, "unit": true, "fst": true, "snd": true, "app": true,
	"nth": true, "map": true, "repeat": true, "last": true, "hd": true, "tl": true, "rev": true, "pair": true, "Some": true, "None": true, "option": true}

func coqIdent(s string) string {
	if s == "_" {
		return "_"
	}
	if reserved[s] {
		return s + "_"
	}
	return s
}

func bytesLit(s string) string {
	var parts []string
	for i := 0; i < len(s); i++ {
		parts = append(parts, fmt.Sprint(s[i]))
	}
	return "[" + strings.Join(parts, ";") + "]%N"
}

// callees: the package-level functions / methods of this package that fd calls
func (p *pkgCtx) callees(fd *ast.FuncDecl) []*types.Func {
	seen := map[*types.Func]bool{}
	var out []*types.Func
	ast.Inspect(fd.Body, func(n ast.Node) bool {
		call, ok := n.(*ast.CallExpr)
		if !ok {
			return true
		}
		if f := p.calledFunc(call); f != nil && f.Pkg() == p.pkg && !seen[f] {
			seen[f] = true
			out = append(out, f)
		}
		return true
	})
	return out
}

// the reader / writer types whose values are the (single) implicit stream of the effect monad
func isHandle(t types.Type) bool {
	if pt, ok := t.(*types.Pointer); ok {
		return isNamed(pt.Elem(), "bufio", "Reader")
	}
	return isNamed(t, "io", "Reader") || isNamed(t, "io", "Writer")
}

// T or *T with T one of the unit's state structs: its name
func stateStructName(t types.Type) string {
	if pt, ok := t.(*types.Pointer); ok {
		t = pt.Elem()
	}
	n, ok := t.(*types.Named)
	if !ok {
		return ""
	}
	for _, s := range curUnit.stateStructs {
		if n.Obj().Name() == s && n.Obj().Pkg() != nil {
			return s
		}
	}
	return ""
}

func isReaderHandle(t types.Type) bool {
	if pt, ok := t.(*types.Pointer); ok {
		return isNamed(pt.Elem(), "bufio", "Reader")
	}
	return isNamed(t, "io", "Reader")
}

func isErrorType(t types.Type) bool {
	return t != nil && types.Identical(t, types.Universe.Lookup("error").Type())
}

func hasHandleParam(obj *types.Func) bool {
	sig := obj.Type().(*types.Signature)
	for i := 0; i < sig.Params().Len(); i++ {
		if isHandle(sig.Params().At(i).Type()) {
			return true
		}
	}
	return false
}

// call cycles: every cycle must pass through one function (the entry); the other members of the cycle and the entry's body
// take the entry as a parameter rec_<entry> (open recursion), the entry itself is then closed by recursion on fuel
func (p *pkgCtx) findCycles(order []*types.Func) {
	inUnit := map[*types.Func]bool{}
	for _, o := range order {
		inUnit[o] = true
	}
	succ := map[*types.Func][]*types.Func{}
	for _, o := range order {
		for _, c := range p.callees(p.funcs[o]) {
			if inUnit[c] {
				succ[o] = append(succ[o], c)
			}
		}
	}
	reach := func(from *types.Func, without *types.Func) map[*types.Func]bool {
		seen := map[*types.Func]bool{}
		var walk func(x *types.Func)
		walk = func(x *types.Func) {
			for _, y := range succ[x] {
				if y == without || seen[y] {
					continue
				}
				seen[y] = true
				walk(y)
			}
		}
		walk(from)
		return seen
	}
	assigned := map[*types.Func]bool{}
	for _, o := range order {
		if assigned[o] || !reach(o, nil)[o] {
			continue
		}
		// the strongly connected component of o
		var comp []*types.Func
		fromO := reach(o, nil)
		for _, x := range order {
			if fromO[x] && reach(x, nil)[o] {
				comp = append(comp, x)
			}
		}
		// an entry: removing it leaves no cycle among the others; prefer one called from outside the component
		inComp := map[*types.Func]bool{}
		for _, x := range comp {
			inComp[x] = true
		}
		var entry *types.Func
		for pass := 0; pass < 2 && entry == nil; pass++ {
			for _, e := range comp {
				ok := true
				for _, x := range comp {
					if x != e && reach(x, e)[x] {
						ok = false
					}
				}
				if !ok {
					continue
				}
				if pass == 0 {
					called := false
					for _, y := range order {
						if inComp[y] {
							continue
						}
						for _, c := range succ[y] {
							if c == e {
								called = true
							}
						}
					}
					if !called {
						continue
					}
				}
				entry = e
				break
			}
		}
		for _, x := range comp {
			assigned[x] = true
			if entry == nil {
				p.skipped[x] = "call cycle without a single entry"
			} else {
				p.recOf[x] = entry
			}
		}
	}
}

func (p *pkgCtx) calledFunc(call *ast.CallExpr) *types.Func {
	switch fn := call.Fun.(type) {
	case *ast.Ident:
		f, _ := p.info.Uses[fn].(*types.Func)
		return f
	case *ast.SelectorExpr:
		if sel := p.info.Selections[fn]; sel != nil {
			f, _ := sel.Obj().(*types.Func)
			return f
		}
		f, _ := p.info.Uses[fn.Sel].(*types.Func)
		return f
	}
	return nil
}

// ---------------------------------------------------------------------------------------------------------
// types

func intInfo(t types.Type) (signed bool, width int, ok bool) {
	b, isb := t.Underlying().(*types.Basic)
	if !isb {
		return
	}
	switch b.Kind() {
	case types.Int8:
		return true, 8, true
	case types.Int16:
		return true, 16, true
	case types.Int32:
		return true, 32, true
	case types.Int64, types.Int, types.UntypedInt, types.UntypedRune:
		return true, 64, true
	case types.Uint8:
		return false, 8, true
	case types.Uint16:
		return false, 16, true
	case types.Uint32:
		return false, 32, true
	case types.Uint64, types.Uint, types.Uintptr:
		return false, 64, true
	}
	return
}

func isFloat(t types.Type) (w32 bool, ok bool) {
	b, isb := t.Underlying().(*types.Basic)
	if !isb {
		return
	}
	switch b.Kind() {
	case types.Float32:
		return true, true
	case types.Float64, types.UntypedFloat:
		return false, true
	}
	return
}

func isBool(t types.Type) bool {
	b, ok := t.Underlying().(*types.Basic)
	return ok && b.Info()&types.IsBoolean != 0
}

func isString(t types.Type) bool {
	b, ok := t.Underlying().(*types.Basic)
	return ok && b.Info()&types.IsString != 0
}

func isNamed(t types.Type, pkg, name string) bool {
	n, ok := t.(*types.Named)
	return ok && n.Obj().Pkg() != nil && n.Obj().Pkg().Path() == pkg && n.Obj().Name() == name
}

func typeInSubset(t types.Type) (ok bool) {
	defer func() {
		if r := recover(); r != nil {
			if _, isU := r.(unsupported); isU {
				ok = false
				return
			}
			panic(r)
		}
	}()
	coqType(t)
	return true
}

func coqType(t types.Type) string {
	if isNamed(t, "time", "Time") {
		return "tval"
	}
	if isNamed(t, "time", "Duration") {
		return "Z"
	}
	if isErrorType(t) {
		return "goerr"
	}
	if isNamed(t, "net", "IPNet") && curUnit.externs["net"] {
		return "net_IPNet"
	}
	if n := stateStructName(t); n != "" {
		return n + "_st"
	}
	switch u := t.Underlying().(type) {
	case *types.Basic:
		if isBool(t) {
			return "bool"
		}
		if isString(t) {
			return "(list N)"
		}
		if s, _, ok := intInfo(t); ok {
			if s {
				return "Z"
			}
			return "N"
		}
		if _, ok := isFloat(t); ok {
			return "gofl"
		}
	case *types.Slice:
		return "(list " + coqType(u.Elem()) + ")"
	case *types.Array:
		return "(list " + coqType(u.Elem()) + ")"
	case *types.Struct:
		if u.NumFields() == 0 {
			return "unit"
		}
	case *types.Tuple:
		var parts []string
		for i := 0; i < u.Len(); i++ {
			parts = append(parts, coqType(u.At(i).Type()))
		}
		if len(parts) == 1 {
			return parts[0]
		}
		return "(" + strings.Join(parts, " * ") + ")"
	}
	fail("type %s is outside the subset", t)
	return ""
}

func zeroOf(t types.Type) string {
	if isNamed(t, "time", "Duration") {
		return "0"
	}
	if isNamed(t, "time", "Time") {
		return "tval0"
	}
	if isErrorType(t) {
		return "None"
	}
	switch u := t.Underlying().(type) {
	case *types.Basic:
		if isBool(t) {
			return "false"
		}
		if isString(t) {
			return "[]"
		}
		if s, _, ok := intInfo(t); ok {
			if s {
				return "0"
			}
			return "0%N"
		}
		if w32, ok := isFloat(t); ok {
			return fmt.Sprintf("{| fl32 := %v; flbits := 0%%N |}", w32)
		}
	case *types.Slice:
		return "[]"
	case *types.Array:
		return fmt.Sprintf("(repeat %s (Z.to_nat %d))", zeroOf(u.Elem()), u.Len())
	}
	fail("no zero value for %s", t)
	return ""
}

// ---------------------------------------------------------------------------------------------------------
// per-function translation

type fnCtx struct {
	p            *pkgCtx
	names        map[types.Object]string
	taken        map[string]bool
	resType      string
	loops        []string
	fname        string
	nloop        int
	nk           int
	ntmp         int
	needFuel     bool
	needOrc      bool
	needDiv      bool
	pre          []func(string) string // pending wrappers (guards, binds) of the statement being translated
	cond         []string              // enclosing short-circuit conditions (guards become implications)
	locals       map[types.Object]bool // objects treated as local variables (params, locals, init's globals)
	eff          bool                  // translated into the effect monad M (Base/GoEff.v)
	recFn        *types.Func           // the entry of the call cycle this function belongs to (nil: none)
	recName      string                // name of the parameter that stands for that entry
	recType      string
	handles      map[types.Object]bool // reader / writer variables (erased)
	sig          *types.Signature
	self         types.Object // the pointer receiver of a state struct method (nil: none)
	selfT        string       // its struct name
	needClk      bool
	clkUsed      bool
	selfEntry    string                  // valueCopy: the name the receiver record is kept under as it was on entry
	selfByValue  bool                    // value receiver: field stores would be invisible to the caller
	opaqueAlias  map[types.Object]string // local variables that hold the value of an opaque field after a type assertion: the field's name
	opaqueVars   map[types.Object]string // local variables that hold an element of an opaque slice field: the field's name
	namedRes     []*types.Var
	elemOverride string // Gallina type of the elements of the range being translated (opaque slices)
}

// the value returned by a state struct method: the result next to the receiver record
func (f *fnCtx) withSelf(v string) string {
	if f.self == nil {
		return v
	}
	return "(" + v + ", " + f.nameOf(f.self) + ")"
}

// the monad vocabulary: pure functions use res (Base/GoSem.v), effectful ones M (Base/GoEff.v)
func (f *fnCtx) m(name string) string {
	if !f.eff {
		return name
	}
	switch name {
	case "Ok":
		return "eret"
	case "Fuel":
		return "efuel"
	case "res":
		return "M"
	}
	return "e" + name // bind lbind lbind2 guard unsup_unless
}

// where control goes when a statement list is left
type exits struct {
	next   func() string // falling off the end
	brk    func() string
	cont   func() string
	ret    func(string) string // return with this value
	inLoop bool
}

func (p *pkgCtx) newFn(name string) *fnCtx {
	return &fnCtx{p: p, names: map[types.Object]string{}, taken: map[string]bool{}, fname: name, locals: map[types.Object]bool{}, handles: map[types.Object]bool{}, opaqueVars: map[types.Object]string{}, opaqueAlias: map[types.Object]string{}}
}

func (f *fnCtx) nameOf(o types.Object) string {
	if n, ok := f.names[o]; ok {
		return n
	}
	base := coqIdent(o.Name())
	if base == "_" {
		base = "blank"
	}
	n := base
	for i := 1; f.taken[n] || f.globalName(n); i++ {
		n = fmt.Sprintf("%s_%d", base, i)
	}
	f.taken[n] = true
	f.names[o] = n
	f.locals[o] = true
	return n
}

func (f *fnCtx) globalName(n string) bool {
	for _, g := range f.p.fname {
		if g == n {
			return true
		}
	}
	for _, g := range f.p.globals {
		if g == n {
			return true
		}
	}
	return false
}

func (f *fnCtx) tmp(prefix string) string {
	f.ntmp++
	n := fmt.Sprintf("%s%d", prefix, f.ntmp)
	for f.taken[n] {
		f.ntmp++
		n = fmt.Sprintf("%s%d", prefix, f.ntmp)
	}
	f.taken[n] = true
	return n
}

func (p *pkgCtx) translateFunc(obj *types.Func) (txt string, nloops int, err error) {
	defer func() {
		if r := recover(); r != nil {
			if u, ok := r.(unsupported); ok {
				err = fmt.Errorf("%s", u.msg)
				return
			}
			panic(r)
		}
	}()
	fd := p.funcs[obj]
	f := p.newFn(p.fname[obj])
	sig := obj.Type().(*types.Signature)
	if sig.Variadic() {
		fail("variadic")
	}
	var params []string
	if fd.Recv != nil {
		rt := sig.Recv().Type()
		if stateStructName(rt) != "" {
			// a state struct: the receiver is the record of its fields, returned updated next to the result
			if _, isPtr := rt.(*types.Pointer); !isPtr {
				f.selfByValue = true // the callee works on a copy: only the call log may change
			}
			f.selfT = stateStructName(rt)
			if len(fd.Recv.List) == 1 && len(fd.Recv.List[0].Names) == 1 {
				f.self = p.info.Defs[fd.Recv.List[0].Names[0]]
			}
			if f.self == nil {
				fail("unnamed state receiver")
			}
			params = append(params, fmt.Sprintf("(%s : %s_st)", f.nameOf(f.self), f.selfT))
		} else if _, isBasic := rt.Underlying().(*types.Basic); isBasic && len(fd.Recv.List) == 1 && len(fd.Recv.List[0].Names) == 1 {
			// a value receiver of a scalar named type (Level): an ordinary first parameter
			rv := p.info.Defs[fd.Recv.List[0].Names[0]]
			params = append(params, fmt.Sprintf("(%s : %s)", f.nameOf(rv), coqType(rt)))
		} else if st, ok := rt.Underlying().(*types.Struct); !ok || st.NumFields() != 0 {
			fail("receiver %s is not an empty struct", rt)
		}
		// otherwise the receiver carries no data: dropped
	}
	f.eff = p.effFn[obj]
	f.sig = sig
	nReader, nWriter := 0, 0
	for i := 0; i < sig.Params().Len(); i++ {
		v := sig.Params().At(i)
		if isHandle(v.Type()) {
			// the single implicit stream of the effect monad
			if isReaderHandle(v.Type()) {
				nReader++
			} else {
				nWriter++
			}
			f.handles[v] = true
			continue
		}
		params = append(params, fmt.Sprintf("(%s : %s)", f.nameOf(v), coqType(v.Type())))
	}
	if nReader > 1 || nWriter > 1 {
		fail("more than one reader or writer parameter")
	}
	stmts := fd.Body.List
	if p.u.mutexBrackets && len(stmts) >= 2 && f.self != nil {
		if mf := f.mutexCall(stmts[0], "Lock"); mf != "" {
			if d, ok := stmts[1].(*ast.DeferStmt); ok && f.mutexCall(&ast.ExprStmt{X: d.Call}, "Unlock") == mf {
				stmts = stmts[2:] // the lock bracket around the whole body
			}
		}
	}
	var named []*types.Var
	for i := 0; i < sig.Results().Len(); i++ {
		if v := sig.Results().At(i); v.Name() != "" && v.Name() != "_" {
			named = append(named, v)
		}
	}
	recovers := false
	plainNamed := false
	if len(named) > 0 && len(named) == sig.Results().Len() && !f.eff {
		// named results without any defer: locals that start at their zero values; a bare return returns them
		hasDefer := false
		for _, st := range stmts {
			ast.Inspect(st, func(n ast.Node) bool {
				if _, ok := n.(*ast.DeferStmt); ok {
					hasDefer = true
				}
				return true
			})
		}
		if !hasDefer {
			plainNamed = true
			f.namedRes = named
		}
	}
	if len(named) > 0 && !plainNamed {
		// only: one named error result assigned by the canonical deferred recover and by nothing else
		if !(f.eff && len(named) == 1 && sig.Results().Len() == 1 && isErrorType(named[0].Type()) && len(stmts) > 0 && p.isRecoverDefer(stmts[0], named[0].Name())) {
			fail("named results")
		}
		stmts = stmts[1:]
		for _, st := range stmts {
			ast.Inspect(st, func(n ast.Node) bool {
				if id, ok := n.(*ast.Ident); ok && p.info.ObjectOf(id) == named[0] {
					fail("named result used in the body")
				}
				return true
			})
		}
		recovers = true
	}
	if sig.Results().Len() == 0 {
		if !f.eff && f.self == nil {
			fail("no result")
		}
		f.resType = "unit"
	} else {
		f.resType = coqType(sig.Results())
	}
	if f.self != nil {
		if f.eff {
			fail("state receiver in an effectful function")
		}
		f.resType = "(" + f.resType + " * " + f.selfT + "_st)"
	}
	if e := p.recOf[obj]; e != nil {
		f.recFn = e
		f.recName = "rec_" + p.fname[e]
		f.recType = p.recTypeOf(e)
	}
	ex := exits{next: func() string { fail("control reaches the end of the function"); return "" }, ret: func(v string) string { return f.m("Ok") + " " + paren(v) }}
	if f.self != nil {
		ex.ret = func(v string) string { return "Ok (" + v + ", " + f.nameOf(f.self) + ")" }
	}
	if f.self != nil && f.selfByValue && p.u.valueCopy && sig.Results().Len() > 0 {
		if len(p.stOpaque[f.selfT]) > 0 || len(p.stBuf[f.selfT]) > 0 || len(p.u.loggedFuncs) > 0 {
			fail("value receiver copy with a call log")
		}
		f.selfEntry = f.nameOf(f.self) + "_entry"
		ex.ret = func(v string) string { return "Ok (" + v + ", " + f.selfEntry + ")" }
	}
	if sig.Results().Len() == 0 {
		if f.self != nil {
			ex.next = func() string { return "Ok (tt, " + f.nameOf(f.self) + ")" }
			ex.ret = func(v string) string { return "Ok (tt, " + f.nameOf(f.self) + ")" }
		} else {
			ex.next = func() string { return "eret tt" }
			ex.ret = func(v string) string { return "eret tt" }
		}
	}
	var namedInit []string
	for _, v := range f.namedRes {
		namedInit = append(namedInit, fmt.Sprintf("let %s : %s := %s in", f.nameOf(v), coqType(v.Type()), zeroOf(v.Type())))
	}
	body := f.block(stmts, ex)
	if f.selfEntry != "" {
		body = fmt.Sprintf("let %s := %s in\n", f.selfEntry, f.nameOf(f.self)) + body
	}
	if len(namedInit) > 0 {
		body = strings.Join(namedInit, "\n") + "\n" + body
	}
	if recovers {
		body = "recover_errors (\n" + indent(body, 1) + ")"
	}
	var b strings.Builder
	for _, l := range f.loops {
		b.WriteString(f.orcFill(l))
		b.WriteString("\n")
	}
	fuelParam := ""
	if f.needOrc {
		fuelParam = " (fo : float_oracle)"
		p.orcFn[obj] = true
	}
	if f.needDiv {
		fuelParam += " (fq : Z -> Z -> gofl)"
		p.divFn[obj] = true
	}
	if f.needClk {
		fuelParam += " (clk : tval)"
		p.clkFn[obj] = true
	}
	if f.needFuel {
		fuelParam += " (fuel : nat)"
		p.fuelFn[obj] = true
	}
	if f.recFn == obj {
		// the entry of a call cycle: its body takes itself as rec_, then the knot is tied by recursion on fuel
		bodyFuel := ""
		if f.needFuel {
			bodyFuel = " fuel"
		}
		orcArgs := strings.TrimSuffix(strings.TrimSpace(f.orcFill("(*ORCA*)")), " ")
		if orcArgs != "" {
			orcArgs = " " + orcArgs
		}
		var pnames []string
		for i := 0; i < sig.Params().Len(); i++ {
			if v := sig.Params().At(i); !isHandle(v.Type()) {
				pnames = append(pnames, f.nameOf(v))
			}
		}
		fmt.Fprintf(&b, "Definition %s_body%s (%s : %s) %s : %s %s :=\n%s.\n\n", f.fname, fuelParam, f.recName, f.recType, strings.Join(params, " "), f.m("res"), f.resType, indent(f.orcFill(body), 1))
		orcParams := strings.TrimSpace(f.orcFill("(*ORC*)"))
		if orcParams != "" {
			orcParams = " " + orcParams
		}
		fmt.Fprintf(&b, "Fixpoint %s%s (fuel : nat) %s {struct fuel} : %s %s :=\n  match fuel with\n  | O => %s\n  | S fuel => %s_body%s%s (%s%s fuel)%s\n  end.\n",
			f.fname, orcParams, strings.Join(params, " "), f.m("res"), f.resType, f.m("Fuel"), f.fname, orcArgs, bodyFuel, f.fname, orcArgs, strings.Join(append([]string{""}, pnames...), " "))
		p.fuelFn[obj] = true
		return b.String(), f.nloop, nil
	}
	recParam := ""
	if f.recFn != nil {
		recParam = fmt.Sprintf(" (%s : %s)", f.recName, f.recType)
	}
	if p.u.valueFns && !f.eff && f.self == nil && f.recFn == nil && fuelParam == "" && len(f.loops) == 0 && strings.HasPrefix(body, "Ok ") && !strings.Contains(body, "\n") {
		// a plain value: also available without the monad (may then be called under && and ||)
		fmt.Fprintf(&b, "Definition %s_val %s : %s :=\n  %s.\n", f.fname, strings.Join(params, " "), f.resType, strings.TrimPrefix(body, "Ok "))
		var pn []string
		for i := 0; i < sig.Params().Len(); i++ {
			pn = append(pn, f.nameOf(sig.Params().At(i)))
		}
		fmt.Fprintf(&b, "Definition %s %s : res %s :=\n  Ok (%s).\n", f.fname, strings.Join(params, " "), f.resType, strings.TrimSpace(f.fname+"_val "+strings.Join(pn, " ")))
		p.valFn[obj] = true
		return b.String(), f.nloop, nil
	}
	fmt.Fprintf(&b, "Definition %s%s%s %s : %s %s :=\n%s.\n", f.fname, recParam, fuelParam, strings.Join(params, " "), f.m("res"), f.resType, indent(f.orcFill(body), 1))
	return b.String(), f.nloop, nil
}

// the type of the parameter rec_<entry>: the entry's own type without fuel and oracles
func (p *pkgCtx) recTypeOf(e *types.Func) string {
	sig := e.Type().(*types.Signature)
	var parts []string
	for i := 0; i < sig.Params().Len(); i++ {
		if v := sig.Params().At(i); !isHandle(v.Type()) {
			parts = append(parts, coqType(v.Type()))
		}
	}
	r := "unit"
	if sig.Results().Len() > 0 {
		r = coqType(sig.Results())
	}
	mon := "res"
	if p.effFn[e] {
		mon = "M"
	}
	parts = append(parts, mon+" "+r)
	return strings.Join(parts, " -> ")
}

// defer func() { if r := recover(); r != nil { if _, ok := r.(runtime.Error); ok { panic(r) }; err = r.(error) } }()
func (p *pkgCtx) isRecoverDefer(st ast.Stmt, result string) bool {
	d, ok := st.(*ast.DeferStmt)
	if !ok {
		return false
	}
	var buf strings.Builder
	if err := printer.Fprint(&buf, p.fset, d); err != nil {
		return false
	}
	got := strings.Join(strings.Fields(buf.String()), " ")
	want := "defer func() { if r := recover(); r != nil { if _, ok := r.(runtime.Error); ok { panic(r) } " + result + " = r.(error) } }()"
	return got == want
}

// init(): the package variables it assigns are its result
func (p *pkgCtx) translateInit(fd *ast.FuncDecl) (txt string, err error) {
	defer func() {
		if r := recover(); r != nil {
			if u, ok := r.(unsupported); ok {
				err = fmt.Errorf("%s", u.msg)
				return
			}
			panic(r)
		}
	}()
	f := p.newFn("init_")
	var gl []*types.Var
	seen := map[*types.Var]bool{}
	ast.Inspect(fd.Body, func(n ast.Node) bool {
		as, ok := n.(*ast.AssignStmt)
		if !ok {
			return true
		}
		for _, l := range as.Lhs {
			id := baseIdent(l)
			if id == nil {
				continue
			}
			if v, ok := p.info.Uses[id].(*types.Var); ok && v.Parent() == p.pkg.Scope() && !seen[v] {
				seen[v] = true
				gl = append(gl, v)
			}
		}
		return true
	})
	if len(gl) == 0 {
		return "", nil
	}
	var tys, nms, inits []string
	for _, v := range gl {
		n := f.nameOf(v)
		nms = append(nms, n)
		tys = append(tys, coqType(v.Type()))
		inits = append(inits, fmt.Sprintf("let %s := %s in", n, zeroOf(v.Type())))
	}
	f.resType = "(" + strings.Join(tys, " * ") + ")"
	if len(tys) == 1 {
		f.resType = tys[0]
	}
	tuple := "(" + strings.Join(nms, ", ") + ")"
	if len(nms) == 1 {
		tuple = nms[0]
	}
	ex := exits{next: func() string { return "Ok " + tuple }, ret: func(string) string { return "Ok " + tuple }}
	body := f.block(fd.Body.List, ex)
	var b strings.Builder
	for _, l := range f.loops {
		b.WriteString(f.orcFill(l) + "\n")
	}
	body = f.orcFill(body)
	if f.needFuel || f.needOrc || f.needDiv {
		fail("init needs explicit fuel or an oracle")
	}
	fmt.Fprintf(&b, "Definition init_ : res %s :=\n%s\n%s.\n", f.resType, indent(strings.Join(inits, "\n"), 1), indent(body, 1))
	for i, v := range gl {
		proj := "t"
		if len(gl) > 1 {
			pat := make([]string, len(gl))
			for j := range pat {
				pat[j] = "_"
			}
			pat[i] = "x"
			proj = "let '(" + strings.Join(pat, ", ") + ") := t in x"
		}
		name := coqIdent(v.Name())
		fmt.Fprintf(&b, "Definition %s : %s := match init_ with Ok t => %s | _ => %s end.\n", name, coqType(v.Type()), proj, zeroOf(v.Type()))
		p.globals[v] = name
	}
	b.WriteString("\n")
	return b.String(), nil
}

func baseIdent(e ast.Expr) *ast.Ident {
	switch x := e.(type) {
	case *ast.Ident:
		return x
	case *ast.IndexExpr:
		return baseIdent(x.X)
	case *ast.ParenExpr:
		return baseIdent(x.X)
	}
	return nil
}

func indent(s string, n int) string {
	pad := strings.Repeat("  ", n)
	lines := strings.Split(s, "\n")
	for i, l := range lines {
		if l != "" {
			lines[i] = pad + l
		}
	}
	return strings.Join(lines, "\n")
}

func paren(s string) string {
	if strings.ContainsAny(s, " \n") && !(strings.HasPrefix(s, "(") && matchingParen(s)) && !(strings.HasPrefix(s, "[") && strings.HasSuffix(s, "]")) {
		return "(" + s + ")"
	}
	return s
}

func matchingParen(s string) bool {
	d := 0
	for i, c := range s {
		if c == '(' {
			d++
		} else if c == ')' {
			d--
			if d == 0 && i != len(s)-1 {
				return false
			}
		}
	}
	return d == 0 && strings.HasSuffix(s, ")")
}

// ---------------------------------------------------------------------------------------------------------
// statements

// loops are emitted before it is known whether the function needs the float oracle: placeholders are filled at the end
func (f *fnCtx) orcFill(s string) string {
	par, arg := "", ""
	if f.needOrc {
		par, arg = "(fo : float_oracle) ", " fo"
	}
	if f.needDiv {
		par, arg = par+"(fq : Z -> Z -> gofl) ", arg+" fq"
	}
	if f.needClk {
		par, arg = par+"(clk : tval) ", arg+" clk"
	}
	return strings.ReplaceAll(strings.ReplaceAll(s, "(*ORC*)", par), "(*ORCA*)", arg)
}

func (f *fnCtx) wrapPre(code string) string {
	for i := len(f.pre) - 1; i >= 0; i-- {
		code = f.pre[i](code)
	}
	f.pre = nil
	return code
}

// prefix (an incomplete `let .. in` / `bind .. (fun x =>`) followed by what cont generates and suffix, all inside the
// guards and binds pending for the current statement
func (f *fnCtx) then(prefix, suffix string, cont func() string) string {
	pre := f.pre
	f.pre = nil
	body := cont() + suffix
	if prefix != "" {
		body = prefix + "\n" + body
	}
	f.pre = pre
	return f.wrapPre(body)
}

func (f *fnCtx) block(stmts []ast.Stmt, ex exits) string {
	if len(f.pre) != 0 {
		panic("internal: pending guards at a statement boundary")
	}
	if len(stmts) == 0 {
		return ex.next()
	}
	s, rest := stmts[0], stmts[1:]
	switch s := s.(type) {
	case *ast.BlockStmt:
		return f.block(append(append([]ast.Stmt{}, s.List...), rest...), ex)
	case *ast.EmptyStmt:
		return f.block(rest, ex)
	case *ast.DeclStmt:
		gd, ok := s.Decl.(*ast.GenDecl)
		if !ok || gd.Tok != token.VAR {
			if ok && gd.Tok == token.CONST {
				return f.block(rest, ex)
			}
			fail("declaration statement")
		}
		type vdecl struct {
			o   types.Object
			val ast.Expr
		}
		var ds []vdecl
		for _, sp := range gd.Specs {
			vs := sp.(*ast.ValueSpec)
			if len(vs.Values) != 0 && len(vs.Values) != len(vs.Names) {
				fail("var declaration from a tuple")
			}
			for i, id := range vs.Names {
				o := f.p.info.Defs[id]
				if o == nil {
					continue
				}
				var v ast.Expr
				if i < len(vs.Values) {
					v = vs.Values[i]
				}
				ds = append(ds, vdecl{o, v})
			}
		}
		var emit func(i int) string
		emit = func(i int) string {
			if i == len(ds) {
				return f.block(rest, ex)
			}
			val := zeroOf(ds[i].o.Type())
			if ds[i].val != nil {
				val = f.expr(ds[i].val)
			}
			return f.then(fmt.Sprintf("let %s : %s := %s in", f.nameOf(ds[i].o), coqType(ds[i].o.Type()), val), "", func() string { return emit(i + 1) })
		}
		return emit(0)
	case *ast.AssignStmt:
		return f.assign(s, rest, ex)
	case *ast.IncDecStmt:
		op := token.ADD
		if s.Tok == token.DEC {
			op = token.SUB
		}
		t := f.p.info.TypeOf(s.X)
		one := "1"
		if sg, _, _ := intInfo(t); !sg {
			one = "1%N"
		}
		val := f.arith(op, f.expr(s.X), one, t)
		return f.store(s.X, val, rest, ex)
	case *ast.ReturnStmt:
		if len(s.Results) == 0 {
			if len(f.namedRes) > 0 {
				var ns []string
				for _, v := range f.namedRes {
					ns = append(ns, f.nameOf(v))
				}
				v := strings.Join(ns, ", ")
				if len(ns) > 1 {
					v = "(" + v + ")"
				}
				return ex.ret(v)
			}
			return ex.ret("")
		}
		if len(s.Results) == 1 && !ex.inLoop {
			// tail call of a translated function: no bind
			if call, ok := s.Results[0].(*ast.CallExpr); ok {
				if fn := f.p.calledFunc(call); fn != nil && (f.p.done[fn] || fn == f.recFn) && fn.Pkg() == f.p.pkg && f.self == nil {
					code := f.liftIfPure(fn, f.callTranslated(fn, call))
					return f.wrapPre(code)
				}
			}
		}
		var vals []string
		for i, r := range s.Results {
			if id, ok := r.(*ast.Ident); ok && f.sig != nil && i < f.sig.Results().Len() {
				if _, isNil := f.p.info.ObjectOf(id).(*types.Nil); isNil {
					vals = append(vals, zeroOf(f.sig.Results().At(i).Type())) // an untyped nil takes the result's type
					continue
				}
			}
			vals = append(vals, f.expr(r))
		}
		v := strings.Join(vals, ", ")
		if len(vals) > 1 {
			v = "(" + v + ")"
		}
		return f.wrapPre(ex.ret(v))
	case *ast.IfStmt:
		return f.ifStmt(s, rest, ex)
	case *ast.SwitchStmt:
		return f.switchStmt(s, rest, ex)
	case *ast.ForStmt:
		return f.forStmt(s, rest, ex)
	case *ast.RangeStmt:
		return f.rangeStmt(s, rest, ex)
	case *ast.BranchStmt:
		if s.Label != nil {
			fail("labelled branch")
		}
		switch s.Tok {
		case token.BREAK:
			if ex.brk == nil {
				fail("break outside a loop or switch")
			}
			return ex.brk()
		case token.CONTINUE:
			if ex.cont == nil {
				fail("continue outside a loop")
			}
			return ex.cont()
		}
		fail("branch statement %s", s.Tok)
	case *ast.ExprStmt:
		if !f.eff && f.self == nil {
			fail("expression statement")
		}
		call, ok := s.X.(*ast.CallExpr)
		if !ok {
			fail("expression statement")
		}
		if id, ok := call.Fun.(*ast.Ident); ok {
			if _, isB := f.p.info.Uses[id].(*types.Builtin); isB && id.Name == "panic" {
				if !f.eff {
					fail("panic statement")
				}
				return f.wrapPre("epanic " + paren(f.panicArg(call.Args[0])))
			}
		}
		// a call whose results are dropped
		_ = f.expr(call)
		return f.then("", "", func() string { return f.block(rest, ex) })
	}
	fail("statement %T", s)
	return ""
}

// recv.<field>.<method>() with the field a sync.Mutex: the field name
func (f *fnCtx) mutexCall(st ast.Stmt, method string) string {
	es, ok := st.(*ast.ExprStmt)
	if !ok {
		return ""
	}
	call, ok := es.X.(*ast.CallExpr)
	if !ok || len(call.Args) != 0 {
		return ""
	}
	sel, ok := call.Fun.(*ast.SelectorExpr)
	if !ok || sel.Sel.Name != method {
		return ""
	}
	inner, ok := sel.X.(*ast.SelectorExpr)
	if !ok {
		return ""
	}
	id, ok := inner.X.(*ast.Ident)
	if !ok || f.p.info.ObjectOf(id) != f.self {
		return ""
	}
	if !isNamed(f.p.info.TypeOf(inner), "sync", "Mutex") {
		return ""
	}
	return inner.Sel.Name
}

// s.f with f a *bytes.Buffer field of the state receiver: the field name
func (f *fnCtx) selfBuf(e ast.Expr) string {
	sel, ok := e.(*ast.SelectorExpr)
	if !ok || f.self == nil {
		return ""
	}
	id, ok := sel.X.(*ast.Ident)
	if !ok || f.p.info.ObjectOf(id) != f.self {
		return ""
	}
	if f.p.stBuf[f.selfT][sel.Sel.Name] {
		return sel.Sel.Name
	}
	return ""
}

// an external call without a result that concerns the receiver: appended to its call log
func (f *fnCtx) logCall(field, method string, args []string) {
	sn := f.nameOf(f.self)
	callsF := fmt.Sprintf("%s_calls %s", f.selfT, sn)
	line := fmt.Sprintf("let %s := set_%s_calls %s (%s ++ [OCall %s %s [%s]]) in", sn, f.selfT, sn, callsF, bytesLit(field), bytesLit(method), strings.Join(args, "; "))
	f.pre = append(f.pre, func(k string) string { return line + "\n" + k })
}

// s.f with s the state receiver and f a carried field: the field name
func (f *fnCtx) selfField(e ast.Expr) string {
	sel, ok := e.(*ast.SelectorExpr)
	if !ok || f.self == nil {
		return ""
	}
	if in, isSel := sel.X.(*ast.SelectorExpr); isSel {
		// c.l.context: a carried sub-field of a struct-typed field of the receiver
		if id, isId := in.X.(*ast.Ident); isId && f.p.info.ObjectOf(id) == f.self && len(f.p.u.nested[f.selfT][in.Sel.Name]) > 0 {
			name := in.Sel.Name + "_" + sel.Sel.Name
			for _, fv := range f.p.stFields[f.selfT] {
				if fv.Name() == name {
					return name
				}
			}
			fail("field %s.%s of %s is not carried in the state record", in.Sel.Name, sel.Sel.Name, f.selfT)
		}
		return ""
	}
	id, ok := sel.X.(*ast.Ident)
	if !ok || f.p.info.ObjectOf(id) != f.self {
		return ""
	}
	for _, fv := range f.p.stFields[f.selfT] {
		if fv.Name() == sel.Sel.Name {
			return fv.Name()
		}
	}
	fail("field %s of %s is not carried in the state record", sel.Sel.Name, f.selfT)
	return ""
}

func (f *fnCtx) elemTypeOf(elem types.Type) string {
	if f.elemOverride != "" {
		return f.elemOverride
	}
	return coqType(elem)
}

// s.f with f an opaque (interface-typed) field of the state receiver: the field name
func (f *fnCtx) selfOpaque(e ast.Expr) string {
	sel, ok := e.(*ast.SelectorExpr)
	if !ok || f.self == nil {
		return ""
	}
	id, ok := sel.X.(*ast.Ident)
	if !ok || f.p.info.ObjectOf(id) != f.self {
		return ""
	}
	if f.p.stOpaque[f.selfT][sel.Sel.Name] {
		return sel.Sel.Name
	}
	return ""
}

// a Go value handed to / received from the environment
func (f *fnCtx) toOval(e ast.Expr) string {
	t := f.p.info.TypeOf(e)
	x := paren(f.expr(e))
	switch {
	case isBool(t):
		return "OVBool " + x
	case isString(t):
		return "OVBytes " + x
	case isErrorType(t):
		return "OVErr " + x
	}
	if sg, _, ok := intInfo(t); ok {
		if sg {
			return "OVInt " + x
		}
		return "OVInt (Z.of_N " + x + ")"
	}
	if sl, ok := t.Underlying().(*types.Slice); ok {
		if _, _, ok := intInfo(sl.Elem()); ok {
			return "OVBytes " + x
		}
	}
	fail("argument of type %s in a call through an opaque field", t)
	return ""
}

func (f *fnCtx) fromOval(v string, t types.Type) string {
	switch {
	case isBool(t):
		return "oval_bool " + v
	case isErrorType(t):
		return "oval_err " + v
	}
	if sg, _, ok := intInfo(t); ok {
		if sg {
			return "oval_int " + v
		}
		return "Z.to_N (oval_int " + v + ")"
	}
	fail("result of type %s from a call through an opaque field", t)
	return ""
}

// s.f.M(args) with f opaque: logged, answered by the environment
func (f *fnCtx) opaqueCall(field, method string, e *ast.CallExpr, first string) string {
	if len(f.cond) > 0 {
		fail("call through an opaque field under a short-circuit operator")
	}
	if e.Ellipsis != token.NoPos {
		fail("call with ...")
	}
	var as []string
	if first != "" {
		as = append(as, first)
	}
	for _, a := range e.Args {
		as = append(as, f.toOval(a))
	}
	sn := f.nameOf(f.self)
	r := f.tmp("o")
	callsF := fmt.Sprintf("%s_calls %s", f.selfT, sn)
	line := fmt.Sprintf("let %s := ans (length (%s)) in\nlet %s := set_%s_calls %s (%s ++ [OCall %s %s [%s]]) in", r, callsF, sn, f.selfT, sn, callsF, bytesLit(field), bytesLit(method), strings.Join(as, "; "))
	f.pre = append(f.pre, func(k string) string { return line + "\n" + k })
	res := f.p.info.TypeOf(e)
	switch rt := res.(type) {
	case *types.Tuple:
		switch rt.Len() {
		case 0:
			return "tt"
		case 2:
			return fmt.Sprintf("(%s, %s)", f.fromOval("(oval_fst "+r+")", rt.At(0).Type()), f.fromOval("(oval_snd "+r+")", rt.At(1).Type()))
		}
		fail("call through an opaque field with %d results", rt.Len())
	}
	return f.fromOval(r, res)
}

// &s.f
func (f *fnCtx) selfFieldAddr(e ast.Expr) string {
	u, ok := e.(*ast.UnaryExpr)
	if !ok || u.Op != token.AND {
		return ""
	}
	return f.selfField(u.X)
}

// the operand of panic(...): an error value
func (f *fnCtx) panicArg(e ast.Expr) string {
	if call, ok := e.(*ast.CallExpr); ok {
		if fn := f.p.calledFunc(call); fn != nil && fn.FullName() == "fmt.Errorf" {
			tv := f.p.info.Types[call.Args[0]]
			if tv.Value == nil || tv.Value.Kind() != constant.String {
				fail("fmt.Errorf with a non-constant format")
			}
			// the arguments only shape the message; they must be evaluable without effects or panics
			for _, a := range call.Args[1:] {
				if !f.simpleArg(a) {
					fail("fmt.Errorf argument that is not a variable, constant or len(variable)")
				}
			}
			return "Some (ErrFmt " + bytesLit(constant.StringVal(tv.Value)) + ")"
		}
	}
	if !isErrorType(f.p.info.TypeOf(e)) {
		fail("panic with a value that is not an error")
	}
	return f.expr(e)
}

func (f *fnCtx) simpleArg(e ast.Expr) bool {
	if tv, ok := f.p.info.Types[e]; ok && tv.Value != nil {
		return true
	}
	switch x := e.(type) {
	case *ast.Ident:
		return true
	case *ast.ParenExpr:
		return f.simpleArg(x.X)
	case *ast.CallExpr:
		if id, ok := x.Fun.(*ast.Ident); ok && id.Name == "len" && len(x.Args) == 1 {
			_, isId := x.Args[0].(*ast.Ident)
			return isId
		}
	}
	return false
}

// e denotes the implicit reader / writer: a handle variable, or bufio.NewReader(handle)
func (f *fnCtx) isHandleExpr(e ast.Expr) bool {
	switch x := e.(type) {
	case *ast.Ident:
		return f.handles[f.p.info.ObjectOf(x)]
	case *ast.ParenExpr:
		return f.isHandleExpr(x.X)
	case *ast.CallExpr:
		if fn := f.p.calledFunc(x); fn != nil && fn.FullName() == "bufio.NewReader" && len(x.Args) == 1 {
			return f.isHandleExpr(x.Args[0])
		}
	}
	return false
}

func (f *fnCtx) assign(s *ast.AssignStmt, rest []ast.Stmt, ex exits) string {
	if len(s.Lhs) == 2 && len(s.Rhs) == 1 && s.Tok == token.DEFINE {
		// lw, ok := recv.field.(Iface) on an opaque field: lw is another name for the field, ok the record's flag
		if ta, isTA := s.Rhs[0].(*ast.TypeAssertExpr); isTA && ta.Type != nil {
			if of := f.selfOpaque(ta.X); of != "" {
				in := ""
				if nt, ok := f.p.info.TypeOf(ta.Type).(*types.Named); ok {
					in = nt.Obj().Name()
				}
				okFlag := false
				for _, a := range f.p.u.asserts[f.selfT][of] {
					if a == in {
						okFlag = true
					}
				}
				if !okFlag {
					fail("type assertion of %s to %s is not declared for the unit", of, in)
				}
				vid, ok1 := s.Lhs[0].(*ast.Ident)
				oid, ok2 := s.Lhs[1].(*ast.Ident)
				if !ok1 || !ok2 {
					fail("type assertion into non-identifiers")
				}
				if vid.Name != "_" {
					vo := f.p.info.ObjectOf(vid)
					f.opaqueAlias[vo] = of
				}
				if oid.Name == "_" {
					return f.block(rest, ex)
				}
				flag := fmt.Sprintf("%s_%s_is_%s %s", f.selfT, of, in, f.nameOf(f.self))
				return f.then(fmt.Sprintf("let %s := %s in", f.nameOf(f.p.info.ObjectOf(oid)), flag), "", func() string { return f.block(rest, ex) })
			}
		}
	}
	if len(s.Lhs) == 1 && len(s.Rhs) == 1 {
		lhs := s.Lhs[0]
		if bf := f.selfBuf(lhs); bf != "" && s.Tok == token.ASSIGN {
			sn := f.nameOf(f.self)
			if id, ok := s.Rhs[0].(*ast.Ident); ok {
				if _, isNil := f.p.info.ObjectOf(id).(*types.Nil); isNil {
					return f.then(fmt.Sprintf("let %s := set_%s_%s %s None in", sn, f.selfT, bf, sn), "", func() string { return f.block(rest, ex) })
				}
			}
			if ta, ok := s.Rhs[0].(*ast.TypeAssertExpr); ok {
				if call, ok := ta.X.(*ast.CallExpr); ok && len(call.Args) == 0 {
					if sel, ok := call.Fun.(*ast.SelectorExpr); ok && sel.Sel.Name == "Get" {
						if pid, ok := sel.X.(*ast.Ident); ok && f.p.u.pools[pid.Name] {
							// pool.Get().(*bytes.Buffer): an empty buffer (Close resets before Put, New makes an empty one)
							f.logCall("", "pool.Get", nil)
							return f.then(fmt.Sprintf("let %s := set_%s_%s %s (Some []) in", sn, f.selfT, bf, sn), "", func() string { return f.block(rest, ex) })
						}
					}
				}
			}
			fail("assignment to buffer field %s of something other than nil or a pooled buffer", bf)
		}
		if f.eff && isHandle(f.p.info.TypeOf(s.Rhs[0])) {
			// bufRdr := bufio.NewReader(src): another name for the implicit stream
			id, ok := lhs.(*ast.Ident)
			if !ok || s.Tok != token.DEFINE || !f.isHandleExpr(s.Rhs[0]) {
				fail("reader / writer assignment")
			}
			f.handles[f.p.info.ObjectOf(id)] = true
			return f.block(rest, ex)
		}
		var val string
		if s.Tok == token.DEFINE || s.Tok == token.ASSIGN {
			val = f.expr(s.Rhs[0])
		} else {
			op := map[token.Token]token.Token{token.ADD_ASSIGN: token.ADD, token.SUB_ASSIGN: token.SUB, token.MUL_ASSIGN: token.MUL, token.QUO_ASSIGN: token.QUO,
				token.REM_ASSIGN: token.REM, token.AND_ASSIGN: token.AND, token.OR_ASSIGN: token.OR, token.XOR_ASSIGN: token.XOR, token.SHL_ASSIGN: token.SHL,
				token.SHR_ASSIGN: token.SHR, token.AND_NOT_ASSIGN: token.AND_NOT}[s.Tok]
			t := f.p.info.TypeOf(lhs)
			if op == token.SHL || op == token.SHR {
				val = f.shift(op, f.expr(lhs), s.Rhs[0], t)
			} else {
				val = f.arith(op, f.expr(lhs), f.expr(s.Rhs[0]), t)
			}
		}
		return f.store(lhs, val, rest, ex)
	}
	if len(s.Rhs) == 1 && len(s.Lhs) > 1 {
		// tuple from a call
		call, ok := s.Rhs[0].(*ast.CallExpr)
		if !ok {
			fail("tuple assignment from a non-call")
		}
		var pats []string
		for _, l := range s.Lhs {
			id, ok := l.(*ast.Ident)
			if !ok {
				fail("tuple assignment to a non-identifier")
			}
			if id.Name == "_" {
				pats = append(pats, "_")
				continue
			}
			o := f.p.info.ObjectOf(id)
			pats = append(pats, f.nameOf(o))
		}
		pat := "'(" + strings.Join(pats, ", ") + ")"
		if fn := f.p.calledFunc(call); fn != nil && f.p.done[fn] {
			if f.self != nil {
				fail("tuple result in a state struct method")
			}
			code := f.liftIfPure(fn, f.callTranslated(fn, call))
			return f.then(fmt.Sprintf("%s %s (fun %s =>", f.m("bind"), paren(code), pat), ")", func() string { return f.block(rest, ex) })
		}
		code := f.expr(call)
		return f.then(fmt.Sprintf("let %s := %s in", pat, code), "", func() string { return f.block(rest, ex) })
	}
	if len(s.Lhs) == len(s.Rhs) {
		var pats, vals []string
		for i, l := range s.Lhs {
			id, ok := l.(*ast.Ident)
			if !ok {
				fail("parallel assignment to a non-identifier")
			}
			vals = append(vals, f.expr(s.Rhs[i]))
			if id.Name == "_" {
				pats = append(pats, "_")
			} else {
				pats = append(pats, f.nameOf(f.p.info.ObjectOf(id)))
			}
		}
		return f.then(fmt.Sprintf("let '(%s) := (%s) in", strings.Join(pats, ", "), strings.Join(vals, ", ")), "", func() string { return f.block(rest, ex) })
	}
	fail("assignment shape")
	return ""
}

// store val into the place lhs, then continue with rest
func (f *fnCtx) store(lhs ast.Expr, val string, rest []ast.Stmt, ex exits) string {
	switch l := lhs.(type) {
	case *ast.Ident:
		if l.Name == "_" {
			return f.then("", "", func() string { return f.block(rest, ex) })
		}
		o := f.p.info.ObjectOf(l)
		if v, ok := o.(*types.Var); ok && v.Parent() == f.p.pkg.Scope() && !f.locals[o] {
			fail("assignment to package variable %s", l.Name)
		}
		return f.then(fmt.Sprintf("let %s := %s in", f.nameOf(o), val), "", func() string { return f.block(rest, ex) })
	case *ast.SelectorExpr:
		if fld := f.selfField(l); fld != "" {
			if f.selfByValue && f.selfEntry == "" {
				fail("assignment to a field of a value receiver")
			}
			sn := f.nameOf(f.self)
			return f.then(fmt.Sprintf("let %s := set_%s_%s %s %s in", sn, f.selfT, fld, sn, paren(val)), "", func() string { return f.block(rest, ex) })
		}
		fail("assignment to a field")
	case *ast.IndexExpr:
		id, ok := l.X.(*ast.Ident)
		if !ok {
			fail("indexed assignment to a non-variable")
		}
		o := f.p.info.ObjectOf(id)
		if _, isMap := f.p.info.TypeOf(l.X).Underlying().(*types.Map); isMap {
			fail("map assignment")
		}
		if v, ok := o.(*types.Var); ok && v.Parent() == f.p.pkg.Scope() && !f.locals[o] {
			fail("assignment to package variable %s", id.Name)
		}
		a := f.nameOf(o)
		i := f.toZ(l.Index)
		f.addGuard(fmt.Sprintf("inb %s %s", paren(i), a))
		return f.then(fmt.Sprintf("let %s := set_idx %s %s %s in", a, a, paren(i), paren(val)), "", func() string { return f.block(rest, ex) })
	}
	fail("assignment target %T", lhs)
	return ""
}

// variables assigned in the nodes that are declared outside them (and are locals)
func (f *fnCtx) assigned(nodes []ast.Node) []types.Object {
	var lo, hi token.Pos
	for i, n := range nodes {
		if n == nil {
			continue
		}
		if i == 0 || lo == 0 || n.Pos() < lo {
			lo = n.Pos()
		}
		if n.End() > hi {
			hi = n.End()
		}
	}
	seen := map[types.Object]bool{}
	var out []types.Object
	add := func(e ast.Expr) {
		id := baseIdent(e)
		if id == nil || id.Name == "_" {
			return
		}
		o := f.p.info.ObjectOf(id)
		if o == nil || seen[o] {
			return
		}
		if _, isVar := o.(*types.Var); !isVar {
			return
		}
		if o.Pos() >= lo && o.Pos() < hi { // declared inside
			return
		}
		if o.Parent() == f.p.pkg.Scope() && !f.locals[o] {
			return
		}
		seen[o] = true
		out = append(out, o)
	}
	for _, n := range nodes {
		if n == nil {
			continue
		}
		ast.Inspect(n, func(n ast.Node) bool {
			switch s := n.(type) {
			case *ast.AssignStmt:
				for _, l := range s.Lhs {
					add(l)
				}
			case *ast.IncDecStmt:
				add(s.X)
			case *ast.RangeStmt:
				if s.Tok == token.ASSIGN {
					if s.Key != nil {
						add(s.Key)
					}
					if s.Value != nil {
						add(s.Value)
					}
				}
			case *ast.FuncLit:
				fail("function literal")
			}
			return true
		})
	}
	if f.self != nil && !seen[f.self] {
		// the receiver record counts as assigned wherever it is mentioned (atomic updates, field stores, method calls)
		mentioned := false
		for _, n := range nodes {
			if n == nil {
				continue
			}
			ast.Inspect(n, func(n ast.Node) bool {
				if id, ok := n.(*ast.Ident); ok {
					o := f.p.info.ObjectOf(id)
					if _, isOV := f.opaqueVars[o]; o == f.self || isOV {
						mentioned = true // a call through an element of an opaque slice extends the receiver's call log
					}
				}
				return true
			})
		}
		if mentioned {
			out = append(out, f.self)
		}
	}
	sort.Slice(out, func(i, j int) bool { return out[i].Pos() < out[j].Pos() })
	return out
}

// local variables used in the nodes and declared outside them
func (f *fnCtx) freeVars(nodes []ast.Node) []types.Object {
	var lo, hi token.Pos
	for _, n := range nodes {
		if n == nil {
			continue
		}
		if lo == 0 || n.Pos() < lo {
			lo = n.Pos()
		}
		if n.End() > hi {
			hi = n.End()
		}
	}
	seen := map[types.Object]bool{}
	var out []types.Object
	for _, n := range nodes {
		if n == nil {
			continue
		}
		ast.Inspect(n, func(n ast.Node) bool {
			id, ok := n.(*ast.Ident)
			if !ok {
				return true
			}
			o := f.p.info.ObjectOf(id)
			v, isVar := o.(*types.Var)
			if !isVar || seen[o] || v.IsField() {
				return true
			}
			if st, ok := v.Type().Underlying().(*types.Struct); ok && st.NumFields() == 0 {
				return true // the data-less receiver
			}
			if isHandle(v.Type()) {
				return true // the implicit stream
			}
			if o.Pos() >= lo && o.Pos() < hi {
				return true
			}
			if o.Parent() == f.p.pkg.Scope() && !f.locals[o] {
				return true
			}
			if o.Pkg() != f.p.pkg {
				return true
			}
			seen[o] = true
			out = append(out, o)
			return true
		})
	}
	sort.Slice(out, func(i, j int) bool { return out[i].Pos() < out[j].Pos() })
	return out
}

func fallsThrough(stmts []ast.Stmt) bool {
	if len(stmts) == 0 {
		return true
	}
	switch s := stmts[len(stmts)-1].(type) {
	case *ast.ReturnStmt:
		return false
	case *ast.BranchStmt:
		return false
	case *ast.BlockStmt:
		return fallsThrough(s.List)
	case *ast.IfStmt:
		if s.Else == nil {
			return true
		}
		var els []ast.Stmt
		switch e := s.Else.(type) {
		case *ast.BlockStmt:
			els = e.List
		default:
			els = []ast.Stmt{e}
		}
		return fallsThrough(s.Body.List) || fallsThrough(els)
	case *ast.SwitchStmt:
		hasDefault := false
		for _, c := range s.Body.List {
			cc := c.(*ast.CaseClause)
			if cc.List == nil {
				hasDefault = true
			}
			if fallsThrough(cc.Body) || containsBreak(cc.Body) {
				return true
			}
		}
		return !hasDefault
	case *ast.ExprStmt:
		if call, ok := s.X.(*ast.CallExpr); ok {
			if id, ok := call.Fun.(*ast.Ident); ok && id.Name == "panic" {
				return false
			}
		}
	}
	return true
}

// an unlabelled break that belongs to the enclosing switch (not to an inner loop)
func containsBreak(stmts []ast.Stmt) bool {
	found := false
	var walk func(n ast.Node) bool
	walk = func(n ast.Node) bool {
		switch s := n.(type) {
		case *ast.ForStmt, *ast.RangeStmt, *ast.SwitchStmt, *ast.FuncLit:
			return false
		case *ast.BranchStmt:
			if s.Tok == token.BREAK {
				found = true
			}
		}
		return true
	}
	for _, s := range stmts {
		ast.Inspect(s, walk)
	}
	return found
}

type branch struct {
	cond string // "" for the default branch
	body []ast.Stmt
}

// a multi-way branch followed by rest. brkToNext: a break inside a branch leaves the branch statement (switch).
func (f *fnCtx) branches(brs []branch, nodes []ast.Node, rest []ast.Stmt, ex exits, brkToNext bool) string {
	jumps := 0
	if brs[len(brs)-1].cond != "" { // no default branch: the implicit one falls through
		jumps++
	}
	for _, b := range brs {
		if fallsThrough(b.body) {
			jumps++
		}
		if brkToNext && containsBreak(b.body) {
			jumps++
		}
	}
	inner := ex
	var header string
	switch {
	case len(rest) == 0:
		// the continuation is already a small piece of code
	case jumps <= 1:
		n := ex.next
		done := false
		inner.next = func() string {
			if done {
				fail("internal: continuation emitted twice")
			}
			done = true
			saved := f.pre
			f.pre = nil
			r := f.block(rest, exits{next: n, brk: ex.brk, cont: ex.cont, ret: ex.ret, inLoop: ex.inLoop})
			f.pre = saved
			return r
		}
	default:
		mods := f.assigned(nodes)
		f.nk++
		k := fmt.Sprintf("k%d", f.nk)
		var ps, as []string
		for _, o := range mods {
			ps = append(ps, fmt.Sprintf("(%s : %s)", f.nameOf(o), coqType(o.Type())))
			as = append(as, f.nameOf(o))
		}
		if len(ps) == 0 {
			ps = []string{"(_ : unit)"}
			as = []string{"tt"}
		}
		saved := f.pre
		f.pre = nil
		body := f.block(rest, ex)
		f.pre = saved
		header = fmt.Sprintf("let %s := fun %s =>\n%s in\n", k, strings.Join(ps, " "), indent(body, 2))
		call := k + " " + strings.Join(as, " ")
		inner.next = func() string { return call }
	}
	if brkToNext {
		inner.brk = inner.next
	}
	var b strings.Builder
	b.WriteString(header)
	hasDefault := false
	for i, br := range brs {
		if br.cond == "" {
			if i != len(brs)-1 {
				fail("internal: default branch not last")
			}
			hasDefault = true
			b.WriteString("(\n" + indent(f.block(br.body, inner), 1) + ")")
			break
		}
		fmt.Fprintf(&b, "if %s then (\n%s)\nelse ", br.cond, indent(f.block(br.body, inner), 1))
	}
	if !hasDefault {
		b.WriteString(paren(inner.next()))
	}
	return b.String()
}

func (f *fnCtx) ifStmt(s *ast.IfStmt, rest []ast.Stmt, ex exits) string {
	if s.Init != nil {
		// if x := e; cond {...}: the init statement first (its variables are uniquely named)
		return f.block(append([]ast.Stmt{s.Init, &ast.IfStmt{If: s.If, Cond: s.Cond, Body: s.Body, Else: s.Else}}, rest...), ex)
	}
	cond := f.expr(s.Cond)
	pre := f.pre
	f.pre = nil
	brs := []branch{{cond: cond, body: s.Body.List}}
	nodes := []ast.Node{s.Body}
	if s.Else != nil {
		var els []ast.Stmt
		switch e := s.Else.(type) {
		case *ast.BlockStmt:
			els = e.List
		default:
			els = []ast.Stmt{e}
		}
		brs = append(brs, branch{body: els})
		nodes = append(nodes, s.Else)
	}
	code := f.branches(brs, nodes, rest, ex, false)
	f.pre = pre
	return f.wrapPre(code)
}

func (f *fnCtx) switchStmt(s *ast.SwitchStmt, rest []ast.Stmt, ex exits) string {
	if s.Init != nil {
		return f.block(append([]ast.Stmt{s.Init, &ast.SwitchStmt{Switch: s.Switch, Tag: s.Tag, Body: s.Body}}, rest...), ex)
	}
	var tag string
	var tagT types.Type
	if s.Tag != nil {
		tagT = f.p.info.TypeOf(s.Tag)
		v := f.expr(s.Tag)
		tag = f.tmp("sw")
		return f.then(fmt.Sprintf("let %s := %s in", tag, v), "", func() string { return f.switchBody(s, tag, tagT, rest, ex) })
	}
	return f.switchBody(s, tag, tagT, rest, ex)
}

func (f *fnCtx) switchBody(s *ast.SwitchStmt, tag string, tagT types.Type, rest []ast.Stmt, ex exits) string {
	header := ""
	var brs []branch
	var deflt *branch
	var nodes []ast.Node
	var carried []ast.Expr // labels of preceding clauses that consist of `fallthrough` only
	for _, c := range s.Body.List {
		cc := c.(*ast.CaseClause)
		if len(cc.Body) == 1 {
			if bs, ok := cc.Body[0].(*ast.BranchStmt); ok && bs.Tok == token.FALLTHROUGH {
				if cc.List == nil {
					fail("fallthrough out of the default clause")
				}
				carried = append(carried, cc.List...)
				continue
			}
		}
		for _, st := range cc.Body {
			if bs, ok := st.(*ast.BranchStmt); ok && bs.Tok == token.FALLTHROUGH {
				fail("fallthrough")
			}
		}
		nodes = append(nodes, cc)
		if cc.List == nil {
			if len(carried) > 0 {
				fail("fallthrough into the default clause")
			}
			deflt = &branch{body: cc.Body}
			continue
		}
		labels := append(append([]ast.Expr{}, carried...), cc.List...)
		carried = nil
		var conds []string
		for _, e := range labels {
			if s.Tag != nil {
				conds = append(conds, f.compare(token.EQL, tag, f.expr(e), tagT))
			} else {
				conds = append(conds, f.expr(e))
			}
			if len(f.pre) > 0 {
				fail("case expression with a guard or call")
			}
		}
		brs = append(brs, branch{cond: strings.Join(conds, " || "), body: cc.Body})
	}
	if len(carried) > 0 {
		fail("fallthrough out of the last clause")
	}
	if deflt != nil {
		brs = append(brs, *deflt)
	}
	if len(brs) == 0 {
		return header + f.block(rest, ex)
	}
	return header + f.branches(brs, nodes, rest, ex, true)
}

func (f *fnCtx) loopSig(name string, lead string, consts, mods []types.Object) (params string, args []string, modArgs []string, mty string, mpat string) {
	var ps []string
	if f.recFn != nil {
		ps = append(ps, fmt.Sprintf("(%s : %s)", f.recName, f.recType))
		args = append(args, f.recName)
	}
	isMod := map[types.Object]bool{}
	for _, o := range mods {
		isMod[o] = true
	}
	for _, o := range consts {
		if _, isOV := f.opaqueVars[o]; isOV {
			ps = append(ps, fmt.Sprintf("(%s : N)", f.nameOf(o)))
			args = append(args, f.nameOf(o))
			continue
		}
		if !isMod[o] {
			ps = append(ps, fmt.Sprintf("(%s : %s)", f.nameOf(o), coqType(o.Type())))
			args = append(args, f.nameOf(o))
		}
	}
	var tys []string
	for _, o := range mods {
		ps = append(ps, fmt.Sprintf("(%s : %s)", f.nameOf(o), coqType(o.Type())))
		args = append(args, f.nameOf(o))
		modArgs = append(modArgs, f.nameOf(o))
		tys = append(tys, coqType(o.Type()))
	}
	switch len(mods) {
	case 0:
		mty, mpat = "unit", "_"
	case 1:
		mty, mpat = tys[0], modArgs[0]
	default:
		mty, mpat = "("+strings.Join(tys, " * ")+")", "'("+strings.Join(modArgs, ", ")+")"
	}
	return strings.Join(ps, " "), args, modArgs, mty, mpat
}

func tupleOf(names []string) string {
	switch len(names) {
	case 0:
		return "tt"
	case 1:
		return names[0]
	}
	return "(" + strings.Join(names, ", ") + ")"
}

func (f *fnCtx) afterLoop(call string, mpat string, rest []ast.Stmt, ex exits) string {
	b := f.m("lbind")
	if ex.inLoop {
		b = f.m("lbind2")
	}
	return fmt.Sprintf("%s (%s) (fun %s =>\n%s)", b, call, mpat, indent(f.block(rest, ex), 1))
}

func (f *fnCtx) forStmt(s *ast.ForStmt, rest []ast.Stmt, ex exits) string {
	if s.Init != nil {
		return f.block(append([]ast.Stmt{s.Init, &ast.ForStmt{For: s.For, Cond: s.Cond, Post: s.Post, Body: s.Body}}, rest...), ex)
	}
	f.nloop++
	name := fmt.Sprintf("%s_loop%d", f.fname, f.nloop)
	nodes := []ast.Node{s.Body}
	if s.Cond != nil {
		nodes = append(nodes, s.Cond)
	}
	if s.Post != nil {
		nodes = append(nodes, s.Post)
	}
	free := f.freeVars(nodes)
	mods := f.assigned(nodes)
	params, args, modArgs, mty, mpat := f.loopSig(name, "", free, mods)
	// fuel at the call site: a measure read off the condition, or the function's own fuel parameter
	fuel := f.fuelFor(s)
	// the loop body
	savedPre := f.pre
	f.pre = nil
	rec := fmt.Sprintf("%s(*ORCA*) fuel %s", name, strings.Join(args, " "))
	exit := f.m("Ok") + " (LExit " + tupleOf(modArgs) + ")"
	inner := exits{inLoop: true, ret: func(v string) string { return f.m("Ok") + " (LRet " + paren(f.withSelf(v)) + ")" }, brk: func() string { return exit }}
	step := func() string {
		if s.Post != nil {
			return f.block([]ast.Stmt{s.Post}, exits{next: func() string { return rec }, ret: inner.ret, inLoop: true})
		}
		return rec
	}
	inner.next = step
	inner.cont = step
	var body string
	if s.Cond != nil {
		c := f.expr(s.Cond)
		cpre := f.pre
		f.pre = nil
		b := f.block(s.Body.List, inner)
		f.pre = cpre
		body = f.wrapPre(fmt.Sprintf("if %s then (\n%s)\nelse %s", c, indent(b, 1), exit))
	} else {
		body = f.block(s.Body.List, inner)
	}
	f.pre = savedPre
	f.loops = append(f.loops, fmt.Sprintf("Fixpoint %s (*ORC*)(fuel : nat) %s {struct fuel} : %s (lres %s %s) :=\n  match fuel with\n  | O => %s\n  | S fuel =>\n%s\n  end.\n",
		name, params, f.m("res"), f.resType, mty, f.m("Fuel"), indent(body, 2)))
	call := fmt.Sprintf("%s(*ORCA*) %s %s", name, paren(fuel), strings.Join(args, " "))
	return f.afterLoop(call, mpat, rest, ex)
}

// a fuel expression that suffices for loops counting towards a bound; otherwise the explicit fuel parameter
func (f *fnCtx) fuelFor(s *ast.ForStmt) string {
	if be, ok := s.Cond.(*ast.BinaryExpr); ok {
		tx, ty := f.p.info.TypeOf(be.X), f.p.info.TypeOf(be.Y)
		_, _, okx := intInfo(tx)
		_, _, oky := intInfo(ty)
		if okx && oky {
			saved := f.pre
			f.pre = nil
			x, y := f.toZ(be.X), f.toZ(be.Y)
			clean := len(f.pre) == 0
			f.pre = saved
			if clean {
				switch be.Op {
				case token.LSS, token.LEQ:
					return fmt.Sprintf("S (Z.to_nat (%s - %s + 1))", y, x)
				case token.GTR, token.GEQ:
					return fmt.Sprintf("S (Z.to_nat (%s - %s + 1))", x, y)
				}
			}
		}
	}
	f.needFuel = true
	return "fuel"
}

func (f *fnCtx) rangeStmt(s *ast.RangeStmt, rest []ast.Stmt, ex exits) string {
	if of := f.selfOpaque(s.X); of != "" {
		// the elements of an opaque slice field: their identities; the value variable may only be called through
		if s.Tok != token.DEFINE {
			fail("range with = instead of :=")
		}
		if id, ok := s.Value.(*ast.Ident); ok && id.Name != "_" {
			o := f.p.info.ObjectOf(id)
			f.opaqueVars[o] = of
			f.locals[o] = true
		}
		rng := fmt.Sprintf("%s_%s %s", f.selfT, of, f.nameOf(f.self))
		rvar := f.tmp("rng")
		return f.then(fmt.Sprintf("let %s := %s in", rvar, rng), "", func() string {
			f.elemOverride = "N"
			defer func() { f.elemOverride = "" }()
			return f.rangeBody(s, rvar, nil, rest, ex)
		})
	}
	xt := f.p.info.TypeOf(s.X)
	var elem types.Type
	switch u := xt.Underlying().(type) {
	case *types.Slice:
		elem = u.Elem()
	case *types.Array:
		elem = u.Elem()
	case *types.Basic:
		if isString(xt) {
			return f.rangeString(s, rest, ex)
		}
		fail("range over %s", xt)
	default:
		fail("range over %s", xt)
	}
	if s.Tok == token.ASSIGN {
		fail("range with = instead of :=")
	}
	rng := f.expr(s.X)
	rvar := f.tmp("rng")
	return f.then(fmt.Sprintf("let %s := %s in", rvar, rng), "", func() string { return f.rangeBody(s, rvar, elem, rest, ex) })
}

// for i := range s over a string: i takes the byte offset of every rune start (utf8.DecodeRuneInString widths)
func (f *fnCtx) rangeString(s *ast.RangeStmt, rest []ast.Stmt, ex exits) string {
	if s.Tok != token.DEFINE {
		fail("range over a string with =")
	}
	if id, ok := s.Value.(*ast.Ident); s.Value != nil && !(ok && id.Name == "_") {
		fail("range over a string with a rune variable")
	}
	kid, ok := s.Key.(*ast.Ident)
	if !ok || kid.Name == "_" {
		fail("range over a string without an index variable")
	}
	rng := f.expr(s.X)
	rvar := f.tmp("rng")
	return f.then(fmt.Sprintf("let %s := %s in", rvar, rng), "", func() string {
		f.nloop++
		name := fmt.Sprintf("%s_loop%d", f.fname, f.nloop)
		key := f.nameOf(f.p.info.ObjectOf(kid))
		free := f.freeVars([]ast.Node{s.Body})
		mods := f.assigned([]ast.Node{s.Body})
		filter := func(l []types.Object) []types.Object {
			var r []types.Object
			for _, o := range l {
				if f.names[o] != key {
					r = append(r, o)
				}
			}
			return r
		}
		free, mods = filter(free), filter(mods)
		params, args, modArgs, mty, mpat := f.loopSig(name, "", free, mods)
		savedPre := f.pre
		f.pre = nil
		step := fmt.Sprintf("(%s + snd (utf8_DecodeRune (slice %s %s (len %s))))", key, rvar, key, rvar)
		rec := fmt.Sprintf("%s(*ORCA*) fuel %s %s %s", name, rvar, step, strings.Join(args, " "))
		exit := f.m("Ok") + " (LExit " + tupleOf(modArgs) + ")"
		inner := exits{inLoop: true, ret: func(v string) string { return f.m("Ok") + " (LRet " + paren(f.withSelf(v)) + ")" }, brk: func() string { return exit },
			next: func() string { return rec }, cont: func() string { return rec }}
		body := f.block(s.Body.List, inner)
		f.pre = savedPre
		f.loops = append(f.loops, fmt.Sprintf("Fixpoint %s (*ORC*)(fuel : nat) (%s : list N) (%s : Z) %s {struct fuel} : %s (lres %s %s) :=\n  match fuel with\n  | O => %s\n  | S fuel =>\n    if (%s <? len %s) then (\n%s)\n    else %s\n  end.\n",
			name, rvar, key, params, f.m("res"), f.resType, mty, f.m("Fuel"), key, rvar, indent(body, 3), exit))
		call := fmt.Sprintf("%s(*ORCA*) (S (length %s)) %s 0 %s", name, rvar, rvar, strings.Join(args, " "))
		return f.afterLoop(call, mpat, rest, ex)
	})
}

func (f *fnCtx) rangeBody(s *ast.RangeStmt, rvar string, elem types.Type, rest []ast.Stmt, ex exits) string {
	f.nloop++
	name := fmt.Sprintf("%s_loop%d", f.fname, f.nloop)
	free := f.freeVars([]ast.Node{s.Body})
	mods := f.assigned([]ast.Node{s.Body})
	// the ranged variable must not be assigned in the body (Go iterates over the original header)
	var keyName, valName string
	useKey := false
	if id, ok := s.Key.(*ast.Ident); ok && id.Name != "_" {
		keyName = f.nameOf(f.p.info.ObjectOf(id))
		useKey = true
	}
	if id, ok := s.Value.(*ast.Ident); ok && id.Name != "_" {
		valName = f.nameOf(f.p.info.ObjectOf(id))
	}
	// key / value are declared by the range statement itself: not free, not modified-outside
	filter := func(l []types.Object) []types.Object {
		var r []types.Object
		for _, o := range l {
			if n := f.names[o]; (n == keyName && keyName != "") || (n == valName && valName != "") {
				continue
			}
			r = append(r, o)
		}
		return r
	}
	free, mods = filter(free), filter(mods)
	params, args, modArgs, mty, mpat := f.loopSig(name, "", free, mods)
	if keyName == "" {
		keyName = f.tmp("ix")
	}
	if valName == "" {
		valName = "_"
	}
	savedPre := f.pre
	f.pre = nil
	keyArg, keyParam, keyNext := "", "", ""
	if useKey {
		keyParam = fmt.Sprintf("(%s : Z) ", keyName)
		keyNext = fmt.Sprintf("(%s + 1) ", keyName)
		keyArg = "0 "
	}
	rec := fmt.Sprintf("%s(*ORCA*) %s %s%s", name, "rest_", keyNext, strings.Join(args, " "))
	exit := f.m("Ok") + " (LExit " + tupleOf(modArgs) + ")"
	inner := exits{inLoop: true, ret: func(v string) string { return f.m("Ok") + " (LRet " + paren(f.withSelf(v)) + ")" }, brk: func() string { return exit },
		next: func() string { return rec }, cont: func() string { return rec }}
	body := f.block(s.Body.List, inner)
	f.pre = savedPre
	f.loops = append(f.loops, fmt.Sprintf("Fixpoint %s (*ORC*)(rng_ : list %s) %s%s {struct rng_} : %s (lres %s %s) :=\n  match rng_ with\n  | [] => %s\n  | %s :: rest_ =>\n%s\n  end.\n",
		name, f.elemTypeOf(elem), keyParam, params, f.m("res"), f.resType, mty, exit, valName, indent(body, 2)))
	call := fmt.Sprintf("%s(*ORCA*) %s %s%s", name, rvar, keyArg, strings.Join(args, " "))
	return f.afterLoop(call, mpat, rest, ex)
}

// ---------------------------------------------------------------------------------------------------------
// expressions

func (f *fnCtx) addGuard(g string) { f.addCheck("guard", g) }

// a call of a pure translated function from an effectful one
func (f *fnCtx) liftIfPure(fn *types.Func, code string) string {
	if f.eff && !f.p.effFn[fn] {
		return "lift " + paren(code)
	}
	return code
}

// a check that only matters when the enclosing short-circuit operands let the expression be evaluated
func (f *fnCtx) addCheck(kind, g string) {
	for i := len(f.cond) - 1; i >= 0; i-- {
		g = fmt.Sprintf("(%s || %s)", f.cond[i], paren(g))
	}
	kind = f.m(kind)
	f.pre = append(f.pre, func(k string) string { return fmt.Sprintf("%s %s (\n%s)", kind, paren(g), k) })
}

func (f *fnCtx) constant(tv types.TypeAndValue) (string, bool) {
	if tv.Value == nil {
		return "", false
	}
	t := tv.Type
	switch tv.Value.Kind() {
	case constant.Bool:
		if constant.BoolVal(tv.Value) {
			return "true", true
		}
		return "false", true
	case constant.String:
		return bytesLit(constant.StringVal(tv.Value)), true
	case constant.Int:
		if sg, _, ok := intInfo(t); ok {
			s := tv.Value.ExactString()
			if sg {
				if strings.HasPrefix(s, "-") {
					return "(" + s + ")", true
				}
				return s, true
			}
			return s + "%N", true
		}
		if w32, ok := isFloat(t); ok {
			fv, _ := constant.Float64Val(tv.Value)
			return floatLit(fv, w32), true
		}
	case constant.Float:
		if w32, ok := isFloat(t); ok {
			fv, _ := constant.Float64Val(tv.Value)
			return floatLit(fv, w32), true
		}
	}
	return "", false
}

func floatLit(v float64, w32 bool) string {
	if w32 {
		return fmt.Sprintf("{| fl32 := true; flbits := %d%%N |}", math.Float32bits(float32(v)))
	}
	return fmt.Sprintf("{| fl32 := false; flbits := %d%%N |}", math.Float64bits(v))
}

// e as a Z (for indices, lengths, shift counts)
func (f *fnCtx) toZ(e ast.Expr) string {
	t := f.p.info.TypeOf(e)
	c := f.expr(e)
	sg, _, ok := intInfo(t)
	if !ok {
		fail("integer expected, got %s", t)
	}
	if sg {
		return c
	}
	return "Z.of_N " + paren(c)
}

func (f *fnCtx) toN(e ast.Expr) string {
	if tv, ok := f.p.info.Types[e]; ok && tv.Value != nil && tv.Value.Kind() == constant.Int && constant.Sign(tv.Value) >= 0 {
		return tv.Value.ExactString() + "%N"
	}
	t := f.p.info.TypeOf(e)
	c := f.expr(e)
	sg, _, ok := intInfo(t)
	if !ok {
		fail("integer expected, got %s", t)
	}
	if !sg {
		return c
	}
	f.addGuard(fmt.Sprintf("0 <=? %s", paren(c))) // a negative shift count panics
	return "Z.to_N " + paren(c)
}

func (f *fnCtx) arith(op token.Token, x, y string, t types.Type) string {
	sg, w, ok := intInfo(t)
	if !ok {
		if _, isf := isFloat(t); isf {
			fail("float arithmetic")
		}
		if isString(t) && op == token.ADD {
			return fmt.Sprintf("(%s ++ %s)", x, y)
		}
		fail("arithmetic on %s", t)
	}
	x, y = paren(x), paren(y)
	if sg {
		switch op {
		case token.ADD:
			return fmt.Sprintf("wraps %d (%s + %s)", w, x, y)
		case token.SUB:
			return fmt.Sprintf("wraps %d (%s - %s)", w, x, y)
		case token.MUL:
			return fmt.Sprintf("wraps %d (%s * %s)", w, x, y)
		case token.QUO:
			f.addGuard(fmt.Sprintf("negb (%s =? 0)", y))
			return fmt.Sprintf("wraps %d (quot %s %s)", w, x, y)
		case token.REM:
			f.addGuard(fmt.Sprintf("negb (%s =? 0)", y))
			return fmt.Sprintf("rem %s %s", x, y)
		case token.AND:
			return fmt.Sprintf("Z.land %s %s", x, y)
		case token.OR:
			return fmt.Sprintf("Z.lor %s %s", x, y)
		case token.XOR:
			return fmt.Sprintf("Z.lxor %s %s", x, y)
		case token.AND_NOT:
			return fmt.Sprintf("Z.ldiff %s %s", x, y)
		}
	} else {
		switch op {
		case token.ADD:
			return fmt.Sprintf("wrapu %d (%s + %s)%%N", w, x, y)
		case token.SUB:
			return fmt.Sprintf("subu %d %s %s", w, x, y)
		case token.MUL:
			return fmt.Sprintf("wrapu %d (%s * %s)%%N", w, x, y)
		case token.QUO:
			f.addGuard(fmt.Sprintf("negb (%s =? 0)%%N", y))
			return fmt.Sprintf("(%s / %s)%%N", x, y)
		case token.REM:
			f.addGuard(fmt.Sprintf("negb (%s =? 0)%%N", y))
			return fmt.Sprintf("(%s mod %s)%%N", x, y)
		case token.AND:
			return fmt.Sprintf("N.land %s %s", x, y)
		case token.OR:
			return fmt.Sprintf("N.lor %s %s", x, y)
		case token.XOR:
			return fmt.Sprintf("N.lxor %s %s", x, y)
		case token.AND_NOT:
			return fmt.Sprintf("N.ldiff %s %s", x, y)
		}
	}
	fail("operator %s", op)
	return ""
}

func (f *fnCtx) shift(op token.Token, x string, count ast.Expr, t types.Type) string {
	sg, w, ok := intInfo(t)
	if !ok {
		fail("shift of %s", t)
	}
	x = paren(x)
	if sg {
		k := paren(f.toZ(count))
		if s2, _, _ := intInfo(f.p.info.TypeOf(count)); s2 {
			f.addGuard(fmt.Sprintf("0 <=? %s", k))
		}
		if op == token.SHL {
			return fmt.Sprintf("wraps %d (Z.shiftl %s %s)", w, x, k)
		}
		return fmt.Sprintf("Z.shiftr %s %s", x, k)
	}
	k := paren(f.toN(count))
	if op == token.SHL {
		return fmt.Sprintf("wrapu %d (N.shiftl %s %s)", w, x, k)
	}
	return fmt.Sprintf("N.shiftr %s %s", x, k)
}

func (f *fnCtx) compare(op token.Token, x, y string, t types.Type) string {
	x, y = paren(x), paren(y)
	neg := false
	if op == token.NEQ {
		neg, op = true, token.EQL
	}
	var r string
	if sg, _, ok := intInfo(t); ok {
		sc := "%N"
		if sg {
			sc = "%Z"
		}
		sym := map[token.Token]string{token.EQL: "=?", token.LSS: "<?", token.LEQ: "<=?", token.GTR: ">?", token.GEQ: ">=?"}[op]
		switch op {
		case token.GTR:
			r = fmt.Sprintf("(%s <? %s)%s", y, x, sc)
		case token.GEQ:
			r = fmt.Sprintf("(%s <=? %s)%s", y, x, sc)
		default:
			r = fmt.Sprintf("(%s %s %s)%s", x, sym, y, sc)
		}
	} else if isBool(t) {
		if op != token.EQL {
			fail("ordering of booleans")
		}
		r = fmt.Sprintf("Bool.eqb %s %s", x, y)
	} else if _, ok := isFloat(t); ok {
		f.addCheck("unsup_unless", fmt.Sprintf("fl_same_width %s %s", x, y))
		switch op {
		case token.EQL:
			r = fmt.Sprintf("fl_eq %s %s", x, y)
		case token.LSS:
			r = fmt.Sprintf("fl_lt %s %s", x, y)
		case token.LEQ:
			r = fmt.Sprintf("fl_le %s %s", x, y)
		case token.GTR:
			r = fmt.Sprintf("fl_lt %s %s", y, x)
		case token.GEQ:
			r = fmt.Sprintf("fl_le %s %s", y, x)
		}
	} else if isString(t) {
		if op != token.EQL {
			fail("ordering of strings")
		}
		r = fmt.Sprintf("list_eqb N.eqb %s %s", x, y)
	} else {
		fail("comparison of %s", t)
	}
	if neg {
		return "negb (" + r + ")"
	}
	return r
}

func (f *fnCtx) expr(e ast.Expr) string {
	if tv, ok := f.p.info.Types[e]; ok {
		if c, ok := f.constant(tv); ok {
			return c
		}
	}
	switch e := e.(type) {
	case *ast.ParenExpr:
		return paren(f.expr(e.X))
	case *ast.Ident:
		o := f.p.info.ObjectOf(e)
		switch o := o.(type) {
		case *types.Var:
			if f.handles[o] || isHandle(o.Type()) {
				fail("reader / writer %s used as a value", e.Name)
			}
			if f.locals[o] {
				return f.nameOf(o)
			}
			if o.Parent() == f.p.pkg.Scope() {
				if g, ok := f.p.globals[o]; ok {
					return g
				}
				if _, _, isInt := intInfo(o.Type()); f.p.u.envVars[e.Name] && (isString(o.Type()) || isBool(o.Type()) || isInt) {
					return "env_" + e.Name // the current value of the package variable is a parameter
				}
				fail("package variable %s", e.Name)
			}
			if o.Pkg() != f.p.pkg {
				fail("variable %s of another package", e.Name)
			}
			return f.nameOf(o)
		case *types.Nil:
			t := f.p.info.TypeOf(e)
			if _, ok := t.Underlying().(*types.Slice); ok {
				return "[]"
			}
			if isErrorType(t) {
				return "None"
			}
			fail("nil of type %s", t)
		}
		fail("identifier %s", e.Name)
	case *ast.UnaryExpr:
		t := f.p.info.TypeOf(e)
		switch e.Op {
		case token.NOT:
			return "negb " + paren(f.expr(e.X))
		case token.SUB:
			if sg, w, ok := intInfo(t); ok && sg {
				return fmt.Sprintf("wraps %d (- %s)", w, paren(f.expr(e.X)))
			}
		case token.ADD:
			return f.expr(e.X)
		}
		fail("unary %s on %s", e.Op, t)
	case *ast.BinaryExpr:
		tx := f.p.info.TypeOf(e.X)
		switch e.Op {
		case token.LAND, token.LOR:
			x := f.expr(e.X)
			// guards of the right operand only matter when it is evaluated
			if e.Op == token.LAND {
				f.cond = append(f.cond, "negb "+paren(x))
			} else {
				f.cond = append(f.cond, paren(x))
			}
			npre := len(f.pre)
			y := f.expr(e.Y)
			f.cond = f.cond[:len(f.cond)-1]
			_ = npre
			if e.Op == token.LAND {
				return fmt.Sprintf("(%s && %s)", paren(x), paren(y))
			}
			return fmt.Sprintf("(%s || %s)", paren(x), paren(y))
		case token.EQL, token.NEQ, token.LSS, token.LEQ, token.GTR, token.GEQ:
			// an untyped constant operand takes the other operand's type
			t := tx
			if b, ok := t.Underlying().(*types.Basic); ok && b.Info()&types.IsUntyped != 0 {
				t = f.p.info.TypeOf(e.Y)
			}
			if _, isSlice := t.Underlying().(*types.Slice); isSlice {
				fail("comparison of a slice with nil")
			}
			if idx, ok := e.X.(*ast.Ident); ok && f.self != nil && f.p.info.ObjectOf(idx) == f.self && f.p.u.recvNonNil {
				if idy, ok := e.Y.(*ast.Ident); ok {
					if _, isNil := f.p.info.ObjectOf(idy).(*types.Nil); isNil && (e.Op == token.EQL || e.Op == token.NEQ) {
						// the receiver is assumed non-nil
						if e.Op == token.EQL {
							return "false"
						}
						return "true"
					}
				}
			}
			if bf := f.selfBuf(e.X); bf != "" {
				if id, ok := e.Y.(*ast.Ident); ok {
					if _, isNil := f.p.info.ObjectOf(id).(*types.Nil); isNil && (e.Op == token.EQL || e.Op == token.NEQ) {
						r := fmt.Sprintf("buf_isnil (%s_%s %s)", f.selfT, bf, f.nameOf(f.self))
						if e.Op == token.NEQ {
							return "negb (" + r + ")"
						}
						return r
					}
				}
				fail("buffer field %s compared with something other than nil", bf)
			}
			if of := f.selfOpaque(e.X); of != "" {
				if id, ok := e.Y.(*ast.Ident); ok {
					if _, isNil := f.p.info.ObjectOf(id).(*types.Nil); isNil && (e.Op == token.EQL || e.Op == token.NEQ) {
						flag := fmt.Sprintf("%s_%s %s", f.selfT, of, f.nameOf(f.self))
						if e.Op == token.EQL {
							return "negb (" + flag + ")"
						}
						return flag
					}
				}
				fail("opaque field %s compared with something other than nil", of)
			}
			if isErrorType(tx) || isErrorType(f.p.info.TypeOf(e.Y)) {
				// only e == nil / e != nil
				isNil := func(x ast.Expr) bool {
					id, ok := x.(*ast.Ident)
					if !ok {
						return false
					}
					_, n := f.p.info.ObjectOf(id).(*types.Nil)
					return n
				}
				var v ast.Expr
				switch {
				case isNil(e.Y):
					v = e.X
				case isNil(e.X):
					v = e.Y
				default:
					fail("comparison of two error values")
				}
				if e.Op != token.EQL && e.Op != token.NEQ {
					fail("ordering of errors")
				}
				r := "err_isnil " + paren(f.expr(v))
				if e.Op == token.NEQ {
					return "negb (" + r + ")"
				}
				return r
			}
			return f.compare(e.Op, f.expr(e.X), f.expr(e.Y), t)
		case token.SHL, token.SHR:
			return f.shift(e.Op, f.expr(e.X), e.Y, f.p.info.TypeOf(e))
		default:
			if e.Op == token.QUO {
				if _, isf := isFloat(f.p.info.TypeOf(e)); isf {
					// float64(a) / float64(b) with integer a, b: the quotient is an oracle of the two integers
					if a, ok1 := f.intUnderFloatConv(e.X); ok1 {
						if b, ok2 := f.intUnderFloatConv(e.Y); ok2 {
							f.needDiv = true
							return fmt.Sprintf("fq %s %s", paren(a), paren(b))
						}
					}
				}
			}
			return f.arith(e.Op, f.expr(e.X), f.expr(e.Y), f.p.info.TypeOf(e))
		}
	case *ast.IndexExpr:
		xt := f.p.info.TypeOf(e.X)
		var elem types.Type
		switch u := xt.Underlying().(type) {
		case *types.Slice:
			elem = u.Elem()
		case *types.Array:
			elem = u.Elem()
		case *types.Basic:
			if !isString(xt) {
				fail("index of %s", xt)
			}
			elem = types.Typ[types.Uint8]
		default:
			fail("index of %s", xt)
		}
		a := f.expr(e.X)
		i := f.toZ(e.Index)
		f.addGuard(fmt.Sprintf("inb %s %s", paren(i), paren(a)))
		return fmt.Sprintf("idx %s %s %s", paren(zeroOf(elem)), paren(a), paren(i))
	case *ast.SliceExpr:
		if e.Slice3 {
			fail("three-index slice")
		}
		xt := f.p.info.TypeOf(e.X)
		switch xt.Underlying().(type) {
		case *types.Slice, *types.Array:
		case *types.Basic:
			if !isString(xt) {
				fail("slice of %s", xt)
			}
		default:
			fail("slice of %s", xt)
		}
		a := f.expr(e.X)
		lo, hi := "0", fmt.Sprintf("len %s", paren(a))
		if e.Low != nil {
			lo = f.toZ(e.Low)
		}
		if e.High != nil {
			hi = f.toZ(e.High)
		}
		f.addGuard(fmt.Sprintf("slice_ok %s %s %s", paren(a), paren(lo), paren(hi)))
		return fmt.Sprintf("slice %s %s %s", paren(a), paren(lo), paren(hi))
	case *ast.CallExpr:
		return f.call(e)
	case *ast.CompositeLit:
		t := f.p.info.TypeOf(e)
		switch u := t.Underlying().(type) {
		case *types.Slice:
			var els []string
			for _, x := range e.Elts {
				if _, ok := x.(*ast.KeyValueExpr); ok {
					fail("keyed composite literal")
				}
				els = append(els, f.expr(x))
			}
			return "[" + strings.Join(els, "; ") + "]"
		case *types.Array:
			if len(e.Elts) == 0 {
				return zeroOf(t)
			}
			if int64(len(e.Elts)) == u.Len() {
				var els []string
				for _, x := range e.Elts {
					if _, ok := x.(*ast.KeyValueExpr); ok {
						fail("keyed composite literal")
					}
					els = append(els, f.expr(x))
				}
				return "[" + strings.Join(els, "; ") + "]"
			}
		case *types.Struct:
			if u.NumFields() == 0 {
				return "tt"
			}
			if isNamed(t, "net", "IPNet") && f.p.u.externs["net"] {
				ip, mask := "[]", "[]"
				for _, x := range e.Elts {
					kv, ok := x.(*ast.KeyValueExpr)
					if !ok {
						fail("unkeyed net.IPNet literal")
					}
					switch kv.Key.(*ast.Ident).Name {
					case "IP":
						ip = f.expr(kv.Value)
					case "Mask":
						mask = f.expr(kv.Value)
					}
				}
				return fmt.Sprintf("{| IPNet_IP := %s; IPNet_Mask := %s |}", ip, mask)
			}
		}
		fail("composite literal of %s", t)
	case *ast.SelectorExpr:
		if id, ok := e.X.(*ast.Ident); ok && f.p.u.externs["sentinel-errors"] {
			if pn, isPkg := f.p.info.Uses[id].(*types.PkgName); isPkg {
				if v, isVar := f.p.info.Uses[e.Sel].(*types.Var); isVar && isErrorType(v.Type()) {
					// a package-level sentinel error of another package (io.ErrShortWrite): an opaque named value
					return "Some (ErrNamed " + bytesLit(pn.Imported().Path()+"."+e.Sel.Name) + ")"
				}
			}
		}
		if fld := f.selfField(e); fld != "" {
			return fmt.Sprintf("%s_%s %s", f.selfT, fld, f.nameOf(f.self))
		}
		fail("selector %s", e.Sel.Name)
	}
	fail("expression %T", e)
	return ""
}

// float64(x) with x of a signed integer type: returns x as a Z expression
func (f *fnCtx) intUnderFloatConv(e ast.Expr) (string, bool) {
	call, ok := e.(*ast.CallExpr)
	if !ok || len(call.Args) != 1 {
		return "", false
	}
	tv, ok := f.p.info.Types[call.Fun]
	if !ok || !tv.IsType() {
		return "", false
	}
	if w32, isf := isFloat(tv.Type); !isf || w32 {
		return "", false
	}
	if sg, _, ok := intInfo(f.p.info.TypeOf(call.Args[0])); !ok || !sg {
		return "", false
	}
	return f.expr(call.Args[0]), true
}

func (f *fnCtx) isSelfMethodCall(fn *types.Func, call *ast.CallExpr) bool {
	sig := fn.Type().(*types.Signature)
	if sig.Recv() == nil || stateStructName(sig.Recv().Type()) == "" {
		return false
	}
	sel, ok := call.Fun.(*ast.SelectorExpr)
	if !ok {
		return false
	}
	id, ok := sel.X.(*ast.Ident)
	return ok && f.self != nil && f.p.info.ObjectOf(id) == f.self
}

func (f *fnCtx) callTranslated(fn *types.Func, call *ast.CallExpr) string {
	var args []string
	if call.Ellipsis != token.NoPos {
		fail("call with ...")
	}
	if sig := fn.Type().(*types.Signature); sig.Recv() != nil && stateStructName(sig.Recv().Type()) != "" {
		if !f.isSelfMethodCall(fn, call) {
			fail("call of a state struct method on another receiver")
		}
	}
	plain := func() []string {
		var as []string
		for _, a := range call.Args {
			if isHandle(f.p.info.TypeOf(a)) {
				if !f.isHandleExpr(a) {
					fail("reader / writer argument that is not the function's own")
				}
				continue
			}
			as = append(as, paren(f.expr(a)))
		}
		return as
	}
	if fn == f.recFn {
		// the entry of the call cycle: through the rec_ parameter
		return strings.Join(append([]string{f.recName}, plain()...), " ")
	}
	if e := f.p.recOf[fn]; e != nil && fn != e {
		// a member of a call cycle takes the entry as its first argument
		if f.recFn == e {
			args = append(args, f.recName)
		} else {
			if !f.p.done[e] {
				fail("call of %s before its cycle entry %s is translated", fn.Name(), e.Name())
			}
			f.needFuel = true
			ent := f.p.fname[e]
			if f.p.orcFn[e] {
				f.needOrc = true
				ent += " fo"
			}
			if f.p.divFn[e] {
				f.needDiv = true
				ent += " fq"
			}
			args = append(args, "("+ent+" fuel)")
		}
	}
	if f.p.orcFn[fn] {
		f.needOrc = true
		args = append(args, "fo")
	}
	if f.p.divFn[fn] {
		f.needDiv = true
		args = append(args, "fq")
	}
	if f.p.clkFn[fn] {
		if f.clkUsed {
			fail("more than one clock reading")
		}
		f.clkUsed, f.needClk = true, true
		args = append(args, "clk")
	}
	if f.p.fuelFn[fn] {
		f.needFuel = true
		args = append(args, "fuel")
	}
	if f.self != nil && f.isSelfMethodCall(fn, call) {
		args = append(args, f.nameOf(f.self))
	}
	args = append(args, plain()...)
	return strings.TrimSpace(f.p.fname[fn] + " " + strings.Join(args, " "))
}

func (f *fnCtx) call(e *ast.CallExpr) string {
	// conversion
	if tv, ok := f.p.info.Types[e.Fun]; ok && tv.IsType() {
		if len(e.Args) != 1 {
			fail("conversion arity")
		}
		return f.convert(e.Args[0], tv.Type)
	}
	// builtin
	if id, ok := e.Fun.(*ast.Ident); ok {
		if _, isB := f.p.info.Uses[id].(*types.Builtin); isB {
			return f.builtin(id.Name, e)
		}
	}
	if id, ok := e.Fun.(*ast.Ident); ok && f.p.u.envFuncs[id.Name] {
		if v, isVar := f.p.info.Uses[id].(*types.Var); isVar && v.Parent() == f.p.pkg.Scope() {
			// a call of a function-typed package variable: the installed function is a parameter (assumed pure and total)
			var as []string
			for _, a := range e.Args {
				as = append(as, paren(f.expr(a)))
			}
			return paren("env_" + id.Name + " " + strings.Join(as, " "))
		}
	}
	if id, ok := e.Fun.(*ast.Ident); ok && len(e.Args) == 0 {
		if v, isVar := f.p.info.Uses[id].(*types.Var); isVar && v.Parent() == f.p.pkg.Scope() && f.p.u.clockVars[id.Name] {
			// TimestampFunc(): the clock reading is an oracle parameter; one reading per function
			if f.clkUsed {
				fail("more than one call of %s", id.Name)
			}
			f.clkUsed, f.needClk = true, true
			return "clk"
		}
	}
	if sel, ok := e.Fun.(*ast.SelectorExpr); ok {
		if bf := f.selfBuf(sel.X); bf != "" {
			// methods of the *bytes.Buffer field: on its content; a nil buffer is a nil dereference
			if len(f.cond) > 0 {
				fail("buffer method under a short-circuit operator")
			}
			sn := f.nameOf(f.self)
			get := fmt.Sprintf("%s_%s %s", f.selfT, bf, sn)
			f.addGuard("negb (buf_isnil (" + get + "))")
			upd := func(v string) {
				line := fmt.Sprintf("let %s := set_%s_%s %s (%s) in", sn, f.selfT, bf, sn, v)
				f.pre = append(f.pre, func(k string) string { return line + "\n" + k })
			}
			switch sel.Sel.Name {
			case "WriteByte":
				upd(fmt.Sprintf("Some (buf_bytes (%s) ++ [%s])", get, f.expr(e.Args[0])))
				return "None" // the error result: always nil
			case "Write":
				a := paren(f.expr(e.Args[0]))
				upd(fmt.Sprintf("Some (buf_bytes (%s) ++ %s)", get, a))
				return fmt.Sprintf("(len %s, None)", a)
			case "Bytes":
				t := f.tmp("b")
				line := fmt.Sprintf("let %s := buf_bytes (%s) in", t, get)
				f.pre = append(f.pre, func(k string) string { return line + "\n" + k })
				return t
			case "Reset":
				upd("Some []")
				return "tt"
			case "Cap", "Len":
				if sel.Sel.Name == "Len" {
					return fmt.Sprintf("len (buf_bytes (%s))", get)
				}
				// the capacity is not part of the content: answered by the environment
				r := f.tmp("o")
				callsF := fmt.Sprintf("%s_calls %s", f.selfT, sn)
				line := fmt.Sprintf("let %s := ans (length (%s)) in\nlet %s := set_%s_calls %s (%s ++ [OCall %s %s []]) in", r, callsF, sn, f.selfT, sn, callsF, bytesLit(bf), bytesLit("Cap"))
				f.pre = append(f.pre, func(k string) string { return line + "\n" + k })
				return "oval_int " + r
			}
			fail("method %s of a buffer field", sel.Sel.Name)
		}
		if pid, ok := sel.X.(*ast.Ident); ok && f.p.u.pools[pid.Name] && sel.Sel.Name == "Put" && f.self != nil {
			if len(e.Args) == 1 && f.selfBuf(e.Args[0]) != "" {
				f.logCall("", "pool.Put", nil)
				return "tt"
			}
			fail("pool.Put of something other than the receiver's buffer")
		}
		if id, ok := sel.X.(*ast.Ident); ok {
			if of, isAl := f.opaqueAlias[f.p.info.ObjectOf(id)]; isAl {
				return f.opaqueCall(of, sel.Sel.Name, e, "")
			}
		}
		if of := f.selfOpaque(sel.X); of != "" {
			return f.opaqueCall(of, sel.Sel.Name, e, "")
		}
		if id, ok := sel.X.(*ast.Ident); ok {
			o := f.p.info.ObjectOf(id)
			if of, isOV := f.opaqueVars[o]; isOV {
				// an element of an opaque slice: the call carries its identity
				return f.opaqueCall(of, sel.Sel.Name, e, "OVInt (Z.of_N "+f.nameOf(o)+")")
			}
			if f.self != nil && o == f.self {
				// a method promoted from an embedded opaque field
				if sl := f.p.info.Selections[sel]; sl != nil && sl.Kind() == types.MethodVal && len(sl.Index()) == 2 {
					if st, ok := f.self.Type().Underlying().(*types.Struct); ok || true {
						_ = st
						var stt *types.Struct
						t := f.self.Type()
						if pt, isP := t.(*types.Pointer); isP {
							t = pt.Elem()
						}
						stt, _ = t.Underlying().(*types.Struct)
						if stt != nil && sl.Index()[0] < stt.NumFields() {
							fn := stt.Field(sl.Index()[0]).Name()
							if f.p.stOpaque[f.selfT][fn] {
								return f.opaqueCall(fn, sel.Sel.Name, e, "")
							}
						}
					}
				}
			}
		}
	}
	fn := f.p.calledFunc(e)
	if fn == nil {
		fail("call of a function value")
	}
	if fn.Pkg() == f.p.pkg && f.self != nil && f.p.u.loggedFuncs[fn.Name()] && fn.Type().(*types.Signature).Recv() == nil {
		// an untranslated function of this package that is handed the receiver: logged, no result
		if len(e.Args) != 1 || fn.Type().(*types.Signature).Results().Len() != 0 {
			fail("logged function %s with other arguments than the receiver, or with results", fn.Name())
		}
		if id, ok := e.Args[0].(*ast.Ident); !ok || f.p.info.ObjectOf(id) != f.self {
			fail("logged function %s called on something other than the receiver", fn.Name())
		}
		if len(f.cond) > 0 {
			fail("call under a short-circuit operator")
		}
		sn := f.nameOf(f.self)
		callsF := fmt.Sprintf("%s_calls %s", f.selfT, sn)
		line := fmt.Sprintf("let %s := set_%s_calls %s (%s ++ [OCall []%%N %s []]) in", sn, f.selfT, sn, callsF, bytesLit(fn.Name()))
		f.pre = append(f.pre, func(k string) string { return line + "\n" + k })
		return "tt"
	}
	if fn.Pkg() != nil && fn.Pkg() != f.p.pkg {
		if mod, ok := f.p.u.depUnits[fn.Pkg().Path()]; ok {
			// translated by another unit (same Go name there); its oracle / fuel parameters are not supported here
			if len(f.cond) > 0 {
				fail("call under a short-circuit operator")
			}
			var as []string
			for _, a := range e.Args {
				as = append(as, paren(f.expr(a)))
			}
			if x := f.p.u.depExtra[fn.Name()]; x != "" {
				as = append([]string{x}, as...)
			}
			code := mod + "." + coqIdent(fn.Name()) + " " + strings.Join(as, " ")
			t := f.tmp("r")
			bnd := f.m("bind")
			f.pre = append(f.pre, func(k string) string { return fmt.Sprintf("%s %s (fun %s =>\n%s)", bnd, paren(code), t, k) })
			return t
		}
	}
	if fn.Pkg() == f.p.pkg && f.p.valFn[fn] {
		var as []string
		for _, a := range e.Args {
			as = append(as, paren(f.expr(a)))
		}
		return paren(strings.TrimSpace(f.p.fname[fn] + "_val " + strings.Join(as, " ")))
	}
	if fn.Pkg() == f.p.pkg && f.self != nil && f.p.done[fn] && f.isSelfMethodCall(fn, e) {
		// a method of the same state struct on the same receiver: it returns the updated record
		if len(f.cond) > 0 {
			fail("call under a short-circuit operator")
		}
		code := f.callTranslated(fn, e)
		t := f.tmp("r")
		sn := f.nameOf(f.self)
		f.pre = append(f.pre, func(k string) string { return fmt.Sprintf("bind %s (fun '(%s, %s) =>\n%s)", paren(code), t, sn, k) })
		return t
	}
	if fn.Pkg() == f.p.pkg {
		if !f.p.done[fn] && fn != f.recFn {
			fail("call of %s (not translated)", fn.Name())
		}
		if len(f.cond) > 0 {
			fail("call under a short-circuit operator")
		}
		code := f.liftIfPure(fn, f.callTranslated(fn, e))
		t := f.tmp("r")
		bnd := f.m("bind")
		f.pre = append(f.pre, func(k string) string { return fmt.Sprintf("%s %s (fun %s =>\n%s)", bnd, paren(code), t, k) })
		return t
	}
	return f.extern(fn, e)
}

func (f *fnCtx) builtin(name string, e *ast.CallExpr) string {
	switch name {
	case "len":
		return "len " + paren(f.expr(e.Args[0]))
	case "append":
		dst := f.expr(e.Args[0])
		if e.Ellipsis != token.NoPos {
			if len(e.Args) != 2 {
				fail("append shape")
			}
			return fmt.Sprintf("(%s ++ %s)", paren(dst), paren(f.expr(e.Args[1])))
		}
		var els []string
		for _, a := range e.Args[1:] {
			els = append(els, f.expr(a))
		}
		return fmt.Sprintf("(%s ++ [%s])", paren(dst), strings.Join(els, "; "))
	case "make":
		t := f.p.info.TypeOf(e)
		sl, ok := t.Underlying().(*types.Slice)
		if !ok {
			fail("make of %s", t)
		}
		n := f.toZ(e.Args[1])
		if len(e.Args) == 3 {
			c := f.toZ(e.Args[2])
			f.addGuard(fmt.Sprintf("(0 <=? %s) && (%s <=? %s)", paren(n), paren(n), paren(c)))
		} else {
			f.addGuard(fmt.Sprintf("0 <=? %s", paren(n)))
		}
		return fmt.Sprintf("repeat %s (Z.to_nat %s)", paren(zeroOf(sl.Elem())), paren(n))
	}
	fail("builtin %s", name)
	return ""
}

func (f *fnCtx) convert(arg ast.Expr, to types.Type) string {
	from := f.p.info.TypeOf(arg)
	x := f.expr(arg)
	// string <-> []byte
	_, toSlice := to.Underlying().(*types.Slice)
	_, fromSlice := from.Underlying().(*types.Slice)
	if (isString(to) || toSlice) && (isString(from) || fromSlice) {
		return x
	}
	fs, fw, fok := intInfo(from)
	ts, tw, tok := intInfo(to)
	if fok && tok {
		switch {
		case fs && ts:
			if tw >= fw {
				return x
			}
			return fmt.Sprintf("wraps %d %s", tw, paren(x))
		case !fs && !ts:
			if tw >= fw {
				return x
			}
			return fmt.Sprintf("wrapu %d %s", tw, paren(x))
		case fs && !ts:
			return fmt.Sprintf("z2n %d %s", tw, paren(x))
		default:
			if tw > fw {
				return "Z.of_N " + paren(x)
			}
			return fmt.Sprintf("n2z %d %s", tw, paren(x))
		}
	}
	if _, ok := isFloat(from); ok {
		if w32, ok := isFloat(to); ok {
			if w32 {
				f.addCheck("unsup_unless", "fl_to32_ok "+paren(x))
				return "fl_to32 " + paren(x)
			}
			return "fl_to64 " + paren(x)
		}
	}
	fail("conversion from %s to %s", from, to)
	return ""
}

// calls into the standard library: only the ones listed here
func (f *fnCtx) extern(fn *types.Func, e *ast.CallExpr) string {
	full := fn.FullName()
	arg := func(i int) string {
		if id, ok := e.Args[i].(*ast.Ident); ok {
			if _, isNil := f.p.info.ObjectOf(id).(*types.Nil); isNil {
				// an untyped nil argument takes the parameter's type
				sig := fn.Type().(*types.Signature)
				if i < sig.Params().Len() {
					if _, isSlice := sig.Params().At(i).Type().Underlying().(*types.Slice); isSlice {
						return "[]"
					}
				}
			}
		}
		return paren(f.expr(e.Args[i]))
	}
	isConst := func(i int, v int64) bool {
		tv := f.p.info.Types[e.Args[i]]
		if tv.Value == nil {
			return false
		}
		n, ok := constant.Int64Val(constant.ToInt(tv.Value))
		return ok && n == v
	}
	switch full {
	case "strconv.AppendInt":
		if !isConst(2, 10) {
			fail("strconv.AppendInt with a base other than 10")
		}
		return fmt.Sprintf("strconv_AppendInt %s %s", arg(0), arg(1))
	case "strconv.AppendUint":
		if !isConst(2, 10) {
			fail("strconv.AppendUint with a base other than 10")
		}
		return fmt.Sprintf("strconv_AppendUint %s %s", arg(0), arg(1))
	case "strconv.AppendBool":
		return fmt.Sprintf("strconv_AppendBool %s %s", arg(0), arg(1))
	case "strconv.AppendFloat":
		f.needOrc = true
		return fmt.Sprintf("strconv_AppendFloat fo %s %s %s %s %s", arg(0), arg(1), arg(2), arg(3), arg(4))
	case "unicode/utf8.DecodeRuneInString", "unicode/utf8.DecodeRune":
		return "utf8_DecodeRune " + arg(0)
	case "math.IsNaN":
		return "fl_isnan " + arg(0)
	case "math.IsInf":
		return fmt.Sprintf("fl_isinf %s %s", arg(0), arg(1))
	case "math.Abs":
		return "fl_abs " + arg(0)
	case "math.Float32bits":
		x := arg(0)
		f.addCheck("unsup_unless", "fl32 "+x)
		return "flbits " + x
	case "math.Float64bits":
		x := arg(0)
		f.addCheck("unsup_unless", "negb (fl32 "+x+")")
		return "flbits " + x
	case "(*bufio.Reader).ReadByte", "(*bufio.Reader).UnreadByte", "(*bufio.Reader).Peek", "(io.Writer).Write":
		if !f.eff || !f.isHandleExpr(e.Fun.(*ast.SelectorExpr).X) {
			fail("call of %s on something that is not the function's reader / writer", full)
		}
		if len(f.cond) > 0 {
			fail("call under a short-circuit operator")
		}
		var code string
		switch fn.Name() {
		case "ReadByte":
			code = "bufio_ReadByte"
		case "UnreadByte":
			code = "bufio_UnreadByte"
		case "Peek":
			code = "bufio_Peek " + arg(0)
		case "Write":
			code = "io_Write " + arg(0)
		}
		t := f.tmp("r")
		f.pre = append(f.pre, func(k string) string { return fmt.Sprintf("ebind %s (fun %s =>\n%s)", paren(code), t, k) })
		return t
	case "sync/atomic.AddUint32", "sync/atomic.LoadUint32", "sync/atomic.LoadInt64", "sync/atomic.StoreUint32", "sync/atomic.StoreInt64",
		"sync/atomic.CompareAndSwapInt64", "sync/atomic.CompareAndSwapUint32", "sync/atomic.AddInt64":
		// sequential semantics of an atomic operation on a field of the receiver record: read / modify / write of that field
		if !f.p.u.externs["atomic"] || f.self == nil {
			break
		}
		fld := f.selfFieldAddr(e.Args[0])
		if fld == "" {
			fail("%s on something that is not a field of the receiver", full)
		}
		if len(f.cond) > 0 {
			fail("atomic operation under a short-circuit operator")
		}
		sn := f.nameOf(f.self)
		get := fmt.Sprintf("%s_%s %s", f.selfT, fld, sn)
		set := fmt.Sprintf("set_%s_%s %s", f.selfT, fld, sn)
		var ft types.Type
		for _, fv := range f.p.stFields[f.selfT] {
			if fv.Name() == fld {
				ft = fv.Type()
			}
		}
		t := f.tmp("a")
		switch fn.Name() {
		case "LoadUint32", "LoadInt64":
			f.pre = append(f.pre, func(k string) string { return fmt.Sprintf("let %s := %s in\n%s", t, get, k) })
			return t
		case "StoreUint32", "StoreInt64":
			v := arg(1)
			f.pre = append(f.pre, func(k string) string { return fmt.Sprintf("let %s := %s %s in\n%s", sn, set, v, k) })
			return "tt"
		case "AddUint32", "AddInt64":
			nv := f.arith(token.ADD, get, arg(1), ft)
			f.pre = append(f.pre, func(k string) string {
				return fmt.Sprintf("let %s := %s in\nlet %s := %s %s in\n%s", t, nv, sn, set, t, k)
			})
			return t
		default: // CompareAndSwap
			old, nw := arg(1), arg(2)
			eq := f.compare(token.EQL, get, old, ft)
			f.pre = append(f.pre, func(k string) string {
				return fmt.Sprintf("let %s := %s in\nlet %s := if %s then %s %s else %s in\n%s", t, eq, sn, t, set, nw, sn, k)
			})
			return t
		}
	case "sync/atomic.LoadInt32":
		if id, ok := e.Args[0].(*ast.Ident); ok && f.p.u.envVars[id.Name] {
			if v, isVar := f.p.info.Uses[id].(*types.Var); isVar && v.Parent() == f.p.pkg.Scope() {
				return "env_" + id.Name
			}
		}
	case "(time.Duration).Nanoseconds":
		return paren(f.expr(e.Fun.(*ast.SelectorExpr).X))
	case "bytes.IndexByte":
		if f.p.u.externs["bytes.IndexByte"] {
			return fmt.Sprintf("bytes_IndexByte %s %s", arg(0), arg(1))
		}
	case "strings.EqualFold":
		if f.p.u.externs["strings.EqualFold"] {
			return fmt.Sprintf("strings_EqualFold %s %s", arg(0), arg(1))
		}
	case "strconv.Atoi":
		if f.p.u.externs["strconv.Atoi"] {
			return "strconv_Atoi " + arg(0)
		}
	case "fmt.Errorf":
		if f.p.u.externs["errorf-value"] {
			tv := f.p.info.Types[e.Args[0]]
			if tv.Value == nil || tv.Value.Kind() != constant.String {
				fail("fmt.Errorf with a non-constant format")
			}
			for _, a := range e.Args[1:] {
				if !f.simpleArg(a) {
					fail("fmt.Errorf argument that is not a variable, constant or len(variable)")
				}
			}
			return "Some (ErrFmt " + bytesLit(constant.StringVal(tv.Value)) + ")"
		}
	case "math/rand.Intn":
		if f.p.u.externs["rand.Intn"] {
			// the pseudo-random source is the environment: a Section variable answering one call
			return "env_rand_Intn " + arg(0)
		}
	case "strconv.Itoa":
		if f.p.u.externs["strconv.Itoa"] {
			return "strconv_AppendInt [] " + arg(0)
		}
	case "math.NaN":
		if f.p.u.externs["math.frombits"] {
			return "{| fl32 := false; flbits := 9221120237041090561%N |}"
		}
	case "math.Inf":
		if f.p.u.externs["math.frombits"] {
			return "fl_inf " + arg(0)
		}
	case "math.Float32frombits":
		if f.p.u.externs["math.frombits"] {
			return fmt.Sprintf("{| fl32 := true; flbits := %s |}", arg(0))
		}
	case "math.Float64frombits":
		if f.p.u.externs["math.frombits"] {
			return fmt.Sprintf("{| fl32 := false; flbits := %s |}", arg(0))
		}
	case "(net.HardwareAddr).String":
		if f.p.u.externs["net"] {
			return "net_HardwareAddr_String " + paren(f.expr(e.Fun.(*ast.SelectorExpr).X))
		}
	case "(net.IP).String":
		if f.p.u.externs["net"] {
			return "net_IP_String " + paren(f.expr(e.Fun.(*ast.SelectorExpr).X))
		}
	case "(*net.IPNet).String":
		if f.p.u.externs["net"] {
			return "net_IPNet_String " + paren(f.expr(e.Fun.(*ast.SelectorExpr).X))
		}
	case "net.CIDRMask":
		if f.p.u.externs["net"] {
			return fmt.Sprintf("net_CIDRMask %s %s", arg(0), arg(1))
		}
	case "(time.Time).Unix":
		return "t_unix " + paren(f.expr(e.Fun.(*ast.SelectorExpr).X))
	case "(time.Time).UnixNano":
		return "t_unixnano " + paren(f.expr(e.Fun.(*ast.SelectorExpr).X))
	case "(time.Time).AppendFormat":
		// the oracle text is the one for the layout in force; the layout argument must be the function's format parameter
		return fmt.Sprintf("time_AppendFormat %s %s %s", paren(f.expr(e.Fun.(*ast.SelectorExpr).X)), arg(0), arg(1))
	}
	fail("call of %s", full)
	return ""
}
