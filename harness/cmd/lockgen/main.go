// lockgen - translator for the lock discipline of the root package: for every struct type
// with a sync.Mutex / sync.RWMutex field it reads every method of that type from the working
// tree and writes Gen/LockShapes.v: does the body begin with `recv.mu.Lock(); defer
// recv.mu.Unlock()` (the bracket), does it contain any other operation on the mutex, a go
// statement, any use of the receiver's other fields, and - for unexported methods - which
// functions call it.  The obligations over the table are in Proofs/GenLockP.v; they discharge
// the atomicity premise of the C15 and C06 concurrency theorems.
package main

import (
	"flag"
	"fmt"
	"go/ast"
	"go/parser"
	"go/token"
	"os"
	"path/filepath"
	"sort"
	"strings"
)

func coqStr(s string) string { return "\"" + strings.ReplaceAll(s, "\"", "\"\"") + "\"" }
func coqBool(b bool) string {
	if b {
		return "true"
	}
	return "false"
}
func coqStrs(xs []string) string {
	ys := make([]string, len(xs))
	for i, x := range xs {
		ys[i] = coqStr(x)
	}
	return "[" + strings.Join(ys, "; ") + "]"
}

type guarded struct {
	mutex  string
	fields []string
}

type method struct {
	typ, name, pos string
	exported       bool
	bracket        bool
	extraOps       int
	touches        bool
	hasGo          bool
	callers        []string
}

func recvOf(fd *ast.FuncDecl) (ident, typ string) {
	if fd.Recv == nil || len(fd.Recv.List) == 0 {
		return "", ""
	}
	f := fd.Recv.List[0]
	if len(f.Names) > 0 {
		ident = f.Names[0].Name
	}
	t := f.Type
	if s, ok := t.(*ast.StarExpr); ok {
		t = s.X
	}
	if id, ok := t.(*ast.Ident); ok {
		typ = id.Name
	}
	return
}

// isMuCall: recv.mu.<op>()
func isMuCall(e ast.Expr, recv, mu string) (string, bool) {
	c, ok := e.(*ast.CallExpr)
	if !ok {
		return "", false
	}
	s, ok := c.Fun.(*ast.SelectorExpr)
	if !ok {
		return "", false
	}
	in, ok := s.X.(*ast.SelectorExpr)
	if !ok || in.Sel.Name != mu {
		return "", false
	}
	id, ok := in.X.(*ast.Ident)
	if !ok || id.Name != recv {
		return "", false
	}
	return s.Sel.Name, true
}

func main() {
	repo := flag.String("repo", "/repo", "repository")
	out := flag.String("out", "", "output directory")
	flag.Parse()
	if *out == "" {
		fmt.Fprintln(os.Stderr, "lockgen: -out required")
		os.Exit(2)
	}
	fset := token.NewFileSet()
	names, _ := filepath.Glob(filepath.Join(*repo, "*.go"))
	sort.Strings(names)
	var files []*ast.File
	for _, n := range names {
		if strings.HasSuffix(n, "_test.go") {
			continue
		}
		f, err := parser.ParseFile(fset, n, nil, 0)
		if err != nil {
			fmt.Fprintln(os.Stderr, "lockgen:", err)
			os.Exit(1)
		}
		if f.Name.Name != "zerolog" {
			continue
		}
		files = append(files, f)
	}
	// 1. guarded types
	types := map[string]*guarded{}
	for _, f := range files {
		ast.Inspect(f, func(n ast.Node) bool {
			ts, ok := n.(*ast.TypeSpec)
			if !ok {
				return true
			}
			st, ok := ts.Type.(*ast.StructType)
			if !ok {
				return true
			}
			g := &guarded{}
			for _, fl := range st.Fields.List {
				isMu := false
				if se, ok := fl.Type.(*ast.SelectorExpr); ok {
					if x, ok := se.X.(*ast.Ident); ok && x.Name == "sync" && (se.Sel.Name == "Mutex" || se.Sel.Name == "RWMutex") {
						isMu = true
					}
				}
				if isMu {
					if len(fl.Names) != 1 {
						fmt.Fprintf(os.Stderr, "lockgen: %s: embedded or multiple mutex fields are not handled\n", ts.Name.Name)
						os.Exit(1)
					}
					g.mutex = fl.Names[0].Name
					continue
				}
				if len(fl.Names) == 0 { // embedded
					switch t := fl.Type.(type) {
					case *ast.Ident:
						g.fields = append(g.fields, t.Name)
					case *ast.SelectorExpr:
						g.fields = append(g.fields, t.Sel.Name)
					case *ast.StarExpr:
						if id, ok := t.X.(*ast.Ident); ok {
							g.fields = append(g.fields, id.Name)
						}
					}
				}
				for _, nm := range fl.Names {
					g.fields = append(g.fields, nm.Name)
				}
			}
			if g.mutex != "" {
				types[ts.Name.Name] = g
			}
			return true
		})
	}
	// 2. methods
	var ms []*method
	byName := map[string]*method{}
	for _, f := range files {
		for _, d := range f.Decls {
			fd, ok := d.(*ast.FuncDecl)
			if !ok || fd.Body == nil {
				continue
			}
			recv, typ := recvOf(fd)
			g := types[typ]
			if g == nil {
				continue
			}
			p := fset.Position(fd.Pos())
			m := &method{typ: typ, name: fd.Name.Name, exported: fd.Name.IsExported(), pos: fmt.Sprintf("%s:%d", filepath.Base(p.Filename), p.Line)}
			l := fd.Body.List
			if len(l) >= 2 && recv != "" {
				if es, ok := l[0].(*ast.ExprStmt); ok {
					if op, ok := isMuCall(es.X, recv, g.mutex); ok && op == "Lock" {
						if ds, ok := l[1].(*ast.DeferStmt); ok {
							if op, ok := isMuCall(ds.Call, recv, g.mutex); ok && op == "Unlock" {
								m.bracket = true
							}
						}
					}
				}
			}
			ops := 0
			ast.Inspect(fd.Body, func(n ast.Node) bool {
				switch x := n.(type) {
				case *ast.GoStmt:
					m.hasGo = true
				case *ast.CallExpr:
					if _, ok := isMuCall(x, recv, g.mutex); ok {
						ops++
					}
				case *ast.SelectorExpr:
					if id, ok := x.X.(*ast.Ident); ok && recv != "" && id.Name == recv && x.Sel.Name != g.mutex {
						m.touches = true
					}
				}
				return true
			})
			if m.bracket {
				ops -= 2
			}
			m.extraOps = ops
			ms = append(ms, m)
			byName[typ+"."+m.name] = m
		}
	}
	// 3. callers of unexported methods (anywhere in the package)
	for _, f := range files {
		for _, d := range f.Decls {
			fd, ok := d.(*ast.FuncDecl)
			if !ok || fd.Body == nil {
				continue
			}
			recv, typ := recvOf(fd)
			caller := fd.Name.Name
			if typ != "" {
				caller = typ + "." + fd.Name.Name
			}
			ast.Inspect(fd.Body, func(n ast.Node) bool {
				c, ok := n.(*ast.CallExpr)
				if !ok {
					return true
				}
				s, ok := c.Fun.(*ast.SelectorExpr)
				if !ok {
					return true
				}
				for _, m := range ms {
					if m.exported || m.name != s.Sel.Name {
						continue
					}
					// a call through the receiver of a method of the same type, or through anything else (attributed to every type that has such a method)
					if id, ok := s.X.(*ast.Ident); ok && id.Name == recv && typ == m.typ {
						m.callers = append(m.callers, caller)
					} else if typ != m.typ || recv == "" {
						m.callers = append(m.callers, "ext:"+caller)
					} else {
						m.callers = append(m.callers, "ext:"+caller)
					}
				}
				return true
			})
		}
	}
	sort.Slice(ms, func(i, j int) bool {
		if ms[i].typ != ms[j].typ {
			return ms[i].typ < ms[j].typ
		}
		return ms[i].name < ms[j].name
	})
	var b strings.Builder
	b.WriteString("(* GENERATED by lockgen from the working tree - do not edit, never committed *)\nFrom Coq Require Import String List.\nFrom Verif Require Import Misc.LockTypes.\nImport ListNotations.\nLocal Open Scope string_scope.\n\n")
	var tn []string
	for t := range types {
		tn = append(tn, t)
	}
	sort.Strings(tn)
	b.WriteString("Definition lock_types : list (string * string * list string) := [\n")
	for i, t := range tn {
		sep := ";"
		if i == len(tn)-1 {
			sep = ""
		}
		fmt.Fprintf(&b, "  (%s, %s, %s)%s\n", coqStr(t), coqStr(types[t].mutex), coqStrs(types[t].fields), sep)
	}
	b.WriteString("].\n\nDefinition lock_methods : list lock_method := [\n")
	for i, m := range ms {
		sep := ";"
		if i == len(ms)-1 {
			sep = ""
		}
		cs := append([]string{}, m.callers...)
		sort.Strings(cs)
		var uniq []string
		for _, c := range cs {
			if len(uniq) == 0 || uniq[len(uniq)-1] != c {
				uniq = append(uniq, c)
			}
		}
		fmt.Fprintf(&b, "  {| lm_type := %s; lm_name := %s; lm_exported := %s; lm_bracket := %s; lm_extra_ops := %d; lm_touches := %s; lm_go := %s; lm_callers := %s |}%s (* %s *)\n",
			coqStr(m.typ), coqStr(m.name), coqBool(m.exported), coqBool(m.bracket), m.extraOps, coqBool(m.touches), coqBool(m.hasGo), coqStrs(uniq), sep, m.pos)
	}
	b.WriteString("].\n")
	if err := os.WriteFile(filepath.Join(*out, "LockShapes.v"), []byte(b.String()), 0o644); err != nil {
		fmt.Fprintln(os.Stderr, "lockgen:", err)
		os.Exit(1)
	}
	fmt.Printf("guarded types %d, methods %d\n", len(types), len(ms))
}
