package main

import (
	"verifharness/diodeh"
	"verifharness/hlib"
)

func main() { hlib.Main(map[string]func(*hlib.Ctx){"C12": diodeh.RunC12}) }
