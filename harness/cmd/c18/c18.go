package main

// C18 - hlog keeps requests isolated and reports what was actually sent.
//
// Part 1 (response proxy): handler behaviours = sequences of WriteHeader /
// Write / ReadFrom (and Flush) calls, bounded-exhaustive over a 7-symbol
// alphabet for the three capability sets WrapWriter distinguishes, seeded random
// beyond (longer, more codes/lengths/outcomes, three more capability sets), run
// through the REAL hlog.AccessHandler on a recording fake http.ResponseWriter
// whose answers (accepted n, error) are scripted per call.  Observed: the
// (status, size) given to the callback and the calls the fake received.
// A smaller set runs on a real net/http server (httptest.NewServer) and compares
// with what the client received.
//
// Part 2 (request isolation): concurrent requests with distinct attribute values
// through hlog.NewHandler + random subsets/orders of the field handlers, probes
// logging at random chain positions, a barrier so that all requests have
// appended before any logs its final event; base loggers with a nil context,
// with spare capacity, and longer than the 500-byte array.
//
// Monitors state the property directly (independent of the Coq model); shards
// carry every case to the model (Harness/C18H.v).

import (
	"bufio"
	"bytes"
	"context"
	"encoding/json"
	"errors"
	"fmt"
	"io"
	"net"
	"net/http"
	"net/http/httptest"
	"os"
	"path/filepath"
	"sort"
	"strings"
	"sync"
	"time"

	"github.com/rs/zerolog"
	"github.com/rs/zerolog/hlog"
	"verifharness/hlib"
	. "verifharness/hlib"
)

func main() { hlib.Main(map[string]func(*hlib.Ctx){"C18": runC18}) }

// ---------------------------------------------------------------- part 1: proxy

type outcome struct {
	N   int  `json:"n"`
	Err bool `json:"err"`
}

type opT struct {
	Kind string  `json:"op"` // WH | W | RF | FL
	Code int     `json:"code,omitempty"`
	Len  int     `json:"len,omitempty"`
	Out  outcome `json:"out"`
}

type capsT struct {
	CN bool `json:"closenotifier"`
	FL bool `json:"flusher"`
	HJ bool `json:"hijacker"`
	RF bool `json:"readerfrom"`
}

type ucall struct {
	Kind string `json:"call"`
	A    int    `json:"a"` // code | len
	N    int    `json:"n"` // accepted
}

// core: the minimal http.ResponseWriter; records calls, answers body calls with the scripted outcome
type core struct {
	hdr   http.Header
	calls []ucall
	cur   outcome
	// auto (ways.go): the answers are not scripted per call; the writer accepts every byte until
	// budget (if >= 0) is used up, then the rest of that call and all later calls fail
	auto   bool
	budget int
}

// answer: the (accepted, failed) of a body call of n bytes
func (c *core) answer(n int) (int, bool) {
	if !c.auto {
		return c.cur.N, c.cur.Err
	}
	if c.budget < 0 || n <= c.budget {
		if c.budget >= 0 {
			c.budget -= n
		}
		return n, false
	}
	a := c.budget
	c.budget = 0
	return a, true
}

var errScripted = errors.New("scripted error")

func (c *core) Header() http.Header  { return c.hdr }
func (c *core) WriteHeader(code int) { c.calls = append(c.calls, ucall{"WH", code, 0}) }
func (c *core) Write(b []byte) (int, error) {
	n, fail := c.answer(len(b))
	c.calls = append(c.calls, ucall{"W", len(b), n})
	if fail {
		return n, errScripted
	}
	return n, nil
}

type flPart struct{ c *core }

func (f flPart) Flush() { f.c.calls = append(f.c.calls, ucall{"FL", 0, 0}) }

type cnPart struct{}

func (cnPart) CloseNotify() <-chan bool { return nil }

type hjPart struct{}

func (hjPart) Hijack() (net.Conn, *bufio.ReadWriter, error) {
	return nil, nil, errors.New("not hijackable")
}

type rfPart struct{ c *core }

func (r rfPart) ReadFrom(src io.Reader) (int64, error) {
	all, _ := io.ReadAll(src)
	n, fail := r.c.answer(len(all))
	r.c.calls = append(r.c.calls, ucall{"RF", len(all), n})
	if fail {
		return int64(n), errScripted
	}
	return int64(n), nil
}

// fake builds a ResponseWriter with exactly the optional interfaces of the capability set
func fake(c *core, k capsT) http.ResponseWriter {
	fl, cn, hj, rf := flPart{c}, cnPart{}, hjPart{}, rfPart{c}
	switch {
	case !k.CN && !k.FL && !k.HJ && !k.RF:
		return &struct{ *core }{c}
	case !k.CN && k.FL && !k.HJ && !k.RF:
		return &struct {
			*core
			flPart
		}{c, fl}
	case k.CN && k.FL && k.HJ && k.RF:
		return &struct {
			*core
			flPart
			cnPart
			hjPart
			rfPart
		}{c, fl, cn, hj, rf}
	case !k.CN && k.FL && !k.HJ && k.RF:
		return &struct {
			*core
			flPart
			rfPart
		}{c, fl, rf}
	case k.CN && !k.FL && k.HJ && k.RF:
		return &struct {
			*core
			cnPart
			hjPart
			rfPart
		}{c, cn, hj, rf}
	case k.CN && k.FL && k.HJ && !k.RF:
		return &struct {
			*core
			flPart
			cnPart
			hjPart
		}{c, fl, cn, hj}
	case !k.CN && !k.FL && !k.HJ && k.RF:
		return &struct {
			*core
			rfPart
		}{c, rf}
	}
	panic("capability set not built")
}

var mainCaps = []capsT{{}, {FL: true}, {CN: true, FL: true, HJ: true, RF: true}}
var extraCaps = []capsT{{FL: true, RF: true}, {CN: true, HJ: true, RF: true}, {CN: true, FL: true, HJ: true}, {RF: true}}

// plainReader hides every optional interface of the source (no WriterTo)
type plainReader struct{ data []byte }

func (p *plainReader) Read(b []byte) (int, error) {
	if len(p.data) == 0 {
		return 0, io.EOF
	}
	n := copy(b, p.data)
	p.data = p.data[n:]
	return n, nil
}

// behave: how a handler turns ops into calls on the ResponseWriter it was given (same reading as Misc/Hlog.v)
func behave(w http.ResponseWriter, ops []opT, setOutcome func(outcome)) {
	for _, op := range ops {
		if setOutcome != nil {
			setOutcome(op.Out)
		}
		switch op.Kind {
		case "WH":
			w.WriteHeader(op.Code)
		case "W":
			w.Write(bytes.Repeat([]byte{'x'}, op.Len))
		case "RF":
			src := &plainReader{bytes.Repeat([]byte{'y'}, op.Len)}
			if rf, ok := w.(io.ReaderFrom); ok {
				rf.ReadFrom(src)
			} else {
				io.Copy(w, src)
			}
		case "FL":
			if f, ok := w.(http.Flusher); ok {
				f.Flush()
			}
		}
	}
}

func runProxy(k capsT, ops []opT) (status, size int, calls []ucall) {
	c := &core{hdr: http.Header{}}
	w := fake(c, k)
	h := hlog.AccessHandler(func(r *http.Request, st, sz int, d time.Duration) { status, size = st, sz })(
		http.HandlerFunc(func(w http.ResponseWriter, r *http.Request) {
			behave(w, ops, func(o outcome) { c.cur = o })
		}))
	h.ServeHTTP(w, httptest.NewRequest("GET", "/", nil))
	return status, size, c.calls
}

func coqCaps(k capsT) string {
	return fmt.Sprintf("{| c_closenotifier := %s; c_flusher := %s; c_hijacker := %s; c_readerfrom := %s |}", CoqBool(k.CN), CoqBool(k.FL), CoqBool(k.HJ), CoqBool(k.RF))
}

func coqOps(ops []opT) string {
	xs := make([]string, len(ops))
	for i, o := range ops {
		oc := fmt.Sprintf("{| o_n := %d; o_err := %s |}", o.Out.N, CoqBool(o.Out.Err))
		switch o.Kind {
		case "WH":
			xs[i] = "OWriteHeader " + CoqZ(int64(o.Code))
		case "W":
			xs[i] = fmt.Sprintf("OWrite %d %s", o.Len, oc)
		case "RF":
			xs[i] = fmt.Sprintf("OReadFrom %d %s", o.Len, oc)
		default:
			xs[i] = "OFlush"
		}
	}
	return CoqList(xs)
}

func coqCalls(cs []ucall) string {
	xs := make([]string, len(cs))
	for i, c := range cs {
		switch c.Kind {
		case "WH":
			xs[i] = "UWriteHeader " + CoqZ(int64(c.A))
		case "W":
			xs[i] = fmt.Sprintf("UWrite %d %d", c.A, c.N)
		case "RF":
			xs[i] = fmt.Sprintf("UReadFrom %d %d", c.A, c.N)
		default:
			xs[i] = "UFlush"
		}
	}
	return CoqList(xs)
}

func (k capsT) name() string {
	s := ""
	for _, p := range []struct {
		b bool
		n string
	}{{k.CN, "cn"}, {k.FL, "fl"}, {k.HJ, "hj"}, {k.RF, "rf"}} {
		if p.b {
			s += p.n + "+"
		}
	}
	if s == "" {
		return "basic"
	}
	return strings.TrimSuffix(s, "+")
}

// isReaderFrom / isFlusher of the PROXY the handler sees, by the documented selection of WrapWriter
func proxyKind(k capsT) string {
	if k.CN && k.FL && k.HJ && k.RF {
		return "fancy"
	}
	if k.FL {
		return "flush"
	}
	return "basic"
}

// the property, stated directly on the handler's calls
func specStatusSize(k capsT, ops []opT) (int, int) {
	status, decided, size := 0, false, 0
	for _, o := range ops {
		body := o.Kind == "W" || (o.Kind == "RF" && (proxyKind(k) == "fancy" || o.Len > 0))
		if o.Kind == "WH" && !decided {
			status, decided = o.Code, true
		}
		if body {
			if !decided {
				status, decided = 200, true
			}
			size += o.Out.N
		}
	}
	return status, size
}

func proxyCase(c *Ctx, k capsT, ops []opT, stream string) {
	st, sz, calls := runProxy(k, ops)
	jc := map[string]interface{}{"kind": "proxy", "caps": k, "ops": ops, "status": st, "size": sz, "underlying_calls": calls}
	// monitors
	es, ez := specStatusSize(k, ops)
	if st != es {
		c.Violate(Violation{Key: "access-status", Monitor: "status-is-first-header", Desc: fmt.Sprintf("AccessHandler reported status %d, the handler's first WriteHeader/body write says %d (writer %s)", st, es, k.name()), Case: jc, Observed: st, Expected: es})
	}
	if sz != ez {
		c.Violate(Violation{Key: "access-size", Monitor: "size-is-accepted-bytes", Desc: fmt.Sprintf("AccessHandler reported size %d, the underlying writer accepted %d bytes (writer %s)", sz, ez, k.name()), Case: jc, Observed: sz, Expected: ez})
	}
	fh, acc, nWH := 0, 0, 0
	for _, u := range calls {
		switch u.Kind {
		case "WH":
			if nWH == 0 {
				fh = u.A
			}
			nWH++
		case "W", "RF":
			acc += u.N
		}
	}
	if st != fh || nWH > 1 {
		c.Violate(Violation{Key: "access-status-vs-underlying", Monitor: "status-is-what-the-writer-received", Desc: fmt.Sprintf("reported status %d but the underlying writer received %d WriteHeader calls, the first with %d", st, nWH, fh), Case: jc, Observed: st, Expected: fh})
	}
	if sz != acc {
		c.Violate(Violation{Key: "access-size-vs-underlying", Monitor: "size-is-what-the-writer-accepted", Desc: fmt.Sprintf("reported size %d but the underlying writer recorded %d accepted bytes", sz, acc), Case: jc, Observed: sz, Expected: acc})
	}
	term := fmt.Sprintf("(CProxy %s %s, OProxy %s %s %s)", coqCaps(k), coqOps(ops), CoqZ(int64(st)), CoqZ(int64(sz)), coqCalls(calls))
	c.AddCase(term, jc)
	kinds := map[string]bool{}
	partial := false
	for _, o := range ops {
		kinds[o.Kind] = true
		if (o.Kind == "W" || o.Kind == "RF") && (o.Out.N < o.Len || o.Out.Err) {
			partial = true
		}
	}
	c.Count(term, len(kinds) >= 2 || partial)
	c.Hist("proxy_stream", stream)
	c.Hist("proxy_writer", proxyKind(k)+"("+k.name()+")")
	c.Hist("proxy_len", fmt.Sprintf("%d", len(ops)))
	if len(ops) >= 3 && partial {
		c.Sample(jc)
	}
}

var alphabet = []opT{
	{Kind: "WH", Code: 201},
	{Kind: "WH", Code: 404},
	{Kind: "W", Len: 3, Out: outcome{3, false}},
	{Kind: "W", Len: 4, Out: outcome{1, true}},
	{Kind: "RF", Len: 5, Out: outcome{5, false}},
	{Kind: "RF", Len: 5, Out: outcome{2, true}},
	{Kind: "FL"},
}

func genOp(r *Rng) opT {
	codes := []int{0, 100, 103, 200, 201, 204, 301, 304, 404, 500, 599, 999}
	switch r.Intn(10) {
	case 0, 1:
		return opT{Kind: "WH", Code: codes[r.Intn(len(codes))]}
	case 2, 3, 4, 5:
		n := []int{0, 1, 2, 7, 40, 1000}[r.Intn(6)]
		o := outcome{N: n}
		if r.Chance(35) {
			o = outcome{N: r.Intn(n + 1), Err: r.Chance(70)}
		}
		return opT{Kind: "W", Len: n, Out: o}
	case 6, 7, 8:
		n := []int{0, 0, 1, 5, 33, 2000}[r.Intn(6)]
		o := outcome{N: n}
		if r.Chance(35) {
			o = outcome{N: r.Intn(n + 1), Err: r.Chance(70)}
		}
		return opT{Kind: "RF", Len: n, Out: o}
	default:
		return opT{Kind: "FL"}
	}
}

// real net/http writer: what the client received vs. what was reported
func realServer(c *Ctx) {
	syms := []opT{{Kind: "WH", Code: 201}, {Kind: "WH", Code: 404}, {Kind: "W", Len: 3, Out: outcome{3, false}}, {Kind: "RF", Len: 5, Out: outcome{5, false}}}
	var cur []opT
	var st, sz int
	var mu sync.Mutex
	h := hlog.AccessHandler(func(r *http.Request, s, z int, d time.Duration) { mu.Lock(); st, sz = s, z; mu.Unlock() })(
		http.HandlerFunc(func(w http.ResponseWriter, r *http.Request) { behave(w, cur, nil) }))
	srv := httptest.NewServer(h)
	defer srv.Close()
	n := 0
	get := func(ops []opT) (int, int, int, int) {
		cur = ops
		resp, err := http.Get(srv.URL)
		if err != nil {
			panic(err)
		}
		b, _ := io.ReadAll(resp.Body)
		resp.Body.Close()
		mu.Lock()
		defer mu.Unlock()
		return resp.StatusCode, len(b), st, sz
	}
	maxLen := 3
	if c.Thorough() {
		maxLen = 5
	}
	var rec func(ops []opT)
	rec = func(ops []opT) {
		if len(ops) > 0 {
			cs, cb, rs, rz := get(ops)
			n++
			jc := map[string]interface{}{"kind": "real-server", "ops": ops, "client_status": cs, "client_body": cb, "reported_status": rs, "reported_size": rz}
			if cs != rs {
				c.Violate(Violation{Key: "access-status-real", Monitor: "status-is-what-the-client-got", Desc: fmt.Sprintf("net/http server: client received status %d, AccessHandler reported %d", cs, rs), Case: jc, Observed: rs, Expected: cs})
			}
			if cb != rz {
				c.Violate(Violation{Key: "access-size-real", Monitor: "size-is-what-the-client-got", Desc: fmt.Sprintf("net/http server: client received %d body bytes, AccessHandler reported %d", cb, rz), Case: jc, Observed: rz, Expected: cb})
			}
			c.Count(fmt.Sprintf("real|%v", ops), len(ops) > 1)
		}
		if len(ops) == maxLen {
			return
		}
		for _, s := range syms {
			rec(append(append([]opT{}, ops...), s))
		}
	}
	rec(nil)
	c.Res.ExtraCoverage["real_server_sequences"] = n
	// noted, outside the property's alphabet: Flush before the header
	cs, _, rs, _ := get([]opT{{Kind: "FL"}, {Kind: "WH", Code: 500}})
	cs2, _, rs2, _ := get([]opT{{Kind: "FL"}})
	c.Note("outside the property (its alphabet is WriteHeader/Write/ReadFrom): on a net/http server [Flush; WriteHeader(500)] -> client status %d, reported %d; [Flush] -> client %d, reported %d (the proxy's Flush does not record the implicit 200)", cs, rs, cs2, rs2)
}

// ---------------------------------------------------------------- part 2: isolation

type reqVals struct {
	I                                              int
	URL, Method, Remote, UA, Referer, Custom, Host string
}

type fieldH struct {
	Name string
	mk   func(key string) func(http.Handler) http.Handler
	val  func(v reqVals, id string) (string, bool) // value the handler must log; false: it logs nothing
}

func hostOf(hp string) string {
	h, _, err := net.SplitHostPort(hp)
	if err != nil {
		return hp
	}
	return h
}

var fieldHandlers = []fieldH{
	{"URL", hlog.URLHandler, func(v reqVals, _ string) (string, bool) { return v.URL, true }},
	{"Method", hlog.MethodHandler, func(v reqVals, _ string) (string, bool) { return v.Method, true }},
	{"Request", hlog.RequestHandler, func(v reqVals, _ string) (string, bool) { return v.Method + " " + v.URL, true }},
	{"RemoteAddr", hlog.RemoteAddrHandler, func(v reqVals, _ string) (string, bool) { return v.Remote, v.Remote != "" }},
	{"RemoteIP", hlog.RemoteIPHandler, func(v reqVals, _ string) (string, bool) { return hostOf(v.Remote), hostOf(v.Remote) != "" }},
	{"UserAgent", hlog.UserAgentHandler, func(v reqVals, _ string) (string, bool) { return v.UA, v.UA != "" }},
	{"Referer", hlog.RefererHandler, func(v reqVals, _ string) (string, bool) { return v.Referer, v.Referer != "" }},
	{"Proto", hlog.ProtoHandler, func(v reqVals, _ string) (string, bool) { return "HTTP/1.1", true }},
	{"HTTPVersion", hlog.HTTPVersionHandler, func(v reqVals, _ string) (string, bool) { return "1.1", true }},
	{"RequestID", func(k string) func(http.Handler) http.Handler { return hlog.RequestIDHandler(k, "X-Request-Id") }, func(v reqVals, id string) (string, bool) { return id, true }},
	{"CustomHeader", func(k string) func(http.Handler) http.Handler { return hlog.CustomHeaderHandler(k, "X-Custom") }, func(v reqVals, _ string) (string, bool) { return v.Custom, v.Custom != "" }},
	{"Host", func(k string) func(http.Handler) http.Handler { return hlog.HostHandler(k) }, func(v reqVals, _ string) (string, bool) { return v.Host, v.Host != "" }},
}

type lineSink struct {
	mu    sync.Mutex
	lines []string
}

func (s *lineSink) Write(b []byte) (int, error) {
	s.mu.Lock()
	s.lines = append(s.lines, string(b))
	s.mu.Unlock()
	return len(b), nil
}

type isoCfg struct {
	Base    string `json:"base"`    // nil | spare | long
	Chain   []int  `json:"chain"`   // indices into fieldHandlers, outermost first (after NewHandler)
	Probes  []int  `json:"probes"`  // probe after that many field handlers (the final probe is always there)
	Barrier bool   `json:"barrier"` // all requests append before any logs its final event
	N       int    `json:"n"`
	Seed    uint64 `json:"seed"`
	Server  bool   `json:"server"` // through a real httptest.Server instead of direct ServeHTTP
	// every request context descends from one application context that already carries a logger
	// (http.Server.BaseContext, or r.WithContext(appCtx) in front of the chain)
	SharedCtx bool `json:"shared_ctx,omitempty"`
	// handlers that log AFTER the rest of the chain has returned (orders.go): each sits after Pos field
	// handlers (0 = directly inside NewHandler, len(Chain) = directly around the final handler)
	After []afterT `json:"after,omitempty"`
	// the model also gets the context seen by the outermost After handler (directed sweep only)
	afterToModel bool
	// handlers that start the request's log context from scratch, UpdateContext(c.Reset()...), in some of the
	// requests (resets.go); batches with such handlers are checked by the monitors only (the model has no Reset)
	Resets []resetT `json:"resets,omitempty"`
	// the requests are served one after the other (no barrier) instead of concurrently
	Sequential bool `json:"sequential,omitempty"`
}

func safeWord(r *Rng, n int) string {
	const al = "abcdefghijklmnopqrstuvwxyzABCDEFGHIJKLMNOPQRSTUVWXYZ0123456789"
	b := make([]byte, n)
	for i := range b {
		b[i] = al[r.Intn(len(al))]
	}
	return string(b)
}

func field(k, v string) string { return `"` + k + `":"` + v + `"` }

// chunks of one c.Str(key, val) on a context whose last byte is `last`: one entry per Go append
func strChunks(last byte, k, v string) [][]byte {
	var cs [][]byte
	if last != '{' {
		cs = append(cs, []byte{','})
	}
	cs = append(cs, []byte{'"'}, []byte(k), []byte{'"'}, []byte{':'}, []byte{'"'}, []byte(v), []byte{'"'})
	return cs
}

func coqByteLists(cs [][]byte) string {
	xs := make([]string, len(cs))
	for i, c := range cs {
		xs[i] = CoqBytes(c)
	}
	return CoqList(xs)
}

func isoBatch(c *Ctx, cfg isoCfg) {
	if cfg.Sequential {
		cfg.Barrier = false
	}
	rr := seededRng(cfg.Seed)
	sink := &lineSink{}
	var base zerolog.Logger
	var baseFields []string
	switch cfg.Base {
	case "nil":
		base = zerolog.New(sink)
	case "spare":
		base = zerolog.New(sink).With().Str("base", "b1").Str("svc", "api").Logger()
		baseFields = []string{field("base", "b1"), field("svc", "api")}
	default:
		long := strings.Repeat("L", 520)
		base = zerolog.New(sink).With().Str("base", long).Logger()
		baseFields = []string{field("base", long)}
	}
	baseCtx := "{" + strings.Join(baseFields, ",")
	// base logger's output before
	base.Log().Msg("")
	before := sink.lines[len(sink.lines)-1]
	sink.lines = nil

	// requests
	vals := make([]reqVals, cfg.N)
	methods := []string{"GET", "POST", "PUT", "PATCH", "DELETE", "OPTIONS", "HEAD", "QUERY"}
	for i := range vals {
		v := reqVals{I: i}
		v.URL = fmt.Sprintf("/r%d/%s?x=%s", i, safeWord(rr, 1+rr.Intn(12)), safeWord(rr, 3))
		v.Method = methods[(i+rr.Intn(3))%len(methods)] + fmt.Sprintf("X%d", i)
		v.Remote = fmt.Sprintf("10.%d.%d.%d:%d", 1+rr.Intn(200), i/250, i%250, 1024+rr.Intn(60000))
		if !rr.Chance(10) {
			v.UA = fmt.Sprintf("ua-%d-%s", i, safeWord(rr, 1+rr.Intn(30)))
		}
		if !rr.Chance(20) {
			v.Referer = fmt.Sprintf("http://ref%d.example/%s", i, safeWord(rr, 4))
		}
		if !rr.Chance(20) {
			v.Custom = fmt.Sprintf("ch-%d-%s", i, safeWord(rr, 1+rr.Intn(60)))
		}
		v.Host = fmt.Sprintf("h%d.example.com", i)
		vals[i] = v
	}
	// the chain
	keys := make([]string, len(cfg.Chain))
	for j := range cfg.Chain {
		keys[j] = fmt.Sprintf("f%d%s", j, strings.ToLower(fieldHandlers[cfg.Chain[j]].Name[:2]))
	}
	probeAt := map[int]bool{}
	for _, p := range cfg.Probes {
		probeAt[p] = true
	}
	var wg sync.WaitGroup
	wg.Add(cfg.N)
	ids := make([]string, cfg.N)
	var idMu sync.Mutex
	probe := func(pos int, final bool) func(http.Handler) http.Handler {
		return func(next http.Handler) http.Handler {
			return http.HandlerFunc(func(w http.ResponseWriter, rq *http.Request) {
				var rid int
				fmt.Sscanf(rq.Header.Get("X-Rid"), "%d", &rid)
				if final {
					if id, ok := hlog.IDFromRequest(rq); ok {
						idMu.Lock()
						ids[rid] = id.String()
						idMu.Unlock()
					}
					if cfg.Barrier {
						wg.Done()
						wg.Wait()
					}
				}
				hlog.FromRequest(rq).Log().Int("rid", rid).Int("pos", pos).Msg("")
				if final {
					// a second event from the same request
					hlog.FromRequest(rq).Log().Int("rid", rid).Int("pos", pos+1000).Msg("")
				}
				next.ServeHTTP(w, rq)
			})
		}
	}
	var mws []func(http.Handler) http.Handler
	mws = append(mws, hlog.NewHandler(base))
	if probeAt[0] {
		mws = append(mws, probe(0, false))
	}
	mws = append(mws, afterHandlers(cfg, 0)...)
	mws = append(mws, resetHandlers(cfg, 0)...)
	for j, hi := range cfg.Chain {
		mws = append(mws, fieldHandlers[hi].mk(keys[j]))
		if probeAt[j+1] && j+1 < len(cfg.Chain) {
			mws = append(mws, probe(j+1, false))
		}
		mws = append(mws, afterHandlers(cfg, j+1)...)
		mws = append(mws, resetHandlers(cfg, j+1)...)
	}
	mws = append(mws, probe(len(cfg.Chain), true))
	var h http.Handler = http.HandlerFunc(func(w http.ResponseWriter, rq *http.Request) { w.WriteHeader(204) })
	for i := len(mws) - 1; i >= 0; i-- {
		h = mws[i](h)
	}
	mkReq := func(v reqVals, target string) *http.Request {
		rq := httptest.NewRequest(v.Method, target+v.URL, nil)
		rq.Header.Set("X-Rid", fmt.Sprint(v.I))
		if v.UA != "" {
			rq.Header.Set("User-Agent", v.UA)
		} else {
			rq.Header.Set("User-Agent", "")
		}
		if v.Referer != "" {
			rq.Header.Set("Referer", v.Referer)
		}
		if v.Custom != "" {
			rq.Header.Set("X-Custom", v.Custom)
		}
		return rq
	}
	// the application context: carries the application's own logger (a child of base), shared by all requests
	appSink := &lineSink{}
	appLogger := zerolog.New(appSink).With().Str("app", "ctx").Logger()
	appCtx := appLogger.WithContext(context.Background())
	if cfg.SharedCtx && !cfg.Server {
		inner := h
		h = http.HandlerFunc(func(w http.ResponseWriter, rq *http.Request) { inner.ServeHTTP(w, rq.WithContext(appCtx)) })
	}
	var done sync.WaitGroup
	if cfg.Server {
		srv := httptest.NewUnstartedServer(h)
		if cfg.SharedCtx {
			srv.Config.BaseContext = func(net.Listener) context.Context { return appCtx }
		}
		srv.Start()
		for i := range vals {
			done.Add(1)
			go func(v *reqVals) {
				defer done.Done()
				rq := mkReq(*v, srv.URL)
				rq.RequestURI = ""
				rq.Host = v.Host
				cl := &http.Client{Transport: &http.Transport{DisableKeepAlives: true}}
				resp, err := cl.Do(rq)
				if err == nil {
					resp.Body.Close()
				}
			}(&vals[i])
		}
		done.Wait()
		srv.Close()
	} else {
		for i := range vals {
			done.Add(1)
			serve := func(v reqVals) {
				defer done.Done()
				rq := mkReq(v, "")
				rq.RemoteAddr = v.Remote
				rq.Host = v.Host
				h.ServeHTTP(httptest.NewRecorder(), rq)
			}
			if cfg.Sequential {
				serve(vals[i])
			} else {
				go serve(vals[i])
			}
		}
		done.Wait()
	}
	sink.mu.Lock()
	lines := append([]string{}, sink.lines...)
	sink.lines = nil
	sink.mu.Unlock()
	// the logger in the application context is still the application's
	zerolog.Ctx(appCtx).Log().Msg("")
	if len(appSink.lines) != 1 || appSink.lines[0] != "{\"app\":\"ctx\"}\n" {
		c.Violate(Violation{Key: "shared-context-logger-changed", Monitor: "base-unchanged", Desc: "the logger carried by the application context (parent of every request context) emits something else after the requests ran",
			Case: map[string]interface{}{"kind": "iso", "config": cfg}, Observed: appSink.lines, Expected: []string{"{\"app\":\"ctx\"}\n"}})
	}
	// base logger afterwards
	base.Log().Msg("")
	after := sink.lines[len(sink.lines)-1]
	child := base.With().Str("post", "1").Logger()
	sink.lines = nil
	child.Log().Msg("")
	childLine := sink.lines[len(sink.lines)-1]
	jcfg := map[string]interface{}{"kind": "iso", "config": cfg}
	wantChild := baseCtx
	if len(baseFields) > 0 {
		wantChild += ","
	}
	wantChild += field("post", "1") + "}\n"
	if before != after || childLine != wantChild {
		c.Violate(Violation{Key: "base-logger-changed", Monitor: "base-unchanged", Desc: "the logger passed to NewHandler emits something else after the requests ran",
			Case: jcfg, Observed: []string{after, childLine}, Expected: []string{before, wantChild}})
	}
	// expected lines per (request, pos)
	type key struct{ rid, pos int }
	got := map[key][]string{}
	for _, ln := range lines {
		var probeF struct {
			Rid int `json:"rid"`
			Pos int `json:"pos"`
		}
		if err := json.Unmarshal([]byte(ln), &probeF); err != nil {
			c.Violate(Violation{Key: "request-event-malformed", Monitor: "own-values-only", Desc: "an emitted event is not JSON: " + ln, Case: jcfg})
			continue
		}
		got[key{probeF.Rid, probeF.Pos}] = append(got[key{probeF.Rid, probeF.Pos}], ln)
	}
	finalCtx := make([]string, cfg.N)
	afterCtx := make([]string, cfg.N)
	work := make([][][]byte, cfg.N)
	for i, v := range vals {
		ctx := baseCtx
		last := byte(ctx[len(ctx)-1])
		nf := len(baseFields)
		var chunks [][]byte
		checkAt := func(pos int) {
			want := ctx
			if nf > 0 {
				want += ","
			}
			want += fmt.Sprintf(`"rid":%d,"pos":%d}`+"\n", i, pos)
			g := got[key{i, pos}]
			if len(g) != 1 || g[0] != want {
				k := "request-context-mismatch"
				desc := fmt.Sprintf("request %d, probe %d: emitted %q, want %q", i, pos, g, want)
				for j, o := range vals {
					if j == i {
						continue
					}
					for _, s := range append([]string{o.URL, o.UA, o.Referer, o.Custom, o.Remote, o.Host, o.Method}, resetValues(cfg, j)...) {
						if s != "" && len(g) > 0 && strings.Contains(g[0], `"`+s+`"`) {
							k = "request-field-leak"
							desc = fmt.Sprintf("request %d's event carries request %d's value %q: %s", i, j, s, g[0])
						}
					}
				}
				c.Violate(Violation{Key: k, Monitor: "own-values-only", Desc: desc, Case: jcfg, Observed: g, Expected: want})
			}
		}
		if probeAt[0] {
			checkAt(0)
		}
		// a reset handler at position p discards everything the request's context held and starts it again
		applyResets := func(pos int) {
			for ri, rs := range cfg.Resets {
				if rs.Pos != pos || !rs.acts(i) {
					continue
				}
				ctx, nf, last = "{", 0, '{'
				for f := 0; f < rs.Fields; f++ {
					if nf > 0 {
						ctx += ","
					}
					ctx += field(resetKey(ri, f), resetValue(ri, f, i))
					nf++
					last = '"'
				}
			}
		}
		applyResets(0)
		for j, hi := range cfg.Chain {
			val, ok := fieldHandlers[hi].val(v, ids[i])
			if ok {
				chunks = append(chunks, strChunks(last, keys[j], val)...)
				if nf > 0 {
					ctx += ","
				}
				ctx += field(keys[j], val)
				nf++
				last = '"'
			}
			if probeAt[j+1] && j+1 < len(cfg.Chain) {
				checkAt(j + 1)
			}
			applyResets(j + 1)
		}
		checkAt(len(cfg.Chain))
		checkAt(len(cfg.Chain) + 1000)
		work[i] = chunks
		// lines logged after the chain returned (orders.go): every field handler of the chain has run by then
		for ai, a := range cfg.After {
			g := got[key{i, afterPosBase + ai}]
			checkAfterLine(c, cfg, jcfg, vals, i, ai, a, g, ctx, nf)
			if ai == 0 && len(g) == 1 {
				if p := strings.LastIndex(g[0], `"rid":`); p > 0 {
					afterCtx[i] = strings.TrimSuffix(g[0][:p], ",")
				}
			}
		}
		// observed final context bytes: the final event without the probe's own fields
		if g := got[key{i, len(cfg.Chain)}]; len(g) == 1 {
			s := g[0]
			if p := strings.LastIndex(s, `"rid":`); p > 0 {
				s = strings.TrimSuffix(s[:p], ",")
				finalCtx[i] = s
			}
		}
	}
	// request ids must be pairwise distinct when logged
	seen := map[string]int{}
	for i, id := range ids {
		if id == "" {
			continue
		}
		if j, dup := seen[id]; dup {
			c.Violate(Violation{Key: "request-id-shared", Monitor: "own-values-only", Desc: fmt.Sprintf("requests %d and %d got the same request id %s", j, i, id), Case: jcfg})
		}
		seen[id] = i
	}
	// model case: base bytes, chunk lists, a random complete schedule
	var sched []int
	remaining := make([]int, cfg.N)
	total := 0
	for i := range remaining {
		remaining[i] = 1 + len(work[i])
		total += remaining[i]
	}
	for total > 0 {
		i := rr.Intn(cfg.N)
		if remaining[i] == 0 {
			continue
		}
		remaining[i]--
		total--
		sched = append(sched, i)
	}
	bterm := "None"
	if cfg.Base != "nil" {
		bterm = "(Some " + CoqBytes([]byte(baseCtx)) + ")"
	}
	ws := make([]string, cfg.N)
	os_ := make([]string, cfg.N)
	for i := range work {
		ws[i] = coqByteLists(work[i])
		if finalCtx[i] == "" {
			os_[i] = "None"
		} else {
			os_[i] = "(Some " + CoqBytes([]byte(finalCtx[i])) + ")"
		}
	}
	ss := make([]string, len(sched))
	for i, x := range sched {
		ss[i] = fmt.Sprintf("%d%%nat", x)
	}
	term := fmt.Sprintf("(CIso %s %s %s, OIso %s)", bterm, CoqList(ws), CoqList(ss), CoqList(os_))
	jcfg["final_contexts"] = finalCtx
	if len(cfg.Resets) > 0 {
		// monitors only
	} else if cfg.N <= 8 || cfg.Seed%4 == 0 || c.Thorough() {
		c.AddCase(term, jcfg) // the monitors above run on every batch; the largest batches go to the model one in four
	}
	if cfg.afterToModel && len(cfg.After) > 0 && len(cfg.Resets) == 0 {
		// the context the outermost After handler logged with, once the chain had returned: the model's
		// final context of the request (one logger per request, every append went to it)
		as := make([]string, cfg.N)
		for i := range as {
			if afterCtx[i] == "" {
				as[i] = "None"
			} else {
				as[i] = "(Some " + CoqBytes([]byte(afterCtx[i])) + ")"
			}
		}
		j2 := map[string]interface{}{"kind": "iso", "config": cfg, "contexts_seen_after_the_chain_returned": afterCtx}
		c.AddCase(fmt.Sprintf("(CIso %s %s %s, OIso %s)", bterm, CoqList(ws), CoqList(ss), CoqList(as)), j2)
	}
	names := []string{}
	for _, hi := range cfg.Chain {
		names = append(names, fieldHandlers[hi].Name)
	}
	c.Count(fmt.Sprintf("iso|%s|%v|%v|%d|%d|%v|%v", cfg.Base, cfg.Chain, cfg.Probes, cfg.N, cfg.Seed, cfg.Resets, cfg.Sequential), cfg.N >= 2 && (len(cfg.Chain) >= 1 || len(cfg.Resets) >= 1))
	if len(cfg.Resets) > 0 {
		c.Hist("iso_resets", fmt.Sprintf("%d reset handlers", len(cfg.Resets)))
	}
	c.Hist("iso_base", cfg.Base)
	c.Hist("iso_requests", fmt.Sprintf("%d", cfg.N))
	c.Hist("iso_chain_len", fmt.Sprintf("%d", len(cfg.Chain)))
	for _, n := range names {
		c.Hist("iso_handler", n)
	}
	if cfg.Server {
		c.Hist("iso_transport", "httptest.Server")
	} else {
		c.Hist("iso_transport", "ServeHTTP")
	}
	if len(c.Res.Samples) < 6 && cfg.N >= 3 {
		c.Sample(map[string]interface{}{"kind": "iso", "config": cfg, "handlers": names, "events": len(lines)})
	}
}

// seededRng: an Rng that is a function of the seed only (hlib.Rng has no exported constructor:
// advance a zero Rng seed-dependently and fork it)
func seededRng(seed uint64) *Rng {
	z := &Rng{}
	for i := uint64(0); i < seed%65536; i++ {
		z.Next()
	}
	return z.Fork()
}

func genIso(r *Rng, server bool) isoCfg {
	cfg := isoCfg{Base: []string{"nil", "spare", "spare", "long"}[r.Intn(4)], Barrier: !r.Chance(15), Seed: r.Next() % 65536, Server: server}
	cfg.N = []int{1, 2, 2, 3, 4, 8, 16, 32}[r.Intn(8)]
	cfg.SharedCtx = r.Chance(35)
	n := r.Intn(9)
	for j := 0; j < n; j++ {
		hi := r.Intn(len(fieldHandlers))
		if server && (fieldHandlers[hi].Name == "RemoteAddr" || fieldHandlers[hi].Name == "RemoteIP") {
			continue // the client's ephemeral port is not known to the driver
		}
		cfg.Chain = append(cfg.Chain, hi)
	}
	for p := 0; p < len(cfg.Chain); p++ {
		if r.Chance(30) {
			cfg.Probes = append(cfg.Probes, p)
		}
	}
	sort.Ints(cfg.Probes)
	// drawn last, so that chains and probes of a given seed are what they were before After existed
	if r.Chance(60) {
		for p := 0; p <= len(cfg.Chain); p++ {
			if r.Chance(25) {
				cfg.After = append(cfg.After, afterT{Pos: p, Access: r.Chance(60)})
			}
		}
	}
	return cfg
}

func runC18(c *Ctx) {
	c.Res.Rule = "proxy: every sequence of <=L calls over {WriteHeader(201), WriteHeader(404), Write(3 accepted 3), Write(4 accepted 1 + error), ReadFrom(5 accepted 5), ReadFrom(5 accepted 2 + error), Flush} for the writers basic / Flusher / CloseNotifier+Flusher+Hijacker+ReaderFrom (L=5), then seeded random sequences of 1..14 calls (12 status codes incl. 0/1xx/999, lengths 0..2000, any accepted count with/without error, empty ReadFrom) over 7 capability sets, all through the real hlog.AccessHandler on a recording fake ResponseWriter; stacked AccessHandlers (the ResponseWriter given to one is the proxy of another) with calls made between them: two layers exhaustively over <=2 calls sent by the middleware before the inner AccessHandler x <=2 calls of the inner handler x <=1 call afterwards on {WriteHeader(202), WriteHeader(404), Write(3), ReadFrom(5), ReadFrom(5 accepted 2 + error)} for the three writers, then random 2-3 layers over all capability sets; every layer must report the calls made inside it; plus sequences <=3 (thorough 5) on a real net/http server compared with what the client received; ways (ways.go): the handler produces its response through w.Write / io.WriteString / fmt.Fprintf / io.Copy from a plain reader, a bytes.Reader, a strings.Reader / ReadFrom where offered / http.Error / json.Encoder / bufio.Writer / WriteHeader - every way alone and every ordered pair, payload sizes 0..40000, random sequences of 3-6 - on every kind of underlying writer: the recording fake with each of the 7 capability sets without WriteString and the 3 main ones with it (accepting everything, or failing after a byte budget), httptest.ResponseRecorder, http.TimeoutHandler on a recorder, a real net/http connection with and without http.TimeoutHandler; reported status/size must be what that writer received; non-trivial = at least two kinds of call or a partial/failed write. isolation: batches of 1..32 concurrent requests with distinct URL/method/remote address/user agent/referer/header/host values through NewHandler + a random list of 0..8 field handlers (12 kinds, repeats allowed), probes at random chain positions, handlers that log after the rest of the chain returned (hlog.AccessHandler with a logging callback, or a plain middleware) at random positions and, as a directed sweep, at every position of chains of one, two and all twelve field handlers in rotated/reversed orders - such a line must carry every field the chain's handlers added for that request and nothing else; a barrier before the final events, base logger with nil context / spare capacity / longer than 500 bytes, direct ServeHTTP and a real httptest.Server; reset handlers (resets.go): UpdateContext(c.Reset().Str..) as the first / a later context update of all, every other or one of the requests, base logger with fields / long / nil, requests concurrent with barrier, concurrent, one after the other, plus random batches with such handlers added - the base logger stays unchanged, requests that do not reset carry the base fields as configured, a request that resets carries what it added after the reset (monitors only); non-trivial = >=2 requests and >=1 field or reset handler"
	c.OpenShards("From Verif Require Import Base.Prelude Misc.Hlog Misc.HlogHeap Harness.C18H.\nOpen Scope Z_scope.",
		"c18_case * c18_obs", "mismatches c18_run c18_eqb", 1000)

	if c.Replay != "" {
		replayC18(c)
		return
	}

	// ---- proxy: bounded-exhaustive
	maxLen := 5
	exh := 0
	// shortest first, so that the first witness of a failure is a minimal one
	var rec func(ops []opT, n int)
	rec = func(ops []opT, n int) {
		if len(ops) == n {
			for _, k := range mainCaps {
				proxyCase(c, k, ops, "exhaustive")
				exh++
			}
			return
		}
		for _, s := range alphabet {
			rec(append(append([]opT{}, ops...), s), n)
		}
	}
	for n := 0; n <= maxLen; n++ {
		rec(nil, n)
	}
	c.Res.ExtraCoverage["proxy_exhaustive_cases"] = exh
	c.Res.ExtraCoverage["proxy_exhaustive_max_len"] = maxLen
	// ---- proxy: random
	nrand := 3000
	if c.Thorough() {
		nrand = 60000
	}
	all := append(append([]capsT{}, mainCaps...), extraCaps...)
	for i := 0; i < nrand; i++ {
		r := c.R.Fork()
		n := 1 + r.Intn(14)
		ops := make([]opT, n)
		for j := range ops {
			ops[j] = genOp(r)
		}
		proxyCase(c, all[r.Intn(len(all))], ops, "random")
	}
	// ---- stacked AccessHandlers with something sent between them (nested.go)
	nestedProxy(c)
	// ---- proxy on a real server
	realServer(c)
	realServerNested(c)
	// ---- every way of producing a response x every kind of underlying writer (ways.go)
	waysSweep(c)

	// ---- isolation (small shards: the cases are large)
	c.OpenShards("From Verif Require Import Base.Prelude Misc.Hlog Misc.HlogHeap Harness.C18H.\nOpen Scope Z_scope.",
		"c18_case * c18_obs", "mismatches c18_run c18_eqb", 5)
	nb := 160
	if c.Thorough() {
		nb = 2500
	}
	for i := 0; i < nb; i++ {
		isoBatch(c, genIso(c.R.Fork(), false))
	}
	isoResets(c) // handlers that reset the request's context, at every position, in all / some requests (resets.go)
	isoOrders(c) // every order of field handlers relative to a handler that logs after the chain returned (orders.go)
	c.OpenShards("From Verif Require Import Base.Prelude Misc.Hlog Misc.HlogHeap Harness.C18H.\nOpen Scope Z_scope.",
		"c18_case * c18_obs", "mismatches c18_run c18_eqb", 5)
	ns := 6
	if c.Thorough() {
		ns = 60
	}
	for i := 0; i < ns; i++ {
		isoBatch(c, genIso(c.R.Fork(), true))
	}
	c.Res.ExtraCoverage["iso_batches"] = nb + ns
	c.Note("Tee() of the proxy is not reachable through the property's calls; with a tee fancyWriter.ReadFrom counts the bytes twice (Proofs/HlogP.v note_tee_readfrom_double_count)")
	c.Note("EtagHandler/ResponseHeaderHandler append after the inner handler returned; they are not part of the generated chains")
}

func replayC18(c *Ctx) {
	rpath := c.Replay
	if _, err := os.Stat(rpath); err != nil && !filepath.IsAbs(rpath) {
		rpath = filepath.Join(os.Getenv("VERIF_DIR"), rpath)
	}
	b, err := os.ReadFile(rpath)
	if err != nil {
		panic(err)
	}
	var rp struct {
		Case struct {
			Kind   string   `json:"kind"`
			Caps   capsT    `json:"caps"`
			Ops    []opT    `json:"ops"`
			Layers []layerT `json:"layers"`
			Config *isoCfg  `json:"config"`
			Writer string   `json:"writer"`
			Budget int      `json:"budget"`
			Steps  []stepT  `json:"steps"`
		} `json:"case"`
	}
	if err := json.Unmarshal(b, &rp); err != nil {
		panic(err)
	}
	switch rp.Case.Kind {
	case "proxy":
		proxyCase(c, rp.Case.Caps, rp.Case.Ops, "replay")
	case "nested":
		nestedCase(c, rp.Case.Caps, rp.Case.Layers, "replay")
	case "iso":
		for i := 0; i < 20; i++ { // the goroutine schedule is the runtime's: repeat
			isoBatch(c, *rp.Case.Config)
		}
	case "real-server-nested":
		realServerNested(c)
	case "ways":
		srv := newWaysSrv()
		defer srv.close()
		waysCase(c, srv, rp.Case.Writer, rp.Case.Budget, rp.Case.Steps, "replay")
	default:
		realServer(c)
	}
}
