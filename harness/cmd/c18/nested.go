package main

// C18 - stacked AccessHandlers.
//
// The ResponseWriter an AccessHandler is given may itself be the proxy of another
// AccessHandler further out (site-wide metrics plus a per-route access log), and
// things may be sent between the two: a middleware that writes a prefix or sends
// the status before calling the next handler, or appends a trailer after it.  Each
// AccessHandler must report the calls of the handler IT wraps: the first
// WriteHeader made inside it (200 if a body write came first, 0 if nothing was sent
// inside it) and the number of body bytes the writer it was given accepted from it.
//
// A nested case is a list of layers, outermost first:
//   AccessHandler_0( pre_0 ; AccessHandler_1( pre_1 ; ... ; post_1 ) ; post_0 )
// every pre/post being a handler behaviour (ops) executed on the ResponseWriter that
// layer's AccessHandler passed down.  The innermost layer has its ops in Pre.
// Bounded-exhaustive over short behaviours for two layers and the three writers
// WrapWriter distinguishes, seeded random beyond (2-3 layers, all capability sets).

import (
	"fmt"
	"io"
	"net/http"
	"net/http/httptest"
	"sync"
	"time"

	"github.com/rs/zerolog/hlog"
	. "verifharness/hlib"
)

type layerT struct {
	Pre  []opT `json:"pre"`
	Post []opT `json:"post,omitempty"`
}

type reportT struct {
	Status int `json:"status"`
	Size   int `json:"size"`
}

// runNested: reports per layer (outermost first), the calls the fake received, and for each layer the
// index range of those calls made while that layer's AccessHandler was running
func runNested(k capsT, layers []layerT) (reps []reportT, calls []ucall, spans [][2]int) {
	c := &core{hdr: http.Header{}}
	w := fake(c, k)
	L := len(layers)
	reps = make([]reportT, L)
	spans = make([][2]int, L)
	set := func(o outcome) { c.cur = o }
	var h http.Handler
	for i := L - 1; i >= 0; i-- {
		i, next := i, h
		mw := http.HandlerFunc(func(w http.ResponseWriter, r *http.Request) {
			behave(w, layers[i].Pre, set)
			if next != nil {
				next.ServeHTTP(w, r)
			}
			behave(w, layers[i].Post, set)
		})
		ah := hlog.AccessHandler(func(r *http.Request, st, sz int, d time.Duration) {
			reps[i] = reportT{st, sz}
			spans[i][1] = len(c.calls)
		})(mw)
		h = http.HandlerFunc(func(w http.ResponseWriter, r *http.Request) {
			spans[i][0] = len(c.calls)
			ah.ServeHTTP(w, r)
		})
	}
	h.ServeHTTP(w, httptest.NewRequest("GET", "/", nil))
	return reps, c.calls, spans
}

// the ops executed inside layer i's AccessHandler, in order
func flatFrom(layers []layerT, i int) []opT {
	if i >= len(layers) {
		return nil
	}
	var ops []opT
	ops = append(ops, layers[i].Pre...)
	ops = append(ops, flatFrom(layers, i+1)...)
	ops = append(ops, layers[i].Post...)
	return ops
}

// the whole case as (number of proxies passed, op) in execution order
func taggedOps(layers []layerT) []string {
	var pre, post []string
	for i, l := range layers {
		for _, o := range l.Pre {
			pre = append(pre, fmt.Sprintf("(%d%%nat, %s)", i+1, coqOp(o)))
		}
	}
	for i := len(layers) - 1; i >= 0; i-- {
		for _, o := range layers[i].Post {
			post = append(post, fmt.Sprintf("(%d%%nat, %s)", i+1, coqOp(o)))
		}
	}
	return append(pre, post...)
}

func coqOp(o opT) string {
	oc := fmt.Sprintf("{| o_n := %d; o_err := %s |}", o.Out.N, CoqBool(o.Out.Err))
	switch o.Kind {
	case "WH":
		return "OWriteHeader " + CoqZ(int64(o.Code))
	case "W":
		return fmt.Sprintf("OWrite %d %s", o.Len, oc)
	case "RF":
		return fmt.Sprintf("OReadFrom %d %s", o.Len, oc)
	}
	return "OFlush"
}

func nestedCase(c *Ctx, k capsT, layers []layerT, stream string) {
	reps, calls, spans := runNested(k, layers)
	jc := map[string]interface{}{"kind": "nested", "caps": k, "layers": layers, "reports": reps, "underlying_calls": calls,
		"reading": "layers outermost first: AccessHandler_0(pre_0; AccessHandler_1(pre_1; ...; post_1); post_0); each AccessHandler reports the calls made inside it"}
	L := len(layers)
	for i := 0; i < L; i++ {
		ops := flatFrom(layers, i)
		es, ez := specStatusSize(k, ops)
		where := fmt.Sprintf("AccessHandler #%d of %d (0 = outermost)", i, L)
		if reps[i].Status != es {
			c.Violate(Violation{Key: "access-status", Monitor: "status-is-first-header", Desc: fmt.Sprintf("stacked AccessHandlers, %s reported status %d; the first WriteHeader/body write of the handler it wraps says %d (writer %s)", where, reps[i].Status, es, k.name()), Case: jc, Observed: reps[i].Status, Expected: es})
		}
		if reps[i].Size != ez {
			c.Violate(Violation{Key: "access-size", Monitor: "size-is-accepted-bytes", Desc: fmt.Sprintf("stacked AccessHandlers, %s reported size %d; the writer below accepted %d bytes from the handler it wraps (writer %s)", where, reps[i].Size, ez, k.name()), Case: jc, Observed: reps[i].Size, Expected: ez})
		}
		// the same number read off what the recording writer at the bottom accepted while this layer was running
		acc := 0
		for _, u := range calls[spans[i][0]:spans[i][1]] {
			if u.Kind == "W" || u.Kind == "RF" {
				acc += u.N
			}
		}
		if reps[i].Size != acc {
			c.Violate(Violation{Key: "access-size-vs-underlying", Monitor: "size-is-what-the-writer-accepted", Desc: fmt.Sprintf("stacked AccessHandlers, %s reported size %d but the underlying writer recorded %d accepted bytes while it was running", where, reps[i].Size, acc), Case: jc, Observed: reps[i].Size, Expected: acc})
		}
	}
	// the outermost one against everything the underlying writer received
	fh, nWH := 0, 0
	for _, u := range calls {
		if u.Kind == "WH" {
			if nWH == 0 {
				fh = u.A
			}
			nWH++
		}
	}
	if reps[0].Status != fh || nWH > 1 {
		c.Violate(Violation{Key: "access-status-vs-underlying", Monitor: "status-is-what-the-writer-received", Desc: fmt.Sprintf("stacked AccessHandlers: the outermost reported status %d but the underlying writer received %d WriteHeader calls, the first with %d", reps[0].Status, nWH, fh), Case: jc, Observed: reps[0].Status, Expected: fh})
	}
	rs := make([]string, L)
	for i, r := range reps {
		rs[i] = fmt.Sprintf("(%s, %s)", CoqZ(int64(r.Status)), CoqZ(int64(r.Size)))
	}
	term := fmt.Sprintf("(CNest %s %d%%nat %s, ONest %s %s)", coqCaps(k), L, CoqList(taggedOps(layers)), CoqList(rs), coqCalls(calls))
	c.AddCase(term, jc)
	between := len(layers[0].Pre) > 0
	for i := 1; i+1 < L; i++ {
		between = between || len(layers[i].Pre) > 0
	}
	c.Count(term, between && len(layers[L-1].Pre) > 0)
	c.Hist("proxy_stream", stream)
	c.Hist("nested_layers", fmt.Sprint(L))
	c.Hist("nested_sent_between", fmt.Sprint(between))
	c.Hist("proxy_writer", proxyKind(k)+"("+k.name()+")")
	if between && len(c.Res.Samples) < 8 {
		c.Sample(jc)
	}
}

var nestAlphabet = []opT{
	{Kind: "WH", Code: 202},
	{Kind: "WH", Code: 404},
	{Kind: "W", Len: 3, Out: outcome{3, false}},
	{Kind: "RF", Len: 5, Out: outcome{5, false}},
	{Kind: "RF", Len: 5, Out: outcome{2, true}},
}

func seqsUpTo(al []opT, n int) [][]opT {
	out := [][]opT{nil}
	last := [][]opT{nil}
	for l := 1; l <= n; l++ {
		var cur [][]opT
		for _, s := range last {
			for _, a := range al {
				cur = append(cur, append(append([]opT{}, s...), a))
			}
		}
		out = append(out, cur...)
		last = cur
	}
	return out
}

func nestedProxy(c *Ctx) {
	// ---- two layers, bounded-exhaustive: what the middleware between the two AccessHandlers sends first
	//      (<= 2 calls), what the inner handler sends (<= 2 calls), what the middleware sends afterwards (<= 1 call)
	pres := seqsUpTo(nestAlphabet, 2)
	posts := [][]opT{nil, {{Kind: "WH", Code: 500}}, {{Kind: "W", Len: 3, Out: outcome{3, false}}}, {{Kind: "RF", Len: 5, Out: outcome{5, false}}}}
	n := 0
	for _, pre := range pres {
		for _, in := range pres {
			for _, post := range posts {
				for _, k := range mainCaps {
					nestedCase(c, k, []layerT{{Pre: pre, Post: post}, {Pre: in}}, "nested-exhaustive")
					n++
				}
			}
		}
	}
	c.Res.ExtraCoverage["nested_exhaustive_cases"] = n
	// ---- 2-3 layers, random behaviours, all capability sets
	nrand := 1200
	if c.Thorough() {
		nrand = 30000
	}
	all := append(append([]capsT{}, mainCaps...), extraCaps...)
	for i := 0; i < nrand; i++ {
		r := c.R.Fork()
		L := 2 + r.Intn(2)
		layers := make([]layerT, L)
		for j := range layers {
			for m := r.Intn(4); m > 0; m-- {
				layers[j].Pre = append(layers[j].Pre, genOp(r))
			}
			if j+1 < L {
				for m := r.Intn(3); m > 0; m-- {
					layers[j].Post = append(layers[j].Post, genOp(r))
				}
			}
		}
		nestedCase(c, all[r.Intn(len(all))], layers, "nested-random")
	}
	c.Res.ExtraCoverage["nested_random_cases"] = nrand
}

// the same on a real net/http server: the outermost AccessHandler against what the client received, the inner
// one against the calls made inside it (a net/http writer accepts everything it is given)
func realServerNested(c *Ctx) {
	var mu sync.Mutex
	var pre, in, post []opT
	var outer, inner reportT
	cur := func() (p, i, q []opT) { mu.Lock(); defer mu.Unlock(); return pre, in, post }
	route := http.HandlerFunc(func(w http.ResponseWriter, r *http.Request) { _, i, _ := cur(); behave(w, i, nil) })
	innerH := hlog.AccessHandler(func(r *http.Request, s, z int, d time.Duration) { mu.Lock(); inner = reportT{s, z}; mu.Unlock() })(route)
	mw := http.HandlerFunc(func(w http.ResponseWriter, r *http.Request) {
		p, _, q := cur()
		behave(w, p, nil)
		innerH.ServeHTTP(w, r)
		behave(w, q, nil)
	})
	h := hlog.AccessHandler(func(r *http.Request, s, z int, d time.Duration) { mu.Lock(); outer = reportT{s, z}; mu.Unlock() })(mw)
	srv := httptest.NewServer(h)
	defer srv.Close()
	full := capsT{CN: true, FL: true, HJ: true, RF: true}
	w3 := opT{Kind: "W", Len: 3, Out: outcome{3, false}}
	rf5 := opT{Kind: "RF", Len: 5, Out: outcome{5, false}}
	pres := [][]opT{nil, {{Kind: "WH", Code: 202}}, {w3}, {{Kind: "WH", Code: 404}, rf5}}
	ins := [][]opT{nil, {w3}, {{Kind: "WH", Code: 201}, w3}, {rf5, w3}, {{Kind: "WH", Code: 201}}}
	posts := [][]opT{nil, {w3}}
	n := 0
	for _, p := range pres {
		for _, i := range ins {
			for _, q := range posts {
				mu.Lock()
				pre, in, post = p, i, q
				mu.Unlock()
				resp, err := http.Get(srv.URL)
				if err != nil {
					panic(err)
				}
				b, _ := io.ReadAll(resp.Body)
				resp.Body.Close()
				mu.Lock()
				o, ir := outer, inner
				mu.Unlock()
				n++
				layers := []layerT{{Pre: p, Post: q}, {Pre: i}}
				jc := map[string]interface{}{"kind": "real-server-nested", "layers": layers, "client_status": resp.StatusCode, "client_body": len(b), "reports": []reportT{o, ir}}
				if len(p)+len(i)+len(q) == 0 {
					// nothing was sent by any handler: net/http sends an implicit 200 when the handler returns,
					// the property says 0 ("0 if nothing was sent")
					if o.Status != 0 || ir.Status != 0 {
						c.Violate(Violation{Key: "access-status", Monitor: "status-is-first-header", Desc: fmt.Sprintf("net/http server, stacked AccessHandlers, no handler sent anything: reported statuses %d (outer) and %d (inner), want 0", o.Status, ir.Status), Case: jc, Observed: []int{o.Status, ir.Status}, Expected: []int{0, 0}})
					}
				} else if resp.StatusCode != o.Status {
					c.Violate(Violation{Key: "access-status-real", Monitor: "status-is-what-the-client-got", Desc: fmt.Sprintf("net/http server, stacked AccessHandlers: client received status %d, the outermost AccessHandler reported %d", resp.StatusCode, o.Status), Case: jc, Observed: o.Status, Expected: resp.StatusCode})
				}
				if len(b) != o.Size {
					c.Violate(Violation{Key: "access-size-real", Monitor: "size-is-what-the-client-got", Desc: fmt.Sprintf("net/http server, stacked AccessHandlers: client received %d body bytes, the outermost AccessHandler reported %d", len(b), o.Size), Case: jc, Observed: o.Size, Expected: len(b)})
				}
				es, ez := specStatusSize(full, i)
				if ir.Status != es {
					c.Violate(Violation{Key: "access-status", Monitor: "status-is-first-header", Desc: fmt.Sprintf("net/http server, stacked AccessHandlers: the inner one reported status %d; the first WriteHeader/body write of the handler it wraps says %d", ir.Status, es), Case: jc, Observed: ir.Status, Expected: es})
				}
				if ir.Size != ez {
					c.Violate(Violation{Key: "access-size", Monitor: "size-is-accepted-bytes", Desc: fmt.Sprintf("net/http server, stacked AccessHandlers: the inner one reported size %d; the handler it wraps wrote %d bytes", ir.Size, ez), Case: jc, Observed: ir.Size, Expected: ez})
				}
				c.Count(fmt.Sprintf("real-nested|%v|%v|%v", p, i, q), len(p) > 0 && len(i) > 0)
			}
		}
	}
	c.Res.ExtraCoverage["real_server_nested_sequences"] = n
}
