package main

// C18 - lines logged after the rest of the chain has returned.
//
// The property promises that each request's log events carry exactly that
// request's values, for any chain of the field handlers.  A handler may log on the
// way out as well as on the way in: hlog.AccessHandler calls its callback after the
// wrapped handler returned, and the documented use logs the access line from that
// callback with hlog.FromRequest(r) - r being the request as THAT handler received
// it.  By then every field handler further in has run for this request, so the line
// must carry the values they added (URL, method, remote address, user agent,
// request id, headers), each once, and nothing of another request.  This holds on
// the unchanged code because there is one *zerolog.Logger per request, reachable
// from every clone of the request made along the chain.
//
// An "After" handler sits after Pos field handlers of the chain (0: directly inside
// NewHandler, outside every field handler; len(Chain): directly around the final
// handler) and logs one event once the rest of the chain returned - either
// hlog.AccessHandler with a logging callback or a plain middleware.  The random
// batches place them at random positions; isoOrders is the directed sweep: every
// field handler alone and every ordered pair with an After handler at every
// position, and all twelve in rotated and reversed orders with After handlers at
// every position.
//
// The monitor compares fields, not bytes: the line must carry the base logger's
// fields, one field per chain handler that adds one for this request (its key, this
// request's value) and the probe's own rid/pos - as a multiset of (key, value); the
// order of the fields is not part of the property.

import (
	"encoding/json"
	"fmt"
	"net/http"
	"sort"
	"strings"
	"time"

	"github.com/rs/zerolog/hlog"
	. "verifharness/hlib"
)

type afterT struct {
	Pos    int  `json:"pos"`
	Access bool `json:"access"` // hlog.AccessHandler with a logging callback; else a plain middleware
}

const afterPosBase = 2000 // the "pos" such a line logs: afterPosBase + index in cfg.After

func ridOf(rq *http.Request) int {
	var rid int
	fmt.Sscanf(rq.Header.Get("X-Rid"), "%d", &rid)
	return rid
}

// afterHandlers: the After handlers of cfg that sit after pos field handlers, outermost first
func afterHandlers(cfg isoCfg, pos int) []func(http.Handler) http.Handler {
	var out []func(http.Handler) http.Handler
	for ai, a := range cfg.After {
		if a.Pos != pos {
			continue
		}
		tag := afterPosBase + ai
		if a.Access {
			out = append(out, hlog.AccessHandler(func(rq *http.Request, status, size int, d time.Duration) {
				hlog.FromRequest(rq).Log().Int("rid", ridOf(rq)).Int("pos", tag).Msg("")
			}))
		} else {
			out = append(out, func(next http.Handler) http.Handler {
				return http.HandlerFunc(func(w http.ResponseWriter, rq *http.Request) {
					next.ServeHTTP(w, rq)
					hlog.FromRequest(rq).Log().Int("rid", ridOf(rq)).Int("pos", tag).Msg("")
				})
			})
		}
	}
	return out
}

// flatFields: the top-level (key, value-as-text) pairs of a flat JSON object, duplicates kept
func flatFields(line string) ([]string, bool) {
	dec := json.NewDecoder(strings.NewReader(line))
	dec.UseNumber()
	t, err := dec.Token()
	if d, ok := t.(json.Delim); err != nil || !ok || d != '{' {
		return nil, false
	}
	var out []string
	for dec.More() {
		kt, err := dec.Token()
		k, ok := kt.(string)
		if err != nil || !ok {
			return nil, false
		}
		var v json.RawMessage
		if err := dec.Decode(&v); err != nil {
			return nil, false
		}
		var sv string
		if json.Unmarshal(v, &sv) == nil {
			out = append(out, k+"\x00s:"+sv)
		} else {
			out = append(out, k+"\x00r:"+string(v))
		}
	}
	sort.Strings(out)
	return out, true
}

func sameStrings(a, b []string) bool {
	if len(a) != len(b) {
		return false
	}
	for i := range a {
		if a[i] != b[i] {
			return false
		}
	}
	return true
}

// checkAfterLine: request i's line from After handler ai; ctx = the request's complete context text
// ("{" + base fields + one field per chain handler that logs for this request), nf = number of fields in it
func checkAfterLine(c *Ctx, cfg isoCfg, jcfg map[string]interface{}, vals []reqVals, i, ai int, a afterT, g []string, ctx string, nf int) {
	want := ctx
	if nf > 0 {
		want += ","
	}
	want += fmt.Sprintf(`"rid":%d,"pos":%d}`+"\n", i, afterPosBase+ai)
	if len(g) == 1 && g[0] == want {
		return
	}
	kind := "a middleware logging after next.ServeHTTP returned"
	if a.Access {
		kind = "the AccessHandler callback"
	}
	names := []string{}
	for _, hi := range cfg.Chain {
		names = append(names, fieldHandlers[hi].Name)
	}
	where := fmt.Sprintf("request %d, %s placed after %d of the chain's field handlers %v", i, kind, a.Pos, names)
	if len(g) != 1 {
		c.Violate(Violation{Key: "after-line-count", Monitor: "line-after-chain-carries-request-fields",
			Desc: fmt.Sprintf("%s: %d events, want 1", where, len(g)), Case: jcfg, Observed: g, Expected: want})
		return
	}
	gf, ok1 := flatFields(g[0])
	wf, _ := flatFields(want)
	if ok1 && sameStrings(gf, wf) {
		return // same fields in another order: not the property's subject
	}
	key := "after-line-fields-mismatch"
	desc := fmt.Sprintf("%s: emitted %q, want the fields of %q", where, g[0], want)
	if ok1 {
		// which of this request's fields are missing
		have := map[string]int{}
		for _, f := range gf {
			have[f]++
		}
		var missing []string
		for _, f := range wf {
			if have[f] == 0 {
				missing = append(missing, strings.Replace(strings.Replace(f, "\x00s:", "=", 1), "\x00r:", "=", 1))
			} else {
				have[f]--
			}
		}
		if len(missing) > 0 {
			key = "after-line-field-missing"
			desc = fmt.Sprintf("%s: the line lacks %v although the handlers adding them ran for this request before it was written: %s", where, missing, g[0])
		}
	}
	for j, o := range vals {
		if j == i {
			continue
		}
		for _, s := range []string{o.URL, o.UA, o.Referer, o.Custom, o.Remote, o.Host, o.Method} {
			if s != "" && strings.Contains(g[0], `"`+s+`"`) {
				key = "request-field-leak"
				desc = fmt.Sprintf("%s: the line carries request %d's value %q: %s", where, j, s, g[0])
			}
		}
	}
	c.Violate(Violation{Key: key, Monitor: "line-after-chain-carries-request-fields", Desc: desc, Case: jcfg, Observed: g, Expected: want})
}

// isoOrders: the directed sweep over handler orders
func isoOrders(c *Ctx) {
	c.OpenShards("From Verif Require Import Base.Prelude Misc.Hlog Misc.HlogHeap Harness.C18H.\nOpen Scope Z_scope.",
		"c18_case * c18_obs", "mismatches c18_run c18_eqb", 24)
	nH := len(fieldHandlers)
	bases := []string{"spare", "nil", "long"}
	n := 0
	run := func(chain []int, after []afterT, probes []int) {
		r := c.R.Fork()
		cfg := isoCfg{Base: bases[n%len(bases)], Chain: chain, Probes: probes, After: after, Barrier: n%5 != 0,
			N: 2 + n%2, Seed: r.Next() % 65536, SharedCtx: n%3 == 0, afterToModel: n%2 == 0 || c.Thorough()}
		isoBatch(c, cfg)
		c.Hist("iso_orders", fmt.Sprintf("chain of %d", len(chain)))
		n++
	}
	allPos := func(k int, accessFirst bool) []afterT {
		var as []afterT
		for p := 0; p <= k; p++ {
			as = append(as, afterT{Pos: p, Access: (p%2 == 0) == accessFirst})
		}
		return as
	}
	// one field handler: the After handler outside it, inside it
	for x := 0; x < nH; x++ {
		run([]int{x}, []afterT{{Pos: 0, Access: true}, {Pos: 1, Access: false}}, nil)
		run([]int{x}, []afterT{{Pos: 0, Access: false}, {Pos: 1, Access: true}}, []int{0})
	}
	// every ordered pair of distinct field handlers, an After handler at every position
	for x := 0; x < nH; x++ {
		for y := 0; y < nH; y++ {
			if x == y && !c.Thorough() {
				continue
			}
			run([]int{x, y}, allPos(2, (x+y)%2 == 0), []int{1})
		}
	}
	// all of them, rotated and reversed: every handler is outermost, innermost and in the middle once;
	// After handlers at every position at once, and one AccessHandler alone at each position in turn
	for k := 0; k < nH; k++ {
		fw := make([]int, nH)
		bw := make([]int, nH)
		for j := range fw {
			fw[j] = (k + j) % nH
			bw[j] = (k + nH - j) % nH
		}
		run(fw, allPos(nH, k%2 == 0), []int{k})
		run(bw, allPos(nH, k%2 == 1), nil)
		run(fw, []afterT{{Pos: k, Access: true}}, nil)
		run(bw, []afterT{{Pos: nH - k, Access: true}, {Pos: nH, Access: false}}, []int{nH - k})
	}
	c.Res.ExtraCoverage["iso_order_sweep_batches"] = n
}
