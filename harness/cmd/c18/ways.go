package main

// C18 - every way a handler can produce its response, over every kind of ResponseWriter.
//
// The proxy streams (c18.go, nested.go) drive the proxy with the three calls of the
// http.ResponseWriter interface.  Handlers in the wild rarely call w.Write themselves:
// they hand w to io.WriteString, fmt.Fprintf, io.Copy, http.Error, a json.Encoder, a
// bufio.Writer ... and those helpers PROBE the writer for optional interfaces
// (io.StringWriter, io.ReaderFrom) and take another path when the proxy offers one;
// the proxy in turn probes the ResponseWriter it wraps.  The property does not care:
// AccessHandler reports the first status sent and the number of body bytes the
// underlying ResponseWriter accepted.
//
// A "ways" case is a list of steps (way, payload, code) executed by the handler on the
// writer AccessHandler gave it, on one of these underlying writers:
//   fake:<caps>     the recording fake with exactly that capability set (7 sets), no WriteString
//   fake+ws:<caps>  the same plus WriteString (io.StringWriter), as net/http's own writers have
//   recorder        httptest.ResponseRecorder
//   timeout         http.TimeoutHandler(AccessHandler(..)) on a recorder (its writer has only the
//                   three methods + Push)
//   server, server-timeout   a real httptest.Server connection; the client is the witness
// The fakes accept everything or, with a budget, accept that many bytes in total and
// fail from then on (a short count in the middle of some helper).
//
// Monitors (model-independent): reported status = the first WriteHeader the underlying
// writer received (recorder: its Code; server: the client's status), reported size = the
// bytes it accepted (recorder: len(Body); server: the client's body length).

import (
	"bufio"
	"bytes"
	"encoding/json"
	"fmt"
	"io"
	"net/http"
	"net/http/httptest"
	"strings"
	"sync"
	"time"

	"github.com/rs/zerolog/hlog"
	. "verifharness/hlib"
)

type stepT struct {
	Way  string `json:"way"`
	Len  int    `json:"len,omitempty"`  // payload length (the helper may add to it: http.Error a newline, json quotes + newline)
	Code int    `json:"code,omitempty"` // WriteHeader / http.Error
}

type wsPart struct{ c *core }

func (p wsPart) WriteString(s string) (int, error) {
	n, fail := p.c.answer(len(s))
	p.c.calls = append(p.c.calls, ucall{"WS", len(s), n})
	if fail {
		return n, errScripted
	}
	return n, nil
}

// fakeWS: the three writers WrapWriter distinguishes, with WriteString in addition
func fakeWS(c *core, k capsT) http.ResponseWriter {
	fl, cn, hj, rf, ws := flPart{c}, cnPart{}, hjPart{}, rfPart{c}, wsPart{c}
	switch {
	case !k.CN && !k.FL && !k.HJ && !k.RF:
		return &struct {
			*core
			wsPart
		}{c, ws}
	case !k.CN && k.FL && !k.HJ && !k.RF:
		return &struct {
			*core
			flPart
			wsPart
		}{c, fl, ws}
	case k.CN && k.FL && k.HJ && k.RF:
		return &struct {
			*core
			flPart
			cnPart
			hjPart
			rfPart
			wsPart
		}{c, fl, cn, hj, rf, ws}
	}
	panic("capability set not built with WriteString")
}

var wayNames = []string{"Write", "WriteString", "Fprintf", "Copy-plain", "Copy-bytes.Reader", "Copy-strings.Reader", "ReadFrom", "http.Error", "json.Encode", "bufio", "WriteHeader"}

func payloadOf(i, n int) string {
	if n == 0 {
		return ""
	}
	return strings.Repeat(string(rune('a'+i%26)), n)
}

// doSteps: the handler
func doSteps(w http.ResponseWriter, steps []stepT) {
	for i, s := range steps {
		p := payloadOf(i, s.Len)
		switch s.Way {
		case "Write":
			w.Write([]byte(p))
		case "WriteString":
			io.WriteString(w, p)
		case "Fprintf":
			fmt.Fprintf(w, "%s", p)
		case "Copy-plain":
			io.Copy(w, &plainReader{[]byte(p)})
		case "Copy-bytes.Reader":
			io.Copy(w, bytes.NewReader([]byte(p))) // WriterTo: w.Write
		case "Copy-strings.Reader":
			io.Copy(w, strings.NewReader(p)) // WriterTo: io.WriteString(w, ..)
		case "ReadFrom":
			if rf, ok := w.(io.ReaderFrom); ok {
				rf.ReadFrom(&plainReader{[]byte(p)})
			} else {
				w.Write([]byte(p))
			}
		case "http.Error":
			http.Error(w, p, s.Code)
		case "json.Encode":
			json.NewEncoder(w).Encode(p)
		case "bufio":
			bw := bufio.NewWriter(w)
			bw.WriteString(p)
			bw.Flush()
		case "WriteHeader":
			w.WriteHeader(s.Code)
		default:
			panic("unknown way " + s.Way)
		}
	}
}

type waysSrv struct {
	mu     sync.Mutex
	cur    []stepT
	st, sz int
	plain  *httptest.Server
	tmo    *httptest.Server
}

func newWaysSrv() *waysSrv {
	s := &waysSrv{}
	h := hlog.AccessHandler(func(r *http.Request, st, sz int, d time.Duration) { s.mu.Lock(); s.st, s.sz = st, sz; s.mu.Unlock() })(
		http.HandlerFunc(func(w http.ResponseWriter, r *http.Request) {
			s.mu.Lock()
			steps := s.cur
			s.mu.Unlock()
			doSteps(w, steps)
		}))
	s.plain = httptest.NewServer(h)
	s.tmo = httptest.NewServer(http.TimeoutHandler(h, 20*time.Second, "timed out"))
	return s
}

func (s *waysSrv) close() { s.plain.Close(); s.tmo.Close() }

func (s *waysSrv) get(url string, steps []stepT) (cs, cb, rs, rz int, err error) {
	s.mu.Lock()
	s.cur, s.st, s.sz = steps, -1, -1
	s.mu.Unlock()
	resp, err := http.Get(url)
	if err != nil {
		return 0, 0, 0, 0, err
	}
	b, _ := io.ReadAll(resp.Body)
	resp.Body.Close()
	s.mu.Lock()
	defer s.mu.Unlock()
	return resp.StatusCode, len(b), s.st, s.sz, nil
}

var fakeCapsByName = map[string]capsT{}

func init() {
	for _, k := range append(append([]capsT{}, mainCaps...), extraCaps...) {
		fakeCapsByName[k.name()] = k
	}
}

// waysCase: budget < 0 = the writer accepts everything (fakes only)
func waysCase(c *Ctx, srv *waysSrv, writer string, budget int, steps []stepT, stream string) {
	jc := map[string]interface{}{"kind": "ways", "writer": writer, "budget": budget, "steps": steps}
	var st, sz int
	cb := func(r *http.Request, s, z int, d time.Duration) { st, sz = s, z }
	h := hlog.AccessHandler(cb)(http.HandlerFunc(func(w http.ResponseWriter, r *http.Request) { doSteps(w, steps) }))
	rq := httptest.NewRequest("GET", "/", nil)
	var wantSt, wantSz int
	where := ""
	keySt, keySz := "access-status-vs-underlying", "access-size-vs-underlying"
	monSt, monSz := "status-is-what-the-writer-received", "size-is-what-the-writer-accepted"
	switch {
	case strings.HasPrefix(writer, "fake"):
		name := writer[strings.Index(writer, ":")+1:]
		k, ok := fakeCapsByName[name]
		if !ok {
			panic("unknown writer " + writer)
		}
		co := &core{hdr: http.Header{}, auto: true, budget: budget}
		var w http.ResponseWriter
		if strings.HasPrefix(writer, "fake+ws:") {
			w = fakeWS(co, k)
		} else {
			w = fake(co, k)
		}
		h.ServeHTTP(w, rq)
		nWH := 0
		for _, u := range co.calls {
			switch u.Kind {
			case "WH":
				if nWH == 0 {
					wantSt = u.A
				}
				nWH++
			case "W", "RF", "WS":
				wantSz += u.N
			}
		}
		jc["underlying_calls"] = co.calls
		if nWH > 1 {
			c.Violate(Violation{Key: keySt, Monitor: monSt, Desc: fmt.Sprintf("the underlying writer (%s) received %d WriteHeader calls", writer, nWH), Case: jc, Observed: nWH, Expected: 1})
		}
		where = "the recording writer " + writer
	case writer == "recorder" || writer == "timeout":
		rec := httptest.NewRecorder()
		if writer == "timeout" {
			http.TimeoutHandler(h, 20*time.Second, "timed out").ServeHTTP(rec, rq)
			where = "httptest.ResponseRecorder behind http.TimeoutHandler"
		} else {
			h.ServeHTTP(rec, rq)
			where = "httptest.ResponseRecorder"
		}
		wantSt, wantSz = rec.Code, rec.Body.Len()
	case writer == "server" || writer == "server-timeout":
		url := srv.plain.URL
		where = "a net/http server connection (client's view)"
		if writer == "server-timeout" {
			url = srv.tmo.URL
			where = "a net/http server connection behind http.TimeoutHandler (client's view)"
		}
		cs, cbn, rs, rz, err := srv.get(url, steps)
		if err != nil {
			c.Note("ways: request to the test server failed: %v (%v)", err, steps)
			return
		}
		wantSt, wantSz, st, sz = cs, cbn, rs, rz
		keySt, keySz = "access-status-real", "access-size-real"
		monSt, monSz = "status-is-what-the-client-got", "size-is-what-the-client-got"
	default:
		panic("unknown writer " + writer)
	}
	jc["reported_status"], jc["reported_size"] = st, sz
	jc["underlying_status"], jc["underlying_bytes"] = wantSt, wantSz
	if st != wantSt {
		c.Violate(Violation{Key: keySt, Monitor: monSt, Desc: fmt.Sprintf("AccessHandler reported status %d; %s received %d", st, where, wantSt), Case: jc, Observed: st, Expected: wantSt})
	}
	if sz != wantSz {
		c.Violate(Violation{Key: keySz, Monitor: monSz, Desc: fmt.Sprintf("AccessHandler reported size %d; %s accepted %d body bytes", sz, where, wantSz), Case: jc, Observed: sz, Expected: wantSz})
	}
	ways := map[string]bool{}
	for _, s := range steps {
		ways[s.Way] = true
	}
	c.Count(fmt.Sprintf("ways|%s|%d|%v", writer, budget, steps), len(ways) >= 2 || budget >= 0)
	c.Hist("ways_stream", stream)
	c.Hist("ways_writer", writer)
	for w := range ways {
		c.Hist("ways_way", w)
	}
}

func waysWriters() (fakes, others []string) {
	for _, k := range append(append([]capsT{}, mainCaps...), extraCaps...) {
		fakes = append(fakes, "fake:"+k.name())
	}
	for _, k := range mainCaps {
		fakes = append(fakes, "fake+ws:"+k.name())
	}
	return fakes, []string{"recorder", "timeout", "server", "server-timeout"}
}

func waysSweep(c *Ctx) {
	srv := newWaysSrv()
	defer srv.close()
	fakes, others := waysWriters()
	all := append(append([]string{}, fakes...), others...)
	mk := func(i int, way string, n int) stepT {
		s := stepT{Way: way, Len: n}
		switch way {
		case "WriteHeader":
			s.Len, s.Code = 0, []int{201, 404, 500}[i%3]
		case "http.Error":
			s.Code = []int{400, 503}[i%2]
		}
		return s
	}
	n := 0
	// every way alone and every ordered pair of ways, on every writer
	for a, wa := range wayNames {
		for _, w := range all {
			waysCase(c, srv, w, -1, []stepT{mk(a, wa, 13)}, "sweep")
			n++
		}
		for b, wb := range wayNames {
			for _, w := range all {
				waysCase(c, srv, w, -1, []stepT{mk(a, wa, 13), mk(a+b+1, wb, 7)}, "sweep")
				n++
			}
		}
	}
	// sizes around the helpers' internal buffers (bufio 4096, io.Copy 32768), the empty payload (fakes only:
	// what an empty write sends is the writer's business), every way alone
	for a, wa := range wayNames {
		if wa == "WriteHeader" {
			continue
		}
		for _, ln := range []int{0, 1, 4096, 5000, 40000} {
			ws := all
			if ln == 0 {
				ws = fakes
			}
			for _, w := range ws {
				waysCase(c, srv, w, -1, []stepT{mk(a, wa, ln)}, "sizes")
				n++
			}
		}
	}
	// random longer behaviours; on the fakes also with a byte budget after which the writer fails
	nr := 400
	if c.Thorough() {
		nr = 8000
	}
	for i := 0; i < nr; i++ {
		r := c.R.Fork()
		L := 3 + r.Intn(4)
		steps := make([]stepT, L)
		total := 0
		for j := range steps {
			steps[j] = mk(r.Intn(6), wayNames[r.Intn(len(wayNames))], []int{1, 7, 13, 100, 5000}[r.Intn(5)])
			total += steps[j].Len
		}
		w := all[r.Intn(len(all))]
		budget := -1
		if strings.HasPrefix(w, "fake") && r.Chance(50) {
			budget = r.Intn(total + 2)
		}
		if !strings.HasPrefix(w, "fake") && i%4 != 0 {
			w = fakes[r.Intn(len(fakes))]
		}
		waysCase(c, srv, w, budget, steps, "random")
		n++
	}
	c.Res.ExtraCoverage["ways_cases"] = n
}
