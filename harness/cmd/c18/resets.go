package main

// C18 - handlers that start the request's log context from scratch.
//
// A handler below NewHandler may replace the request's context instead of adding to
// it: UpdateContext(func(c zerolog.Context) zerolog.Context { return c.Reset().Str(..) })
// (a multi-tenant middleware that drops the service-wide fields, a handler that
// re-labels the request).  Reset is the one context operation that is not an append,
// so it is the one that shows whether the request's logger really owns its bytes: the
// logger passed to NewHandler must be left unchanged, the other requests - running
// at the same time or afterwards - must still start from the base fields as
// configured, and the resetting request's later lines carry what was added after the
// reset (Reset "removes all the context fields") with that request's values only.
//
// A reset handler sits after Pos field handlers of the chain (0 = directly inside
// NewHandler: the reset is the request's FIRST context update) and acts in the
// requests whose index i has i % Mod == Rem; it adds Fields (0..2) fields of its own
// after the reset.  isoResets is the directed sweep: every base logger x reset as
// first / second / third update / last x all, every other, one request only x
// concurrent with barrier, concurrent without, sequential; then random batches of the
// ordinary generator with reset handlers added.  Monitors only (the Coq model of the
// request contexts has appends only).

import (
	"fmt"
	"net/http"
	"strings"

	"github.com/rs/zerolog"
	"github.com/rs/zerolog/hlog"
	. "verifharness/hlib"
)

type resetT struct {
	Pos    int `json:"pos"`
	Mod    int `json:"mod"`
	Rem    int `json:"rem"`
	Fields int `json:"fields"`
}

func (r resetT) acts(i int) bool { return r.Mod <= 1 || i%r.Mod == r.Rem }

func resetKey(ri, f int) string { return fmt.Sprintf("tn%d_%d", ri, f) }

// distinct per request and of different lengths, so that an overwrite of shared bytes shows
func resetValue(ri, f, i int) string {
	return fmt.Sprintf("tenant-%d-%d-%d-%s", ri, f, i, strings.Repeat("T", 1+(i*7+f*3)%23))
}

// resetValues: every value the reset handlers of cfg log for request i
func resetValues(cfg isoCfg, i int) []string {
	var out []string
	for ri, rs := range cfg.Resets {
		if !rs.acts(i) {
			continue
		}
		for f := 0; f < rs.Fields; f++ {
			out = append(out, resetValue(ri, f, i))
		}
	}
	return out
}

func resetHandlers(cfg isoCfg, pos int) []func(http.Handler) http.Handler {
	var out []func(http.Handler) http.Handler
	for ri, rs := range cfg.Resets {
		if rs.Pos != pos {
			continue
		}
		ri, rs := ri, rs
		out = append(out, func(next http.Handler) http.Handler {
			return http.HandlerFunc(func(w http.ResponseWriter, rq *http.Request) {
				if i := ridOf(rq); rs.acts(i) {
					hlog.FromRequest(rq).UpdateContext(func(c zerolog.Context) zerolog.Context {
						c = c.Reset()
						for f := 0; f < rs.Fields; f++ {
							c = c.Str(resetKey(ri, f), resetValue(ri, f, i))
						}
						return c
					})
				}
				next.ServeHTTP(w, rq)
			})
		})
	}
	return out
}

func isoResets(c *Ctx) {
	nH := len(fieldHandlers)
	n := 0
	run := func(cfg isoCfg) {
		cfg.Seed = c.R.Fork().Next() % 65536
		isoBatch(c, cfg)
		n++
	}
	type who struct{ mod, rem int }
	for bi, base := range []string{"spare", "long", "nil"} {
		for ci, chainLen := range []int{0, 1, 2, 4} {
			chain := make([]int, chainLen)
			for j := range chain {
				chain[j] = (bi*5 + ci*3 + j*7) % nH
				if fieldHandlers[chain[j]].Name == "RequestID" {
					chain[j] = 0 // keeps the expected lines independent of generated ids in this sweep
				}
			}
			var probes []int
			for p := 0; p < chainLen; p++ {
				probes = append(probes, p)
			}
			for pos := 0; pos <= chainLen; pos++ {
				for wi, wh := range []who{{1, 0}, {2, 0}, {2, 1}, {4, 3}} {
					for mode := 0; mode < 3; mode++ {
						cfg := isoCfg{Base: base, Chain: chain, Probes: probes, N: 4 + (pos+wi)%3, Barrier: mode == 0, Sequential: mode == 2,
							Resets: []resetT{{Pos: pos, Mod: wh.mod, Rem: wh.rem, Fields: (pos + wi + mode) % 3}}}
						if (pos+wi+mode)%4 == 0 {
							cfg.After = []afterT{{Pos: 0, Access: true}}
						}
						if chainLen >= 2 && wi == 0 {
							// a second reset further in
							cfg.Resets = append(cfg.Resets, resetT{Pos: chainLen, Mod: 2, Rem: mode % 2, Fields: 1})
						}
						run(cfg)
					}
				}
			}
		}
	}
	// the ordinary random batches with reset handlers added
	nr := 40
	if c.Thorough() {
		nr = 600
	}
	for i := 0; i < nr; i++ {
		r := c.R.Fork()
		cfg := genIso(r, i%10 == 9)
		for p := 0; p <= len(cfg.Chain); p++ {
			if p == 0 && r.Chance(60) || p > 0 && r.Chance(15) || p == len(cfg.Chain) && len(cfg.Resets) == 0 {
				m := 1 + r.Intn(3)
				cfg.Resets = append(cfg.Resets, resetT{Pos: p, Mod: m, Rem: r.Intn(m), Fields: r.Intn(3)})
			}
		}
		cfg.Sequential = !cfg.Server && r.Chance(30)
		isoBatch(c, cfg)
		n++
	}
	c.Res.ExtraCoverage["iso_reset_batches"] = n
}
