package main

// C13, "however the calls are spread over goroutines" - seen from the destination.
//
// Section 3 of runC13 calls Sample on a bare BasicSampler from G goroutines.  What an application has is a Logger:
// the sampler pointer is shared by the logger given to Sample(), by every child derived with With() and by every
// copy made with Level() / Output() / Hook(), and it may sit inside a LevelSampler.  Here G goroutines log through
// such a family into one counting destination and the number of Writes must be ceil(k/N) - the share the
// statement promises for k sampled events, whatever the interleaving (the counter starts at 0, k < 2^32).
// Events the level gate rejects are mixed in: they must not consume budget (also under concurrency).

import (
	"fmt"
	"sync"
	"sync/atomic"

	"github.com/rs/zerolog"
	. "verifharness/hlib"
)

type atomicCountWriter struct{ n int64 }

func (w *atomicCountWriter) Write(p []byte) (int, error) {
	atomic.AddInt64(&w.n, 1)
	return len(p), nil
}

func concurrentThroughLoggers(c *Ctx) {
	zerolog.SetGlobalLevel(zerolog.TraceLevel)
	zerolog.DisableSampling(false)
	per := 1500
	if c.Thorough() {
		per = 20000
	}
	type family struct {
		name, src string
		mk        func(w *atomicCountWriter, n uint32) []zerolog.Logger
	}
	families := []family{
		{"one-logger", `l := New(w).Sample(&BasicSampler{N}); every goroutine uses l`, func(w *atomicCountWriter, n uint32) []zerolog.Logger {
			return []zerolog.Logger{zerolog.New(w).Sample(&zerolog.BasicSampler{N: n})}
		}},
		{"children-and-copies", `p := New(w).Sample(&BasicSampler{N}); goroutines use p, p.With().Str("c","1").Logger(), p.Level(InfoLevel), p.Output(w) in turn`, func(w *atomicCountWriter, n uint32) []zerolog.Logger {
			p := zerolog.New(w).Sample(&zerolog.BasicSampler{N: n})
			return []zerolog.Logger{p, p.With().Str("c", "1").Logger(), p.Level(zerolog.InfoLevel), p.Output(w)}
		}},
		{"inside-level-sampler", `l := New(w).Sample(LevelSampler{InfoSampler: &BasicSampler{N}}); every goroutine uses l (Info events only)`, func(w *atomicCountWriter, n uint32) []zerolog.Logger {
			return []zerolog.Logger{zerolog.New(w).Sample(zerolog.LevelSampler{InfoSampler: &zerolog.BasicSampler{N: n}})}
		}},
	}
	runs := 0
	for _, fam := range families {
		for _, G := range []int{2, 12} {
			for _, n := range []uint32{2, 3, 5} {
				w := &atomicCountWriter{}
				ls := fam.mk(w, n)
				var wg sync.WaitGroup
				start := make(chan struct{})
				for g := 0; g < G; g++ {
					wg.Add(1)
					go func(g int) {
						defer wg.Done()
						l := ls[g%len(ls)]
						gated := l.Level(zerolog.WarnLevel) // same sampler, but Info is below its level
						<-start
						for i := 0; i < per; i++ {
							l.Info().Msg("m")
							if i%4 == 0 {
								gated.Info().Msg("rejected by the level gate: must not consume budget")
							}
						}
					}(g)
				}
				close(start)
				wg.Wait()
				runs++
				got, want := int(atomic.LoadInt64(&w.n)), ceilDiv(G*per, int(n))
				if got != want {
					c.Violate(Violation{Key: "basic-concurrent-share", Monitor: "basic-concurrent-through-loggers", Desc: fmt.Sprintf("BasicSampler{N:%d} shared by %s: %d goroutines x %d Info events (plus Info events on a copy whose level is Warn): the destination received %d Writes, want ceil(%d/%d) = %d", n, fam.name, G, per, got, G*per, n, want),
						Case: map[string]interface{}{"N": n, "goroutines": G, "events_each": per, "loggers": fam.src, "each goroutine": `for i < events_each { l.Info().Msg("m"); if i%4 == 0 { l.Level(WarnLevel).Info().Msg(...) } }`}, Observed: got, Expected: want})
				}
			}
		}
	}
	c.Res.ExtraCoverage["concurrent_runs_through_loggers"] = runs
}
