package main

// C13 - samplers admit exactly the documented share.
// Correspondence: histories of (clock, level) events through a real Logger
// with a real sampler tree; the Coq model (Lts/Sampler.v run_gate) must
// predict every admit/reject decision.  Monitors (independent of the model):
// share of a fresh BasicSampler, window specification of a fresh BurstSampler,
// "who was consulted" through recording wrappers, gate-before-sampler.

import (
	"errors"
	"fmt"
	stdlog "log"
	"math"
	"strings"
	"sync"
	"time"

	"github.com/rs/zerolog"
	"verifharness/hlib"
	. "verifharness/hlib"
)

func main() { hlib.Main(map[string]func(*hlib.Ctx){"C13": runC13}) }

type SCfg struct {
	Kind    string   `json:"kind"`
	N       uint32   `json:"n,omitempty"`
	Cnt     uint32   `json:"cnt,omitempty"`
	Burst   uint32   `json:"burst,omitempty"`
	Period  int64    `json:"period,omitempty"`
	Next    *SCfg    `json:"next,omitempty"`
	ResetAt int64    `json:"reset_at,omitempty"`
	Sub     [5]*SCfg `json:"sub,omitempty"` // trace, debug, info, warn, error
}

type gateCfg struct {
	HasWriter bool  `json:"has_writer"`
	Level     int   `json:"level"`
	Global    int   `json:"global"`
	Disabled  bool  `json:"sampling_disabled"`
	Sampler   *SCfg `json:"sampler"`
	// Switch: when non-empty, the DisableSampling calls made (in this order) before the history runs; the
	// last one equals Disabled.  Only sequences on which "the last call decides" and "calls nest" agree are
	// generated (switchAdmissible), so nothing is demanded beyond "DisableSampling(true) admits everything"
	// and the samplers' documented shares.
	Switch []bool `json:"disable_sampling_calls,omitempty"`
}

// switchAdmissible: after these DisableSampling calls sampling is disabled under both readings of the
// global switch - the last call decides / true-calls nest and false undoes one (never below none) - or
// enabled under both.  Returns that common state.
func switchAdmissible(calls []bool) (disabled, ok bool) {
	if len(calls) == 0 {
		return false, false
	}
	depth := 0
	for _, v := range calls {
		if v {
			depth++
		} else if depth > 0 {
			depth--
		}
	}
	last := calls[len(calls)-1]
	return last, last == (depth > 0)
}

type ev struct {
	Now int64 `json:"now"`
	Lvl int   `json:"lvl"`
	// Entry: the entry point the event comes in through ("" = WithLevel(Lvl)); every entry point ends in
	// the same gate and sampler, so the model sees only the level the entry point stands for
	Entry string `json:"entry,omitempty"`
}

// entryLevels: every Logger entry point that ends in the sampler, with the level it creates events at
// (Fatal is left out: it ends the process; Panic runs under recover)
var entryLevels = []struct {
	name string
	lvl  int
}{{"Trace", -1}, {"Debug", 0}, {"Info", 1}, {"Warn", 2}, {"Error", 3}, {"Err(nil)", 1}, {"Err(err)", 3}, {"Panic", 5}, {"Log", 6},
	{"Print", 0}, {"Printf", 0}, {"Println", 0}, {"Write", 6}, {"Fprintf", 6}, {"stdlog", 6}}

func entriesFor(lvl int) []string {
	out := []string{""}
	for _, e := range entryLevels {
		if e.lvl == lvl {
			out = append(out, e.name)
		}
	}
	return out
}

func entryLevel(name string) (int, bool) {
	for _, e := range entryLevels {
		if e.name == name {
			return e.lvl, true
		}
	}
	return 0, false
}

var errC13 = errors.New("e")

// driverBug: an inconsistency of the driver itself (never caused by the code under test); it is the only
// panic fire lets through.
type driverBug string

// fire sends one event through its entry point; admitted = it reached the writer (for the entry points
// that hand out the event, also: the event is non-nil exactly when it is written).  Nothing the code under
// test does may stop the run: a panic out of the logger or a sampler, or an event that is handed out but
// not written exactly once, comes back as trouble (with the decision seen at the writer) and the caller
// reports it together with the history.
func fire(l *zerolog.Logger, w *countWriter, e ev) (admitted bool, trouble string) {
	if lv, ok := entryLevel(e.Entry); ok && lv != e.Lvl {
		panic(driverBug(fmt.Sprintf("driver: entry %s stands for level %d, event says %d", e.Entry, lv, e.Lvl)))
	}
	before := w.n
	defer func() {
		if r := recover(); r != nil {
			if d, ok := r.(driverBug); ok {
				panic(d)
			}
			admitted = w.n-before == 1
			trouble = fmt.Sprintf("panicked: %v", r)
		}
	}()
	var evt *zerolog.Event
	isEvt := true
	switch e.Entry {
	case "":
		evt = l.WithLevel(zerolog.Level(e.Lvl))
	case "Trace":
		evt = l.Trace()
	case "Debug":
		evt = l.Debug()
	case "Info":
		evt = l.Info()
	case "Warn":
		evt = l.Warn()
	case "Error":
		evt = l.Error()
	case "Err(nil)":
		evt = l.Err(nil)
	case "Err(err)":
		evt = l.Err(errC13)
	case "Log":
		evt = l.Log()
	default:
		isEvt = false
		switch e.Entry {
		case "Print":
			l.Print("x")
		case "Printf":
			l.Printf("%d", 1)
		case "Println":
			l.Println("x")
		case "Write":
			l.Write([]byte("x\n"))
		case "Fprintf":
			fmt.Fprintf(l, "x")
		case "stdlog":
			stdlog.New(l, "", 0).Print("x")
		case "Panic":
			func() {
				defer func() {
					// Panic()'s own panic carries the message (""); anything else (a runtime error out of a
					// sampler, say) is not the documented panic and goes on to the handler above
					if r := recover(); r != nil {
						if s, ok := r.(string); !ok || s != "" {
							panic(r)
						}
					}
				}()
				l.Panic().Msg("")
			}()
		default:
			panic(driverBug("unknown entry point " + e.Entry))
		}
	}
	written := w.n - before
	if isEvt {
		admitted = evt != nil
		evt.Msg("")
		written = w.n - before
		if admitted != (written == 1) {
			// an admitted event is written exactly once (levels here are never Disabled)
			return written == 1, fmt.Sprintf("the entry point handed out a non-nil event: %v, but the event was written %d time(s)", admitted, written)
		}
		return admitted, ""
	}
	if written > 1 {
		return true, fmt.Sprintf("one %s call wrote %d times", e.Entry, written)
	}
	return written == 1, ""
}

// fireTrouble: the first event of a history on which fire reported trouble
type fireTrouble struct {
	Index int    `json:"event_index"`
	Event ev     `json:"event"`
	What  string `json:"what"`
}

// recorder wraps a sampler and records that it was consulted (monitor only).
type recorder struct {
	inner zerolog.Sampler
	id    int
	log   *[]recCall
}
type recCall struct {
	id  int
	res bool
}

func (r recorder) Sample(l zerolog.Level) bool {
	res := r.inner.Sample(l)
	*r.log = append(*r.log, recCall{r.id, res})
	return res
}

type built struct {
	cfg  *SCfg
	s    zerolog.Sampler
	id   int
	next *built
	sub  [5]*built
}

// build constructs the real sampler; with rec != nil every node is wrapped in a recorder.
func buildSampler(c *SCfg, rec *[]recCall, ids *int) *built {
	if c == nil {
		return nil
	}
	b := &built{cfg: c, id: *ids}
	*ids++
	wrap := func(x *built) zerolog.Sampler {
		if x == nil {
			return nil
		}
		if rec != nil {
			return recorder{x.s, x.id, rec}
		}
		return x.s
	}
	switch c.Kind {
	case "basic":
		s := &zerolog.BasicSampler{N: c.N}
		if c.Cnt != 0 && !zerolog.VerifSetBasicCounter(s, c.Cnt) {
			panic("preset of a BasicSampler counter requested although presetOK is false")
		}
		b.s = s
	case "burst":
		b.next = buildSampler(c.Next, rec, ids)
		s := &zerolog.BurstSampler{Burst: c.Burst, Period: time.Duration(c.Period)}
		if b.next != nil {
			s.NextSampler = wrap(b.next)
		}
		if (c.Cnt != 0 || c.ResetAt != 0) && !zerolog.VerifSetBurstState(s, c.Cnt, c.ResetAt) {
			panic("preset of a BurstSampler state requested although presetOK is false")
		}
		b.s = s
	case "level":
		var ss [5]zerolog.Sampler
		for i := 0; i < 5; i++ {
			b.sub[i] = buildSampler(c.Sub[i], rec, ids)
			if b.sub[i] != nil {
				ss[i] = wrap(b.sub[i])
			}
		}
		b.s = zerolog.LevelSampler{TraceSampler: ss[0], DebugSampler: ss[1], InfoSampler: ss[2], WarnSampler: ss[3], ErrorSampler: ss[4]}
	}
	return b
}

func (c *SCfg) coq() string {
	if c == nil {
		return "None"
	}
	return "(Some " + c.coq1() + ")"
}
func (c *SCfg) coq1() string {
	switch c.Kind {
	case "basic":
		return fmt.Sprintf("(SBasic %d %d)", c.N, c.Cnt)
	case "burst":
		return fmt.Sprintf("(SBurst %d %s %s %d %s)", c.Burst, CoqZ(c.Period), c.Next.coq(), c.Cnt, CoqZ(c.ResetAt))
	default:
		return fmt.Sprintf("(SLevel %s %s %s %s %s)", c.Sub[0].coq(), c.Sub[1].coq(), c.Sub[2].coq(), c.Sub[3].coq(), c.Sub[4].coq())
	}
}
func (c *SCfg) shape() string {
	if c == nil {
		return "-"
	}
	switch c.Kind {
	case "basic":
		return "B"
	case "burst":
		return "U(" + c.Next.shape() + ")"
	default:
		p := []string{}
		for _, s := range c.Sub {
			p = append(p, s.shape())
		}
		return "L(" + strings.Join(p, "") + ")"
	}
}

type countWriter struct{ n int }

func (w *countWriter) Write(p []byte) (int, error) { w.n++; return len(p), nil }

var c13mu sync.Mutex
var c13now int64

// setGlobals: the two global settings are independent: whatever the order (and repetition) of the
// setter calls, what counts is the last value given to each.
func setGlobals(g gateCfg, n int) {
	if len(g.Switch) > 0 {
		if d, ok := switchAdmissible(g.Switch); !ok || d != g.Disabled {
			panic(fmt.Sprintf("driver: DisableSampling calls %v do not end in sampling_disabled=%v under both readings", g.Switch, g.Disabled))
		}
		if n%2 == 0 {
			zerolog.SetGlobalLevel(zerolog.Level(g.Global))
		}
		for _, v := range g.Switch {
			zerolog.DisableSampling(v)
		}
		zerolog.SetGlobalLevel(zerolog.Level(g.Global))
		return
	}
	switch (g.Global + n + 1000) % 3 {
	case 0:
		zerolog.SetGlobalLevel(zerolog.Level(g.Global))
		zerolog.DisableSampling(g.Disabled)
	case 1:
		zerolog.DisableSampling(g.Disabled)
		zerolog.SetGlobalLevel(zerolog.Level(g.Global))
	default:
		zerolog.DisableSampling(!g.Disabled)
		zerolog.SetGlobalLevel(zerolog.Level(g.Global ^ 1))
		zerolog.DisableSampling(g.Disabled)
		zerolog.SetGlobalLevel(zerolog.Level(g.Global))
	}
}

// runGateImpl runs the history on the real code and returns the decisions.
func runGateImpl(g gateCfg, h []ev, rec *[]recCall) ([]bool, *built, *fireTrouble) {
	ids := 0
	b := buildSampler(g.Sampler, rec, &ids)
	zerolog.TimestampFunc = func() time.Time { return time.Unix(0, c13now) }
	setGlobals(g, len(h))
	defer func() {
		zerolog.TimestampFunc = time.Now
		zerolog.SetGlobalLevel(zerolog.TraceLevel)
		resetSwitch(g)
	}()
	w := &countWriter{}
	var l zerolog.Logger
	if g.HasWriter {
		l = zerolog.New(w)
	}
	l = l.Level(zerolog.Level(g.Level))
	if b != nil {
		if rec != nil {
			l = l.Sample(recorder{b.s, b.id, rec})
		} else {
			l = l.Sample(b.s)
		}
	}
	out := make([]bool, len(h))
	var tr *fireTrouble
	for i, e := range h {
		c13now = e.Now
		var what string
		out[i], what = fire(&l, w, e)
		if what != "" && tr == nil {
			tr = &fireTrouble{i, e, what}
		}
	}
	return out, b, tr
}

// presetOK: the overlay accessors found the private counter / window fields (located by shape, see
// shim/verif_export.go).  When they did not, only fresh samplers are generated.
var presetBasicOK, presetBurstOK = true, true

func (c *SCfg) stripPresets() {
	if c == nil {
		return
	}
	if c.Kind == "basic" && !presetBasicOK {
		c.Cnt = 0
	}
	if c.Kind == "burst" && !presetBurstOK {
		c.Cnt, c.ResetAt = 0, 0
	}
	c.Next.stripPresets()
	for _, s := range c.Sub {
		s.stripPresets()
	}
}

var c13levels = []int{-128, -2, -1, 0, 1, 2, 3, 4, 5, 6, 8, 127}

func genSampler(r *Rng, depth int) *SCfg {
	k := r.Intn(10)
	if depth <= 0 && k >= 4 {
		k = r.Intn(4)
	}
	cnt := func() uint32 {
		switch r.Intn(8) {
		case 0:
			return math.MaxUint32 - uint32(r.Intn(6))
		case 1:
			return uint32(r.Intn(1000))
		default:
			return 0
		}
	}
	switch {
	case k < 4:
		ns := []uint32{0, 1, 2, 2, 3, 3, 4, 5, 7, 10, 16, 100}
		return &SCfg{Kind: "basic", N: ns[r.Intn(len(ns))], Cnt: cnt()}
	case k < 8:
		bursts := []uint32{0, 1, 1, 2, 2, 3, 5}
		periods := []int64{0, -5, 1, 5, 10, 10, 10, 100, 1000000000}
		s := &SCfg{Kind: "burst", Burst: bursts[r.Intn(len(bursts))], Period: periods[r.Intn(len(periods))], Cnt: cnt()}
		if r.Chance(70) {
			s.Next = genSampler(r, depth-1)
		}
		switch r.Intn(6) {
		case 0:
			s.ResetAt = int64(r.Intn(50))
		case 1:
			s.ResetAt = math.MaxInt64 - int64(r.Intn(20))
		}
		return s
	default:
		s := &SCfg{Kind: "level"}
		for i := 0; i < 5; i++ {
			if r.Chance(50) {
				s.Sub[i] = genSampler(r, depth-1)
			}
		}
		return s
	}
}

func genHistory(r *Rng, n int, extreme bool) []ev {
	h := make([]ev, n)
	var now int64
	if extreme {
		now = math.MaxInt64 - int64(r.Intn(40))
	}
	for i := range h {
		switch r.Intn(10) {
		case 0:
			now -= int64(r.Intn(8)) // non-monotonic clock
		case 1, 2, 3:
		// same instant
		default:
			d := int64(r.Intn(7))
			if extreme && now > math.MaxInt64-d {
				now = math.MaxInt64
			} else {
				now += d
			}
		}
		lv := 1
		if r.Chance(50) {
			lv = c13levels[r.Intn(len(c13levels))]
		}
		h[i] = ev{Now: now, Lvl: lv}
		if r.Chance(40) {
			es := entriesFor(lv)
			h[i].Entry = es[r.Intn(len(es))]
		}
	}
	return h
}

func (g gateCfg) coq() string {
	return fmt.Sprintf("{| g_has_writer := %s; g_level := %s; g_global := %s; g_sampling_disabled := %s; g_sampler := %s |}",
		CoqBool(g.HasWriter), CoqZ(int64(g.Level)), CoqZ(int64(g.Global)), CoqBool(g.Disabled), g.Sampler.coq())
}

func histCoq(h []ev) string {
	xs := make([]string, len(h))
	for i, e := range h {
		xs[i] = fmt.Sprintf("(%s,%s)", CoqZ(e.Now), CoqZ(int64(e.Lvl)))
	}
	return CoqList(xs) + "%Z"
}

func ceilDiv(k, n int) int { return (k + n - 1) / n }

// monitors: independent statement of the property on the implementation's decisions
func c13monitor(c *Ctx, g gateCfg, h []ev, got []bool) {
	// re-run with recorders to see who was consulted
	var rec []recCall
	got2, b, _ := runGateImpl(g, h, &rec)
	for i := range got {
		if got[i] != got2[i] {
			c.Violate(Violation{Key: "sampler-nondeterministic", Monitor: "determinism", Desc: "same history, different decisions with recording wrappers", Case: map[string]interface{}{"gate": g, "history": h}})
			return
		}
	}
	_ = b
	viol := func(key, mon, desc string, exp interface{}) {
		c.Violate(Violation{Key: key, Monitor: mon, Desc: desc, Case: map[string]interface{}{"gate": g, "history": h}, Observed: got, Expected: exp})
	}
	// (1) gate: level-rejected events are rejected and consult nobody; with sampling
	// disabled or no sampler, passing events are admitted.  Count consultations per event
	// by replaying event by event.
	{
		var rec1 []recCall
		ids := 0
		bb := buildSampler(g.Sampler, &rec1, &ids)
		_ = bb
	}
	// per-event consultation needs segmentation: rerun one event at a time
	var rec3 []recCall
	ids := 0
	b3 := buildSampler(g.Sampler, &rec3, &ids)
	zerolog.TimestampFunc = func() time.Time { return time.Unix(0, c13now) }
	setGlobals(g, len(h))
	var l zerolog.Logger
	w3 := &countWriter{}
	if g.HasWriter {
		l = zerolog.New(w3)
	}
	l = l.Level(zerolog.Level(g.Level))
	if b3 != nil {
		l = l.Sample(recorder{b3.s, b3.id, &rec3})
	}
	// window spec state for a fresh top-level burst sampler
	top := g.Sampler
	freshBasic := top != nil && top.Kind == "basic" && top.N >= 2 && !g.Disabled
	freshBurst := top != nil && top.Kind == "burst" && top.Burst > 0 && top.Period > 0 && top.Cnt == 0 && top.ResetAt == 0 && !g.Disabled
	var wEnd int64
	var wSeen uint64
	overflow := false
	passed := uint64(0)
	for i, e := range h {
		c13now = e.Now
		rec3 = rec3[:0]
		adm, _ := fire(&l, w3, e) // trouble is reported by emit, with the same history
		pass := g.HasWriter && e.Lvl >= g.Level && e.Lvl >= g.Global
		if !pass {
			if adm {
				viol("gate-admits-below-level", "gate", fmt.Sprintf("event %d below the level gate was admitted", i), nil)
				break
			}
			if len(rec3) != 0 {
				viol("gate-consumes-sampler", "gate-before-sampler", fmt.Sprintf("event %d rejected by the level gate consulted the sampler", i), nil)
				break
			}
			continue
		}
		if top == nil || g.Disabled {
			if !adm {
				how := ""
				if top != nil && g.Disabled {
					how = " (the logger has a sampler; sampling was switched off"
					if len(g.Switch) > 0 {
						how += fmt.Sprintf(" by the calls DisableSampling%v in this order", g.Switch)
					}
					how += ": DisableSampling(true) admits everything)"
				}
				viol("unsampled-rejected", "gate", fmt.Sprintf("event %d passes the gate, no active sampler, but was rejected", i)+how, nil)
				break
			}
			if len(rec3) != 0 {
				viol("disabled-sampling-consults", "disable-sampling", fmt.Sprintf("event %d consulted a sampler although sampling is disabled", i), nil)
				break
			}
			continue
		}
		// the top-level sampler is consulted exactly once, last in the log
		if len(rec3) == 0 || rec3[len(rec3)-1].id != 0 || rec3[len(rec3)-1].res != adm {
			viol("top-sampler-not-deciding", "gate", fmt.Sprintf("event %d: decision is not the top sampler's", i), nil)
			break
		}
		// how often the logger's sampler was consulted for this one event (reported with a share violation:
		// one event spends one slot, whichever entry point it came through)
		n0 := 0
		for _, rc := range rec3 {
			if rc.id == 0 {
				n0++
			}
		}
		via := fmt.Sprintf(" [event %d: entry %q, level %d, logger's sampler consulted %d time(s)]", i, e.Entry, e.Lvl, n0)
		if freshBasic {
			// counter preset c0: decision i (among passing events) is (c0+i) mod N == 0, valid while no wrap
			idx := uint64(top.Cnt) + passed
			if idx+1 < 1<<32 {
				want := idx%uint64(top.N) == 0
				if adm != want {
					viol("basic-share", "basic-every-nth", fmt.Sprintf("BasicSampler{N:%d}: sampled event #%d (counter %d) decided %v, want %v", top.N, passed, idx, adm, want)+via, want)
					break
				}
			} else {
				// in the wrap region; K5 is checked by the directed replay
			}
		}
		if top.Kind == "basic" && top.N == 0 && adm {
			viol("basic-zero-admits", "basic-n0", "BasicSampler{N:0} admitted an event", false)
			break
		}
		if top.Kind == "basic" && top.N == 1 && !adm {
			viol("basic-one-rejects", "basic-n1", "BasicSampler{N:1} rejected an event", true)
			break
		}
		if top.Kind == "burst" && (top.Burst == 0 || top.Period <= 0) {
			// every event goes to next; reject if none
			if top.Next == nil {
				if adm {
					viol("burst-disabled-admits", "burst-disabled", "Burst or Period zero, no NextSampler, but admitted", false)
					break
				}
			} else if len(rec3) < 2 || rec3[len(rec3)-2].id != 1 || rec3[len(rec3)-2].res != adm {
				viol("burst-disabled-next", "burst-disabled", fmt.Sprintf("event %d: Burst or Period zero but NextSampler did not decide", i), nil)
				break
			}
		}
		if freshBurst && !overflow {
			if e.Now > math.MaxInt64-top.Period {
				overflow = true // outside the property's clock range
			} else {
				if e.Now >= wEnd {
					wEnd = e.Now + top.Period
					wSeen = 1
				} else {
					wSeen++
				}
				nextCalls := 0
				var nextRes bool
				for _, rc := range rec3 {
					if rc.id == 1 {
						nextCalls++
						nextRes = rc.res
					}
				}
				if wSeen <= uint64(top.Burst) {
					if !adm || nextCalls != 0 {
						viol("burst-window", "burst-window-spec", fmt.Sprintf("event %d is number %d of its window (Burst=%d) but admitted=%v nextCalls=%d", i, wSeen, top.Burst, adm, nextCalls)+via, true)
						break
					}
				} else if top.Next == nil {
					if adm {
						viol("burst-window", "burst-window-spec", fmt.Sprintf("event %d is number %d of its window (Burst=%d), no NextSampler, but admitted", i, wSeen, top.Burst)+via, false)
						break
					}
				} else if nextCalls != 1 || nextRes != adm {
					viol("burst-window", "burst-window-spec", fmt.Sprintf("event %d beyond the burst: NextSampler calls=%d result=%v admitted=%v", i, nextCalls, nextRes, adm)+via, nil)
					break
				}
			}
		}
		if top.Kind == "level" {
			slot := -1
			switch e.Lvl {
			case -1:
				slot = 0
			case 0:
				slot = 1
			case 1:
				slot = 2
			case 2:
				slot = 3
			case 3:
				slot = 4
			}
			// ids of direct children: depth-first numbering; find consulted direct children
			direct := map[int]int{}
			id := 1
			for k := 0; k < 5; k++ {
				if top.Sub[k] != nil {
					direct[id] = k
					id += countNodes(top.Sub[k])
				}
			}
			for _, rc := range rec3 {
				if k, ok := direct[rc.id]; ok && k != slot {
					viol("level-sampler-wrong-slot", "level-sampler", fmt.Sprintf("event %d at level %d consulted the sampler of slot %d", i, e.Lvl, k), nil)
				}
			}
			if (slot < 0 || top.Sub[slot] == nil) && !adm {
				viol("level-sampler-rejects-unconfigured", "level-sampler", fmt.Sprintf("event %d at level %d has no sampler configured but was rejected", i, e.Lvl), true)
			}
		}
		passed++
	}
	zerolog.TimestampFunc = time.Now
	zerolog.SetGlobalLevel(zerolog.TraceLevel)
	resetSwitch(g)
}

// resetSwitch: back to "sampling enabled" for the next case - one false per call made, so that a case which
// exposed a defective switch does not leak its state into the cases after it.
func resetSwitch(g gateCfg) {
	for i := 0; i <= len(g.Switch)+2; i++ {
		zerolog.DisableSampling(false)
	}
}

func countNodes(c *SCfg) int {
	if c == nil {
		return 0
	}
	n := 1 + countNodes(c.Next)
	for _, s := range c.Sub {
		n += countNodes(s)
	}
	return n
}

func runC13(c *Ctx) {
	c.Res.Rule = "a case is (gate configuration incl. sampler tree with preset counters, history of (clock,level) events); bounded-exhaustive histories over a 5-point clock alphabet for small Burst/Period/N, every DisableSampling call sequence of length <= 4 (on which 'the last call decides' and 'calls nest' agree) x 6 sampler shapes; all 255 event levels (every int8 but Disabled: custom levels below Trace and above Disabled too) in rising, falling and outside-in order through 16 sampler trees (every kind, LevelSamplers on top of and behind Burst/Level nodes) and under custom logger/global levels, and Sample called on those trees directly for all 256 Level values (compared with run_sampler); a panic out of a sampler is a violation carrying the history; then seeded random trees (depth<=3) and histories (<=60 events, non-monotonic clocks, int64 extremes, counters near 2^32); non-trivial = at least one admitted and one rejected event; distinct by (tree, history) text"
	c.OpenShards("From Verif Require Import Base.Prelude Misc.Level Lts.Sampler Harness.C13H.",
		"(gate * list (Z * Z)) * list bool", "mismatches c13_run c13_eqb", 1000)
	presetBasicOK = zerolog.VerifSetBasicCounter(&zerolog.BasicSampler{}, 1)
	presetBurstOK = zerolog.VerifSetBurstState(&zerolog.BurstSampler{}, 1, 1)
	if !presetBasicOK || !presetBurstOK {
		c.Res.Broken = append(c.Res.Broken, fmt.Sprintf("sampler private state not found by shape (basic counter %v, burst counter/window %v): the model's state layout no longer matches the source; only fresh samplers are generated", presetBasicOK, presetBurstOK))
	}
	emit := func(g gateCfg, h []ev) {
		g.Sampler.stripPresets()
		got, _, tr := runGateImpl(g, h, nil)
		if tr != nil {
			reportTrouble(c, g, h, tr)
		}
		c13monitor(c, g, h, got)
		term := fmt.Sprintf("((%s, %s), %s)", g.coq(), histCoq(h), CoqBools(got))
		j := map[string]interface{}{"gate": g, "history": h, "decisions": got}
		c.AddCase(term, j)
		adm, rej := false, false
		for _, b := range got {
			if b {
				adm = true
			} else {
				rej = true
			}
		}
		c.Count(term, adm && rej)
		c.Hist("sampler_shape", g.Sampler.shape())
		c.Hist("history_len", fmt.Sprintf("%d", len(h)/10*10))
		c.Sample(j)
	}
	// corpus first: the K5 neighbourhood as an ordinary correspondence case (the model has the wrap)
	emit(gateCfg{HasWriter: true, Level: -1, Global: -1, Sampler: &SCfg{Kind: "basic", N: 3, Cnt: math.MaxUint32 - 3}},
		[]ev{{Now: 0, Lvl: 1}, {Now: 0, Lvl: 1}, {Now: 0, Lvl: 1}, {Now: 0, Lvl: 1}, {Now: 0, Lvl: 1}, {Now: 0, Lvl: 1}})

	// 1. bounded-exhaustive
	clock := []int64{0, 3, 10, 13, 20}
	maxLen := 4
	if c.Thorough() {
		maxLen = 6
	}
	var cfgs []*SCfg
	for _, burst := range []uint32{1, 2} {
		for _, period := range []int64{10} {
			cfgs = append(cfgs, &SCfg{Kind: "burst", Burst: burst, Period: period})
			cfgs = append(cfgs, &SCfg{Kind: "burst", Burst: burst, Period: period, Next: &SCfg{Kind: "basic", N: 2}})
		}
	}
	cfgs = append(cfgs, &SCfg{Kind: "burst", Burst: 1, Period: 7, Next: &SCfg{Kind: "burst", Burst: 1, Period: 13}})
	cfgs = append(cfgs, &SCfg{Kind: "burst", Burst: 0, Period: 10, Next: &SCfg{Kind: "basic", N: 3}})
	if c.Thorough() {
		cfgs = append(cfgs, &SCfg{Kind: "burst", Burst: 3, Period: 10, Next: &SCfg{Kind: "basic", N: 3}})
		cfgs = append(cfgs, &SCfg{Kind: "burst", Burst: 2, Period: 3})
	}
	exh := 0
	var rec func(h []ev, n int, f func([]ev))
	rec = func(h []ev, n int, f func([]ev)) {
		if len(h) > 0 {
			f(h)
		}
		if len(h) == n {
			return
		}
		for _, t := range clock {
			rec(append(append([]ev{}, h...), ev{Now: t, Lvl: 1}), n, f)
		}
	}
	for _, cfg := range cfgs {
		rec(nil, maxLen, func(h []ev) {
			emit(gateCfg{HasWriter: true, Level: -1, Global: -1, Sampler: cfg}, h)
			exh++
		})
	}
	for n := uint32(0); n <= 5; n++ {
		h := make([]ev, 13)
		for i := range h {
			h[i] = ev{Now: int64(i), Lvl: c13levels[i%len(c13levels)]}
		}
		emit(gateCfg{HasWriter: true, Level: -128, Global: -128, Sampler: &SCfg{Kind: "basic", N: n}}, h)
	}
	// 1b. every entry point that ends in the sampler x counting samplers: k events through one entry point
	// (and the entry point alternating with Info()) get the sampler's documented share, one slot per event
	{
		n := 0
		var scfgs []*SCfg
		for _, N := range []uint32{1, 2, 3, 5} {
			scfgs = append(scfgs, &SCfg{Kind: "basic", N: N})
		}
		for _, B := range []uint32{1, 2, 4} {
			scfgs = append(scfgs, &SCfg{Kind: "burst", Burst: B, Period: 10})
			scfgs = append(scfgs, &SCfg{Kind: "burst", Burst: B, Period: 10, Next: &SCfg{Kind: "basic", N: 2}})
		}
		ents := append([]struct {
			name string
			lvl  int
		}{{"", -1}, {"", 0}, {"", 1}, {"", 2}, {"", 3}, {"", 4}, {"", 5}, {"", 6}, {"", -3}, {"", 9}}, entryLevels...)
		for _, en := range ents {
			for _, sc := range scfgs {
				for mix := 0; mix < 2; mix++ {
					h := make([]ev, 13)
					for i := range h {
						h[i] = ev{Now: int64(i * 2), Lvl: en.lvl, Entry: en.name}
						if mix == 1 && i%2 == 1 {
							h[i] = ev{Now: int64(i * 2), Lvl: 1, Entry: "Info"}
						}
					}
					emit(gateCfg{HasWriter: true, Level: -128, Global: -128, Sampler: sc}, h)
					n++
				}
			}
			// the same under a LevelSampler (named levels only have slots)
			if en.lvl >= -1 && en.lvl <= 3 {
				ls := &SCfg{Kind: "level"}
				ls.Sub[en.lvl+1] = &SCfg{Kind: "basic", N: 3}
				h := make([]ev, 9)
				for i := range h {
					h[i] = ev{Now: int64(i), Lvl: en.lvl, Entry: en.name}
				}
				emit(gateCfg{HasWriter: true, Level: -128, Global: -128, Sampler: ls}, h)
				n++
			}
		}
		c.Res.ExtraCoverage["entry_point_histories"] = n
		c.Res.ExtraCoverage["entry_points"] = len(entryLevels) + 1
	}
	c.Res.ExtraCoverage["bounded_exhaustive_cases"] = exh
	c.Res.ExtraCoverage["bounded_exhaustive_max_len"] = maxLen

	// 1c. the global switch after a HISTORY of DisableSampling calls (not just one): every call sequence of
	// length <= 4 on which the two readings of the switch agree (see switchAdmissible) x sampler shapes that
	// reject (N=0), thin out (N=2,3), open windows (Burst) or dispatch by level; then 9 events.  Ending in
	// true: every event that passes the level gate is admitted and no sampler is consulted; ending in false:
	// the samplers' shares as everywhere else.
	{
		n := 0
		samplers := []*SCfg{
			{Kind: "basic", N: 0}, {Kind: "basic", N: 2}, {Kind: "basic", N: 3},
			{Kind: "burst", Burst: 1, Period: 10}, {Kind: "burst", Burst: 2, Period: 10, Next: &SCfg{Kind: "basic", N: 2}},
		}
		ls := &SCfg{Kind: "level"}
		ls.Sub[2] = &SCfg{Kind: "basic", N: 0}
		ls.Sub[4] = &SCfg{Kind: "burst", Burst: 1, Period: 100}
		samplers = append(samplers, ls)
		var seqs [][]bool
		for length := 1; length <= 4; length++ {
			for bits := 0; bits < 1<<uint(length); bits++ {
				calls := make([]bool, length)
				for i := range calls {
					calls[i] = bits>>uint(i)&1 == 1
				}
				if _, ok := switchAdmissible(calls); ok {
					seqs = append(seqs, calls)
				}
			}
		}
		for _, calls := range seqs {
			d, _ := switchAdmissible(calls)
			for si, sc := range samplers {
				h := make([]ev, 9)
				for i := range h {
					h[i] = ev{Now: int64(i * 3), Lvl: 1}
					if si%2 == 1 && i%3 == 2 {
						h[i] = ev{Now: int64(i * 3), Lvl: 3, Entry: "Error"}
					}
					if i == 4 {
						h[i] = ev{Now: int64(i * 3), Lvl: -1, Entry: "Trace"} // below the logger's level: never admitted
					}
				}
				emit(gateCfg{HasWriter: true, Level: 0, Global: -1, Disabled: d, Sampler: sc, Switch: calls}, h)
				n++
			}
		}
		c.Res.ExtraCoverage["disable_sampling_call_sequences"] = len(seqs)
		c.Res.ExtraCoverage["disable_sampling_sequence_cases"] = n
	}

	// 1d. all 255 event levels (custom verbosity levels below Trace and custom levels above Disabled included)
	// through sampler trees of every kind (levels_all.go)
	allLevelsThroughLogger(c, emit)

	// 2. random
	nrand := 2500
	if c.Thorough() {
		nrand = 40000
	}
	for i := 0; i < nrand; i++ {
		r := c.R.Fork()
		g := gateCfg{HasWriter: !r.Chance(4), Level: -1, Global: -1, Disabled: r.Chance(8)}
		if r.Chance(40) {
			g.Level = c13levels[r.Intn(len(c13levels))]
		}
		if r.Chance(30) {
			g.Global = c13levels[r.Intn(len(c13levels))]
		}
		if !r.Chance(5) {
			g.Sampler = genSampler(r, 3)
			g.Sampler.stripPresets()
		}
		n := 1 + r.Intn(60)
		h := genHistory(r, n, r.Chance(6))
		if r.Chance(15) {
			// the switch reached through several DisableSampling calls: random prefix, then the deciding call
			// (repeated when the state has to be reached through nested calls)
			var calls []bool
			for k := r.Intn(4); k > 0; k-- {
				calls = append(calls, r.Bool())
			}
			calls = append(calls, g.Disabled)
			for tries := 0; tries < 6; tries++ {
				if _, ok := switchAdmissible(calls); ok {
					break
				}
				calls = append(calls, g.Disabled)
			}
			if d, ok := switchAdmissible(calls); ok && d == g.Disabled {
				g.Switch = calls
			}
		}
		emit(g, h)
	}

	// 3. concurrent BasicSampler: totals for every interleaving the runtime picks
	conc := 0
	for _, G := range []int{2, 4, 16} {
		for _, n := range []uint32{2, 3, 7, 10} {
			per := 5000
			s := &zerolog.BasicSampler{N: n}
			var wg sync.WaitGroup
			var mu sync.Mutex
			total := 0
			for g := 0; g < G; g++ {
				wg.Add(1)
				go func() {
					defer wg.Done()
					k := 0
					for i := 0; i < per; i++ {
						if s.Sample(zerolog.InfoLevel) {
							k++
						}
					}
					mu.Lock()
					total += k
					mu.Unlock()
				}()
			}
			wg.Wait()
			conc++
			if total != ceilDiv(G*per, int(n)) {
				c.Violate(Violation{Key: "basic-concurrent-share", Monitor: "basic-concurrent", Desc: fmt.Sprintf("BasicSampler{N:%d} over %d goroutines x %d calls admitted %d, want %d", n, G, per, total, ceilDiv(G*per, int(n))),
					Case: map[string]interface{}{"N": n, "goroutines": G, "calls_each": per}, Observed: total, Expected: ceilDiv(G*per, int(n))})
			}
		}
	}
	c.Res.ExtraCoverage["concurrent_runs"] = conc
	concurrentThroughLoggers(c) // concurrent_more.go: the same share seen from the destination of a family of loggers

	// 4. K5 directed replay on the real code
	{
		s := &zerolog.BasicSampler{N: 3}
		var got []bool
		if c.Thorough() {
			// really make 2^32-4 calls from a fresh counter
			for i := uint64(0); i < (1<<32)-4; i++ {
				s.Sample(zerolog.InfoLevel)
			}
			c.Res.ExtraCoverage["k5_real_calls"] = uint64(1<<32) - 4
		} else if !zerolog.VerifSetBasicCounter(s, math.MaxUint32-3) {
			c.Note("K5 quick replay skipped: BasicSampler counter not found")
		}
		for i := 0; i < 5; i++ {
			got = append(got, s.Sample(zerolog.InfoLevel))
		}
		if fmt.Sprint(got) == "[true false false false true]" {
			c.Violate(Violation{Key: "basic-sampler-wrap", Monitor: "k5-directed-replay", Desc: "BasicSampler{N:3}: at the uint32 counter wrap three events are rejected between two admissions (calls 2^32-4 .. 2^32)",
				Case: map[string]interface{}{"N": 3, "counter_before": uint32(math.MaxUint32 - 3), "calls": 5}, Observed: got, Expected: []bool{true, false, false, true, false}})
		} else {
			c.Note("K5 witness did not reproduce: got %v", got)
		}
	}

	// 5. Sample called on the sampler trees themselves for all 256 Level values (second shard stream)
	allLevelsDirect(c)
}
