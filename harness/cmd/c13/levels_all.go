package main

// C13, every level value - not only the named ones - through every sampler kind.
//
// Level is an int8: besides Trace..Panic, NoLevel and Disabled there are custom verbosity levels below
// TraceLevel (-2, -3, ... -128) and custom levels above Disabled (8 ... 127).  "LevelSampler consults only the
// sampler configured for the event's level and admits levels without one", and BasicSampler / BurstSampler
// count events whatever their level.  A sampler that panics on a level neither admits nor rejects it: that is
// reported as a violation with the history that led to it (seeded change C13-9: LevelSampler as an indexed
// table without a lower bound), never as a crash of the driver.
//
//  allLevelsThroughLogger: histories that walk over all 255 levels an event can have (Disabled is not an
//      event level: WithLevel(Disabled) never reaches the gate) in rising, falling and alternating order,
//      through a logger whose own and global level are -128, for sampler trees of every kind with
//      LevelSamplers at the top and behind BurstSampler / LevelSampler nodes.  Ordinary emit cases: the
//      model and every monitor of c13monitor see them.
//  allLevelsDirect: Sample(l) called on the sampler tree itself for all 256 Level values; compared with
//      Lts/Sampler.v run_sampler (second shard stream) and judged by the same clauses.

import (
	"fmt"
	"time"

	"github.com/rs/zerolog"
	. "verifharness/hlib"
)

func reportTrouble(c *Ctx, g gateCfg, h []ev, tr *fireTrouble) {
	key, mon := "sampler-panics", "no-panic-on-any-level"
	desc := fmt.Sprintf("event %d (entry %q, level %d) %s; every sampled event is either admitted or rejected, and a LevelSampler admits a level it has no sampler for", tr.Index, tr.Event.Entry, tr.Event.Lvl, tr.What)
	if len(tr.What) < 9 || tr.What[:9] != "panicked:" {
		key, mon = "admitted-not-written-once", "admitted-iff-written"
		desc = fmt.Sprintf("event %d (entry %q, level %d): %s", tr.Index, tr.Event.Entry, tr.Event.Lvl, tr.What)
	}
	hh := h
	if len(hh) > tr.Index+1 {
		hh = hh[:tr.Index+1] // the events after the failing one add nothing
	}
	c.Violate(Violation{Key: key, Monitor: mon, Desc: desc, Case: map[string]interface{}{"gate": g, "history": hh, "failing_event": tr}, Observed: tr.What, Expected: "admitted or rejected, no panic"})
}

func basicCfg(n uint32) *SCfg { return &SCfg{Kind: "basic", N: n} }

func levelCfg(subs ...*SCfg) *SCfg {
	s := &SCfg{Kind: "level"}
	copy(s.Sub[:], subs)
	return s
}

// every sub-tree must be a fresh value (presets are stripped in place, ids are positional)
func allLevelShapes() []*SCfg {
	five := func(n uint32) *SCfg { return levelCfg(basicCfg(n), basicCfg(n), basicCfg(n), basicCfg(n), basicCfg(n)) }
	return []*SCfg{
		basicCfg(0), basicCfg(1), basicCfg(2), basicCfg(3),
		{Kind: "burst", Burst: 1, Period: 10},
		{Kind: "burst", Burst: 2, Period: 10, Next: basicCfg(2)},
		levelCfg(), // no level has a sampler: everything is admitted
		five(0),    // the five named levels rejected, every other level admitted
		five(1),    // everything admitted
		five(2),    // per-level counters
		levelCfg(basicCfg(2), nil, nil, nil, basicCfg(3)),
		levelCfg(nil, basicCfg(0), nil, basicCfg(2), nil),
		{Kind: "burst", Burst: 0, Period: 10, Next: five(0)}, // every event handed to a LevelSampler
		{Kind: "burst", Burst: 1, Period: 1000, Next: levelCfg(nil, nil, basicCfg(2), nil, nil)},
		levelCfg(nil, levelCfg(nil, basicCfg(2), nil, nil, nil), levelCfg(basicCfg(0), nil, nil, nil, nil), nil, nil), // LevelSampler inside LevelSampler (the inner one of slot Info never sees its own slot's level)
		levelCfg(nil, nil, &SCfg{Kind: "burst", Burst: 1, Period: 5, Next: five(0)}, nil, nil),
	}
}

// level orders over all 256 values: rising, falling, and from the outside in (-128, 127, -127, 126, ...)
func levelOrders() [][]int {
	var up, down, mix []int
	for l := -128; l <= 127; l++ {
		up = append(up, l)
		down = append(down, -l-1)
	}
	for i := 0; i < 128; i++ {
		mix = append(mix, -128+i, 127-i)
	}
	return [][]int{up, down, mix}
}

func allLevelsThroughLogger(c *Ctx, emit func(g gateCfg, h []ev)) {
	n := 0
	for oi, order := range levelOrders() {
		for _, sc := range allLevelShapes() {
			var h []ev
			for i, l := range order {
				if l == 7 {
					continue // Disabled is not an event level
				}
				e := ev{Now: int64(i / 3), Lvl: l}
				if oi == 1 {
					// the named levels through their own methods
					for _, en := range entryLevels {
						switch en.name {
						case "Trace", "Debug", "Info", "Warn", "Error", "Panic", "Log":
							if en.lvl == l {
								e.Entry = en.name
							}
						}
					}
				}
				h = append(h, e)
			}
			emit(gateCfg{HasWriter: true, Level: -128, Global: -128, Sampler: sc}, h)
			n++
		}
	}
	// the same levels when the logger's own level or the global level is a custom level: events below are
	// rejected by the gate (and consult nobody), events at or above reach the sampler
	for _, lg := range [][2]int{{-3, -128}, {-128, -2}, {-2, 8}, {100, -128}} {
		for _, sc := range []*SCfg{levelCfg(), levelCfg(basicCfg(0), basicCfg(0), basicCfg(0), basicCfg(0), basicCfg(0)), basicCfg(2)} {
			var h []ev
			for i, l := range levelOrders()[2] {
				if l != 7 {
					h = append(h, ev{Now: int64(i), Lvl: l})
				}
			}
			emit(gateCfg{HasWriter: true, Level: lg[0], Global: lg[1], Sampler: sc}, h)
			n++
		}
	}
	c.Res.ExtraCoverage["all_level_histories_through_logger"] = n
}

// allLevelsDirect opens its own shard stream: call it after the gate cases.
func allLevelsDirect(c *Ctx) {
	c.OpenShards("From Verif Require Import Base.Prelude Misc.Level Lts.Sampler Harness.C13H.",
		"(sampler * list (Z * Z)) * list bool", "mismatches c13s_run c13_eqb", 1000)
	zerolog.TimestampFunc = func() time.Time { return time.Unix(0, c13now) }
	defer func() { zerolog.TimestampFunc = time.Now }()
	n := 0
	for oi, order := range levelOrders() {
		for _, sc := range allLevelShapes() {
			sc.stripPresets()
			var rec []recCall
			ids := 0
			b := buildSampler(sc, &rec, &ids)
			// direct children of a top-level LevelSampler, by recorder id (depth-first numbering)
			direct := map[int]int{}
			if sc.Kind == "level" {
				id := 1
				for k := 0; k < 5; k++ {
					if sc.Sub[k] != nil {
						direct[id] = k
						id += countNodes(sc.Sub[k])
					}
				}
			}
			h := make([]ev, len(order))
			got := make([]bool, len(order))
			reported := false
			for i, l := range order {
				h[i] = ev{Now: int64(i / 3), Lvl: l}
				c13now = h[i].Now
				rec = rec[:0]
				var pan interface{}
				func() {
					defer func() { pan = recover() }()
					got[i] = b.s.Sample(zerolog.Level(l))
				}()
				if reported {
					continue
				}
				cs := map[string]interface{}{"sampler": sc, "calls": "Sample(Level(l)) on the sampler itself, for l in this order", "levels": order[:i+1]}
				switch {
				case pan != nil:
					reported = true
					c.Violate(Violation{Key: "sampler-panics", Monitor: "no-panic-on-any-level", Desc: fmt.Sprintf("call %d: Sample(%d) on %s panicked: %v; every sampled event is either admitted or rejected, and a LevelSampler admits a level it has no sampler for", i, l, sc.shape(), pan), Case: cs, Observed: fmt.Sprint(pan), Expected: "admitted or rejected, no panic"})
				case sc.Kind == "level":
					slot := -1
					if l >= -1 && l <= 3 {
						slot = l + 1
					}
					for _, rc := range rec {
						if k, ok := direct[rc.id]; ok && k != slot {
							reported = true
							c.Violate(Violation{Key: "level-sampler-wrong-slot", Monitor: "level-sampler", Desc: fmt.Sprintf("call %d: Sample(%d) on a LevelSampler consulted the sampler of slot %d", i, l, k), Case: cs})
						}
					}
					if (slot < 0 || sc.Sub[slot] == nil) && !got[i] {
						reported = true
						c.Violate(Violation{Key: "level-sampler-rejects-unconfigured", Monitor: "level-sampler", Desc: fmt.Sprintf("call %d: level %d has no sampler configured but Sample returned false", i, l), Case: cs, Observed: false, Expected: true})
					}
				case sc.Kind == "basic":
					want := sc.N == 1 || (sc.N >= 2 && i%int(sc.N) == 0)
					if got[i] != want {
						reported = true
						c.Violate(Violation{Key: "basic-share", Monitor: "basic-every-nth", Desc: fmt.Sprintf("BasicSampler{N:%d}: call %d, Sample(%d), decided %v, want %v (the level plays no part)", sc.N, i, l, got[i], want), Case: cs, Observed: got[i], Expected: want})
					}
				}
			}
			term := fmt.Sprintf("((%s, %s), %s)", sc.coq1(), histCoq(h), CoqBools(got))
			c.AddCase(term, map[string]interface{}{"sampler": sc, "direct_sample_calls": h, "decisions": got})
			adm, rej := false, false
			for _, x := range got {
				adm = adm || x
				rej = rej || !x
			}
			c.Count(fmt.Sprintf("direct order %d %s", oi, term), adm && rej)
			c.Hist("sampler_shape", sc.shape())
			n++
		}
	}
	c.Res.ExtraCoverage["all_level_direct_histories"] = n
	c.Res.ExtraCoverage["levels_per_all_level_history"] = 256
}
