// go2coq: regenerates the tabular part of the Coq model from the repository's
// working tree.  Standard library only.  Unrecognised shapes are emitted as
// BOpaque / GNoGuard entries, never guessed; the Coq obligations over the
// tables (coq/Proofs/Gen*P.v) then fail.
//
//	go2coq -repo /repo -out <dir>
//
// writes EventMethods.v, ContextMethods.v, ArrayMethods.v, FieldsCases.v,
// Consts.v, LevelGate.v.
package main

import (
	"bytes"
	"flag"
	"fmt"
	"go/ast"
	"go/parser"
	"go/printer"
	"go/token"
	"os"
	"path/filepath"
	"sort"
	"strconv"
	"strings"
)

var fset = token.NewFileSet()

func src(n ast.Node) string {
	var b bytes.Buffer
	printer.Fprint(&b, fset, n)
	return strings.Join(strings.Fields(b.String()), " ")
}

func coqStr(s string) string { return "\"" + strings.ReplaceAll(s, "\"", "\"\"") + "\"" }

func coqStrList(xs []string) string {
	ys := make([]string, len(xs))
	for i, x := range xs {
		ys[i] = coqStr(x)
	}
	return "[" + strings.Join(ys, "; ") + "]"
}

func parseFile(repo, name string) *ast.File {
	f, err := parser.ParseFile(fset, filepath.Join(repo, name), nil, parser.ParseComments)
	if err != nil {
		fmt.Fprintf(os.Stderr, "go2coq: %v\n", err)
		os.Exit(1)
	}
	return f
}

type method struct {
	name   string
	params [][2]string // name, type
	guard  string
	body   string
	pos    string
}

func recvName(fd *ast.FuncDecl) (string, string) {
	if fd.Recv == nil || len(fd.Recv.List) == 0 {
		return "", ""
	}
	f := fd.Recv.List[0]
	nm := ""
	if len(f.Names) > 0 {
		nm = f.Names[0].Name
	}
	return nm, src(f.Type)
}

func params(fd *ast.FuncDecl) [][2]string {
	var ps [][2]string
	for _, f := range fd.Type.Params.List {
		t := src(f.Type)
		if len(f.Names) == 0 {
			ps = append(ps, [2]string{"_", t})
		}
		for _, n := range f.Names {
			ps = append(ps, [2]string{n.Name, t})
		}
	}
	return ps
}

// isNilCheck: `recv == nil`
func isNilEq(e ast.Expr, recv string, op token.Token) bool {
	b, ok := e.(*ast.BinaryExpr)
	if !ok || b.Op != op {
		return false
	}
	x, ok1 := b.X.(*ast.Ident)
	y, ok2 := b.Y.(*ast.Ident)
	return ok1 && ok2 && x.Name == recv && y.Name == "nil"
}

// usesRecv reports whether the node dereferences the receiver (selector recv.x)
func usesRecv(n ast.Node, recv string) bool {
	found := false
	ast.Inspect(n, func(m ast.Node) bool {
		if s, ok := m.(*ast.SelectorExpr); ok {
			if id, ok := s.X.(*ast.Ident); ok && id.Name == recv {
				found = true
			}
		}
		return true
	})
	return found
}

// the nil branch may only return and give pooled arguments back
func nilBranchOK(b *ast.BlockStmt, recv string) bool {
	if len(b.List) == 0 {
		return false
	}
	if _, ok := b.List[len(b.List)-1].(*ast.ReturnStmt); !ok {
		return false
	}
	for _, s := range b.List[:len(b.List)-1] {
		txt := src(s)
		if usesRecv(s, recv) {
			return false
		}
		if !(strings.Contains(txt, "putEvent(") || strings.Contains(txt, "putArray(")) {
			return false
		}
	}
	return true
}

func guardOf(fd *ast.FuncDecl, recv string) (string, []ast.Stmt) {
	body := fd.Body.List
	if len(body) == 0 {
		return "GNoGuard", body
	}
	// if recv == nil { return ... } first
	if is, ok := body[0].(*ast.IfStmt); ok && is.Init == nil && is.Else == nil && isNilEq(is.Cond, recv, token.EQL) && nilBranchOK(is.Body, recv) {
		return "GNilReturn", body[1:]
	}
	// if recv != nil [&& ...] { ... } ; return recv
	if len(body) == 2 {
		if is, ok := body[0].(*ast.IfStmt); ok && is.Init == nil && is.Else == nil {
			c := is.Cond
			if b, ok := c.(*ast.BinaryExpr); ok && b.Op == token.LAND {
				c = b.X
			}
			if isNilEq(c, recv, token.NEQ) {
				if r, ok := body[1].(*ast.ReturnStmt); ok && len(r.Results) == 1 && src(r.Results[0]) == recv {
					return "GNilSkip", body
				}
			}
		}
	}
	// a body whose first use of the receiver is guarded inside a boolean expression: `return e != nil && ...`
	if len(body) == 1 {
		if r, ok := body[0].(*ast.ReturnStmt); ok && len(r.Results) == 1 {
			if b, ok := r.Results[0].(*ast.BinaryExpr); ok && b.Op == token.LAND && isNilEq(b.X, recv, token.NEQ) {
				return "GNilSafeExpr", body
			}
		}
	}
	// `if e == nil || ... { return <no recv> }` first (GetCtx)
	if is, ok := body[0].(*ast.IfStmt); ok && is.Init == nil && is.Else == nil {
		if b, ok := is.Cond.(*ast.BinaryExpr); ok && b.Op == token.LOR && isNilEq(b.X, recv, token.EQL) && len(is.Body.List) == 1 {
			if r, ok := is.Body.List[0].(*ast.ReturnStmt); ok && !usesRecv(r, recv) {
				return "GNilSafeExpr", body
			}
		}
	}
	// delegation: nothing dereferences the receiver except a final `return recv.M(...)`
	last := body[len(body)-1]
	if r, ok := last.(*ast.ReturnStmt); ok && len(r.Results) == 1 {
		if call, ok := r.Results[0].(*ast.CallExpr); ok {
			if sel, ok := call.Fun.(*ast.SelectorExpr); ok {
				if id, ok := sel.X.(*ast.Ident); ok && id.Name == recv {
					clean := true
					for _, s := range body[:len(body)-1] {
						if usesRecv(s, recv) {
							clean = false
						}
					}
					for _, a := range call.Args {
						if usesRecv(a, recv) {
							clean = false
						}
					}
					if clean {
						return "(GDelegates " + coqStr(sel.Sel.Name) + ")", body
					}
				}
			}
		}
	}
	return "GNoGuard", body
}

// keyPrim recognises  <buf> = enc.AppendX(enc.AppendKey(<buf>, K), args...) ; return recv
// or (arrays)        <buf> = enc.AppendX(enc.AppendArrayDelim(<buf>), args...) ; return recv
func keyPrim(rest []ast.Stmt, recv, buf, inner string) string {
	if len(rest) != 2 {
		return "BSpecial"
	}
	as, ok := rest[0].(*ast.AssignStmt)
	if !ok || len(as.Lhs) != 1 || len(as.Rhs) != 1 || src(as.Lhs[0]) != buf {
		return "BSpecial"
	}
	r, ok := rest[1].(*ast.ReturnStmt)
	if !ok || len(r.Results) != 1 || src(r.Results[0]) != recv {
		return "BSpecial"
	}
	call, ok := as.Rhs[0].(*ast.CallExpr)
	if !ok {
		return "BSpecial"
	}
	fn := src(call.Fun)
	if len(call.Args) < 1 {
		return "BSpecial"
	}
	innerCall, ok := call.Args[0].(*ast.CallExpr)
	if !ok || src(innerCall.Fun) != "enc."+inner || len(innerCall.Args) < 1 || src(innerCall.Args[0]) != buf {
		return "BSpecial"
	}
	key := ""
	if inner == "AppendKey" {
		if len(innerCall.Args) != 2 {
			return "BSpecial"
		}
		key = src(innerCall.Args[1])
	}
	var args []string
	for _, a := range call.Args[1:] {
		args = append(args, src(a))
	}
	prim := strings.TrimPrefix(fn, "enc.")
	return fmt.Sprintf("(BKeyPrim %s %s %s)", coqStr(prim), coqStr(key), coqStrList(args))
}

func emitMethods(out, file, defname string, ms []method) {
	var b strings.Builder
	b.WriteString("(* GENERATED by go2coq from the working tree - do not edit, never committed *)\n")
	b.WriteString("From Coq Require Import String List.\nFrom Verif Require Import Misc.GenTypes.\nImport ListNotations.\nLocal Open Scope string_scope.\n\n")
	b.WriteString("Definition " + defname + " : list method := [\n")
	for i, m := range ms {
		ps := make([]string, len(m.params))
		for j, p := range m.params {
			ps[j] = "(" + coqStr(p[0]) + ", " + coqStr(p[1]) + ")"
		}
		sep := ";"
		if i == len(ms)-1 {
			sep = ""
		}
		fmt.Fprintf(&b, "  {| m_name := %s; m_params := [%s]; m_guard := %s; m_body := %s |}%s (* %s *)\n",
			coqStr(m.name), strings.Join(ps, "; "), m.guard, m.body, sep, m.pos)
	}
	b.WriteString("].\n")
	os.WriteFile(filepath.Join(out, file), []byte(b.String()), 0o644)
}

func collect(f *ast.File, recvType, buf, inner string, guarded bool) []method {
	var ms []method
	for _, d := range f.Decls {
		fd, ok := d.(*ast.FuncDecl)
		if !ok || fd.Body == nil {
			continue
		}
		rn, rt := recvName(fd)
		if rt != recvType {
			continue
		}
		m := method{name: fd.Name.Name, params: params(fd), pos: fset.Position(fd.Pos()).String()}
		rest := fd.Body.List
		if guarded {
			if rn == "" {
				m.guard = "GNilSafeExpr" // receiver unnamed: cannot be dereferenced
			} else {
				m.guard, rest = guardOf(fd, rn)
			}
			if m.guard == "GNilReturn" {
				m.body = keyPrim(rest, rn, rn+"."+buf, inner)
			} else {
				m.body = "BSpecial"
			}
		} else {
			m.guard = "GNoGuard"
			if rn == "" {
				m.body = "BSpecial"
			} else {
				m.body = keyPrim(fd.Body.List, rn, rn+"."+buf, inner)
			}
		}
		ms = append(ms, m)
	}
	sort.SliceStable(ms, func(i, j int) bool { return ms[i].name < ms[j].name })
	return ms
}

// ---- Fields type switch ----
type fcase struct {
	typ, call, nilguard, pos string
}

func fieldsCases(f *ast.File) []fcase {
	var out []fcase
	for _, d := range f.Decls {
		fd, ok := d.(*ast.FuncDecl)
		if !ok || fd.Name.Name != "appendFieldList" {
			continue
		}
		ast.Inspect(fd.Body, func(n ast.Node) bool {
			ts, ok := n.(*ast.TypeSwitchStmt)
			if !ok {
				return true
			}
			if !strings.Contains(src(ts.Assign), "val.(type)") {
				return true
			}
			for _, c := range ts.Body.List {
				cc := c.(*ast.CaseClause)
				for _, t := range cc.List {
					fc := fcase{typ: src(t), pos: fset.Position(cc.Pos()).String()}
					// simple case: single statement `dst = enc.AppendX(dst, args)`
					if len(cc.Body) == 1 {
						if as, ok := cc.Body[0].(*ast.AssignStmt); ok && len(as.Rhs) == 1 {
							if call, ok := as.Rhs[0].(*ast.CallExpr); ok {
								fc.call = src(call.Fun)
								var args []string
								for _, a := range call.Args[1:] {
									args = append(args, src(a))
								}
								fc.call += "(" + strings.Join(args, ",") + ")"
							}
						}
						// pointer case: if val != nil { dst = enc.AppendX(dst, *val) } else { dst = enc.AppendNil(dst) }
						if is, ok := cc.Body[0].(*ast.IfStmt); ok && is.Else != nil && src(is.Cond) == "val != nil" && len(is.Body.List) == 1 {
							if as, ok := is.Body.List[0].(*ast.AssignStmt); ok && len(as.Rhs) == 1 {
								if call, ok := as.Rhs[0].(*ast.CallExpr); ok {
									var args []string
									for _, a := range call.Args[1:] {
										args = append(args, src(a))
									}
									fc.call = src(call.Fun) + "(" + strings.Join(args, ",") + ")"
									fc.nilguard = src(is.Else)
								}
							}
						}
					}
					if fc.call == "" {
						fc.call = "special"
					}
					out = append(out, fc)
				}
				if len(cc.List) == 0 {
					body := ""
					if len(cc.Body) == 1 {
						body = src(cc.Body[0])
					}
					out = append(out, fcase{typ: "default", call: body, pos: fset.Position(cc.Pos()).String()})
				}
			}
			return false
		})
	}
	return out
}

// ---- constants ----
func levelConsts(f *ast.File) (map[string]int64, []string) {
	vals := map[string]int64{}
	var order []string
	for _, d := range f.Decls {
		gd, ok := d.(*ast.GenDecl)
		if !ok || gd.Tok != token.CONST {
			continue
		}
		isLevel := false
		iota := int64(0)
		var lastExpr ast.Expr
		for _, s := range gd.Specs {
			vs := s.(*ast.ValueSpec)
			if vs.Type != nil && src(vs.Type) == "Level" {
				isLevel = true
			}
			if !isLevel {
				break
			}
			if len(vs.Values) > 0 {
				lastExpr = vs.Values[0]
			}
			v, ok := evalConst(lastExpr, iota)
			if ok {
				vals[vs.Names[0].Name] = v
				order = append(order, vs.Names[0].Name)
			}
			iota++
		}
	}
	return vals, order
}

func evalConst(e ast.Expr, iota int64) (int64, bool) {
	switch x := e.(type) {
	case *ast.Ident:
		if x.Name == "iota" {
			return iota, true
		}
	case *ast.BasicLit:
		v, err := strconv.ParseInt(x.Value, 0, 64)
		return v, err == nil
	case *ast.UnaryExpr:
		v, ok := evalConst(x.X, iota)
		if x.Op == token.SUB {
			return -v, ok
		}
		return v, ok
	case *ast.ParenExpr:
		return evalConst(x.X, iota)
	case *ast.BinaryExpr:
		a, ok1 := evalConst(x.X, iota)
		b, ok2 := evalConst(x.Y, iota)
		if !ok1 || !ok2 {
			return 0, false
		}
		switch x.Op {
		case token.ADD:
			return a + b, true
		case token.SUB:
			return a - b, true
		case token.MUL:
			return a * b, true
		case token.SHL:
			return a << uint(b), true
		}
	}
	return 0, false
}

// top-level `var/const NAME = <literal>` anywhere in the given files
func topLevelValues(files []*ast.File) map[string]string {
	m := map[string]string{}
	for _, f := range files {
		ast.Inspect(f, func(n ast.Node) bool {
			vs, ok := n.(*ast.ValueSpec)
			if !ok {
				return true
			}
			for i, nm := range vs.Names {
				if i < len(vs.Values) {
					m[nm.Name] = src(vs.Values[i])
				}
			}
			return true
		})
	}
	return m
}

// ---- function bodies as normalised statement lists (shape obligations) ----
func funcStmts(f *ast.File, recvType, name string) []string {
	for _, d := range f.Decls {
		fd, ok := d.(*ast.FuncDecl)
		if !ok || fd.Name.Name != name || fd.Body == nil {
			continue
		}
		_, rt := recvName(fd)
		if rt != recvType {
			continue
		}
		var out []string
		for _, s := range fd.Body.List {
			out = append(out, src(s))
		}
		return out
	}
	return nil
}

// fields of a struct type declaration
func structFields(f *ast.File, name string) []string {
	var out []string
	ast.Inspect(f, func(n ast.Node) bool {
		ts, ok := n.(*ast.TypeSpec)
		if !ok || ts.Name.Name != name {
			return true
		}
		st, ok := ts.Type.(*ast.StructType)
		if !ok {
			return true
		}
		for _, fl := range st.Fields.List {
			for _, nm := range fl.Names {
				out = append(out, nm.Name)
			}
		}
		return false
	})
	return out
}

// fields X of variable v that are the target of an assignment `v.X = ...` anywhere in the function (unconditionally
// or under a guard that only skips copying a nil/empty source: both are recorded, the guard text separately)
func assignedFields(f *ast.File, recvType, fn, v string) (uncond []string, guarded []string) {
	for _, d := range f.Decls {
		fd, ok := d.(*ast.FuncDecl)
		if !ok || fd.Name.Name != fn || fd.Body == nil {
			continue
		}
		_, rt := recvName(fd)
		if rt != recvType {
			continue
		}
		collect := func(stmts []ast.Stmt, dst *[]string) {
			for _, s := range stmts {
				as, ok := s.(*ast.AssignStmt)
				if !ok {
					continue
				}
				for _, l := range as.Lhs {
					if sel, ok := l.(*ast.SelectorExpr); ok {
						if id, ok := sel.X.(*ast.Ident); ok && id.Name == v {
							*dst = append(*dst, sel.Sel.Name)
						}
					}
				}
			}
		}
		collect(fd.Body.List, &uncond)
		for _, s := range fd.Body.List {
			if is, ok := s.(*ast.IfStmt); ok && is.Else == nil {
				var g []string
				collect(is.Body.List, &g)
				for _, x := range g {
					guarded = append(guarded, x+" if "+src(is.Cond))
				}
			}
		}
	}
	return
}

func main() {
	repo := flag.String("repo", "/repo", "repository")
	out := flag.String("out", "", "output directory")
	flag.Parse()
	if *out == "" {
		fmt.Fprintln(os.Stderr, "go2coq: -out required")
		os.Exit(2)
	}
	os.MkdirAll(*out, 0o755)
	event := parseFile(*repo, "event.go")
	context := parseFile(*repo, "context.go")
	array := parseFile(*repo, "array.go")
	fields := parseFile(*repo, "fields.go")
	logf := parseFile(*repo, "log.go")
	globals := parseFile(*repo, "globals.go")
	writer := parseFile(*repo, "writer.go")
	go112 := parseFile(*repo, "go112.go")

	em := collect(event, "*Event", "buf", "AppendKey", true)
	emitMethods(*out, "EventMethods.v", "event_methods", em)
	cm := collect(context, "Context", "l.context", "AppendKey", false)
	emitMethods(*out, "ContextMethods.v", "context_methods", cm)
	am := collect(array, "*Array", "buf", "AppendArrayDelim", false)
	emitMethods(*out, "ArrayMethods.v", "array_methods", am)

	// Fields cases
	fcs := fieldsCases(fields)
	{
		var b strings.Builder
		b.WriteString("(* GENERATED by go2coq from the working tree - do not edit, never committed *)\nFrom Coq Require Import String List.\nFrom Verif Require Import Misc.GenTypes.\nImport ListNotations.\nLocal Open Scope string_scope.\n\n")
		b.WriteString("Definition fields_cases : list fcase := [\n")
		for i, c := range fcs {
			sep := ";"
			if i == len(fcs)-1 {
				sep = ""
			}
			fmt.Fprintf(&b, "  {| fc_type := %s; fc_call := %s; fc_nil := %s |}%s (* %s *)\n", coqStr(c.typ), coqStr(c.call), coqStr(c.nilguard), sep, c.pos)
		}
		b.WriteString("].\n")
		os.WriteFile(filepath.Join(*out, "FieldsCases.v"), []byte(b.String()), 0o644)
	}

	// Consts
	{
		vals, order := levelConsts(logf)
		tl := topLevelValues([]*ast.File{globals, event, array, context, writer, logf, go112})
		var b strings.Builder
		b.WriteString("(* GENERATED by go2coq from the working tree - do not edit, never committed *)\nFrom Coq Require Import String List ZArith.\nImport ListNotations.\nLocal Open Scope string_scope.\n\n")
		b.WriteString("Definition level_consts : list (string * Z) := [\n")
		for i, n := range order {
			sep := ";"
			if i == len(order)-1 {
				sep = ""
			}
			fmt.Fprintf(&b, "  (%s, (%d)%%Z)%s\n", coqStr(n), vals[n], sep)
		}
		b.WriteString("].\n\n")
		names := []string{"LevelTraceValue", "LevelDebugValue", "LevelInfoValue", "LevelWarnValue", "LevelErrorValue", "LevelFatalValue", "LevelPanicValue",
			"TimestampFieldName", "LevelFieldName", "MessageFieldName", "ErrorFieldName", "CallerFieldName", "ErrorStackFieldName",
			"CallerSkipFrameCount", "contextCallerSkipFrameCount", "TriggerLevelWriterBufferReuseLimit", "FloatingPointPrecision", "DurationFieldInteger", "TimeFieldFormat", "DurationFieldUnit"}
		b.WriteString("Definition global_defaults : list (string * string) := [\n")
		for i, n := range names {
			sep := ";"
			if i == len(names)-1 {
				sep = ""
			}
			v, ok := tl[n]
			if !ok {
				v = "<missing>"
			}
			fmt.Fprintf(&b, "  (%s, %s)%s\n", coqStr(n), coqStr(v), sep)
		}
		b.WriteString("].\n")
		os.WriteFile(filepath.Join(*out, "Consts.v"), []byte(b.String()), 0o644)
	}

	// LevelGate: normalised statements of should / newEvent / WithLevel / write
	{
		var b strings.Builder
		b.WriteString("(* GENERATED by go2coq from the working tree - do not edit, never committed *)\nFrom Coq Require Import String List.\nImport ListNotations.\nLocal Open Scope string_scope.\n\n")
		emit := func(def string, stmts []string) {
			b.WriteString("Definition " + def + " : list string := " + coqStrList(stmts) + ".\n")
		}
		emit("should_stmts", funcStmts(logf, "*Logger", "should"))
		emit("logger_newEvent_stmts", funcStmts(logf, "*Logger", "newEvent"))
		emit("withlevel_stmts", funcStmts(logf, "*Logger", "WithLevel"))
		emit("event_write_stmts", funcStmts(event, "*Event", "write"))
		emit("fatal_stmts", funcStmts(logf, "*Logger", "Fatal"))
		emit("panic_stmts", funcStmts(logf, "*Logger", "Panic"))
		os.WriteFile(filepath.Join(*out, "LevelGate.v"), []byte(b.String()), 0o644)
	}
	// Structs.v: which fields of Event / Logger exist and which are (re)assigned by newEvent / Output
	{
		var b strings.Builder
		b.WriteString("(* GENERATED by go2coq from the working tree - do not edit, never committed *)\nFrom Coq Require Import String List.\nImport ListNotations.\nLocal Open Scope string_scope.\n\n")
		b.WriteString("Definition event_fields : list string := " + coqStrList(structFields(event, "Event")) + ".\n")
		u, g := assignedFields(event, "", "newEvent", "e")
		b.WriteString("Definition newEvent_resets : list string := " + coqStrList(u) + ".\n")
		b.WriteString("Definition newEvent_guarded : list string := " + coqStrList(g) + ".\n")
		b.WriteString("Definition logger_fields : list string := " + coqStrList(structFields(logf, "Logger")) + ".\n")
		u, g = assignedFields(logf, "Logger", "Output", "l2")
		b.WriteString("Definition output_copies : list string := " + coqStrList(u) + ".\n")
		b.WriteString("Definition output_guarded : list string := " + coqStrList(g) + ".\n")
		u, _ = assignedFields(logf, "*Logger", "newEvent", "e")
		b.WriteString("Definition logger_newEvent_sets : list string := " + coqStrList(u) + ".\n")
		os.WriteFile(filepath.Join(*out, "Structs.v"), []byte(b.String()), 0o644)
	}
	nk, ns, nn := 0, 0, 0
	for _, m := range em {
		if strings.HasPrefix(m.body, "(BKeyPrim") {
			nk++
		} else {
			ns++
		}
		if m.guard == "GNoGuard" {
			nn++
		}
	}
	fmt.Printf("event methods %d (keyprim %d, special %d, unguarded %d); context %d; array %d; fields cases %d\n", len(em), nk, ns, nn, len(cm), len(am), len(fcs))
}
