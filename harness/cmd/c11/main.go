package main

import (
	"verifharness/diodeh"
	"verifharness/hlib"
)

func main() {
	diodeh.FatalChild()
	hlib.Main(map[string]func(*hlib.Ctx){"C11": diodeh.RunC11})
}
