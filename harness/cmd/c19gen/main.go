// c19gen writes coq/Gen/CallChains.v: the call chains to runtime.Caller and the skip constants of the
// repository's working tree (see package verifharness/cmd/c19/chains). Run by bin/check before the Coq
// build as `c19gen -repo <repository dir> -out <dir>`. Standard library only.
package main

import (
	"flag"
	"fmt"
	"os"
	"path/filepath"

	"verifharness/cmd/c19/chains"
)

func main() {
	repo := flag.String("repo", "/repo", "repository directory (working tree of rs/zerolog)")
	out := flag.String("out", ".", "output directory")
	flag.Parse()
	t, err := chains.Extract(*repo)
	if err != nil {
		fmt.Fprintln(os.Stderr, "c19gen: unrecognised shape:", err)
		os.Exit(1)
	}
	if err := os.MkdirAll(*out, 0o755); err != nil {
		fmt.Fprintln(os.Stderr, "c19gen:", err)
		os.Exit(1)
	}
	if err := os.WriteFile(filepath.Join(*out, "CallChains.v"), []byte(t.Coq()), 0o644); err != nil {
		fmt.Fprintln(os.Stderr, "c19gen:", err)
		os.Exit(1)
	}
	fmt.Printf("CallChains.v: %d paths, %d entries, %d finalizers, %d terminals, %d direct, %d hook constructors\n",
		len(t.Paths), len(t.Entries), len(t.Finalizers), len(t.Terminals), len(t.Direct), len(t.HookCtors))
}
