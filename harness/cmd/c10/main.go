package main

import (
	"verifharness/diodeh"
	"verifharness/hlib"
)

func main() { hlib.Main(map[string]func(*hlib.Ctx){"C10": diodeh.RunC10}) }
