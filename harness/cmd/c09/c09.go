package main

// C09 - binary output is well-formed CBOR that carries the logged values.
//
// Part A (primitives): every method of cbor.Encoder (and appendCborTypePrefix,
// AppendEmbeddedJSON/CBOR) is called on boundary-heavy values; the Coq model
// (Enc/CborEnc.v) must predict the returned buffer byte for byte.
// Part B (events, needs -tags binary_log): random programs over the public
// Event/Context/Array API; the model composes the primitives the way the API
// does (enc_fields / AppendObjectData) and must predict the written bytes.
//
// Monitors (independent of the model): the harness's own RFC 8949 reference
// parser (verifharness/cborref, no code shared with zerolog's decoder) must
// read every primitive output as exactly one well-formed item equal to the
// value that was passed in, and every event as exactly one indefinite-length
// map with text-string keys carrying the logged keys in order with the logged
// values.

import (
	"encoding/json"
	"fmt"
	"math"
	"net"
	"reflect"
	"strings"
	"time"

	"github.com/rs/zerolog"
	"verifharness/cborref"
	"verifharness/hlib"
	. "verifharness/hlib"
)

func main() { hlib.Main(map[string]func(*hlib.Ctx){"C09": runC09}) }

// ---------------------------------------------------------------- Gallina printers
func cz(z int64) string  { return fmt.Sprintf("(%d)%%Z", z) }
func cn(n uint64) string { return fmt.Sprintf("%d%%N", n) }
func cbs(b []byte) string {
	if len(b) == 0 {
		return "(@nil N)"
	}
	return CoqBytes(b)
}
func cbss(xs [][]byte) string {
	ys := make([]string, len(xs))
	for i, x := range xs {
		ys[i] = cbs(x)
	}
	return "(" + CoqList(ys) + " : list (list N))"
}
func copt(b []byte, some bool) string {
	if !some {
		return "(@None (list N))"
	}
	return "(Some " + cbs(b) + ")"
}
func czs(xs []int64) string {
	ys := make([]string, len(xs))
	for i, x := range xs {
		ys[i] = cz(x)
	}
	return "(" + CoqList(ys) + " : list Z)"
}
func cns(xs []uint64) string {
	ys := make([]string, len(xs))
	for i, x := range xs {
		ys[i] = cn(x)
	}
	return "(" + CoqList(ys) + " : list N)"
}

type tkey struct {
	s int64
	n int64
}
type dkey struct{ d, u int64 }
type tables struct {
	t map[tkey]uint64
	d map[dkey]uint64
}

func newTables() *tables { return &tables{t: map[tkey]uint64{}, d: map[dkey]uint64{}} }

// the float conversions of time.go, computed here with Go's own arithmetic
func (tb *tables) addTime(t time.Time) {
	u := t.UTC()
	secs, nanos := u.Unix(), u.Nanosecond()
	var val float64
	val = float64(secs)*1.0 + float64(nanos)*1e-9
	tb.t[tkey{secs, int64(nanos)}] = math.Float64bits(val)
}
func (tb *tables) addDur(d, unit time.Duration) {
	tb.d[dkey{int64(d), int64(unit)}] = math.Float64bits(float64(d) / float64(unit))
}
func (tb *tables) coq() string {
	var ts, ds []string
	for k, v := range tb.t {
		ts = append(ts, fmt.Sprintf("(%s,%s,%s)", cz(k.s), cn(uint64(k.n)), cn(v)))
	}
	for k, v := range tb.d {
		ds = append(ds, fmt.Sprintf("(%s,%s,%s)", cz(k.d), cz(k.u), cn(v)))
	}
	sortStrings(ts)
	sortStrings(ds)
	return fmt.Sprintf("((%s : list (Z*N*N)), (%s : list (Z*Z*N)))", CoqList(ts), CoqList(ds))
}
func sortStrings(xs []string) {
	for i := 1; i < len(xs); i++ {
		for j := i; j > 0 && xs[j] < xs[j-1]; j-- {
			xs[j], xs[j-1] = xs[j-1], xs[j]
		}
	}
}
func ctime(t time.Time) string {
	u := t.UTC()
	return fmt.Sprintf("(%s,%s)", cz(u.Unix()), cn(uint64(u.Nanosecond())))
}

// ---------------------------------------------------------------- expected items (spec re-implementation)
func wantTime(t time.Time) *cborref.Item {
	u := t.UTC()
	if u.Nanosecond() == 0 {
		return cborref.Tg(1, cborref.Int(u.Unix()))
	}
	// the documented form: seconds since the epoch as a float64
	return cborref.Tg(1, cborref.Fl64(canon64(math.Float64bits(float64(u.Unix())+float64(u.Nanosecond())*1e-9))))
}
func canon32(b uint32) uint32 {
	if b&0x7f800000 == 0x7f800000 && b&0x007fffff != 0 {
		return 0x7fc00000
	}
	return b
}
func canon64(b uint64) uint64 {
	if b&0x7ff0000000000000 == 0x7ff0000000000000 && b&0x000fffffffffffff != 0 {
		return 0x7ff8000000000000
	}
	return b
}
func wantDur(d, unit time.Duration, useInt bool) *cborref.Item {
	if useInt {
		return cborref.Int(int64(d / unit))
	}
	return cborref.Fl64(canon64(math.Float64bits(float64(d) / float64(unit))))
}
func wantSlice(n int, f func(i int) *cborref.Item) *cborref.Item {
	if n == 0 {
		return cborref.ArrI()
	}
	xs := make([]*cborref.Item, n)
	for i := range xs {
		xs[i] = f(i)
	}
	return cborref.Arr(xs...)
}
func maskOnes(m net.IPMask) uint64 {
	ones, _ := m.Size()
	return uint64(uint8(ones))
}

// ---------------------------------------------------------------- part A: primitives
type primRun struct {
	c     *Ctx
	count map[string]int
}

func (p *primRun) emit(method string, dst []byte, call string, tb *tables, got []byte, want *cborref.Item) {
	p.emitC(method, dst, call, tb, got, want, "")
}

// Go twins of the patterns of Harness/C09H.v
func patBytes(n int) []byte {
	b := make([]byte, n)
	for i := range b {
		b[i] = byte(97 + i%26)
	}
	return b
}
func isPat(b []byte) bool {
	for i, x := range b {
		if x != byte(97+i%26) {
			return false
		}
	}
	return true
}

// cbsTail prints got as literal-head ++ pat n when it ends with the n-byte pattern
func cbsTail(got []byte, n int) string {
	if n > 512 && len(got) >= n && isPat(got[len(got)-n:]) {
		return fmt.Sprintf("(%s ++ pat %s)", cbs(got[:len(got)-n]), cn(uint64(n)))
	}
	return cbs(got)
}
func cbsPat(b []byte) string {
	if len(b) > 512 && isPat(b) {
		return fmt.Sprintf("(pat %s)", cn(uint64(len(b))))
	}
	return cbs(b)
}

func (p *primRun) emitC(method string, dst []byte, call string, tb *tables, got []byte, want *cborref.Item, gotCoq string) {
	c := p.c
	p.count[method]++
	in := map[string]interface{}{"method": method, "dst": fmt.Sprintf("%x", dst), "call": trunc(call, 300)}
	obs := fmt.Sprintf("%x", truncB(got, 64))
	// monitor 1: append-only
	if len(got) < len(dst) || string(got[:len(dst)]) != string(dst) {
		c.Violate(Violation{Key: "cbor-prim-clobbers-dst", Monitor: "append-only", Desc: method + " changed bytes already in dst", Case: in, Observed: obs})
	} else if want != nil {
		rest := got[len(dst):]
		it, r, err := cborref.ParseItem(rest)
		switch {
		case err != nil:
			c.Violate(Violation{Key: "cbor-malformed-" + method, Monitor: "rfc8949-reference-parser", Desc: method + ": appended bytes are not a well-formed item: " + err.Error(), Case: in, Observed: obs})
		case len(r) != 0:
			c.Violate(Violation{Key: "cbor-trailing-" + method, Monitor: "rfc8949-reference-parser", Desc: fmt.Sprintf("%s: appended bytes are one item followed by %d more bytes", method, len(r)), Case: in, Observed: obs})
		case !cborref.Equal(it, want):
			c.Violate(Violation{Key: "cbor-value-" + method, Monitor: "value-carried", Desc: method + ": a generic parser reads a different value than was passed in", Case: in, Observed: it.String(), Expected: want.String()})
		}
	}
	if tb == nil {
		tb = newTables()
	}
	if gotCoq == "" {
		gotCoq = cbs(got)
	}
	term := fmt.Sprintf("((%s, (%s, %s)), %s)", tb.coq(), cbs(dst), call, gotCoq)
	c.AddCase(term, map[string]interface{}{"method": method, "dst": fmt.Sprintf("%x", dst), "call": trunc(call, 2000), "got": fmt.Sprintf("%x", truncB(got, 4096))})
	c.Count(method+"|"+trunc(call, 4000)+"|"+fmt.Sprint(len(dst)), len(got) > len(dst)+1)
	c.Hist("primitive", method)
	c.Hist("appended_len", lenBucket(len(got)-len(dst)))
}

func trunc(s string, n int) string {
	if len(s) > n {
		return s[:n] + fmt.Sprintf("...(%d)", len(s))
	}
	return s
}
func truncB(b []byte, n int) []byte {
	if len(b) > n {
		return b[:n]
	}
	return b
}
func lenBucket(n int) string {
	switch {
	case n <= 1:
		return "0-1"
	case n <= 24:
		return "2-24"
	case n <= 257:
		return "25-257"
	case n <= 65537:
		return "258-65537"
	default:
		return ">65537"
	}
}

var int64Bounds = []int64{0, 1, 2, 22, 23, 24, 25, 100, 254, 255, 256, 257, 1000, 65534, 65535, 65536, 65537, 1 << 24,
	1<<31 - 1, 1 << 31, 1<<32 - 2, 1<<32 - 1, 1 << 32, 1<<32 + 1, 1 << 40, 1<<62 - 1, 1 << 62, math.MaxInt64 - 1, math.MaxInt64,
	-1, -2, -22, -23, -24, -25, -26, -100, -255, -256, -257, -258, -65535, -65536, -65537, -65538, -(1 << 31), -(1 << 31) - 1,
	-(1 << 32) + 1, -(1 << 32), -(1 << 32) - 1, -(1 << 32) - 2, -(1 << 62), math.MinInt64 + 1, math.MinInt64}

var uint64Bounds = []uint64{0, 1, 22, 23, 24, 25, 254, 255, 256, 257, 65534, 65535, 65536, 65537, 1<<32 - 1, 1 << 32, 1<<32 + 1,
	1<<63 - 1, 1 << 63, 1<<63 + 1, math.MaxUint64 - 1, math.MaxUint64}

var f32Bits = []uint32{0, 0x80000000, 0x3f800000, 0xbf800000, 0x7f800000, 0xff800000, 0x7fc00000, 0xffc00000, 0x7fc00001, 0x7f800001,
	0xff800001, 0x7fffffff, 0x00000001, 0x007fffff, 0x00800000, 0x7f7fffff, 0xff7fffff, 0x3eaaaaab, 0x40490fdb, 0x7f000000}
var f64Bits = []uint64{0, 0x8000000000000000, 0x3ff0000000000000, 0xbff0000000000000, 0x7ff0000000000000, 0xfff0000000000000,
	0x7ff8000000000000, 0x7ff8000000000001, 0xfff8000000000000, 0x7ff0000000000001, 0xfff0000000000001, 0x7fffffffffffffff,
	1, 0x000fffffffffffff, 0x0010000000000000, 0x7fefffffffffffff, 0xffefffffffffffff, 0x3fd5555555555555, 0x400921fb54442d18, 0x41d0000000000000}

var lenBounds = []int{0, 1, 2, 22, 23, 24, 25, 100, 254, 255, 256, 257, 1000}
var bigLens = []int{65534, 65535, 65536, 65537}

type strer struct{ s string }

func (s strer) String() string { return s.s }

func fillBytes(r *Rng, n int, mode int) []byte {
	b := make([]byte, n)
	for i := range b {
		switch mode {
		case 0:
			b[i] = byte('a' + i%26)
		case 1:
			b[i] = byte(r.Intn(256))
		default:
			alphabet := []byte("a\"b\\c\n\xff\x00\xc3\xa9\xf0\x9f\x98\x80 ")
			b[i] = alphabet[r.Intn(len(alphabet))]
		}
	}
	return b
}

func clampI(v int64, bits uint) (int64, bool) {
	if bits == 64 {
		return v, true
	}
	lo, hi := -(int64(1) << (bits - 1)), int64(1)<<(bits-1)-1
	return v, v >= lo && v <= hi
}

func runPrimitives(c *Ctx) {
	e := zerolog.VerifCbor
	p := &primRun{c: c, count: map[string]int{}}
	r := c.R.Fork()
	dsts := [][]byte{nil, {0xbf}, {0xbf, 0x61, 0x61}}
	dstOf := func(i int) []byte { return append([]byte{}, dsts[i%len(dsts)]...) }
	k := 0
	nextDst := func() []byte { k++; return dstOf(k) }

	// ---- corpus first: inputs of fixed defects (e480b62, cb46159)
	{
		d := nextDst()
		p.emit("AppendUint", d, "KUint "+cn(1<<63), nil, e.AppendUint(append([]byte{}, d...), 1<<63), cborref.U(1<<63))
		d = nextDst()
		p.emit("AppendUint64", d, "KUint64 "+cn(math.MaxUint64), nil, e.AppendUint64(append([]byte{}, d...), math.MaxUint64), cborref.U(math.MaxUint64))
		d = nextDst()
		b := []byte("a\"b\\c\n\xff")
		p.emit("AppendBytes", d, "KBytes "+cbs(b), nil, e.AppendBytes(append([]byte{}, d...), b), cborref.Bs(b))
	}

	// ---- appendCborTypePrefix: every major, boundary numbers
	for m := 0; m < 8; m++ {
		for _, n := range uint64Bounds {
			d := nextDst()
			got := zerolog.VerifCborPrefix(append([]byte{}, d...), byte(m<<5), n)
			// expected head: narrowest of 1/2/4/8 bytes; for majors 0,1 the head alone is an item
			var want *cborref.Item
			if m == 0 {
				want = cborref.U(n)
			} else if m == 1 {
				want = cborref.NegN(n)
			}
			p.emit("appendCborTypePrefix", d, fmt.Sprintf("KPrefix %s %s", cn(uint64(m<<5)), cn(n)), nil, got, want)
			// independent statement of the width rule
			w := 8
			switch {
			case n < 1<<8:
				w = 1
			case n < 1<<16:
				w = 2
			case n < 1<<32:
				w = 4
			}
			rest := got[len(d):]
			ok := len(rest) == 1+w && rest[0] == byte(m<<5)|byte(map[int]int{1: 24, 2: 25, 4: 26, 8: 27}[w])
			var v uint64
			if ok {
				for _, b := range rest[1:] {
					v = v<<8 | uint64(b)
				}
				ok = v == n
			}
			if !ok {
				c.Violate(Violation{Key: "cbor-prefix-width", Monitor: "prefix-width-rule", Desc: "appendCborTypePrefix: not initial byte + narrowest big-endian argument", Case: map[string]interface{}{"major": m, "number": n}, Observed: fmt.Sprintf("%x", rest)})
			}
		}
	}

	// ---- strings, bytes and their tagged forms
	strLens := append([]int{}, lenBounds...)
	strLens = append(strLens, bigLens[1], bigLens[2])
	if c.Thorough() {
		strLens = append(strLens, bigLens[0], bigLens[3], 1<<20)
	}
	for _, n := range strLens {
		mode := 0
		if n <= 1000 {
			mode = 2
		}
		s := fillBytes(r, n, mode)
		d := nextDst()
		em := func(method, ctor string, got []byte, want *cborref.Item) {
			p.emitC(method, d, ctor+" "+cbsPat(s), nil, got, want, cbsTail(got, len(s)))
		}
		em("AppendString", "KString", e.AppendString(append([]byte{}, d...), string(s)), cborref.Tx(string(s)))
		d = nextDst()
		em("AppendBytes", "KBytes", e.AppendBytes(append([]byte{}, d...), s), cborref.Bs(s))
		if n > 1000 && n != 65536 {
			continue
		}
		d = nextDst()
		em("AppendHex", "KHex", e.AppendHex(append([]byte{}, d...), s), cborref.Tg(263, cborref.Bs(s)))
		d = nextDst()
		em("AppendEmbeddedJSON", "KJSON", zerolog.VerifCborEmbeddedJSON(append([]byte{}, d...), s), cborref.Tg(262, cborref.Bs(s)))
		d = nextDst()
		em("AppendEmbeddedCBOR", "KCBOR", zerolog.VerifCborEmbeddedCBOR(append([]byte{}, d...), s), cborref.Tg(63, cborref.Bs(s)))
		d = nextDst()
		em("AppendKey", "KKey", e.AppendKey(append([]byte{}, d...), string(s)), func() *cborref.Item {
			if len(d) == 0 {
				return nil // begin marker + key: not one item
			}
			return cborref.Tx(string(s))
		}())
		if n <= 256 {
			d = nextDst()
			p.emit("AppendStringer", d, "KStringer "+copt(s, true), nil, e.AppendStringer(append([]byte{}, d...), strer{string(s)}), cborref.Tx(string(s)))
			d = nextDst()
			p.emit("AppendMACAddr", d, "KMAC "+cbs(s), nil, e.AppendMACAddr(append([]byte{}, d...), net.HardwareAddr(s)), cborref.Tg(260, cborref.Bs(s)))
			d = nextDst()
			p.emit("AppendIPAddr", d, "KIP "+cbs(s), nil, e.AppendIPAddr(append([]byte{}, d...), net.IP(s)), cborref.Tg(260, cborref.Bs(s)))
		}
	}
	{
		d := nextDst()
		p.emit("AppendStringer", d, "KStringer "+copt(nil, false), nil, e.AppendStringer(append([]byte{}, d...), nil), cborref.Sv(22))
		d = []byte{}
		p.emit("AppendKey", d, "KKey "+cbs([]byte("k")), nil, e.AppendKey(d, "k"), nil)
	}
	// slices of strings / stringers
	sliceLens := []int{0, 1, 2, 23, 24, 25, 255, 256, 257}
	for _, n := range append(append([]int{}, sliceLens...), 65535, 65536) {
		vals := make([]string, n)
		bss := make([][]byte, n)
		for i := range vals {
			if n < 1000 {
				bss[i] = fillBytes(r, r.Intn(30), 2)
			} else if i%2 == 1 {
				bss[i] = []byte("a")
			} else {
				bss[i] = []byte{}
			}
			vals[i] = string(bss[i])
		}
		d := nextDst()
		xs := make([]*cborref.Item, n)
		for i := range xs {
			xs[i] = cborref.Tx(vals[i])
		}
		got := e.AppendStrings(append([]byte{}, d...), vals)
		if n < 1000 {
			p.emit("AppendStrings", d, "KStrings "+cbss(bss), nil, got, cborref.Arr(xs...))
		} else {
			// compact form: the elements are "" / "a" alternating; check the tail here, print the pattern
			var tail []byte
			for i := 0; i < n; i++ {
				if i%2 == 0 {
					tail = append(tail, 0x60)
				} else {
					tail = append(tail, 0x61, 0x61)
				}
			}
			gotCoq := cbs(got)
			if len(got) >= len(tail) && string(got[len(got)-len(tail):]) == string(tail) {
				gotCoq = fmt.Sprintf("(%s ++ pats_out %s)", cbs(got[:len(got)-len(tail)]), cn(uint64(n)))
			}
			p.emitC("AppendStrings", d, "KStrings (pats "+cn(uint64(n))+")", nil, got, cborref.Arr(xs...), gotCoq)
		}
		if n <= 300 {
			sv := make([]fmt.Stringer, n)
			os := make([]string, n)
			ws := make([]*cborref.Item, n)
			for i := range sv {
				if i%5 == 3 {
					sv[i] = nil
					os[i] = copt(nil, false)
					ws[i] = cborref.Sv(22)
				} else {
					sv[i] = strer{vals[i]}
					os[i] = copt(bss[i], true)
					ws[i] = cborref.Tx(vals[i])
				}
			}
			d = nextDst()
			p.emit("AppendStringers", d, "KStringers ("+CoqList(os)+" : list (option (list N)))", nil, e.AppendStringers(append([]byte{}, d...), sv), cborref.ArrI(ws...))
		}
	}

	// ---- markers
	for i := 0; i < 3; i++ {
		d := dstOf(i)
		p.emit("AppendNil", d, "KNil", nil, e.AppendNil(append([]byte{}, d...)), cborref.Sv(22))
		p.emit("AppendBeginMarker", d, "KBegin", nil, e.AppendBeginMarker(append([]byte{}, d...)), nil)
		p.emit("AppendEndMarker", d, "KEnd", nil, e.AppendEndMarker(append([]byte{}, d...)), nil)
		p.emit("AppendArrayStart", d, "KArrStart", nil, e.AppendArrayStart(append([]byte{}, d...)), nil)
		p.emit("AppendArrayEnd", d, "KArrEnd", nil, e.AppendArrayEnd(append([]byte{}, d...)), nil)
		p.emit("AppendArrayDelim", d, "KArrDelim", nil, e.AppendArrayDelim(append([]byte{}, d...)), nil)
		p.emit("AppendLineBreak", d, "KLineBreak", nil, e.AppendLineBreak(append([]byte{}, d...)), nil)
		for _, o := range [][]byte{{0xbf}, {0xbf, 0x61, 0x61, 0x01}, {0x00, 0xff, 0xbf}} {
			got := e.AppendObjectData(append([]byte{}, d...), o)
			p.emit("AppendObjectData", d, "KObjectData "+cbs(o), nil, got, nil)
			if string(got) != string(d)+string(o[1:]) {
				c.Violate(Violation{Key: "cbor-objectdata-splice", Monitor: "context-splice", Desc: "AppendObjectData(dst, o) is not dst followed by o without its first byte", Case: map[string]interface{}{"dst": d, "o": o}, Observed: fmt.Sprintf("%x", got)})
			}
		}
		// begin marker + end marker is the empty indefinite map; array start + end the empty indefinite array
		if it, rr, err := cborref.ParseItem(e.AppendEndMarker(e.AppendBeginMarker(nil))); err != nil || len(rr) != 0 || !cborref.Equal(it, cborref.MapI()) {
			c.Violate(Violation{Key: "cbor-markers", Monitor: "rfc8949-reference-parser", Desc: "begin marker + end marker is not an empty indefinite-length map", Case: "markers"})
		}
		if it, rr, err := cborref.ParseItem(e.AppendArrayEnd(e.AppendArrayStart(nil))); err != nil || len(rr) != 0 || !cborref.Equal(it, cborref.ArrI()) {
			c.Violate(Violation{Key: "cbor-markers", Monitor: "rfc8949-reference-parser", Desc: "array start + array end is not an empty indefinite-length array", Case: "markers"})
		}
	}

	// ---- booleans
	for _, b := range []bool{false, true} {
		d := nextDst()
		w := cborref.Sv(20)
		if b {
			w = cborref.Sv(21)
		}
		p.emit("AppendBool", d, "KBool "+CoqBool(b), nil, e.AppendBool(append([]byte{}, d...), b), w)
	}
	for _, n := range append(append([]int{}, sliceLens...), 65535, 65536) {
		vals := make([]bool, n)
		for i := range vals {
			if n < 1000 {
				vals[i] = r.Bool()
			} else {
				vals[i] = i%3 == 0
			}
		}
		d := nextDst()
		want := wantSlice(n, func(i int) *cborref.Item {
			if vals[i] {
				return cborref.Sv(21)
			}
			return cborref.Sv(20)
		})
		got := e.AppendBools(append([]byte{}, d...), vals)
		if n < 1000 {
			p.emit("AppendBools", d, "KBools "+CoqBools(vals), nil, got, want)
		} else {
			tail := make([]byte, n)
			for i := range tail {
				tail[i] = 0xf4
				if i%3 == 0 {
					tail[i] = 0xf5
				}
			}
			gotCoq := cbs(got)
			if len(got) >= n && string(got[len(got)-n:]) == string(tail) {
				gotCoq = fmt.Sprintf("(%s ++ patb_out %s)", cbs(got[:len(got)-n]), cn(uint64(n)))
			}
			p.emitC("AppendBools", d, "KBools (patb "+cn(uint64(n))+")", nil, got, want, gotCoq)
		}
	}

	// ---- signed integers, every width
	ints := append([]int64{}, int64Bounds...)
	for i := 0; i < 60; i++ {
		sh := uint(r.Intn(64))
		ints = append(ints, int64(r.Next())>>sh)
	}
	for _, v := range ints {
		d := nextDst()
		p.emit("AppendInt", d, "KInt "+cz(v), nil, e.AppendInt(append([]byte{}, d...), int(v)), cborref.Int(v))
		p.emit("AppendInt64", d, "KInt64 "+cz(v), nil, e.AppendInt64(append([]byte{}, d...), v), cborref.Int(v))
		if _, ok := clampI(v, 8); ok {
			p.emit("AppendInt8", d, "KInt8 "+cz(v), nil, e.AppendInt8(append([]byte{}, d...), int8(v)), cborref.Int(v))
		}
		if _, ok := clampI(v, 16); ok {
			p.emit("AppendInt16", d, "KInt16 "+cz(v), nil, e.AppendInt16(append([]byte{}, d...), int16(v)), cborref.Int(v))
		}
		if _, ok := clampI(v, 32); ok {
			p.emit("AppendInt32", d, "KInt32 "+cz(v), nil, e.AppendInt32(append([]byte{}, d...), int32(v)), cborref.Int(v))
		}
	}
	for w, mk := range map[uint]int64{8: math.MaxInt8, 16: math.MaxInt16, 32: math.MaxInt32} {
		for _, v := range []int64{mk, mk - 1, -mk - 1, -mk} {
			d := nextDst()
			switch w {
			case 8:
				p.emit("AppendInt8", d, "KInt8 "+cz(v), nil, e.AppendInt8(append([]byte{}, d...), int8(v)), cborref.Int(v))
			case 16:
				p.emit("AppendInt16", d, "KInt16 "+cz(v), nil, e.AppendInt16(append([]byte{}, d...), int16(v)), cborref.Int(v))
			case 32:
				p.emit("AppendInt32", d, "KInt32 "+cz(v), nil, e.AppendInt32(append([]byte{}, d...), int32(v)), cborref.Int(v))
			}
		}
	}
	pickI := func(bits uint) int64 {
		for {
			v := ints[r.Intn(len(ints))]
			if _, ok := clampI(v, bits); ok {
				return v
			}
		}
	}
	for _, n := range sliceLens {
		mk := func(bits uint) []int64 {
			xs := make([]int64, n)
			for i := range xs {
				xs[i] = pickI(bits)
			}
			return xs
		}
		want := func(xs []int64) *cborref.Item { return wantSlice(len(xs), func(i int) *cborref.Item { return cborref.Int(xs[i]) }) }
		d := nextDst()
		{
			xs := mk(64)
			v := make([]int, n)
			for i := range v {
				v[i] = int(xs[i])
			}
			p.emit("AppendInts", d, "KInts "+czs(xs), nil, e.AppendInts(append([]byte{}, d...), v), want(xs))
			p.emit("AppendInts64", d, "KInts64 "+czs(xs), nil, e.AppendInts64(append([]byte{}, d...), xs), want(xs))
		}
		{
			xs := mk(8)
			v := make([]int8, n)
			for i := range v {
				v[i] = int8(xs[i])
			}
			p.emit("AppendInts8", d, "KInts8 "+czs(xs), nil, e.AppendInts8(append([]byte{}, d...), v), want(xs))
		}
		{
			xs := mk(16)
			v := make([]int16, n)
			for i := range v {
				v[i] = int16(xs[i])
			}
			p.emit("AppendInts16", d, "KInts16 "+czs(xs), nil, e.AppendInts16(append([]byte{}, d...), v), want(xs))
		}
		{
			xs := mk(32)
			v := make([]int32, n)
			for i := range v {
				v[i] = int32(xs[i])
			}
			p.emit("AppendInts32", d, "KInts32 "+czs(xs), nil, e.AppendInts32(append([]byte{}, d...), v), want(xs))
		}
	}

	// ---- unsigned integers, every width
	uints := append([]uint64{}, uint64Bounds...)
	for i := 0; i < 40; i++ {
		uints = append(uints, r.Next()>>uint(r.Intn(64)))
	}
	for _, v := range uints {
		d := nextDst()
		p.emit("AppendUint", d, "KUint "+cn(v), nil, e.AppendUint(append([]byte{}, d...), uint(v)), cborref.U(v))
		p.emit("AppendUint64", d, "KUint64 "+cn(v), nil, e.AppendUint64(append([]byte{}, d...), v), cborref.U(v))
		if v <= math.MaxUint8 {
			p.emit("AppendUint8", d, "KUint8 "+cn(v), nil, e.AppendUint8(append([]byte{}, d...), uint8(v)), cborref.U(v))
		}
		if v <= math.MaxUint16 {
			p.emit("AppendUint16", d, "KUint16 "+cn(v), nil, e.AppendUint16(append([]byte{}, d...), uint16(v)), cborref.U(v))
		}
		if v <= math.MaxUint32 {
			p.emit("AppendUint32", d, "KUint32 "+cn(v), nil, e.AppendUint32(append([]byte{}, d...), uint32(v)), cborref.U(v))
		}
	}
	pickU := func(max uint64) uint64 {
		for {
			v := uints[r.Intn(len(uints))]
			if v <= max {
				return v
			}
		}
	}
	for _, n := range sliceLens {
		mk := func(max uint64) []uint64 {
			xs := make([]uint64, n)
			for i := range xs {
				xs[i] = pickU(max)
			}
			return xs
		}
		want := func(xs []uint64) *cborref.Item { return wantSlice(len(xs), func(i int) *cborref.Item { return cborref.U(xs[i]) }) }
		d := nextDst()
		{
			xs := mk(math.MaxUint64)
			v := make([]uint, n)
			for i := range v {
				v[i] = uint(xs[i])
			}
			p.emit("AppendUints", d, "KUints "+cns(xs), nil, e.AppendUints(append([]byte{}, d...), v), want(xs))
			p.emit("AppendUints64", d, "KUints64 "+cns(xs), nil, e.AppendUints64(append([]byte{}, d...), xs), want(xs))
		}
		{
			xs := mk(math.MaxUint8)
			v := make([]uint8, n)
			for i := range v {
				v[i] = uint8(xs[i])
			}
			p.emit("AppendUints8", d, "KUints8 "+cns(xs), nil, e.AppendUints8(append([]byte{}, d...), v), want(xs))
		}
		{
			xs := mk(math.MaxUint16)
			v := make([]uint16, n)
			for i := range v {
				v[i] = uint16(xs[i])
			}
			p.emit("AppendUints16", d, "KUints16 "+cns(xs), nil, e.AppendUints16(append([]byte{}, d...), v), want(xs))
		}
		{
			xs := mk(math.MaxUint32)
			v := make([]uint32, n)
			for i := range v {
				v[i] = uint32(xs[i])
			}
			p.emit("AppendUints32", d, "KUints32 "+cns(xs), nil, e.AppendUints32(append([]byte{}, d...), v), want(xs))
		}
	}

	// ---- floats (bit patterns)
	f32s := append([]uint32{}, f32Bits...)
	f64s := append([]uint64{}, f64Bits...)
	for i := 0; i < 60; i++ {
		f32s = append(f32s, uint32(r.Next()))
		f64s = append(f64s, r.Next())
	}
	for _, b := range f32s {
		d := nextDst()
		p.emit("AppendFloat32", d, "KF32 "+cn(uint64(b)), nil, e.AppendFloat32(append([]byte{}, d...), math.Float32frombits(b), -1), cborref.Fl32(canon32(b)))
	}
	for _, b := range f64s {
		d := nextDst()
		p.emit("AppendFloat64", d, "KF64 "+cn(b), nil, e.AppendFloat64(append([]byte{}, d...), math.Float64frombits(b), -1), cborref.Fl64(canon64(b)))
	}
	for _, n := range sliceLens {
		xs := make([]uint64, n)
		v := make([]float32, n)
		for i := range v {
			b := f32s[r.Intn(len(f32s))]
			xs[i], v[i] = uint64(b), math.Float32frombits(b)
		}
		d := nextDst()
		p.emit("AppendFloats32", d, "KFs32 "+cns(xs), nil, e.AppendFloats32(append([]byte{}, d...), v, -1), wantSlice(n, func(i int) *cborref.Item { return cborref.Fl32(canon32(uint32(xs[i]))) }))
		ys := make([]uint64, n)
		w := make([]float64, n)
		for i := range w {
			ys[i] = f64s[r.Intn(len(f64s))]
			w[i] = math.Float64frombits(ys[i])
		}
		p.emit("AppendFloats64", d, "KFs64 "+cns(ys), nil, e.AppendFloats64(append([]byte{}, d...), w, -1), wantSlice(n, func(i int) *cborref.Item { return cborref.Fl64(canon64(ys[i])) }))
	}

	// ---- times
	var times []time.Time
	for _, s := range []int64{0, 1, 23, 24, 255, 256, 65535, 65536, 1<<32 - 1, 1 << 32, 1700000000, 253402300799, 1 << 40, 1 << 55, 1 << 61,
		-1, -2, -24, -25, -256, -257, -65536, -65537, -(1 << 32), -(1 << 32) - 1, -62135596800, -(1 << 55), -(1 << 61)} {
		for _, ns := range []int64{0, 1, 500000000, 999999999, 123456789} {
			times = append(times, time.Unix(s, ns))
		}
	}
	times = append(times, time.Time{}, time.Date(2024, 2, 29, 23, 59, 59, 999999999, time.FixedZone("x", -7*3600)))
	for i := 0; i < 40; i++ {
		times = append(times, time.Unix(int64(r.Next())>>uint(2+r.Intn(50)), int64(r.Intn(1000000000))*int64(r.Intn(2))))
	}
	for _, t := range times {
		tb := newTables()
		tb.addTime(t)
		d := nextDst()
		p.emit("AppendTime", d, "KTime "+ctime(t), tb, e.AppendTime(append([]byte{}, d...), t, "ignored"), wantTime(t))
	}
	for _, n := range sliceLens {
		tb := newTables()
		v := make([]time.Time, n)
		cs := make([]string, n)
		for i := range v {
			v[i] = times[r.Intn(len(times))]
			tb.addTime(v[i])
			cs[i] = ctime(v[i])
		}
		d := nextDst()
		p.emit("AppendTimes", d, "KTimes ("+CoqList(cs)+" : list (Z*N))", tb, e.AppendTimes(append([]byte{}, d...), v, ""), wantSlice(n, func(i int) *cborref.Item { return wantTime(v[i]) }))
	}

	// ---- durations
	durs := []int64{0, 1, -1, 23, 24, 999, 1000, 1001, 1500000, 1000000000, 90 * 60 * 1000000000, math.MaxInt64, math.MinInt64, math.MinInt64 + 1, -1500000}
	for i := 0; i < 20; i++ {
		durs = append(durs, int64(r.Next())>>uint(r.Intn(64)))
	}
	units := []int64{1, 1000, 1000000, 1000000000, 60000000000, 3, -1, -1000}
	for _, dv := range durs {
		for _, u := range units {
			for _, useInt := range []bool{true, false} {
				if !useInt && r.Intn(3) != 0 {
					continue
				}
				tb := newTables()
				tb.addDur(time.Duration(dv), time.Duration(u))
				d := nextDst()
				p.emit("AppendDuration", d, fmt.Sprintf("KDur %s %s %s", cz(u), CoqBool(useInt), cz(dv)), tb,
					e.AppendDuration(append([]byte{}, d...), time.Duration(dv), time.Duration(u), useInt, -1), wantDur(time.Duration(dv), time.Duration(u), useInt))
			}
		}
	}
	for _, n := range sliceLens {
		for _, useInt := range []bool{true, false} {
			u := units[r.Intn(len(units))]
			tb := newTables()
			v := make([]time.Duration, n)
			xs := make([]int64, n)
			for i := range v {
				xs[i] = durs[r.Intn(len(durs))]
				v[i] = time.Duration(xs[i])
				tb.addDur(v[i], time.Duration(u))
			}
			d := nextDst()
			p.emit("AppendDurations", d, fmt.Sprintf("KDurs %s %s %s", cz(u), CoqBool(useInt), czs(xs)), tb,
				e.AppendDurations(append([]byte{}, d...), v, time.Duration(u), useInt, -1), wantSlice(n, func(i int) *cborref.Item { return wantDur(v[i], time.Duration(u), useInt) }))
		}
	}

	// ---- interface, type
	old := zerolog.VerifCborJSONMarshal()
	zerolog.VerifCborSetJSONMarshal(json.Marshal)
	ifaces := []interface{}{nil, 1, "s", 1.5, []int{1, 2, 3}, map[string]interface{}{"a": 1, "b": []string{"x", "y\"z"}}, struct {
		A int
		B string `json:"b"`
	}{7, "é\n"}, make(chan int), func() {}, math.NaN(), strings.Repeat("x", 300), []byte("bin")}
	for _, v := range ifaces {
		d := nextDst()
		j, err := json.Marshal(v)
		var call string
		var want *cborref.Item
		if err != nil {
			msg := err.Error()
			call = "KIface (inr " + cbs([]byte(msg)) + ")"
			want = cborref.Tx("marshaling error: " + msg)
		} else {
			call = "KIface (inl " + cbs(j) + ")"
			want = cborref.Tg(262, cborref.Bs(j))
		}
		p.emit("AppendInterface", d, call, nil, e.AppendInterface(append([]byte{}, d...), v), want)
		d = nextDst()
		if v == nil {
			p.emit("AppendType", d, "KType "+copt(nil, false), nil, e.AppendType(append([]byte{}, d...), v), cborref.Tx("<nil>"))
		} else {
			ts := reflect.TypeOf(v).String()
			p.emit("AppendType", d, "KType "+copt([]byte(ts), true), nil, e.AppendType(append([]byte{}, d...), v), cborref.Tx(ts))
		}
	}
	zerolog.VerifCborSetJSONMarshal(old)

	// ---- IP prefixes
	type pfx struct {
		ip   []byte
		mask []byte
	}
	var pfxs []pfx
	for _, ones := range []int{0, 1, 7, 8, 9, 23, 24, 25, 31, 32} {
		pfxs = append(pfxs, pfx{[]byte{192, 168, byte(ones), 1}, net.CIDRMask(ones, 32)})
	}
	for _, ones := range []int{0, 1, 23, 24, 64, 96, 97, 127, 128} {
		pfxs = append(pfxs, pfx{net.ParseIP("2001:db8::1"), net.CIDRMask(ones, 128)})
	}
	pfxs = append(pfxs, pfx{[]byte{10, 0, 0, 0}, []byte{255, 0, 255, 0}}, pfx{[]byte{10, 0, 0, 0}, nil}, pfx{nil, nil},
		pfx{[]byte{10, 0, 0, 0}, []byte{255, 255, 255, 253}}, pfx{[]byte{1, 2, 3}, []byte{255, 128}}, pfx{[]byte{10, 0, 0, 0}, []byte{254, 0, 0, 1}},
		pfx{net.ParseIP("::ffff:1.2.3.4"), net.CIDRMask(120, 128)}, pfx{[]byte{10, 0, 0, 0}, make([]byte, 40)}, pfx{[]byte{10, 0, 0, 0}, []byte{255, 255, 255, 255, 255, 255, 255, 255, 255, 255, 255, 255, 255, 255, 255, 255, 255, 255, 255, 255, 255, 255, 255, 255, 255, 255, 255, 255, 255, 255, 255, 255, 255}})
	for _, x := range pfxs {
		d := nextDst()
		n := net.IPNet{IP: x.ip, Mask: x.mask}
		want := cborref.Tg(261, cborref.MapD(cborref.Bs(x.ip), cborref.U(maskOnes(x.mask))))
		p.emit("AppendIPPrefix", d, "KIPPrefix "+cbs(x.ip)+" "+cbs(x.mask), nil, e.AppendIPPrefix(append([]byte{}, d...), n), want)
	}
	c.Res.ExtraCoverage["primitive_methods_exercised"] = len(p.count)
	c.Res.ExtraCoverage["primitive_cases"] = func() int {
		n := 0
		for _, v := range p.count {
			n += v
		}
		return n
	}()
}

func runC09(c *Ctx) {
	c.Res.Rule = "part A: every cbor.Encoder method (+appendCborTypePrefix, AppendEmbeddedJSON/CBOR) on boundary values: lengths 0,1,22..25,254..257,65535,65536, integers around every width boundary of int8..int64/uint8..uint64 and of the 1/2/4/8-byte argument, float specials (zeros, infinities, quiet/signalling/negative NaNs, subnormals, extremes) and random bit patterns, times with zero and non-zero nanoseconds from year 1 to 2^61 s, durations with every unit incl. negative, three dst buffers; part B (binary_log): seeded random programs over Event/Context/Array/Dict/Object/Fields with every field method, nesting <= 3, context splice; directed: every ErrorMarshalFunc answer class at every call site; 25 entry points that end in a message (Msg / Msgf / MsgFunc / Send / WithLevel / Err, Print / Printf / Println, Logger.Write directly and through io.WriteString / fmt.Fprintf / fmt.Fprintln / log.New(l, ...) / log.SetOutput(l), the package-level functions of zerolog/log) x 6 loggers (plain, context, Timestamp hook, Caller hook, a user hook logging the message and level it is handed, all of them) x 11 messages (0 / 1 / 23 / 24 / 255 / 256 bytes, non-ASCII, inner and trailing newlines): exact keys, order and values, message and every text field a definite text string; Fields() sweep: 90 values over every type appendFieldList's switch names and its neighbours (net.IP 4/16/0/3 bytes, net.HardwareAddr, net.IPNet, time.Time, time.Duration, []byte, json.RawMessage, error, Stringer-only types, pointers to them, nil pointers, slices of them, scalar pointers) x Fields(map) / Fields(slice) x event / context / inside a Dict, under two duration configurations, each demanded as the documented item and compared item-for-item with the dedicated method (IPAddr, MACAddr, IPPrefix, Time, Dur, Bytes, RawJSON, AnErr, Times, Durs, Errs, Strs, Str, Interface); marshal globals at run time: 6 programs (assigned before the logger exists / between events incl. back to the default / between With() layers / inside Func / inside MarshalZerologObject / inside a hook) x 8 call sites that reach InterfaceMarshalFunc x 5 user functions (HTML-escaping, wrapping, redacting, constant, failing), the tag-262 payload demanded to be the installed function's answer; ErrorMarshalFunc, ErrorStackMarshaler, LevelFieldMarshalFunc, CallerMarshalFunc, TimestampFunc and the six field names assigned between the events of one logger; non-trivial = the call appended more than one byte / the event has a field besides level; distinct by call text"
	c.OpenShards("From Verif Require Import Base.Prelude Base.CborSpec Enc.CborEnc Harness.C09H.\nOpen Scope N_scope.",
		"(tables * (list N * call)) * list N", "mismatches c09_run c09_eqb", 120)
	runPrimitives(c)
	if !zerolog.VerifEncIsCBOR() {
		c.Note("package zerolog was built without -tags binary_log: enc is the JSON encoder, the whole-event part of C09 was skipped")
		c.Res.ExtraCoverage["events"] = "skipped (no binary_log tag)"
		return
	}
	c.OpenShards("From Verif Require Import Base.Prelude Base.CborSpec Enc.CborEnc Harness.C09H.\nOpen Scope N_scope.",
		"(tables * (list (list N * cval) * list (list N * cval) * list (list N * cval))) * list N", "mismatches c09_run_event c09_eqb", 60)
	runEvents(c)
}
