package main

// Part B of C09, directed: every entry point that ends in a message.
//
// "the item contains the logged keys in order with the logged values in the representation zerolog documents":
// a message is a string - the binary build carries it as a CBOR text string (major type 3), as it carries the
// level, the caller and every Str field.  The generated programs end in Msg / Msgf / MsgFunc / Send only; the
// other ways a line reaches a Logger - Print / Printf / Println, the Logger as an io.Writer (Logger.Write,
// log.New(logger, ...), log.SetOutput(logger), fmt.Fprintf(logger, ...), io.WriteString), the package-level
// functions of github.com/rs/zerolog/log - each have their own few lines of code ending in the message field,
// with and without hooks (hooks are handed the message as a string).  Here every such entry point is run on
// loggers without / with context, with the Timestamp and Caller hooks, with a user hook that logs the message
// and the level it was handed, over messages around the definite-length boundaries (0, 1, 23, 24, 255, 256
// bytes), non-ASCII text, inner and trailing newlines; the independent parser must read exactly the logged keys
// in order, `message` (and every other text field) being a TEXT string with the logged text.  zerolog's own
// decoder prints byte strings and text strings alike, so only a generic parser sees the difference.

import (
	"errors"
	"fmt"
	"io"
	stdlog "log"
	"os"
	"strings"
	"time"

	"github.com/rs/zerolog"
	zlog "github.com/rs/zerolog/log"
	"verifharness/cborref"
	. "verifharness/hlib"
)

type msgEntry struct {
	name  string
	level string // the level field of the line ("" = none)
	// what the line's message is for the argument m
	text func(m string) string
	// fields the entry point itself adds before the hooks run
	extra []kv
	run   func(l zerolog.Logger, m string)
}

// the line Logger.Write makes of p: one trailing newline is dropped
func writeText(p string) string { return strings.TrimSuffix(p, "\n") }

// what the standard library logger hands to its output: the text with a newline unless it ends in one
func stdlogLine(s string) string {
	if len(s) == 0 || s[len(s)-1] != '\n' {
		s += "\n"
	}
	return s
}

var errBoom = errors.New("boom")

func msgEntries() []msgEntry {
	id := func(m string) string { return m }
	return []msgEntry{
		{"l.Log().Msg(m)", "", id, nil, func(l zerolog.Logger, m string) { l.Log().Msg(m) }},
		{"l.Info().Msg(m)", "info", id, nil, func(l zerolog.Logger, m string) { l.Info().Msg(m) }},
		{"l.Warn().Msgf(\"%s\", m)", "warn", id, nil, func(l zerolog.Logger, m string) { l.Warn().Msgf("%s", m) }},
		{"l.Error().MsgFunc(func() string { return m })", "error", id, nil, func(l zerolog.Logger, m string) { l.Error().MsgFunc(func() string { return m }) }},
		{"l.Trace().Str(\"k\", m).Send()", "trace", func(string) string { return "" }, nil, nil}, // extra filled per message below
		{"l.WithLevel(zerolog.WarnLevel).Msg(m)", "warn", id, nil, func(l zerolog.Logger, m string) { l.WithLevel(zerolog.WarnLevel).Msg(m) }},
		{"l.Err(nil).Msg(m)", "info", id, nil, func(l zerolog.Logger, m string) { l.Err(nil).Msg(m) }},
		{"l.Err(errors.New(\"boom\")).Msg(m)", "error", id, []kv{{"error", pString("boom")}}, func(l zerolog.Logger, m string) { l.Err(errBoom).Msg(m) }},
		{"l.Print(m)", "debug", id, nil, func(l zerolog.Logger, m string) { l.Print(m) }},
		{"l.Print(m, 7, m)", "debug", func(m string) string { return fmt.Sprint(m, 7, m) }, nil, func(l zerolog.Logger, m string) { l.Print(m, 7, m) }},
		{"l.Printf(\"%s\", m)", "debug", id, nil, func(l zerolog.Logger, m string) { l.Printf("%s", m) }},
		{"l.Printf(\"%s|%d\", m, 42)", "debug", func(m string) string { return m + "|42" }, nil, func(l zerolog.Logger, m string) { l.Printf("%s|%d", m, 42) }},
		{"l.Println(m)", "debug", func(m string) string { return m + "\n" }, nil, func(l zerolog.Logger, m string) { l.Println(m) }},
		{"l.Write([]byte(m))", "", writeText, nil, func(l zerolog.Logger, m string) { l.Write([]byte(m)) }},
		{"l.Write([]byte(m + \"\\n\"))", "", id, nil, func(l zerolog.Logger, m string) { l.Write([]byte(m + "\n")) }},
		{"io.WriteString(l, m)", "", writeText, nil, func(l zerolog.Logger, m string) { io.WriteString(l, m) }},
		{"fmt.Fprintf(l, \"%s\", m)", "", writeText, nil, func(l zerolog.Logger, m string) { fmt.Fprintf(l, "%s", m) }},
		{"fmt.Fprintln(l, m)", "", id, nil, func(l zerolog.Logger, m string) { fmt.Fprintln(l, m) }},
		{"log.New(l, \"\", 0).Print(m)", "", func(m string) string { return writeText(stdlogLine(m)) }, nil, func(l zerolog.Logger, m string) { stdlog.New(l, "", 0).Print(m) }},
		{"log.New(l, \"srv: \", 0).Printf(\"%s\", m)", "", func(m string) string { return writeText(stdlogLine("srv: " + m)) }, nil, func(l zerolog.Logger, m string) { stdlog.New(l, "srv: ", 0).Printf("%s", m) }},
		{"log.SetFlags(0); log.SetOutput(l); log.Print(m)", "", func(m string) string { return writeText(stdlogLine(m)) }, nil, func(l zerolog.Logger, m string) {
			oldF, oldP := stdlog.Flags(), stdlog.Prefix()
			defer func() { stdlog.SetOutput(os.Stderr); stdlog.SetFlags(oldF); stdlog.SetPrefix(oldP) }()
			stdlog.SetFlags(0)
			stdlog.SetPrefix("")
			stdlog.SetOutput(l)
			stdlog.Print(m)
		}},
		{"zerolog/log.Logger = l; log.Print(m)", "debug", id, nil, func(l zerolog.Logger, m string) {
			old := zlog.Logger
			defer func() { zlog.Logger = old }()
			zlog.Logger = l
			zlog.Print(m)
		}},
		{"zerolog/log.Logger = l; log.Printf(\"%s\", m)", "debug", id, nil, func(l zerolog.Logger, m string) {
			old := zlog.Logger
			defer func() { zlog.Logger = old }()
			zlog.Logger = l
			zlog.Printf("%s", m)
		}},
		{"zerolog/log.Logger = l; log.Info().Msg(m)", "info", id, nil, func(l zerolog.Logger, m string) {
			old := zlog.Logger
			defer func() { zlog.Logger = old }()
			zlog.Logger = l
			zlog.Info().Msg(m)
		}},
		{"zerolog/log.Logger = l; log.Log().Msgf(\"%s\", m)", "", id, nil, func(l zerolog.Logger, m string) {
			old := zlog.Logger
			defer func() { zlog.Logger = old }()
			zlog.Logger = l
			zlog.Log().Msgf("%s", m)
		}},
	}
}

type msgLogger struct {
	name string
	mk   func(w io.Writer) zerolog.Logger
	ctx  []kv
	// the fields the hooks add, in order, given the level text and the message the hook is handed
	hooks func(g *gen, level, msg string) []kv
}

func msgLoggers(now time.Time) []msgLogger {
	userHook := zerolog.HookFunc(func(e *zerolog.Event, lvl zerolog.Level, msg string) {
		e.Str("hook_msg", msg).Str("hook_level", lvl.String())
	})
	userOut := func(level, msg string) []kv {
		return []kv{{"hook_msg", pString(msg)}, {"hook_level", pString(level)}}
	}
	none := func(*gen, string, string) []kv { return nil }
	tsOut := func(g *gen) kv { g.tb.addTime(now); return kv{"time", pTime(now)} }
	ctxKV := []kv{{"svc", pString("api")}, {"n", pInt(-25)}}
	return []msgLogger{
		{"zerolog.New(w)", func(w io.Writer) zerolog.Logger { return zerolog.New(w) }, nil, none},
		{"zerolog.New(w).With().Str(\"svc\", \"api\").Int(\"n\", -25).Logger()", func(w io.Writer) zerolog.Logger { return zerolog.New(w).With().Str("svc", "api").Int("n", -25).Logger() }, ctxKV, none},
		{"zerolog.New(w).With().Timestamp().Logger()", func(w io.Writer) zerolog.Logger { return zerolog.New(w).With().Timestamp().Logger() }, nil,
			func(g *gen, level, msg string) []kv { return []kv{tsOut(g)} }},
		{"zerolog.New(w).With().Caller().Logger()", func(w io.Writer) zerolog.Logger { return zerolog.New(w).With().Caller().Logger() }, nil,
			func(g *gen, level, msg string) []kv { return []kv{{"caller", pString("F:1")}} }},
		{"zerolog.New(w).Hook(HookFunc(func(e, lvl, msg) { e.Str(\"hook_msg\", msg).Str(\"hook_level\", lvl.String()) }))", func(w io.Writer) zerolog.Logger { return zerolog.New(w).Hook(userHook) }, nil,
			func(g *gen, level, msg string) []kv { return userOut(level, msg) }},
		{"zerolog.New(w).With().Str(\"svc\", \"api\").Int(\"n\", -25).Timestamp().Logger().Hook(<the same hook>)", func(w io.Writer) zerolog.Logger {
			return zerolog.New(w).With().Str("svc", "api").Int("n", -25).Timestamp().Logger().Hook(userHook)
		}, ctxKV, func(g *gen, level, msg string) []kv { return append([]kv{tsOut(g)}, userOut(level, msg)...) }},
	}
}

func msgTexts() []string {
	return []string{
		"",
		"m",
		"connection reset by peer",       // 24 bytes
		strings.Repeat("x", 23),          // the longest inline length
		"user \"zoë\": quota exceeded – 512 of 500 MiB\ttab \\ backslash",
		strings.Repeat("é", 127) + "y",   // 255 bytes
		strings.Repeat("z", 256),         // the first 2-byte length
		"ends in a newline\n",
		"two\nlines\n\n",
		"\n",
		"cr\rinside",
	}
}

func (er *evRun) runMessageEntryPoints() {
	c := er.c
	now := time.Unix(1700000123, 456000000).UTC()
	oldTS := zerolog.TimestampFunc
	zerolog.TimestampFunc = func() time.Time { return now }
	defer func() { zerolog.TimestampFunc = oldTS }()
	zerolog.DurationFieldUnit, zerolog.DurationFieldInteger = time.Millisecond, false
	entries, loggers, texts := msgEntries(), msgLoggers(now), msgTexts()
	runs, withMsg := 0, 0
	for ei := range entries {
		en := entries[ei]
		for li, lg := range loggers {
			for mi, m := range texts {
				g := &gen{r: c.R, tb: newTables(), unit: time.Millisecond, now: now}
				run, extra := en.run, en.extra
				if run == nil { // the Send entry: the text travels as a Str field
					mm := m
					run = func(l zerolog.Logger, _ string) { l.Trace().Str("k", mm).Send() }
					extra = []kv{{"k", pString(m)}}
				}
				w := &capture{}
				run(lg.mk(w), m)
				text := en.text(m)
				var pre []kv
				if en.level != "" {
					pre = []kv{{"level", pString(en.level)}}
				}
				ev := append([]kv{}, extra...)
				ev = append(ev, lg.hooks(g, en.level, text)...)
				if text != "" {
					ev = append(ev, kv{"message", pString(text)})
					withMsg++
				}
				in := map[string]interface{}{"entry_point": en.name, "logger": lg.name, "m": m, "expected_message": text, "directed": "message entry points"}
				i := er.n
				er.n++
				runs++
				// the model evaluates a diagonal of the grid; the monitors see all of it
				er.check(g, i, in, w, pre, lg.ctx, ev, nil, nil, (ei+li+mi)%5 == 0)
				// the message (and the texts the hooks were handed) as the generic parser types them
				if len(w.bufs) == 1 {
					if it, rest, err := cborref.ParseItem(w.bufs[0]); err == nil && len(rest) == 0 && it.Kind == cborref.Map {
						for j := 0; j+1 < len(it.Items); j += 2 {
							k, v := it.Items[j], it.Items[j+1]
							if k.Kind != cborref.Text {
								continue
							}
							switch string(k.B) {
							case "message", "hook_msg", "level", "hook_level", "caller", "error", "svc", "k":
								if v.Kind != cborref.Text || v.Indef {
									c.Violate(Violation{Key: "cbor-text-field-not-text", Monitor: "text-representation", Desc: fmt.Sprintf("%s on %s: the value of %q is not a definite-length text string (major type 3) but %s: a generic CBOR reader does not see the logged text", en.name, lg.name, string(k.B), trunc(v.String(), 120)),
										Case: in, Observed: fmt.Sprintf("%x", truncB(w.bufs[0], 400)), Expected: "\"" + string(k.B) + "\": a text string"})
								}
							}
						}
					}
				}
				c.Hist("message_entry_point", en.name)
			}
		}
	}
	c.Res.ExtraCoverage["message_entry_point_programs"] = runs
	c.Res.ExtraCoverage["message_entry_point_programs_with_message"] = withMsg
	c.Res.ExtraCoverage["message_entry_points"] = len(entries)
}
