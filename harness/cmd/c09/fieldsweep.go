package main

// Part B of C09, directed: Fields() over every value type its type switch names.
//
// "the item contains the logged keys in order with the logged values in the representation zerolog documents
// (... tagged time/address/hex/embedded-JSON/embedded-CBOR payloads)": a value handed to the logger through
// Event.Fields / Context.Fields (map or slice form) is a logged value like one handed to the dedicated method,
// and fields.go's appendFieldList selects the representation by a type switch with an arm per type: net.IP,
// net.IPNet, net.HardwareAddr (tags 260 / 261), time.Time (tag 1), time.Duration, []byte (byte string), error,
// json.RawMessage (tag 262), pointers to the scalars, slices of them; whatever has no arm goes through
// InterfaceMarshalFunc into an embedded-JSON item.  zerolog's own decoder prints a tagged address and the text of
// its String() form alike, so only a generic parser sees which arm ran.  The random generator's fieldsValue()
// draws 14 kinds of value, none of them an address; here every type the switch names (and its neighbours: the
// pointer to it, the nil pointer, the slice of it, a type that is only a fmt.Stringer) is logged through
// Fields(map), Fields(slice), Context.Fields(map), Context.Fields(slice) and Fields inside a Dict, always between
// two ordinary fields, and
//   - the value monitor of check() demands the documented item for the value (the same expectation the dedicated
//     method's generated field carries: pIP, pMAC, pPrefix, pTime, pDur, pBytes, pJSON, ...), and
//   - the entry-point monitor demands that the generic parser reads the SAME item from e.Fields({k: v}) as from
//     e.<Method>(k, v) (IPAddr, MACAddr, IPPrefix, Time, Dur, Bytes, AnErr, RawJSON, Times, Durs, Errs ...), for
//     every value where the unchanged tree gives that equality (fsCase.method != nil).

import (
	"encoding/json"
	"errors"
	"fmt"
	"net"
	"time"

	"github.com/rs/zerolog"
	"verifharness/cborref"
	. "verifharness/hlib"
)

// fsNamed is only a fmt.Stringer (no arm of the switch): Fields sends it through InterfaceMarshalFunc
type fsNamed struct {
	Name string `json:"name"`
	N    int    `json:"n"`
}

func (s fsNamed) String() string { return "fsNamed<" + s.Name + ">" }

// fsPtrStringer has String on the pointer only
type fsPtrStringer struct{ ID int }

func (s *fsPtrStringer) String() string { return fmt.Sprintf("#%d", s.ID) }

type fsCase struct {
	name string // Go source of the value
	v    interface{}
	want val
	// the dedicated method for the value (nil: none / the unchanged tree does not give the same item)
	method func(k string) gfield
}

func (g *gen) fieldsSweepCases() []fsCase {
	var cs []fsCase
	add := func(name string, v interface{}, want val, method func(k string) gfield) {
		cs = append(cs, fsCase{name, v, want, method})
	}
	iface := func(name string, v interface{}) { add(name, v, pIface(v), nil) }

	// ---- addresses
	ips := []struct {
		src string
		ip  net.IP
	}{
		{"net.IP{10, 1, 2, 3}", net.IP{10, 1, 2, 3}},
		{"net.IP{127, 0, 0, 1}", net.IP{127, 0, 0, 1}},
		{"net.ParseIP(\"10.1.2.3\") (16 bytes, v4-mapped)", net.ParseIP("10.1.2.3")},
		{"net.ParseIP(\"2001:db8::8a2e:370:7334\")", net.ParseIP("2001:db8::8a2e:370:7334")},
		{"net.IPv6zero", net.IPv6zero},
		{"net.IP(nil)", net.IP(nil)},
		{"net.IP{1, 2, 3} (3 bytes)", net.IP{1, 2, 3}},
	}
	for _, x := range ips {
		ip := x.ip
		add(x.src, ip, pIP(ip), func(k string) gfield {
			return gfield{"IPAddr", func(e *zerolog.Event) *zerolog.Event { return e.IPAddr(k, ip) }, func(c zerolog.Context) zerolog.Context { return c.IPAddr(k, ip) }, nil, []kv{{k, pIP(ip)}}}
		})
	}
	macs := []struct {
		src string
		ha  net.HardwareAddr
	}{
		{"net.HardwareAddr{0x00, 0x14, 0x22, 0x01, 0x23, 0x45}", net.HardwareAddr{0x00, 0x14, 0x22, 0x01, 0x23, 0x45}},
		{"net.HardwareAddr{0xde, 0xad, 0xbe, 0xef, 0, 1, 2, 3} (EUI-64)", net.HardwareAddr{0xde, 0xad, 0xbe, 0xef, 0, 1, 2, 3}},
		{"net.HardwareAddr(nil)", net.HardwareAddr(nil)},
		{"net.HardwareAddr{} (empty)", net.HardwareAddr{}},
	}
	for _, x := range macs {
		ha := x.ha
		add(x.src, ha, pMAC(ha), func(k string) gfield {
			return gfield{"MACAddr", func(e *zerolog.Event) *zerolog.Event { return e.MACAddr(k, ha) }, func(c zerolog.Context) zerolog.Context { return c.MACAddr(k, ha) }, nil, []kv{{k, pMAC(ha)}}}
		})
	}
	nets := []struct {
		src string
		n   net.IPNet
	}{
		{"net.IPNet{IP: net.IP{192, 168, 0, 0}, Mask: net.CIDRMask(24, 32)}", net.IPNet{IP: net.IP{192, 168, 0, 0}, Mask: net.CIDRMask(24, 32)}},
		{"net.IPNet{IP: net.ParseIP(\"2001:db8::\"), Mask: net.CIDRMask(64, 128)}", net.IPNet{IP: net.ParseIP("2001:db8::"), Mask: net.CIDRMask(64, 128)}},
		{"net.IPNet{IP: net.IP{10, 0, 0, 0}} (nil mask)", net.IPNet{IP: net.IP{10, 0, 0, 0}}},
	}
	for _, x := range nets {
		n := x.n
		add(x.src, n, pPrefix(n.IP, n.Mask), func(k string) gfield {
			return gfield{"IPPrefix", func(e *zerolog.Event) *zerolog.Event { return e.IPPrefix(k, n) }, func(c zerolog.Context) zerolog.Context { return c.IPPrefix(k, n) }, nil, []kv{{k, pPrefix(n.IP, n.Mask)}}}
		})
	}

	// ---- time, duration
	for _, t := range []time.Time{time.Unix(1700000000, 0).UTC(), time.Unix(1700000000, 123456789), time.Unix(-25, 0), time.Time{}, time.Unix(1<<32, 500000000).In(time.FixedZone("z", -7*3600))} {
		t := t
		g.tb.addTime(t)
		src := fmt.Sprintf("time.Unix(%d, %d)", t.Unix(), t.Nanosecond())
		meth := func(k string) gfield {
			return gfield{"Time", func(e *zerolog.Event) *zerolog.Event { return e.Time(k, t) }, func(c zerolog.Context) zerolog.Context { return c.Time(k, t) }, nil, []kv{{k, pTime(t)}}}
		}
		add(src, t, pTime(t), meth)
		tp := t
		add("&"+src, &tp, pTime(t), meth)
	}
	add("(*time.Time)(nil)", (*time.Time)(nil), pNil(), nil)
	for _, d := range []time.Duration{0, 1, 1500 * time.Microsecond, -time.Second, 90 * time.Minute, 1<<63 - 1} {
		d := d
		g.tb.addDur(d, g.unit)
		src := fmt.Sprintf("time.Duration(%d)", int64(d))
		meth := func(k string) gfield {
			return gfield{"Dur", func(e *zerolog.Event) *zerolog.Event { return e.Dur(k, d) }, func(c zerolog.Context) zerolog.Context { return c.Dur(k, d) }, nil, []kv{{k, g.pDur(d)}}}
		}
		add(src, d, g.pDur(d), meth)
		dp := d
		add("&"+src, &dp, g.pDur(d), meth)
	}
	add("(*time.Duration)(nil)", (*time.Duration)(nil), pNil(), nil)

	// ---- bytes, raw JSON, errors, Stringer-only
	for _, b := range [][]byte{[]byte("bin\x00\xff"), {}, nil, fillBytes(g.r, 24, 1), []byte("10.1.2.3")} {
		b := b
		add(fmt.Sprintf("[]byte(%q)", b), b, pBytes(b), func(k string) gfield {
			return gfield{"Bytes", func(e *zerolog.Event) *zerolog.Event { return e.Bytes(k, b) }, func(c zerolog.Context) zerolog.Context { return c.Bytes(k, b) }, nil, []kv{{k, pBytes(b)}}}
		})
	}
	for _, j := range []json.RawMessage{json.RawMessage(`{"a":[1,2,"x"]}`), json.RawMessage(`"10.1.2.3"`), json.RawMessage(``), json.RawMessage(nil)} {
		j := j
		add(fmt.Sprintf("json.RawMessage(%q)", []byte(j)), j, pJSON(j), func(k string) gfield {
			return gfield{"RawJSON", func(e *zerolog.Event) *zerolog.Event { return e.RawJSON(k, j) }, func(c zerolog.Context) zerolog.Context { return c.RawJSON(k, j) }, nil, []kv{{k, pJSON(j)}}}
		})
	}
	for _, m := range []string{"connection reset", "", "10.1.2.3"} {
		err := errors.New(m)
		m := m
		add(fmt.Sprintf("errors.New(%q)", m), err, pString(m), func(k string) gfield {
			return gfield{"AnErr", func(e *zerolog.Event) *zerolog.Event { return e.AnErr(k, err) }, func(c zerolog.Context) zerolog.Context { return c.AnErr(k, err) }, nil, []kv{{k, pString(m)}}}
		})
	}
	{
		// an error that is a fmt.Stringer too: the error arm comes first
		var ae error = &net.AddrError{Err: "mismatched", Addr: "10.1.2.3"}
		add("&net.AddrError{Err: \"mismatched\", Addr: \"10.1.2.3\"}", ae, pString(ae.Error()), func(k string) gfield {
			return gfield{"AnErr", func(e *zerolog.Event) *zerolog.Event { return e.AnErr(k, ae) }, func(c zerolog.Context) zerolog.Context { return c.AnErr(k, ae) }, nil, []kv{{k, pString(ae.Error())}}}
		})
	}
	// no arm: through InterfaceMarshalFunc (the Interface method gives the same item)
	ifaceM := func(v interface{}) func(k string) gfield {
		return func(k string) gfield {
			return gfield{"Interface", func(e *zerolog.Event) *zerolog.Event { return e.Interface(k, v) }, func(c zerolog.Context) zerolog.Context { return c.Interface(k, v) }, nil, []kv{{k, pIface(v)}}}
		}
	}
	ifaceI := func(name string, v interface{}) { add(name, v, pIface(v), ifaceM(v)) }
	ifaceI("fsNamed{\"svc\", 7} (only a fmt.Stringer)", fsNamed{"svc", 7})
	ifaceI("&fsNamed{\"svc\", 7}", &fsNamed{"svc", 7})
	ifaceI("(*fsNamed)(nil)", (*fsNamed)(nil))
	ifaceI("&fsPtrStringer{3} (String on the pointer)", &fsPtrStringer{3})
	ifaceI("(*fsPtrStringer)(nil)", (*fsPtrStringer)(nil))
	ifaceI("fsPtrStringer{3} (not a Stringer)", fsPtrStringer{3})
	ifaceI("time.Month(5) (a named int with String)", time.Month(5))
	ifaceI("time.UTC (*time.Location)", time.UTC)

	// ---- pointers to the address / byte types: no arm
	{
		ip4, ip6, ha := net.IP{10, 1, 2, 3}, net.ParseIP("2001:db8::1"), net.HardwareAddr{0, 1, 2, 3, 4, 5}
		n := net.IPNet{IP: net.IP{192, 168, 0, 0}, Mask: net.CIDRMask(16, 32)}
		b := []byte("bin")
		j := json.RawMessage(`{"a":1}`)
		ifaceI("&net.IP{10, 1, 2, 3}", &ip4)
		ifaceI("&net.ParseIP(\"2001:db8::1\")", &ip6)
		ifaceI("(*net.IP)(nil)", (*net.IP)(nil))
		ifaceI("&net.HardwareAddr{0, 1, 2, 3, 4, 5}", &ha)
		ifaceI("(*net.HardwareAddr)(nil)", (*net.HardwareAddr)(nil))
		ifaceI("&net.IPNet{192.168.0.0/16}", &n)
		ifaceI("(*net.IPNet)(nil)", (*net.IPNet)(nil))
		ifaceI("&[]byte(\"bin\")", &b)
		ifaceI("&json.RawMessage(`{\"a\":1}`)", &j)
		ifaceI("(*json.RawMessage)(nil)", (*json.RawMessage)(nil))
		// ---- slices
		ifaceI("[]net.IP{10.1.2.3, 2001:db8::1}", []net.IP{ip4, ip6})
		ifaceI("[]net.IP{}", []net.IP{})
		ifaceI("[]net.HardwareAddr{00:01:02:03:04:05}", []net.HardwareAddr{ha})
		ifaceI("[]net.IPNet{192.168.0.0/16}", []net.IPNet{n})
		ifaceI("[][]byte{\"bin\", \"\"}", [][]byte{b, {}})
		ifaceI("[]json.RawMessage{`{\"a\":1}`, `2`}", []json.RawMessage{j, json.RawMessage(`2`)})
		ifaceI("[]fmt.Stringer{fsNamed{\"a\", 1}, net.IP{10, 1, 2, 3}}", []fmt.Stringer{fsNamed{"a", 1}, ip4})
		ifaceI("[]interface{}{net.IP{10, 1, 2, 3}, 1, \"s\"}", []interface{}{ip4, 1, "s"})
		ifaceI("map[string]net.IP{\"gw\": 10.1.2.3}", map[string]net.IP{"gw": ip4})
	}
	_ = iface
	{
		ts := []time.Time{time.Unix(1700000000, 0), time.Unix(24, 500000000)}
		cs2 := make([]string, len(ts))
		for i, t := range ts {
			g.tb.addTime(t)
			cs2[i] = ctime(t)
		}
		v := sliceVal("PTimes", "("+CoqList(cs2)+" : list (Z*N))", len(ts), func(i int) *cborref.Item { return wantTime(ts[i]) })
		add("[]time.Time{time.Unix(1700000000, 0), time.Unix(24, 500000000)}", ts, v, func(k string) gfield {
			return gfield{"Times", func(e *zerolog.Event) *zerolog.Event { return e.Times(k, ts) }, func(c zerolog.Context) zerolog.Context { return c.Times(k, ts) }, nil, []kv{{k, v}}}
		})
		ds := []time.Duration{time.Second, -1500 * time.Microsecond, 0}
		xs := make([]int64, len(ds))
		for i, d := range ds {
			g.tb.addDur(d, g.unit)
			xs[i] = int64(d)
		}
		unit, useInt := g.unit, g.useInt
		dv := sliceVal(fmt.Sprintf("PDurs %s %s", cz(int64(unit)), CoqBool(useInt)), czs(xs), len(ds), func(i int) *cborref.Item { return wantDur(ds[i], unit, useInt) })
		add("[]time.Duration{time.Second, -1500 * time.Microsecond, 0}", ds, dv, func(k string) gfield {
			return gfield{"Durs", func(e *zerolog.Event) *zerolog.Event { return e.Durs(k, ds) }, func(c zerolog.Context) zerolog.Context { return c.Durs(k, ds) }, nil, []kv{{k, dv}}}
		})
		errs := []error{errors.New("a"), errors.New("10.1.2.3")}
		ev := arrVal([]val{pString("a"), pString("10.1.2.3")})
		add("[]error{errors.New(\"a\"), errors.New(\"10.1.2.3\")}", errs, ev, func(k string) gfield {
			return gfield{"Errs", func(e *zerolog.Event) *zerolog.Event { return e.Errs(k, errs) }, func(c zerolog.Context) zerolog.Context { return c.Errs(k, errs) }, nil, []kv{{k, ev}}}
		})
		ss := []string{"10.1.2.3", ""}
		sv := vp("PStrings "+cbss([][]byte{[]byte(ss[0]), []byte(ss[1])}), cborref.Arr(cborref.Tx(ss[0]), cborref.Tx(ss[1])))
		add("[]string{\"10.1.2.3\", \"\"}", ss, sv, func(k string) gfield {
			return gfield{"Strs", func(e *zerolog.Event) *zerolog.Event { return e.Strs(k, ss) }, func(c zerolog.Context) zerolog.Context { return c.Strs(k, ss) }, nil, []kv{{k, sv}}}
		})
	}
	// ---- the scalars and their pointers next to them (the arms before and after the address arms)
	{
		s := "10.1.2.3"
		add("\"10.1.2.3\" (a string)", s, pString(s), func(k string) gfield {
			return gfield{"Str", func(e *zerolog.Event) *zerolog.Event { return e.Str(k, s) }, func(c zerolog.Context) zerolog.Context { return c.Str(k, s) }, nil, []kv{{k, pString(s)}}}
		})
		add("&\"10.1.2.3\"", &s, pString(s), nil)
		u := uint8(255)
		add("&uint8(255)", &u, pUint(255), nil)
		i := int64(-25)
		add("&int64(-25)", &i, pInt(-25), nil)
		f := 2.5
		add("&float64(2.5)", &f, pF64(0x4004000000000000), nil)
		bb := true
		add("&true", &bb, pBool(true), nil)
		add("(*bool)(nil)", (*bool)(nil), pNil(), nil)
		add("nil", nil, pNil(), nil)
	}
	return cs
}

// the forms a value reaches appendFieldList in (descs: the Go source of each call, for the replay)
func fieldsForms(k string, cs fsCase) ([]gfield, []string) {
	v, pv := cs.v, cs.want
	return []gfield{
			{"Fields(map)", func(e *zerolog.Event) *zerolog.Event { return e.Fields(map[string]interface{}{k: v}) },
				func(c zerolog.Context) zerolog.Context { return c.Fields(map[string]interface{}{k: v}) }, nil, []kv{{k, pv}}},
			{"Fields(slice)", func(e *zerolog.Event) *zerolog.Event { return e.Fields([]interface{}{k, v, k + "2", v}) },
				func(c zerolog.Context) zerolog.Context { return c.Fields([]interface{}{k, v, k + "2", v}) }, nil, []kv{{k, pv}, {k + "2", pv}}},
		}, []string{
			fmt.Sprintf("Fields(map[string]interface{}{%q: %s})", k, cs.name),
			fmt.Sprintf("Fields([]interface{}{%q, %s, %q, %s})", k, cs.name, k+"2", cs.name),
		}
}

// one event with the field f alone, as the generic parser reads it (nil: not one well-formed item)
func oneEventItem(f gfield, asContext bool) *cborref.Item {
	w := &capture{}
	l := zerolog.New(w)
	if asContext {
		l = f.ctx(l.With()).Logger()
		l.Log().Send()
	} else {
		f.ev(l.Log()).Send()
	}
	if len(w.bufs) != 1 {
		return nil
	}
	it, rest, err := cborref.ParseItem(w.bufs[0])
	if err != nil || len(rest) != 0 {
		return nil
	}
	return it
}

func (er *evRun) runFieldsSweep() {
	c := er.c
	strF := func(k, s string) gfield {
		return gfield{"Str", func(e *zerolog.Event) *zerolog.Event { return e.Str(k, s) }, func(c zerolog.Context) zerolog.Context { return c.Str(k, s) }, nil, []kv{{k, pString(s)}}}
	}
	intF := func(k string, v int64) gfield {
		return gfield{"Int64", func(e *zerolog.Event) *zerolog.Event { return e.Int64(k, v) }, func(c zerolog.Context) zerolog.Context { return c.Int64(k, v) }, nil, []kv{{k, pInt(v)}}}
	}
	progs, agree, ncases := 0, 0, 0
	er.shardMod = 2
	defer func() { er.shardMod = 0 }()
	for _, cfg := range []struct {
		unit   time.Duration
		useInt bool
	}{{time.Millisecond, false}, {time.Second, true}} {
		g := &gen{r: c.R.Fork(), tb: newTables(), unit: cfg.unit, useInt: cfg.useInt, now: time.Unix(1700000000, 0)}
		zerolog.DurationFieldUnit, zerolog.DurationFieldInteger = g.unit, g.useInt
		cases := g.fieldsSweepCases()
		ncases = len(cases)
		for ci, cs := range cases {
			pre, post := strF("pre", "x"), intF("post", 7)
			forms, descs := fieldsForms("v", cs)
			for fi, f := range forms {
				desc := descs[fi]
				// the model evaluates the event and context forms of the first configuration; the monitors see all
				if cfg.useInt && (ci+fi)%4 != 0 {
					continue
				}
				er.runProgram(g, "fields sweep, event: "+desc, nil, []gfield{pre, f, post}, zerolog.InfoLevel, "m", progs%3)
				er.runProgram(g, "fields sweep, context: "+desc, [][]gfield{{pre, f}, {post}}, []gfield{strF("s", "y")}, zerolog.NoLevel, "", progs%3)
				progs += 2
				if (ci+fi)%3 == 0 {
					er.runProgram(g, "fields sweep, dict: "+desc, nil, []gfield{pre, inDict("d", []gfield{pre, f, post}), post}, zerolog.NoLevel, "", progs%3)
					progs++
				}
			}
			// ---- monitor: Fields and the dedicated method are two entry points for the same logged value
			if cs.method == nil {
				continue
			}
			m := cs.method("v")
			for _, asCtx := range []bool{false, true} {
				ref := oneEventItem(m, asCtx)
				if ref == nil {
					continue // the well-formedness monitors of check() report it
				}
				f, fdesc := forms[0], descs[0]
				got := oneEventItem(f, asCtx)
				agree++
				if got != nil && !cborref.Equal(got, ref) {
					where := "Event"
					if asCtx {
						where = "Context"
					}
					c.Violate(Violation{Key: "cbor-fields-vs-method", Monitor: "entry-points-agree",
						Desc: fmt.Sprintf("%s.%s and %s.%s(\"v\", v) carry the same logged value but a generic parser reads different items: %s", where, fdesc, where, m.kind, firstDiff(got, ref)),
						Case: map[string]interface{}{"value": cs.name, "fields_call": where + "." + fdesc, "method_call": fmt.Sprintf("%s.%s(\"v\", %s)", where, m.kind, cs.name),
							"DurationFieldUnit": g.unit.String(), "DurationFieldInteger": g.useInt},
						Observed: trunc(got.String(), 400), Expected: trunc(ref.String(), 400)})
				}
			}
		}
	}
	c.Res.ExtraCoverage["fields_sweep_values"] = ncases
	c.Res.ExtraCoverage["fields_sweep_programs"] = progs
	c.Res.ExtraCoverage["fields_vs_method_comparisons"] = agree
}
