package main

// Part B of C09: whole events under -tags binary_log.

import (
	"bytes"
	"encoding/json"
	"errors"
	"fmt"
	"math"
	"net"
	"reflect"
	"sort"
	"strings"
	"time"

	"github.com/rs/zerolog"
	"verifharness/cborref"
	. "verifharness/hlib"
)

type val struct {
	coq  string // Gallina term of type cval
	want *cborref.Item
}
type kv struct {
	k string
	v val
}

// one generated API call: how to apply it to an Event / a Context / an Array,
// and the (key, value) fields it is expected to add
type gfield struct {
	kind string
	ev   func(e *zerolog.Event) *zerolog.Event
	ctx  func(c zerolog.Context) zerolog.Context
	arr  func(a *zerolog.Array) *zerolog.Array
	out  []kv
}

func vp(p string, w *cborref.Item) val { return val{"(VP (" + p + "))", w} }

func kvsCoq(xs []kv) string {
	ys := make([]string, len(xs))
	for i, x := range xs {
		ys[i] = "(" + cbs([]byte(x.k)) + ", " + x.v.coq + ")"
	}
	return "(" + CoqList(ys) + " : list (list N * cval))"
}
func kvsWant(xs []kv) []*cborref.Item {
	var out []*cborref.Item
	for _, x := range xs {
		out = append(out, cborref.Tx(x.k), x.v.want)
	}
	return out
}
func dictVal(xs []kv) val {
	return val{"(VDict " + kvsCoq(xs) + ")", cborref.MapI(kvsWant(xs)...)}
}
func arrVal(xs []val) val {
	ys := make([]string, len(xs))
	ws := make([]*cborref.Item, len(xs))
	for i, x := range xs {
		ys[i], ws[i] = x.coq, x.want
	}
	return val{"(VArr (" + CoqList(ys) + " : list cval))", cborref.ArrI(ws...)}
}

type objM struct{ fs []gfield }

func (o objM) MarshalZerologObject(e *zerolog.Event) {
	for _, f := range o.fs {
		f.ev(e)
	}
}

type arrM struct{ fs []gfield }

func (o arrM) MarshalZerologArray(a *zerolog.Array) {
	for _, f := range o.fs {
		f.arr(a)
	}
}

type gen struct {
	r      *Rng
	tb     *tables
	unit   time.Duration
	useInt bool
	now    time.Time
	nkey   int
}

var keyPool = []string{"a", "k", "key", "", "é", "with space", "q\"uote", strings.Repeat("k", 23), strings.Repeat("k", 24), strings.Repeat("L", 256), "level", "message", "time", "a"}

func (g *gen) key() string {
	g.nkey++
	if g.r.Chance(70) {
		return fmt.Sprintf("f%d", g.nkey)
	}
	return keyPool[g.r.Intn(len(keyPool))]
}
func (g *gen) str() string {
	r := g.r
	switch r.Intn(8) {
	case 0:
		return ""
	case 1:
		return string(fillBytes(r, []int{22, 23, 24, 25, 254, 255, 256, 257}[r.Intn(8)], 0))
	case 2:
		return string(fillBytes(r, r.Intn(40), 1))
	default:
		return string(fillBytes(r, r.Intn(20), 2))
	}
}
func (g *gen) bytes() []byte { return []byte(g.str()) }
func (g *gen) i64() int64 {
	if g.r.Chance(60) {
		return int64Bounds[g.r.Intn(len(int64Bounds))]
	}
	return int64(g.r.Next()) >> uint(g.r.Intn(64))
}
func (g *gen) u64() uint64 {
	if g.r.Chance(60) {
		return uint64Bounds[g.r.Intn(len(uint64Bounds))]
	}
	return g.r.Next() >> uint(g.r.Intn(64))
}
func (g *gen) f32() uint32 {
	if g.r.Chance(50) {
		return f32Bits[g.r.Intn(len(f32Bits))]
	}
	return uint32(g.r.Next())
}
func (g *gen) f64() uint64 {
	if g.r.Chance(50) {
		return f64Bits[g.r.Intn(len(f64Bits))]
	}
	return g.r.Next()
}
func (g *gen) time() time.Time {
	r := g.r
	secs := []int64{0, 23, 24, 255, 256, 65535, 65536, 1<<32 - 1, 1 << 32, 1700000000, -1, -24, -25, -257, -(1 << 33), 1 << 50}[r.Intn(16)]
	if r.Chance(30) {
		secs = int64(r.Next()) >> uint(4+r.Intn(50))
	}
	ns := int64(0)
	if r.Chance(50) {
		ns = int64(r.Intn(1000000000))
	}
	t := time.Unix(secs, ns)
	if r.Chance(30) {
		t = t.In(time.FixedZone("z", (r.Intn(27)-13)*3600))
	}
	g.tb.addTime(t)
	return t
}
func (g *gen) dur() time.Duration {
	d := time.Duration(g.i64())
	g.tb.addDur(d, g.unit)
	return d
}
func (g *gen) n() int { return []int{0, 1, 2, 3, 23, 24, 25, 5}[g.r.Intn(8)] }

func pString(s string) val { return vp("PString "+cbs([]byte(s)), cborref.Tx(s)) }
func pInt(v int64) val     { return vp("PInt "+cz(v), cborref.Int(v)) }
func pUint(v uint64) val   { return vp("PUint "+cn(v), cborref.U(v)) }
func pF32(b uint32) val    { return vp("PF32 "+cn(uint64(b)), cborref.Fl32(canon32(b))) }
func pF64(b uint64) val    { return vp("PF64 "+cn(b), cborref.Fl64(canon64(b))) }
func pBool(b bool) val {
	w := cborref.Sv(20)
	if b {
		w = cborref.Sv(21)
	}
	return vp("PBool "+CoqBool(b), w)
}
func pNil() val            { return vp("PNil", cborref.Sv(22)) }
func pBytes(b []byte) val  { return vp("PBytes "+cbs(b), cborref.Bs(b)) }
func pHex(b []byte) val    { return vp("PHex "+cbs(b), cborref.Tg(263, cborref.Bs(b))) }
func pJSON(b []byte) val   { return vp("PJSON "+cbs(b), cborref.Tg(262, cborref.Bs(b))) }
func pCBOR(b []byte) val   { return vp("PCBOR "+cbs(b), cborref.Tg(63, cborref.Bs(b))) }
func pTime(t time.Time) val { return vp("PTime "+ctime(t), wantTime(t)) }
func (g *gen) pDur(d time.Duration) val {
	return vp(fmt.Sprintf("PDur %s %s %s", cz(int64(g.unit)), CoqBool(g.useInt), cz(int64(d))), wantDur(d, g.unit, g.useInt))
}
func pIface(v interface{}) val {
	j, err := json.Marshal(v)
	if err != nil {
		msg := err.Error()
		return vp("PIface (inr "+cbs([]byte(msg))+")", cborref.Tx("marshaling error: "+msg))
	}
	return vp("PIface (inl "+cbs(j)+")", cborref.Tg(262, cborref.Bs(j)))
}
func pIP(ip []byte) val  { return vp("PIP "+cbs(ip), cborref.Tg(260, cborref.Bs(ip))) }
func pMAC(ha []byte) val { return vp("PMAC "+cbs(ha), cborref.Tg(260, cborref.Bs(ha))) }
func pPrefix(ip, mask []byte) val {
	return vp("PPrefix "+cbs(ip)+" "+cbs(mask), cborref.Tg(261, cborref.MapD(cborref.Bs(ip), cborref.U(maskOnes(mask)))))
}
func sliceVal(ctor string, list string, n int, f func(i int) *cborref.Item) val {
	return vp(ctor+" "+list, wantSlice(n, f))
}

var ifaceVals = []interface{}{nil, 42, "str", 2.5, []int{1, 2}, map[string]interface{}{"x": 1, "y": "é\""}, struct{ A, B int }{1, 2}, make(chan int), true, []string{}}

// field generates one API call for key k.  depth bounds nesting.
func (g *gen) field(k string, depth int) gfield {
	r := g.r
	kindMax := 46
	if depth <= 0 {
		kindMax = 40
	}
	if depth > 0 && r.Chance(4) {
		// an error whose ErrorMarshalFunc answer is of a random class, at a random call site
		ecs := g.errClasses(depth)
		for {
			fs := errEntries(k, ecs[r.Intn(len(ecs))])
			if f := fs[r.Intn(len(fs))]; f.ev != nil {
				return f
			}
		}
	}
	switch kind := r.Intn(kindMax); kind {
	case 0, 1:
		s := g.str()
		return gfield{"Str", func(e *zerolog.Event) *zerolog.Event { return e.Str(k, s) }, func(c zerolog.Context) zerolog.Context { return c.Str(k, s) },
			func(a *zerolog.Array) *zerolog.Array { return a.Str(s) }, []kv{{k, pString(s)}}}
	case 2:
		n := g.n()
		ss := make([]string, n)
		bss := make([][]byte, n)
		for i := range ss {
			ss[i] = g.str()
			bss[i] = []byte(ss[i])
		}
		xs := make([]*cborref.Item, n)
		for i := range xs {
			xs[i] = cborref.Tx(ss[i])
		}
		v := vp("PStrings "+cbss(bss), cborref.Arr(xs...))
		return gfield{"Strs", func(e *zerolog.Event) *zerolog.Event { return e.Strs(k, ss) }, func(c zerolog.Context) zerolog.Context { return c.Strs(k, ss) }, nil, []kv{{k, v}}}
	case 3:
		if r.Chance(25) {
			// nil Stringer: Event writes null; Context marshals nil through AppendInterface
			return gfield{"Stringer(nil)", func(e *zerolog.Event) *zerolog.Event { return e.Stringer(k, nil) }, func(c zerolog.Context) zerolog.Context { return c.Stringer(k, nil) }, nil, []kv{{k, pNil()}}}
		}
		s := g.str()
		return gfield{"Stringer", func(e *zerolog.Event) *zerolog.Event { return e.Stringer(k, strer{s}) }, func(c zerolog.Context) zerolog.Context { return c.Stringer(k, strer{s}) }, nil,
			[]kv{{k, vp("PStringer "+copt([]byte(s), true), cborref.Tx(s))}}}
	case 4:
		n := g.n()
		sv := make([]fmt.Stringer, n)
		os := make([]string, n)
		ws := make([]*cborref.Item, n)
		for i := range sv {
			if r.Chance(20) {
				os[i], ws[i] = copt(nil, false), cborref.Sv(22)
			} else {
				s := g.str()
				sv[i], os[i], ws[i] = strer{s}, copt([]byte(s), true), cborref.Tx(s)
			}
		}
		v := vp("PStringers ("+CoqList(os)+" : list (option (list N)))", cborref.ArrI(ws...))
		return gfield{"Stringers", func(e *zerolog.Event) *zerolog.Event { return e.Stringers(k, sv) }, nil, nil, []kv{{k, v}}}
	case 5:
		b := g.bytes()
		return gfield{"Bytes", func(e *zerolog.Event) *zerolog.Event { return e.Bytes(k, b) }, func(c zerolog.Context) zerolog.Context { return c.Bytes(k, b) },
			func(a *zerolog.Array) *zerolog.Array { return a.Bytes(b) }, []kv{{k, pBytes(b)}}}
	case 6:
		b := g.bytes()
		return gfield{"Hex", func(e *zerolog.Event) *zerolog.Event { return e.Hex(k, b) }, func(c zerolog.Context) zerolog.Context { return c.Hex(k, b) },
			func(a *zerolog.Array) *zerolog.Array { return a.Hex(b) }, []kv{{k, pHex(b)}}}
	case 7:
		b := [][]byte{[]byte(`{"a":1}`), []byte(`[1,2,"x"]`), []byte(`null`), []byte(``), []byte(`"s"`), []byte(strings.Repeat(" ", 300))}[r.Intn(6)]
		return gfield{"RawJSON", func(e *zerolog.Event) *zerolog.Event { return e.RawJSON(k, b) }, func(c zerolog.Context) zerolog.Context { return c.RawJSON(k, b) },
			func(a *zerolog.Array) *zerolog.Array { return a.RawJSON(b) }, []kv{{k, pJSON(b)}}}
	case 8:
		b := [][]byte{{0x01}, {0xbf, 0xff}, {}, {0x83, 1, 2, 3}, fillBytes(r, 30, 1)}[r.Intn(5)]
		return gfield{"RawCBOR", func(e *zerolog.Event) *zerolog.Event { return e.RawCBOR(k, b) }, nil, nil, []kv{{k, pCBOR(b)}}}
	case 9:
		b := r.Bool()
		return gfield{"Bool", func(e *zerolog.Event) *zerolog.Event { return e.Bool(k, b) }, func(c zerolog.Context) zerolog.Context { return c.Bool(k, b) },
			func(a *zerolog.Array) *zerolog.Array { return a.Bool(b) }, []kv{{k, pBool(b)}}}
	case 10:
		n := g.n()
		bs := make([]bool, n)
		for i := range bs {
			bs[i] = r.Bool()
		}
		v := sliceVal("PBools", CoqBools(bs), n, func(i int) *cborref.Item {
			if bs[i] {
				return cborref.Sv(21)
			}
			return cborref.Sv(20)
		})
		return gfield{"Bools", func(e *zerolog.Event) *zerolog.Event { return e.Bools(k, bs) }, func(c zerolog.Context) zerolog.Context { return c.Bools(k, bs) }, nil, []kv{{k, v}}}
	case 11:
		v := g.i64()
		switch r.Intn(5) {
		case 0:
			return gfield{"Int", func(e *zerolog.Event) *zerolog.Event { return e.Int(k, int(v)) }, func(c zerolog.Context) zerolog.Context { return c.Int(k, int(v)) },
				func(a *zerolog.Array) *zerolog.Array { return a.Int(int(v)) }, []kv{{k, pInt(v)}}}
		case 1:
			w := int8(v)
			return gfield{"Int8", func(e *zerolog.Event) *zerolog.Event { return e.Int8(k, w) }, func(c zerolog.Context) zerolog.Context { return c.Int8(k, w) },
				func(a *zerolog.Array) *zerolog.Array { return a.Int8(w) }, []kv{{k, pInt(int64(w))}}}
		case 2:
			w := int16(v)
			return gfield{"Int16", func(e *zerolog.Event) *zerolog.Event { return e.Int16(k, w) }, func(c zerolog.Context) zerolog.Context { return c.Int16(k, w) },
				func(a *zerolog.Array) *zerolog.Array { return a.Int16(w) }, []kv{{k, pInt(int64(w))}}}
		case 3:
			w := int32(v)
			return gfield{"Int32", func(e *zerolog.Event) *zerolog.Event { return e.Int32(k, w) }, func(c zerolog.Context) zerolog.Context { return c.Int32(k, w) },
				func(a *zerolog.Array) *zerolog.Array { return a.Int32(w) }, []kv{{k, pInt(int64(w))}}}
		default:
			return gfield{"Int64", func(e *zerolog.Event) *zerolog.Event { return e.Int64(k, v) }, func(c zerolog.Context) zerolog.Context { return c.Int64(k, v) },
				func(a *zerolog.Array) *zerolog.Array { return a.Int64(v) }, []kv{{k, pInt(v)}}}
		}
	case 12:
		n := g.n()
		xs := make([]int64, n)
		which := r.Intn(5)
		for i := range xs {
			xs[i] = g.i64()
			switch which {
			case 1:
				xs[i] = int64(int8(xs[i]))
			case 2:
				xs[i] = int64(int16(xs[i]))
			case 3:
				xs[i] = int64(int32(xs[i]))
			}
		}
		v := sliceVal("PInts", czs(xs), n, func(i int) *cborref.Item { return cborref.Int(xs[i]) })
		switch which {
		case 0:
			w := make([]int, n)
			for i := range w {
				w[i] = int(xs[i])
			}
			return gfield{"Ints", func(e *zerolog.Event) *zerolog.Event { return e.Ints(k, w) }, func(c zerolog.Context) zerolog.Context { return c.Ints(k, w) }, nil, []kv{{k, v}}}
		case 1:
			w := make([]int8, n)
			for i := range w {
				w[i] = int8(xs[i])
			}
			return gfield{"Ints8", func(e *zerolog.Event) *zerolog.Event { return e.Ints8(k, w) }, func(c zerolog.Context) zerolog.Context { return c.Ints8(k, w) }, nil, []kv{{k, v}}}
		case 2:
			w := make([]int16, n)
			for i := range w {
				w[i] = int16(xs[i])
			}
			return gfield{"Ints16", func(e *zerolog.Event) *zerolog.Event { return e.Ints16(k, w) }, func(c zerolog.Context) zerolog.Context { return c.Ints16(k, w) }, nil, []kv{{k, v}}}
		case 3:
			w := make([]int32, n)
			for i := range w {
				w[i] = int32(xs[i])
			}
			return gfield{"Ints32", func(e *zerolog.Event) *zerolog.Event { return e.Ints32(k, w) }, func(c zerolog.Context) zerolog.Context { return c.Ints32(k, w) }, nil, []kv{{k, v}}}
		default:
			return gfield{"Ints64", func(e *zerolog.Event) *zerolog.Event { return e.Ints64(k, xs) }, func(c zerolog.Context) zerolog.Context { return c.Ints64(k, xs) }, nil, []kv{{k, v}}}
		}
	case 13:
		v := g.u64()
		switch r.Intn(5) {
		case 0:
			return gfield{"Uint", func(e *zerolog.Event) *zerolog.Event { return e.Uint(k, uint(v)) }, func(c zerolog.Context) zerolog.Context { return c.Uint(k, uint(v)) },
				func(a *zerolog.Array) *zerolog.Array { return a.Uint(uint(v)) }, []kv{{k, pUint(v)}}}
		case 1:
			w := uint8(v)
			return gfield{"Uint8", func(e *zerolog.Event) *zerolog.Event { return e.Uint8(k, w) }, func(c zerolog.Context) zerolog.Context { return c.Uint8(k, w) },
				func(a *zerolog.Array) *zerolog.Array { return a.Uint8(w) }, []kv{{k, pUint(uint64(w))}}}
		case 2:
			w := uint16(v)
			return gfield{"Uint16", func(e *zerolog.Event) *zerolog.Event { return e.Uint16(k, w) }, func(c zerolog.Context) zerolog.Context { return c.Uint16(k, w) },
				func(a *zerolog.Array) *zerolog.Array { return a.Uint16(w) }, []kv{{k, pUint(uint64(w))}}}
		case 3:
			w := uint32(v)
			return gfield{"Uint32", func(e *zerolog.Event) *zerolog.Event { return e.Uint32(k, w) }, func(c zerolog.Context) zerolog.Context { return c.Uint32(k, w) },
				func(a *zerolog.Array) *zerolog.Array { return a.Uint32(w) }, []kv{{k, pUint(uint64(w))}}}
		default:
			return gfield{"Uint64", func(e *zerolog.Event) *zerolog.Event { return e.Uint64(k, v) }, func(c zerolog.Context) zerolog.Context { return c.Uint64(k, v) },
				func(a *zerolog.Array) *zerolog.Array { return a.Uint64(v) }, []kv{{k, pUint(v)}}}
		}
	case 14:
		n := g.n()
		xs := make([]uint64, n)
		which := r.Intn(5)
		for i := range xs {
			xs[i] = g.u64()
			switch which {
			case 1:
				xs[i] = uint64(uint8(xs[i]))
			case 2:
				xs[i] = uint64(uint16(xs[i]))
			case 3:
				xs[i] = uint64(uint32(xs[i]))
			}
		}
		v := sliceVal("PUints", cns(xs), n, func(i int) *cborref.Item { return cborref.U(xs[i]) })
		switch which {
		case 0:
			w := make([]uint, n)
			for i := range w {
				w[i] = uint(xs[i])
			}
			return gfield{"Uints", func(e *zerolog.Event) *zerolog.Event { return e.Uints(k, w) }, func(c zerolog.Context) zerolog.Context { return c.Uints(k, w) }, nil, []kv{{k, v}}}
		case 1:
			w := make([]uint8, n)
			for i := range w {
				w[i] = uint8(xs[i])
			}
			return gfield{"Uints8", func(e *zerolog.Event) *zerolog.Event { return e.Uints8(k, w) }, func(c zerolog.Context) zerolog.Context { return c.Uints8(k, w) }, nil, []kv{{k, v}}}
		case 2:
			w := make([]uint16, n)
			for i := range w {
				w[i] = uint16(xs[i])
			}
			return gfield{"Uints16", func(e *zerolog.Event) *zerolog.Event { return e.Uints16(k, w) }, func(c zerolog.Context) zerolog.Context { return c.Uints16(k, w) }, nil, []kv{{k, v}}}
		case 3:
			w := make([]uint32, n)
			for i := range w {
				w[i] = uint32(xs[i])
			}
			return gfield{"Uints32", func(e *zerolog.Event) *zerolog.Event { return e.Uints32(k, w) }, func(c zerolog.Context) zerolog.Context { return c.Uints32(k, w) }, nil, []kv{{k, v}}}
		default:
			return gfield{"Uints64", func(e *zerolog.Event) *zerolog.Event { return e.Uints64(k, xs) }, func(c zerolog.Context) zerolog.Context { return c.Uints64(k, xs) }, nil, []kv{{k, v}}}
		}
	case 15:
		b := g.f32()
		f := math.Float32frombits(b)
		return gfield{"Float32", func(e *zerolog.Event) *zerolog.Event { return e.Float32(k, f) }, func(c zerolog.Context) zerolog.Context { return c.Float32(k, f) },
			func(a *zerolog.Array) *zerolog.Array { return a.Float32(f) }, []kv{{k, pF32(b)}}}
	case 16:
		b := g.f64()
		f := math.Float64frombits(b)
		return gfield{"Float64", func(e *zerolog.Event) *zerolog.Event { return e.Float64(k, f) }, func(c zerolog.Context) zerolog.Context { return c.Float64(k, f) },
			func(a *zerolog.Array) *zerolog.Array { return a.Float64(f) }, []kv{{k, pF64(b)}}}
	case 17:
		n := g.n()
		xs := make([]uint64, n)
		fs := make([]float32, n)
		for i := range fs {
			b := g.f32()
			xs[i], fs[i] = uint64(b), math.Float32frombits(b)
		}
		v := sliceVal("PFs32", cns(xs), n, func(i int) *cborref.Item { return cborref.Fl32(canon32(uint32(xs[i]))) })
		return gfield{"Floats32", func(e *zerolog.Event) *zerolog.Event { return e.Floats32(k, fs) }, func(c zerolog.Context) zerolog.Context { return c.Floats32(k, fs) }, nil, []kv{{k, v}}}
	case 18:
		n := g.n()
		xs := make([]uint64, n)
		fs := make([]float64, n)
		for i := range fs {
			xs[i] = g.f64()
			fs[i] = math.Float64frombits(xs[i])
		}
		v := sliceVal("PFs64", cns(xs), n, func(i int) *cborref.Item { return cborref.Fl64(canon64(xs[i])) })
		return gfield{"Floats64", func(e *zerolog.Event) *zerolog.Event { return e.Floats64(k, fs) }, func(c zerolog.Context) zerolog.Context { return c.Floats64(k, fs) }, nil, []kv{{k, v}}}
	case 19, 20:
		t := g.time()
		return gfield{"Time", func(e *zerolog.Event) *zerolog.Event { return e.Time(k, t) }, func(c zerolog.Context) zerolog.Context { return c.Time(k, t) },
			func(a *zerolog.Array) *zerolog.Array { return a.Time(t) }, []kv{{k, pTime(t)}}}
	case 21:
		n := g.n()
		ts := make([]time.Time, n)
		cs := make([]string, n)
		for i := range ts {
			ts[i] = g.time()
			cs[i] = ctime(ts[i])
		}
		v := sliceVal("PTimes", "("+CoqList(cs)+" : list (Z*N))", n, func(i int) *cborref.Item { return wantTime(ts[i]) })
		return gfield{"Times", func(e *zerolog.Event) *zerolog.Event { return e.Times(k, ts) }, func(c zerolog.Context) zerolog.Context { return c.Times(k, ts) }, nil, []kv{{k, v}}}
	case 22, 23:
		d := g.dur()
		return gfield{"Dur", func(e *zerolog.Event) *zerolog.Event { return e.Dur(k, d) }, func(c zerolog.Context) zerolog.Context { return c.Dur(k, d) },
			func(a *zerolog.Array) *zerolog.Array { return a.Dur(d) }, []kv{{k, g.pDur(d)}}}
	case 24:
		n := g.n()
		ds := make([]time.Duration, n)
		xs := make([]int64, n)
		for i := range ds {
			ds[i] = g.dur()
			xs[i] = int64(ds[i])
		}
		unit, useInt := g.unit, g.useInt
		v := sliceVal(fmt.Sprintf("PDurs %s %s", cz(int64(unit)), CoqBool(useInt)), czs(xs), n, func(i int) *cborref.Item { return wantDur(ds[i], unit, useInt) })
		return gfield{"Durs", func(e *zerolog.Event) *zerolog.Event { return e.Durs(k, ds) }, func(c zerolog.Context) zerolog.Context { return c.Durs(k, ds) }, nil, []kv{{k, v}}}
	case 25:
		t, s := g.time(), g.time()
		var d time.Duration
		if t.After(s) {
			d = t.Sub(s)
		}
		g.tb.addDur(d, g.unit)
		return gfield{"TimeDiff", func(e *zerolog.Event) *zerolog.Event { return e.TimeDiff(k, t, s) }, nil, nil, []kv{{k, g.pDur(d)}}}
	case 26, 27:
		v := ifaceVals[r.Intn(len(ifaceVals))]
		return gfield{"Interface", func(e *zerolog.Event) *zerolog.Event {
			if r.Bool() {
				return e.Any(k, v)
			}
			return e.Interface(k, v)
		}, func(c zerolog.Context) zerolog.Context { return c.Interface(k, v) },
			func(a *zerolog.Array) *zerolog.Array { return a.Interface(v) }, []kv{{k, pIface(v)}}}
	case 28:
		v := ifaceVals[r.Intn(len(ifaceVals))]
		var pv val
		if v == nil {
			pv = vp("PType "+copt(nil, false), cborref.Tx("<nil>"))
		} else {
			ts := reflect.TypeOf(v).String()
			pv = vp("PType "+copt([]byte(ts), true), cborref.Tx(ts))
		}
		return gfield{"Type", func(e *zerolog.Event) *zerolog.Event { return e.Type(k, v) }, func(c zerolog.Context) zerolog.Context { return c.Type(k, v) }, nil, []kv{{k, pv}}}
	case 29:
		ip := [][]byte{{127, 0, 0, 1}, net.ParseIP("2001:db8::ff00:42:8329"), net.ParseIP("10.1.2.3"), nil, {1, 2, 3}}[r.Intn(5)]
		return gfield{"IPAddr", func(e *zerolog.Event) *zerolog.Event { return e.IPAddr(k, ip) }, func(c zerolog.Context) zerolog.Context { return c.IPAddr(k, ip) },
			func(a *zerolog.Array) *zerolog.Array { return a.IPAddr(ip) }, []kv{{k, pIP(ip)}}}
	case 30:
		var ip, mask []byte
		switch r.Intn(4) {
		case 0:
			ip, mask = []byte{192, 168, 0, 0}, net.CIDRMask(r.Intn(33), 32)
		case 1:
			ip, mask = net.ParseIP("2001:db8::"), net.CIDRMask(r.Intn(129), 128)
		case 2:
			ip, mask = []byte{10, 0, 0, 0}, []byte{255, 0, 255, 0}
		default:
			ip, mask = []byte{10, 0, 0, 0}, nil
		}
		n := net.IPNet{IP: ip, Mask: mask}
		return gfield{"IPPrefix", func(e *zerolog.Event) *zerolog.Event { return e.IPPrefix(k, n) }, func(c zerolog.Context) zerolog.Context { return c.IPPrefix(k, n) },
			func(a *zerolog.Array) *zerolog.Array { return a.IPPrefix(n) }, []kv{{k, pPrefix(ip, mask)}}}
	case 31:
		ha := [][]byte{{0, 1, 2, 3, 4, 5}, {0xde, 0xad, 0xbe, 0xef, 0, 1, 2, 3}, nil}[r.Intn(3)]
		return gfield{"MACAddr", func(e *zerolog.Event) *zerolog.Event { return e.MACAddr(k, ha) }, func(c zerolog.Context) zerolog.Context { return c.MACAddr(k, ha) },
			func(a *zerolog.Array) *zerolog.Array { return a.MACAddr(ha) }, []kv{{k, pMAC(ha)}}}
	case 32:
		if r.Chance(25) {
			return gfield{"Err(nil)", func(e *zerolog.Event) *zerolog.Event { return e.Err(nil) }, func(c zerolog.Context) zerolog.Context { return c.Err(nil) }, nil, nil}
		}
		msg := g.str()
		err := errors.New(msg)
		return gfield{"Err", func(e *zerolog.Event) *zerolog.Event { return e.Err(err) }, func(c zerolog.Context) zerolog.Context { return c.Err(err) },
			func(a *zerolog.Array) *zerolog.Array { return a.Err(err) }, []kv{{"error", pString(msg)}}}
	case 33:
		msg := g.str()
		err := errors.New(msg)
		return gfield{"AnErr", func(e *zerolog.Event) *zerolog.Event { return e.AnErr(k, err) }, func(c zerolog.Context) zerolog.Context { return c.AnErr(k, err) }, nil, []kv{{k, pString(msg)}}}
	case 34:
		n := r.Intn(4)
		errs := make([]error, n)
		vs := make([]val, n)
		for i := range errs {
			if r.Chance(25) {
				vs[i] = pIface(nil) // a nil error in Errs goes through Interface(nil)
			} else {
				m := g.str()
				errs[i], vs[i] = errors.New(m), pString(m)
			}
		}
		return gfield{"Errs", func(e *zerolog.Event) *zerolog.Event { return e.Errs(k, errs) }, func(c zerolog.Context) zerolog.Context { return c.Errs(k, errs) }, nil, []kv{{k, arrVal(vs)}}}
	case 35:
		return gfield{"Caller", func(e *zerolog.Event) *zerolog.Event { return e.Caller() }, nil, nil, []kv{{"caller", pString("F:1")}}}
	case 36:
		now := g.now
		g.tb.addTime(now)
		return gfield{"Timestamp", func(e *zerolog.Event) *zerolog.Event { return e.Timestamp() }, nil, nil, []kv{{"time", pTime(now)}}}
	case 37:
		// Fields(map): keys sorted
		m := map[string]interface{}{}
		var out []kv
		n := r.Intn(4)
		for i := 0; i < n; i++ {
			kk := g.key()
			if _, dup := m[kk]; dup {
				continue
			}
			v, pv := g.fieldsValue()
			m[kk] = v
			out = append(out, kv{kk, pv})
		}
		sort.SliceStable(out, func(i, j int) bool { return out[i].k < out[j].k })
		return gfield{"Fields(map)", func(e *zerolog.Event) *zerolog.Event { return e.Fields(m) }, func(c zerolog.Context) zerolog.Context { return c.Fields(m) }, nil, out}
	case 38:
		var l []interface{}
		var out []kv
		n := r.Intn(4)
		for i := 0; i < n; i++ {
			kk := g.key()
			v, pv := g.fieldsValue()
			l = append(l, kk, v)
			out = append(out, kv{kk, pv})
		}
		if r.Chance(30) {
			l = append(l, "dangling")
		}
		return gfield{"Fields(slice)", func(e *zerolog.Event) *zerolog.Event { return e.Fields(l) }, func(c zerolog.Context) zerolog.Context { return c.Fields(l) }, nil, out}
	case 39:
		return gfield{"Object(nil)", func(e *zerolog.Event) *zerolog.Event { return e.Object(k, nil) }, nil, nil, []kv{{k, pNil()}}}
	case 40, 41:
		sub := g.fields(r.Intn(4), depth-1)
		out := flatten(sub)
		if r.Bool() {
			return gfield{"Dict", func(e *zerolog.Event) *zerolog.Event {
				d := zerolog.Dict()
				for _, f := range sub {
					f.ev(d)
				}
				return e.Dict(k, d)
			}, func(c zerolog.Context) zerolog.Context {
				d := zerolog.Dict()
				for _, f := range sub {
					f.ev(d)
				}
				return c.Dict(k, d)
			}, func(a *zerolog.Array) *zerolog.Array {
				d := zerolog.Dict()
				for _, f := range sub {
					f.ev(d)
				}
				return a.Dict(d)
			}, []kv{{k, dictVal(out)}}}
		}
		o := objM{sub}
		return gfield{"Object", func(e *zerolog.Event) *zerolog.Event { return e.Object(k, o) }, func(c zerolog.Context) zerolog.Context { return c.Object(k, o) },
			func(a *zerolog.Array) *zerolog.Array { return a.Object(o) }, []kv{{k, dictVal(out)}}}
	case 42, 43:
		n := r.Intn(5)
		var sub []gfield
		var vs []val
		for len(sub) < n {
			f := g.field("", depth-1)
			if f.arr == nil || len(f.out) != 1 {
				continue
			}
			sub = append(sub, f)
			vs = append(vs, f.out[0].v)
		}
		if r.Bool() {
			return gfield{"Array(Arr)", func(e *zerolog.Event) *zerolog.Event {
				a := zerolog.Arr()
				for _, f := range sub {
					f.arr(a)
				}
				return e.Array(k, a)
			}, func(c zerolog.Context) zerolog.Context {
				a := zerolog.Arr()
				for _, f := range sub {
					f.arr(a)
				}
				return c.Array(k, a)
			}, nil, []kv{{k, arrVal(vs)}}}
		}
		am := arrM{sub}
		return gfield{"Array(marshaler)", func(e *zerolog.Event) *zerolog.Event { return e.Array(k, am) }, func(c zerolog.Context) zerolog.Context { return c.Array(k, am) }, nil, []kv{{k, arrVal(vs)}}}
	default:
		sub := g.fields(r.Intn(3), depth-1)
		o := objM{sub}
		return gfield{"EmbedObject", func(e *zerolog.Event) *zerolog.Event { return e.EmbedObject(o) }, func(c zerolog.Context) zerolog.Context { return c.EmbedObject(o) }, nil, flatten(sub)}
	}
}

// a value for Fields(): Go value and the primitive the type switch selects
func (g *gen) fieldsValue() (interface{}, val) {
	r := g.r
	switch r.Intn(14) {
	case 0:
		s := g.str()
		return s, pString(s)
	case 1:
		b := g.bytes()
		return b, pBytes(b)
	case 2:
		m := g.str()
		return errors.New(m), pString(m)
	case 3:
		v := g.i64()
		return int(v), pInt(v)
	case 4:
		v := g.u64()
		return v, pUint(v)
	case 5:
		b := g.f64()
		return math.Float64frombits(b), pF64(b)
	case 6:
		b := g.f32()
		return math.Float32frombits(b), pF32(b)
	case 7:
		t := g.time()
		return t, pTime(t)
	case 8:
		d := g.dur()
		return d, g.pDur(d)
	case 9:
		return nil, pNil()
	case 10:
		b := r.Bool()
		return b, pBool(b)
	case 11:
		v := int8(g.i64())
		return &v, pInt(int64(v))
	case 12:
		var p *string
		return p, pNil()
	default:
		v := ifaceVals[1+r.Intn(len(ifaceVals)-1)]
		switch v.(type) {
		case int, string, float64, bool, []int, []string:
			return struct{ Z int }{3}, pIface(struct{ Z int }{3})
		}
		return v, pIface(v)
	}
}

func (g *gen) fields(n, depth int) []gfield {
	fs := make([]gfield, 0, n)
	for i := 0; i < n; i++ {
		fs = append(fs, g.field(g.key(), depth))
	}
	return fs
}
func flatten(fs []gfield) []kv {
	var out []kv
	for _, f := range fs {
		out = append(out, f.out...)
	}
	return out
}

type capture struct{ bufs [][]byte }

func (w *capture) Write(p []byte) (int, error) {
	w.bufs = append(w.bufs, append([]byte{}, p...))
	return len(p), nil
}

var levelNames = map[zerolog.Level]string{zerolog.TraceLevel: "trace", zerolog.DebugLevel: "debug", zerolog.InfoLevel: "info", zerolog.WarnLevel: "warn", zerolog.ErrorLevel: "error"}

// ---------------------------------------------------------------- errors under a custom ErrorMarshalFunc
// ErrorMarshalFunc is a documented customisation point; what it answers decides which arm of the
// error switches (Event/Context AnErr, Err, Errs, Array.Err, Fields error and []error values) runs.
// mErr carries the answer with it; for every other error the installed function is the identity
// (the default).
type mErr struct {
	res interface{}
	txt string
}

func (e mErr) Error() string { return e.txt }

type ptrErr struct{}

func (*ptrErr) Error() string { return "ptrErr" }

type plainErr struct{ s string }

func (e plainErr) Error() string { return e.s }

func c09ErrorMarshal(err error) interface{} {
	if m, ok := err.(mErr); ok {
		return m.res
	}
	return err
}

// errClass: one kind of answer of ErrorMarshalFunc and what each call site documents for it
type errClass struct {
	name    string
	err     error
	valPos  val  // Fields error value, []error element, Array.Err
	evErrs  val  // element of Event.Errs
	ctxErrs val  // element of Context.Errs
	field   *val // AnErr / Err: nil = no field is added
}

func (g *gen) errClasses(depth int) []errClass {
	mk := func(name string, res interface{}, v val, field bool) errClass {
		c := errClass{name: name, err: mErr{res, "unused " + name}, valPos: v, evErrs: v, ctxErrs: v}
		if field {
			vv := v
			c.field = &vv
		}
		return c
	}
	s1, s2 := g.str(), g.str()
	sub := g.fields(g.r.Intn(3), depth-1)
	cs := []errClass{
		mk("nil", nil, pIface(nil), false),
		mk("typed-nil-error", (*ptrErr)(nil), pNil(), false),
		mk("error", plainErr{s1}, pString(s1), true),
		mk("string", s2, pString(s2), true),
		mk("object", objM{sub}, dictVal(flatten(sub)), true),
		mk("int", 42, pIface(42), true),
		mk("struct", struct{ Z int }{3}, pIface(struct{ Z int }{3}), true),
		mk("unmarshalable", math.Inf(1), pIface(math.Inf(1)), true),
	}
	cs[1].ctxErrs = pIface(nil) // Context.Errs sends a typed nil through Interface(nil), Event.Errs through Array.Err
	return cs
}

// errEntries: every call site that consults ErrorMarshalFunc, as one generated field with key k
func errEntries(k string, ec errClass) []gfield {
	err := ec.err
	var fieldOut func(key string) []kv = func(key string) []kv {
		if ec.field == nil {
			return nil
		}
		return []kv{{key, *ec.field}}
	}
	other := errors.New("plain")
	fs := []gfield{
		{"Err[" + ec.name + "]", func(e *zerolog.Event) *zerolog.Event { return e.Err(err) }, func(c zerolog.Context) zerolog.Context { return c.Err(err) }, nil, fieldOut("error")},
		{"AnErr[" + ec.name + "]", func(e *zerolog.Event) *zerolog.Event { return e.AnErr(k, err) }, func(c zerolog.Context) zerolog.Context { return c.AnErr(k, err) }, nil, fieldOut(k)},
		{"Event.Errs[" + ec.name + "]", func(e *zerolog.Event) *zerolog.Event { return e.Errs(k, []error{other, err, err}) }, nil, nil,
			[]kv{{k, arrVal([]val{pString("plain"), ec.evErrs, ec.evErrs})}}},
		{"Context.Errs[" + ec.name + "]", nil, func(c zerolog.Context) zerolog.Context { return c.Errs(k, []error{err, other, err}) }, nil,
			[]kv{{k, arrVal([]val{ec.ctxErrs, pString("plain"), ec.ctxErrs})}}},
		{"Fields(map)[" + ec.name + "]", func(e *zerolog.Event) *zerolog.Event { return e.Fields(map[string]interface{}{k: err}) },
			func(c zerolog.Context) zerolog.Context { return c.Fields(map[string]interface{}{k: err}) }, nil, []kv{{k, ec.valPos}}},
		{"Fields(slice)[" + ec.name + "]", func(e *zerolog.Event) *zerolog.Event { return e.Fields([]interface{}{k, err, 7, "skipped: key is not a string", k + "2", err}) },
			func(c zerolog.Context) zerolog.Context { return c.Fields([]interface{}{k, err, 7, "skipped: key is not a string", k + "2", err}) }, nil,
			[]kv{{k, ec.valPos}, {k + "2", ec.valPos}}},
		{"Fields([]error)[" + ec.name + "]", func(e *zerolog.Event) *zerolog.Event { return e.Fields([]interface{}{k, []error{err, other, err}}) },
			func(c zerolog.Context) zerolog.Context { return c.Fields([]interface{}{k, []error{err, other, err}}) }, nil,
			[]kv{{k, arrVal([]val{ec.valPos, pString("plain"), ec.valPos})}}},
		{"Array(Arr.Err)[" + ec.name + "]", func(e *zerolog.Event) *zerolog.Event { return e.Array(k, zerolog.Arr().Err(err).Int(1).Err(err)) },
			func(c zerolog.Context) zerolog.Context { return c.Array(k, zerolog.Arr().Err(err).Int(1).Err(err)) }, nil,
			[]kv{{k, arrVal([]val{ec.valPos, pInt(1), ec.valPos})}}},
	}
	return fs
}

// inDict wraps fields that can be applied to an Event into e.Dict(k, Dict()...)
func inDict(k string, sub []gfield) gfield {
	out := flatten(sub)
	return gfield{"Dict", func(e *zerolog.Event) *zerolog.Event {
		d := zerolog.Dict()
		for _, f := range sub {
			f.ev(d)
		}
		return e.Dict(k, d)
	}, func(c zerolog.Context) zerolog.Context {
		d := zerolog.Dict()
		for _, f := range sub {
			f.ev(d)
		}
		return c.Dict(k, d)
	}, nil, []kv{{k, dictVal(out)}}}
}

type evRun struct {
	c     *Ctx
	kinds map[string]int
	n     int
	// directed sweeps whose programs differ in one value only: the model evaluates every shardMod-th program
	// (0: every program); the monitors see all of them
	shardMod int
}

// runProgram executes one program (context layers, event fields, level, message, finalizer) on the
// real code, applies the monitors and emits the correspondence case.
func (er *evRun) runProgram(g *gen, label string, layers [][]gfield, evF []gfield, lvl zerolog.Level, msg string, fin int) {
	i := er.n
	er.n++
	zerolog.DurationFieldUnit = g.unit
	zerolog.DurationFieldInteger = g.useInt
	now := g.now
	zerolog.TimestampFunc = func() time.Time { return now }

	w := &capture{}
	l := zerolog.New(w)
	var ctxF []gfield
	for _, fs := range layers {
		cx := l.With()
		for _, f := range fs {
			cx = f.ctx(cx)
		}
		l = cx.Logger()
		ctxF = append(ctxF, fs...)
	}
	var e *zerolog.Event
	var pre []kv
	if lvl == zerolog.NoLevel {
		e = l.Log()
	} else {
		e = l.WithLevel(lvl)
		pre = []kv{{"level", pString(levelNames[lvl])}}
	}
	for _, f := range evF {
		e = f.ev(e)
	}
	ev := flatten(evF)
	switch fin {
	case 0:
		e.Msg(msg)
	case 1:
		if msg == "" {
			e.Send()
		} else {
			e.Msgf("%s", msg)
		}
	default:
		m := msg
		e.MsgFunc(func() string { return m })
	}
	if msg != "" {
		ev = append(ev, kv{"message", pString(msg)})
	}
	ctx := flatten(ctxF)
	in := map[string]interface{}{"program": i, "context": kinds2(ctxF), "event": kinds2(evF), "level": lvl.String(), "msg": msg}
	if label != "" {
		in["directed"] = label
	}
	er.check(g, i, in, w, pre, ctx, ev, ctxF, evF, er.shardMod == 0 || i%er.shardMod == 0)
}

// check applies the monitors to what one program wrote (pre / ctx / ev: the logged keys and values in the
// order of the line) and, with shard, emits the correspondence case.
func (er *evRun) check(g *gen, i int, in map[string]interface{}, w *capture, pre, ctx, ev []kv, ctxF, evF []gfield, shard bool) {
	c := er.c
	if len(w.bufs) != 1 {
		c.Violate(Violation{Key: "cbor-event-writes", Monitor: "one-write", Desc: fmt.Sprintf("event produced %d writes", len(w.bufs)), Case: in})
		return
	}
	got := w.bufs[0]
	obs := fmt.Sprintf("%x", truncB(got, 200))
	// ---- monitor: independent reference parser
	var all []kv
	all = append(all, pre...)
	all = append(all, ctx...)
	all = append(all, ev...)
	want := cborref.MapI(kvsWant(all)...)
	it, rest, err := cborref.ParseItem(got)
	switch {
	case err != nil:
		c.Violate(Violation{Key: "cbor-event-malformed", Monitor: "rfc8949-reference-parser", Desc: "event is not a well-formed CBOR item: " + err.Error(), Case: in, Observed: obs})
	case len(rest) != 0:
		c.Violate(Violation{Key: "cbor-event-trailing", Monitor: "rfc8949-reference-parser", Desc: fmt.Sprintf("event is one item followed by %d more bytes", len(rest)), Case: in, Observed: obs})
	case it.Kind != cborref.Map || !it.Indef:
		c.Violate(Violation{Key: "cbor-event-not-indef-map", Monitor: "event-shape", Desc: "event is not an indefinite-length map", Case: in, Observed: it.String()})
	default:
		bad := false
		for j := 0; j < len(it.Items); j += 2 {
			if it.Items[j].Kind != cborref.Text || it.Items[j].Indef {
				bad = true
			}
		}
		if bad {
			c.Violate(Violation{Key: "cbor-event-key-not-text", Monitor: "event-shape", Desc: "a key of the event map is not a definite text string", Case: in, Observed: it.String()})
		} else if !cborref.Equal(it, want) {
			c.Violate(Violation{Key: "cbor-event-values", Monitor: "value-carried", Desc: "a generic parser reads other keys/values than were logged: " + firstDiff(it, want), Case: in, Observed: trunc(it.String(), 600), Expected: trunc(want.String(), 600)})
		}
	}
	// a stream of two copies parses as two items (self-delimiting)
	if items, err := cborref.ParseStream(append(append([]byte{}, got...), got...)); err != nil || len(items) != 2 {
		if err == nil {
			c.Violate(Violation{Key: "cbor-event-not-self-delimiting", Monitor: "stream", Desc: "two events back to back do not parse as two items", Case: in})
		}
	}
	term := fmt.Sprintf("((%s, (%s, %s, %s)), %s)", g.tb.coq(), kvsCoq(pre), kvsCoq(ctx), kvsCoq(ev), cbs(got))
	if shard {
		c.AddCase(term, map[string]interface{}{"program": in, "got": fmt.Sprintf("%x", truncB(got, 4096))})
	}
	c.Count(term, len(all) > 1)
	c.Hist("event_fields", fmt.Sprintf("%d", len(all)/4*4))
	c.Hist("event_bytes", lenBucket(len(got)))
	for _, f := range append(append([]gfield{}, ctxF...), evF...) {
		er.kinds[f.kind]++
		c.Hist("field_kind", f.kind)
	}
	if i < 3 {
		c.Sample(map[string]interface{}{"program": in, "bytes": obs, "parsed": trunc(it.String(), 400)})
	}
}

func runEvents(c *Ctx) {
	nprog := 2000
	if c.Thorough() {
		nprog = 12000
	}
	defer func() {
		zerolog.DurationFieldUnit = time.Millisecond
		zerolog.DurationFieldInteger = false
		zerolog.TimestampFunc = time.Now
		zerolog.ErrorMarshalFunc = func(err error) interface{} { return err }
	}()
	zerolog.CallerMarshalFunc = func(pc uintptr, file string, line int) string { return "F:1" }
	zerolog.SetGlobalLevel(zerolog.TraceLevel)
	zerolog.ErrorMarshalFunc = c09ErrorMarshal
	er := &evRun{c: c, kinds: map[string]int{}}

	// ---- directed: every answer class of ErrorMarshalFunc at every call site that consults it, as an
	// event field, a context field and inside a Dict, always between two ordinary fields (a key left
	// without its value shifts what follows)
	{
		r := c.R.Fork()
		g := &gen{r: r, tb: newTables(), unit: time.Millisecond, now: time.Unix(1700000000, 0)}
		strF := func(k, s string) gfield {
			return gfield{"Str", func(e *zerolog.Event) *zerolog.Event { return e.Str(k, s) }, func(c zerolog.Context) zerolog.Context { return c.Str(k, s) }, nil, []kv{{k, pString(s)}}}
		}
		intF := func(k string, v int64) gfield {
			return gfield{"Int64", func(e *zerolog.Event) *zerolog.Event { return e.Int64(k, v) }, func(c zerolog.Context) zerolog.Context { return c.Int64(k, v) }, nil, []kv{{k, pInt(v)}}}
		}
		directed := 0
		for _, ec := range g.errClasses(2) {
			for _, f := range errEntries("e", ec) {
				pre, post := strF("pre", "x"), intF("post", 7)
				if f.ev != nil {
					er.runProgram(g, "event field "+f.kind, nil, []gfield{pre, f, post}, zerolog.InfoLevel, "m", directed%3)
					er.runProgram(g, "dict field "+f.kind, nil, []gfield{pre, inDict("d", []gfield{pre, f, post}), post}, zerolog.NoLevel, "", directed%3)
					directed += 2
				}
				if f.ctx != nil {
					er.runProgram(g, "context field "+f.kind, [][]gfield{{pre, f}, {post}}, []gfield{strF("s", "y")}, zerolog.WarnLevel, "m", directed%3)
					directed++
				}
			}
		}
		c.Res.ExtraCoverage["directed_error_marshal_programs"] = directed
	}
	// ---- directed: every entry point that ends in a message (entry.go)
	er.runMessageEntryPoints()
	// ---- directed: Fields() over every value type its switch names, against the dedicated methods (fieldsweep.go)
	er.runFieldsSweep()
	// ---- directed: the marshal globals assigned at run time (marshalglobals.go)
	er.runMarshalGlobals()

	for i := 0; i < nprog; i++ {
		r := c.R.Fork()
		g := &gen{r: r, tb: newTables()}
		g.unit = []time.Duration{time.Millisecond, time.Millisecond, time.Second, time.Nanosecond, time.Microsecond, time.Minute}[r.Intn(6)]
		g.useInt = r.Chance(40)
		g.now = time.Unix(1700000000+int64(r.Intn(1000)), int64(r.Intn(2))*int64(r.Intn(1000000000)))
		// context: possibly several With() layers
		var layers [][]gfield
		nl := r.Intn(3)
		for li := 0; li < nl; li++ {
			var fs []gfield
			for len(fs) < r.Intn(4) {
				f := g.field(g.key(), 2)
				if f.ctx == nil {
					continue
				}
				if f.kind == "Stringer(nil)" {
					f.out = []kv{{f.out[0].k, pIface(nil)}}
				}
				fs = append(fs, f)
			}
			layers = append(layers, fs)
		}
		evF := g.fields(r.Intn(7), 3)
		lvl := []zerolog.Level{zerolog.TraceLevel, zerolog.DebugLevel, zerolog.InfoLevel, zerolog.WarnLevel, zerolog.ErrorLevel, zerolog.NoLevel}[r.Intn(6)]
		msg := ""
		if r.Chance(70) {
			msg = g.str()
		}
		er.runProgram(g, "", layers, evF, lvl, msg, r.Intn(3))
	}
	c.Res.ExtraCoverage["event_programs"] = er.n
	c.Res.ExtraCoverage["event_field_kinds"] = len(er.kinds)
	_ = bytes.Equal
}

func kinds2(fs []gfield) []string {
	out := make([]string, len(fs))
	for i, f := range fs {
		out[i] = f.kind
	}
	return out
}

func firstDiff(a, b *cborref.Item) string {
	if a.Kind != b.Kind || a.Indef != b.Indef {
		return fmt.Sprintf("got %s, want %s", trunc(a.String(), 120), trunc(b.String(), 120))
	}
	switch a.Kind {
	case cborref.Array, cborref.Map:
		if len(a.Items) != len(b.Items) {
			return fmt.Sprintf("%d items, want %d", len(a.Items), len(b.Items))
		}
		for i := range a.Items {
			if !cborref.Equal(a.Items[i], b.Items[i]) {
				return fmt.Sprintf("item %d: %s", i, firstDiff(a.Items[i], b.Items[i]))
			}
		}
	case cborref.Tag:
		if a.N == b.N {
			return fmt.Sprintf("tag %d: %s", a.N, firstDiff(a.Inner, b.Inner))
		}
	}
	return fmt.Sprintf("got %s, want %s", trunc(a.String(), 120), trunc(b.String(), 120))
}
