package main

// Part B of C09, directed: the marshal globals assigned at RUN TIME.
//
// "for all programs ...": a program may assign zerolog's documented customisation points after package
// initialisation - InterfaceMarshalFunc (a faster JSON library, a redacting marshaller, ...), ErrorMarshalFunc,
// ErrorStackMarshaler, LevelFieldMarshalFunc, CallerMarshalFunc, TimestampFunc, the field names - before it
// creates its logger, after it, between two events, or from code the event runs (Func, a LogObjectMarshaler, a
// hook).  "the logged values in the representation zerolog documents (... embedded-JSON ...)": a value logged
// through Interface / Any / the default arm of Fields / Array.Interface / Context.Interface / a non-trivial
// answer of ErrorMarshalFunc or ErrorStackMarshaler is documented to be marshalled by InterfaceMarshalFunc - the
// function the global holds when the value is logged - and carried as tag 262 over exactly those bytes (or, if
// the function fails, as the text "marshaling error: <err>").  The encoder is a separate package
// (internal/cbor.JSONMarshalFunc): a build that hands the function over once (at package initialisation, at
// logger creation, at first use) writes well-formed items whose payload comes from the wrong function.  All other
// programs of this driver run under the function the process started with, so they cannot tell.
//
// Every program below is a short sequence of assignments and events on one writer.  The expectation of each
// embedded-JSON item is computed by calling the installed function itself (the harness's own reference to it,
// never read back from zerolog) on the logged value.  The functions are stateless and deterministic.  Every
// global touched is restored afterwards.

import (
	"encoding/json"
	"errors"
	"fmt"
	"strings"
	"time"

	"github.com/rs/zerolog"
	"verifharness/cborref"
	. "verifharness/hlib"
)

type mgFn = func(v interface{}) ([]byte, error)

func pIfaceWith(f mgFn, v interface{}) val {
	j, err := f(v)
	if err != nil {
		msg := err.Error()
		return vp("PIface (inr "+cbs([]byte(msg))+")", cborref.Tx("marshaling error: "+msg))
	}
	return vp("PIface (inl "+cbs(j)+")", cborref.Tg(262, cborref.Bs(j)))
}

type mgCard string

type mgAccount struct {
	ID     int    `json:"id"`
	Secret string `json:"secret"`
}

type mgMarshaler struct{ n int }

func (m mgMarshaler) MarshalJSON() ([]byte, error) { return []byte(fmt.Sprintf(`{"custom":%d}`, m.n)), nil }

type mgFuncs struct {
	name string
	f    mgFn
}

func mgMarshalFuncs() []mgFuncs {
	return []mgFuncs{
		{"encoding/json.Marshal (escapes <, >, & - unlike the default)", json.Marshal},
		{`func(v) { return json.Marshal(map[string]interface{}{"type": fmt.Sprintf("%T", v), "v": v}) }`, func(v interface{}) ([]byte, error) {
			return json.Marshal(map[string]interface{}{"type": fmt.Sprintf("%T", v), "v": v})
		}},
		{`redacting: mgAccount.Secret and mgCard are masked, everything else json.Marshal`, func(v interface{}) ([]byte, error) {
			switch x := v.(type) {
			case mgAccount:
				x.Secret = "***"
				return json.Marshal(x)
			case mgCard:
				return json.Marshal("****" + string(x[len(x)-4:]))
			}
			return json.Marshal(v)
		}},
		{`func(v) { return []byte("\"[redacted]\""), nil }`, func(v interface{}) ([]byte, error) { return []byte(`"[redacted]"`), nil }},
		{`func(v) { return nil, errors.New("no \"marshalling\" today") }`, func(v interface{}) ([]byte, error) { return nil, errors.New("no \"marshalling\" today") }},
	}
}

// values no arm of any type switch takes: they all reach InterfaceMarshalFunc
func mgValues() []struct {
	src string
	v   interface{}
} {
	return []struct {
		src string
		v   interface{}
	}{
		{`mgAccount{7, "hunter2"}`, mgAccount{7, "hunter2"}},
		{`mgCard("4111111111111111")`, mgCard("4111111111111111")},
		{`map[string]string{"html": "<b>&</b>"}`, map[string]string{"html": "<b>&</b>"}},
		{`mgMarshaler{3}`, mgMarshaler{3}},
		{`[]interface{}{1, "s", nil, 2.5, map[string]interface{}{"k": "<"}}`, []interface{}{1, "s", nil, 2.5, map[string]interface{}{"k": "<"}}},
		{`struct{ A int; B []byte }{1, []byte("xyz")}`, struct {
			A int
			B []byte
		}{1, []byte("xyz")}},
	}
}

// a call site that sends v to InterfaceMarshalFunc; pv is the item expected for v
type mgSite struct {
	name string
	mk   func(k string, v interface{}, pv val) gfield
}

func mgSites() []mgSite {
	return []mgSite{
		{"Interface(k, v)", func(k string, v interface{}, pv val) gfield {
			return gfield{"Interface", func(e *zerolog.Event) *zerolog.Event { return e.Interface(k, v) }, func(c zerolog.Context) zerolog.Context { return c.Interface(k, v) }, nil, []kv{{k, pv}}}
		}},
		{"Any(k, v)", func(k string, v interface{}, pv val) gfield {
			return gfield{"Any", func(e *zerolog.Event) *zerolog.Event { return e.Any(k, v) }, func(c zerolog.Context) zerolog.Context { return c.Any(k, v) }, nil, []kv{{k, pv}}}
		}},
		{"Fields(map[string]interface{}{k: v})", func(k string, v interface{}, pv val) gfield {
			return gfield{"Fields(map)", func(e *zerolog.Event) *zerolog.Event { return e.Fields(map[string]interface{}{k: v}) },
				func(c zerolog.Context) zerolog.Context { return c.Fields(map[string]interface{}{k: v}) }, nil, []kv{{k, pv}}}
		}},
		{"Fields([]interface{}{k, v})", func(k string, v interface{}, pv val) gfield {
			return gfield{"Fields(slice)", func(e *zerolog.Event) *zerolog.Event { return e.Fields([]interface{}{k, v}) },
				func(c zerolog.Context) zerolog.Context { return c.Fields([]interface{}{k, v}) }, nil, []kv{{k, pv}}}
		}},
		{"Array(k, zerolog.Arr().Interface(v).Int(1))", func(k string, v interface{}, pv val) gfield {
			return gfield{"Array(Arr.Interface)", func(e *zerolog.Event) *zerolog.Event { return e.Array(k, zerolog.Arr().Interface(v).Int(1)) },
				func(c zerolog.Context) zerolog.Context { return c.Array(k, zerolog.Arr().Interface(v).Int(1)) }, nil, []kv{{k, arrVal([]val{pv, pInt(1)})}}}
		}},
		{"Dict(k, zerolog.Dict().Interface(\"in\", v))", func(k string, v interface{}, pv val) gfield {
			return gfield{"Dict(Interface)", func(e *zerolog.Event) *zerolog.Event { return e.Dict(k, zerolog.Dict().Interface("in", v)) },
				func(c zerolog.Context) zerolog.Context { return c.Dict(k, zerolog.Dict().Interface("in", v)) }, nil, []kv{{k, dictVal([]kv{{"in", pv}})}}}
		}},
		{"AnErr(k, err) with ErrorMarshalFunc(err) = v", func(k string, v interface{}, pv val) gfield {
			err := mErr{v, "unused"}
			return gfield{"AnErr[value]", func(e *zerolog.Event) *zerolog.Event { return e.AnErr(k, err) }, func(c zerolog.Context) zerolog.Context { return c.AnErr(k, err) }, nil, []kv{{k, pv}}}
		}},
		{"Errs(k, []error{err}) with ErrorMarshalFunc(err) = v", func(k string, v interface{}, pv val) gfield {
			err := mErr{v, "unused"}
			return gfield{"Errs[value]", func(e *zerolog.Event) *zerolog.Event { return e.Errs(k, []error{err}) }, func(c zerolog.Context) zerolog.Context { return c.Errs(k, []error{err}) }, nil, []kv{{k, arrVal([]val{pv})}}}
		}},
	}
}

type mgEvent struct{ pre, ctx, ev []kv }

type funcObj func(e *zerolog.Event)

func (f funcObj) MarshalZerologObject(e *zerolog.Event) { f(e) }

// mgProgram runs one program on w and answers the events it expects, in order
type mgProgram struct {
	name string
	run  func(w *capture, install func(mgFn), f1, f2 mgFn, site mgSite, v interface{}) []mgEvent
}

func mgPrograms(orig mgFn) []mgProgram {
	lv := func(s string) []kv { return []kv{{"level", pString(s)}} }
	return []mgProgram{
		{"InterfaceMarshalFunc = f1; l := zerolog.New(w); l.Info().<site>.Msg(\"m\")",
			func(w *capture, install func(mgFn), f1, f2 mgFn, site mgSite, v interface{}) []mgEvent {
				install(f1)
				l := zerolog.New(w)
				f := site.mk("k", v, pIfaceWith(f1, v))
				f.ev(l.Info()).Msg("m")
				return []mgEvent{{lv("info"), nil, append(append([]kv{}, f.out...), kv{"message", pString("m")})}}
			}},
		{"l := zerolog.New(w); InterfaceMarshalFunc = f1; l.Log().<site>.Send(); InterfaceMarshalFunc = f2; l.Log().<site>.Send(); InterfaceMarshalFunc = <the default>; l.Log().<site>.Send()",
			func(w *capture, install func(mgFn), f1, f2 mgFn, site mgSite, v interface{}) []mgEvent {
				l := zerolog.New(w)
				var out []mgEvent
				for _, fn := range []mgFn{f1, f2, orig} {
					install(fn)
					f := site.mk("k", v, pIfaceWith(fn, v))
					f.ev(l.Log()).Send()
					out = append(out, mgEvent{nil, nil, f.out})
				}
				return out
			}},
		{"InterfaceMarshalFunc = f1; l := zerolog.New(w).With().<site>.Logger(); InterfaceMarshalFunc = f2; l.Warn().<site>.Send(); l2 := l.With().<site>.Logger(); l2.Log().Send()",
			func(w *capture, install func(mgFn), f1, f2 mgFn, site mgSite, v interface{}) []mgEvent {
				install(f1)
				c1 := site.mk("c", v, pIfaceWith(f1, v))
				l := c1.ctx(zerolog.New(w).With()).Logger()
				install(f2)
				e2 := site.mk("k", v, pIfaceWith(f2, v))
				e2.ev(l.Warn()).Send()
				c2 := site.mk("c2", v, pIfaceWith(f2, v))
				l2 := c2.ctx(l.With()).Logger()
				l2.Log().Send()
				return []mgEvent{{lv("warn"), c1.out, e2.out}, {nil, append(append([]kv{}, c1.out...), c2.out...), nil}}
			}},
		{"InterfaceMarshalFunc = f1; l.Log().<site \"a\">.Func(func(e) { InterfaceMarshalFunc = f2; e.<site \"k\"> }).<site \"z\">.Send()",
			func(w *capture, install func(mgFn), f1, f2 mgFn, site mgSite, v interface{}) []mgEvent {
				l := zerolog.New(w)
				install(f1)
				a := site.mk("a", v, pIfaceWith(f1, v))
				k := site.mk("k", v, pIfaceWith(f2, v))
				z := site.mk("z", v, pIfaceWith(f2, v))
				z.ev(a.ev(l.Log()).Func(func(e *zerolog.Event) { install(f2); k.ev(e) })).Send()
				return []mgEvent{{nil, nil, append(append(append([]kv{}, a.out...), k.out...), z.out...)}}
			}},
		{"InterfaceMarshalFunc = f1; l.Log().Object(\"o\", <MarshalZerologObject: InterfaceMarshalFunc = f2; e.<site \"k\">>).<site \"z\">.Send()",
			func(w *capture, install func(mgFn), f1, f2 mgFn, site mgSite, v interface{}) []mgEvent {
				l := zerolog.New(w)
				install(f1)
				k := site.mk("k", v, pIfaceWith(f2, v))
				z := site.mk("z", v, pIfaceWith(f2, v))
				z.ev(l.Log().Object("o", funcObj(func(e *zerolog.Event) { install(f2); k.ev(e) }))).Send()
				return []mgEvent{{nil, nil, append([]kv{{"o", dictVal(k.out)}}, z.out...)}}
			}},
		{"l := zerolog.New(w).Hook(<hook: InterfaceMarshalFunc = f2; e.<site \"hook\">>); InterfaceMarshalFunc = f1; l.Error().<site \"k\">.Msg(\"m\"); l.Error().<site \"k\">.Msg(\"m\")",
			func(w *capture, install func(mgFn), f1, f2 mgFn, site mgSite, v interface{}) []mgEvent {
				h := site.mk("hook", v, pIfaceWith(f2, v))
				l := zerolog.New(w).Hook(zerolog.HookFunc(func(e *zerolog.Event, _ zerolog.Level, _ string) { install(f2); h.ev(e) }))
				install(f1)
				k1 := site.mk("k", v, pIfaceWith(f1, v))
				k1.ev(l.Error()).Msg("m")
				// the hook left f2 installed
				k2 := site.mk("k", v, pIfaceWith(f2, v))
				k2.ev(l.Error()).Msg("m")
				msg := kv{"message", pString("m")}
				return []mgEvent{
					{lv("error"), nil, append(append(append([]kv{}, k1.out...), h.out...), msg)},
					{lv("error"), nil, append(append(append([]kv{}, k2.out...), h.out...), msg)}}
			}},
	}
}

func (er *evRun) checkStream(g *gen, in map[string]interface{}, w *capture, evs []mgEvent) {
	c := er.c
	if len(w.bufs) != len(evs) {
		c.Violate(Violation{Key: "cbor-event-writes", Monitor: "one-write", Desc: fmt.Sprintf("%d events produced %d writes", len(evs), len(w.bufs)), Case: in})
		return
	}
	for j, e := range evs {
		inj := map[string]interface{}{}
		for k, v := range in {
			inj[k] = v
		}
		inj["event_of_program"] = j + 1
		i := er.n
		er.n++
		er.check(g, i, inj, &capture{bufs: [][]byte{w.bufs[j]}}, e.pre, e.ctx, e.ev, nil, nil, i%3 == 0)
	}
}

func (er *evRun) runMarshalGlobals() {
	c := er.c
	orig := zerolog.InterfaceMarshalFunc
	install := func(f mgFn) { zerolog.InterfaceMarshalFunc = f }
	defer install(orig)
	zerolog.DurationFieldUnit, zerolog.DurationFieldInteger = time.Millisecond, false
	now := time.Unix(1700000000, 0)
	fns, vals, sites, progs := mgMarshalFuncs(), mgValues(), mgSites(), mgPrograms(orig)
	runs := 0
	for pi, p := range progs {
		for si, site := range sites {
			for fi, fn := range fns {
				// every program x site x function; the value and the second function rotate
				x := vals[(pi+si+fi)%len(vals)]
				f2 := fns[(fi+1+(pi+si)%(len(fns)-1))%len(fns)]
				g := &gen{r: c.R, tb: newTables(), unit: time.Millisecond, now: now}
				w := &capture{}
				evs := p.run(w, install, fn.f, f2.f, site, x.v)
				install(orig)
				in := map[string]interface{}{"directed": "marshal globals at run time", "program": p.name, "site": site.name, "v": x.src, "f1": fn.name, "f2": f2.name}
				er.checkStream(g, in, w, evs)
				er.kinds[site.name]++
				c.Hist("marshal_global_program", fmt.Sprintf("P%d", pi+1))
				runs++
			}
		}
	}
	c.Res.ExtraCoverage["marshal_global_interface_programs"] = runs

	// ---- the other marshal globals, assigned between the events of one logger
	er.runOtherGlobals(install, fns)
}

func (er *evRun) runOtherGlobals(install func(mgFn), fns []mgFuncs) {
	c := er.c
	oErr, oStack, oLvl, oCaller, oTS := zerolog.ErrorMarshalFunc, zerolog.ErrorStackMarshaler, zerolog.LevelFieldMarshalFunc, zerolog.CallerMarshalFunc, zerolog.TimestampFunc
	oNames := []string{zerolog.LevelFieldName, zerolog.MessageFieldName, zerolog.ErrorFieldName, zerolog.TimestampFieldName, zerolog.CallerFieldName, zerolog.ErrorStackFieldName}
	oInt := zerolog.InterfaceMarshalFunc
	restore := func() {
		zerolog.ErrorMarshalFunc, zerolog.ErrorStackMarshaler, zerolog.LevelFieldMarshalFunc, zerolog.CallerMarshalFunc, zerolog.TimestampFunc = oErr, oStack, oLvl, oCaller, oTS
		zerolog.LevelFieldName, zerolog.MessageFieldName, zerolog.ErrorFieldName, zerolog.TimestampFieldName, zerolog.CallerFieldName, zerolog.ErrorStackFieldName = oNames[0], oNames[1], oNames[2], oNames[3], oNames[4], oNames[5]
		zerolog.InterfaceMarshalFunc = oInt
	}
	defer restore()
	runs := 0
	for fi, fn := range fns {
		for order := 0; order < 2; order++ {
			restore()
			g := &gen{r: c.R, tb: newTables(), unit: time.Millisecond, now: time.Unix(1700000000, 0)}
			w := &capture{}
			t1, t2 := time.Unix(1700000001, 0).UTC(), time.Unix(1700000002, 500000000).UTC()
			g.tb.addTime(t1)
			g.tb.addTime(t2)
			zerolog.TimestampFunc = func() time.Time { return t1 }
			zerolog.CallerMarshalFunc = func(uintptr, string, int) string { return "F:1" }
			var l zerolog.Logger
			if order == 0 {
				l = zerolog.New(w).With().Timestamp().Caller().Logger()
			}
			boom := errors.New("boom")
			var evs []mgEvent
			// event 1: the values of the start
			if order == 0 {
				l.Info().Stack().Err(boom).Msg("m1")
				evs = append(evs, mgEvent{[]kv{{"level", pString("info")}}, nil, []kv{{"error", pString("boom")}, {"time", pTime(t1)}, {"caller", pString("F:1")}, {"message", pString("m1")}}})
			}
			// assignments (order 1: before the logger exists)
			zerolog.ErrorMarshalFunc = func(err error) interface{} { return "E:" + err.Error() }
			zerolog.ErrorStackMarshaler = func(err error) interface{} { return []string{"main.go:1", "<rt>"} }
			zerolog.LevelFieldMarshalFunc = func(lv zerolog.Level) string { return strings.ToUpper(lv.String()) }
			zerolog.CallerMarshalFunc = func(uintptr, string, int) string { return "G:2" }
			zerolog.TimestampFunc = func() time.Time { return t2 }
			install(fn.f)
			if order == 1 {
				l = zerolog.New(w).With().Timestamp().Caller().Logger()
			}
			l.Warn().Stack().Err(boom).Msg("m2")
			evs = append(evs, mgEvent{[]kv{{"level", pString("WARN")}}, nil, []kv{{"stack", pIfaceWith(fn.f, []string{"main.go:1", "<rt>"})}, {"error", pString("E:boom")}, {"time", pTime(t2)}, {"caller", pString("G:2")}, {"message", pString("m2")}}})
			// an answer of ErrorMarshalFunc that is neither error nor string goes through InterfaceMarshalFunc; the names
			zerolog.ErrorMarshalFunc = func(err error) interface{} { return mgAccount{9, err.Error()} }
			zerolog.ErrorStackMarshaler = func(err error) interface{} { return "S:" + err.Error() }
			zerolog.LevelFieldName, zerolog.MessageFieldName, zerolog.ErrorFieldName, zerolog.TimestampFieldName, zerolog.CallerFieldName, zerolog.ErrorStackFieldName = "lvl", "msg", "err", "ts", "src", "trace"
			l.Error().Stack().Err(boom).Msg("m3")
			evs = append(evs, mgEvent{[]kv{{"lvl", pString("ERROR")}}, nil, []kv{{"trace", pString("S:boom")}, {"err", pIfaceWith(fn.f, mgAccount{9, "boom"})}, {"ts", pTime(t2)}, {"src", pString("G:2")}, {"msg", pString("m3")}}})
			in := map[string]interface{}{"directed": "marshal globals at run time",
				"program": "l := zerolog.New(w).With().Timestamp().Caller().Logger() [order 0: first, and one event under the initial values; order 1: after the assignments]; ErrorMarshalFunc = \"E:\"+err.Error(); ErrorStackMarshaler = []string{...}; LevelFieldMarshalFunc = upper case; CallerMarshalFunc = \"G:2\"; TimestampFunc = t2; InterfaceMarshalFunc = f1; l.Warn().Stack().Err(boom).Msg(\"m2\"); ErrorMarshalFunc = mgAccount{9, err.Error()}; ErrorStackMarshaler = \"S:\"+err.Error(); the six field names; l.Error().Stack().Err(boom).Msg(\"m3\")",
				"order": order, "f1": fn.name}
			restore()
			er.checkStream(g, in, w, evs)
			runs++
			_ = fi
		}
	}
	c.Res.ExtraCoverage["marshal_global_other_programs"] = runs
}
