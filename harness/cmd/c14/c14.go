package main

// C14 - writer fan-out is complete and failures stay contained.
//
// The REAL zerolog is run: a Logger built over MultiLevelWriter (or a single
// destination), with LevelWriterAdapter / SyncWriter / FilteredLevelWriter
// wrappers, over scripted fake destinations whose every call returns what an
// outcome matrix says (ok, an error value, a short write).  One global trace
// records, in order, every destination call (entry point, level, bytes), every
// ErrorHandler invocation (which error value, by identity), stderr reports and
// the panic of Logger.Panic()'s done callback.
//
// Correspondence: the Coq model (Lts/Writers.v, run) must predict exactly this
// trace per logging call.  Monitors (monitors.go) state the property directly
// on the trace, independently of the model.

import (
	"bytes"
	"errors"
	"fmt"
	"io"
	"os"
	"strings"

	"github.com/rs/zerolog"
	"verifharness/hlib"
	. "verifharness/hlib"
)

func main() { hlib.Main(map[string]func(*hlib.Ctx){"C14": runC14}) }

// ---------------------------------------------------------------- case description

type wrapT struct {
	Kind string `json:"kind"` // sync | filtered | adapter
	Min  int    `json:"min,omitempty"`
}

type destT struct {
	Wraps []wrapT `json:"wraps"` // outermost first
	Leaf  string  `json:"leaf"`  // plain (io.Writer only) | level (LevelWriter)
}

type cfgT struct {
	Wraps   []wrapT `json:"wraps"` // around the whole writer, outermost first
	Kind    string  `json:"kind"`  // multi | single
	Dests   []destT `json:"dests"`
	Handler bool    `json:"handler"`
	Hide    bool    `json:"hide,omitempty"` // an outermost adapter is realised as struct{io.Writer}{w} instead of LevelWriterAdapter{w}
}

type evT struct {
	Level int    `json:"level"`
	Msg   string `json:"msg"`
	Key   string `json:"key,omitempty"`
	Val   string `json:"val,omitempty"`
	Panic bool   `json:"panic,omitempty"`       // created by Logger.Panic()
	Fin   string `json:"entry_point,omitempty"` // the call that ends in the write (finalizers, below); "" = WithLevel(level)...Msg(msg)
	ref   []byte // bytes of this event through a plain logger (reference)
}

// finalizers: every exported call through which an event reaches the writer (they all end in Event.msg, the one place
// a write error is reported).  The first four keep the level of the event; the others imply one (withFin sets it).
var finalizers = []string{"msg", "msgf", "send", "msgfunc", "log", "logger-write", "print", "printf", "println", "err-nil", "err"}

// withFin returns e finalised through entry point f, with the level that entry point writes at.
func withFin(e evT, f string) evT {
	e.Fin = f
	switch f {
	case "log", "logger-write":
		e.Level = int(zerolog.NoLevel)
	case "print", "printf", "println":
		e.Level = int(zerolog.DebugLevel)
	case "err-nil":
		e.Level = int(zerolog.InfoLevel)
	case "err":
		e.Level = int(zerolog.ErrorLevel)
	}
	if f != "" {
		e.Panic = false
	}
	return e
}

type outT struct {
	Kind string `json:"kind"` // ok | err | short
	E    int    `json:"e,omitempty"`
	N    int    `json:"n,omitempty"`
}

type caseT struct {
	Cfg  cfgT     `json:"cfg"`
	Evs  []evT    `json:"events"`
	Om   [][]outT `json:"outcomes"` // [event][destination]
	Hist *histT   `json:"-"`        // set when this case is one segment of a retune history
	Der  *derivT  `json:"-"`        // set when this case is one logging step of a writer-derivation history (derive.go)
}

// retuneT: at run time, the exported Level field of one FilteredLevelWriter of the already
// constructed writer is assigned.  Dest = -1: a filter among the wrappers around the whole
// writer; otherwise the destination's own chain.  Wrap = index into that chain.
type retuneT struct {
	Dest int `json:"dest"`
	Wrap int `json:"wrap"`
	Min  int `json:"min"`
}

type segT struct {
	Retunes []retuneT `json:"set_level_before"` // applied before the first event of the segment
	Evs     []evT     `json:"events"`
	Om      [][]outT  `json:"outcomes"`
}

// histT: a writer constructed once from Cfg, then used over several segments; between segments
// filter levels are changed through the exported field.  Seg = the segment a case was cut from.
type histT struct {
	Cfg  cfgT   `json:"constructed_from"`
	Segs []segT `json:"segments"`
	Seg  int    `json:"this_case_is_segment"`
}

// one observed action
type actT struct {
	Kind  string `json:"kind"` // call | handler | stderr | done | panic
	Dest  int    `json:"dest,omitempty"`
	Mode  string `json:"mode,omitempty"` // write | level
	Level int    `json:"level,omitempty"`
	Bytes []byte `json:"-"`
	Text  string `json:"bytes,omitempty"`
	Err   string `json:"err,omitempty"` // short | dest:<id> | unknown
	ErrID int    `json:"-"`
}

// ---------------------------------------------------------------- fakes

const maxErr = 4096

// errTab (errvalues.go): the error value an outcome {err, E} makes the destination return

type runtimeT struct {
	om    [][]outT
	k     int // current event
	trace []actT
	quiet bool // do not record (allocation monitor)
	calls int
}

func (rt *runtimeT) call(id int, mode string, lvl zerolog.Level, p []byte) (int, error) {
	rt.calls++
	if !rt.quiet {
		rt.trace = append(rt.trace, actT{Kind: "call", Dest: id, Mode: mode, Level: int(lvl), Bytes: append([]byte(nil), p...)})
	}
	o := outT{Kind: "ok"}
	if rt.k < len(rt.om) && id < len(rt.om[rt.k]) {
		o = rt.om[rt.k][id]
	}
	switch o.Kind {
	case "err":
		return 0, errTab[o.E]
	case "short":
		return o.N, nil
	}
	return len(p), nil
}

// io.Writer only
type fakePlain struct {
	id int
	rt *runtimeT
}

func (f *fakePlain) Write(p []byte) (int, error) { return f.rt.call(f.id, "write", 0, p) }

// LevelWriter
type fakeLevel struct {
	id int
	rt *runtimeT
}

func (f *fakeLevel) Write(p []byte) (int, error) { return f.rt.call(f.id, "write", 0, p) }
func (f *fakeLevel) WriteLevel(l zerolog.Level, p []byte) (int, error) {
	return f.rt.call(f.id, "level", l, p)
}

type filterHandle struct {
	dest, wrap int
	f          *zerolog.FilteredLevelWriter
}

func wrapChain(ws []wrapT, inner io.Writer, hide bool, dest int, reg *[]filterHandle) io.Writer {
	for i := len(ws) - 1; i >= 0; i-- {
		switch ws[i].Kind {
		case "sync":
			inner = zerolog.SyncWriter(inner)
		case "adapter":
			if hide && i == 0 {
				inner = struct{ io.Writer }{inner}
			} else {
				inner = zerolog.LevelWriterAdapter{Writer: inner}
			}
		case "filtered":
			lw, ok := inner.(zerolog.LevelWriter)
			if !ok {
				lw = zerolog.LevelWriterAdapter{Writer: inner}
			}
			f := &zerolog.FilteredLevelWriter{Writer: lw, Level: zerolog.Level(ws[i].Min)}
			if reg != nil {
				*reg = append(*reg, filterHandle{dest, i, f})
			}
			inner = f
		}
	}
	return inner
}

func buildWriter(c cfgT, rt *runtimeT, reg *[]filterHandle) io.Writer {
	ds := make([]io.Writer, len(c.Dests))
	for i, d := range c.Dests {
		var leaf io.Writer
		if d.Leaf == "plain" {
			leaf = &fakePlain{i, rt}
		} else {
			leaf = &fakeLevel{i, rt}
		}
		ds[i] = wrapChain(d.Wraps, leaf, false, i, reg)
	}
	var body io.Writer
	if c.Kind == "multi" {
		body = zerolog.MultiLevelWriter(ds...)
	} else if len(ds) > 0 {
		body = ds[0]
	} else {
		body = io.Discard
	}
	return wrapChain(c.Wraps, body, c.Hide, -1, reg)
}

func classify(err error) (string, int) {
	if err == io.ErrShortWrite {
		return "short", -1
	}
	for i, e := range errTab {
		if sameErr(e, err) {
			return fmt.Sprintf("dest:%d", i), i
		}
	}
	return "unknown", -2
}

// emitEvent performs one logging call on l; reports whether it panicked and with what.
func emitEvent(l *zerolog.Logger, e evT) (panicked bool, pv interface{}) {
	defer func() {
		if r := recover(); r != nil {
			panicked, pv = true, r
		}
	}()
	var ev *zerolog.Event
	switch e.Fin {
	case "logger-write":
		l.Write([]byte(e.Msg + "\n"))
		return
	case "print":
		l.Print(e.Msg)
		return
	case "printf":
		l.Printf("%s|%d", e.Msg, len(e.Msg))
		return
	case "println":
		l.Println(e.Msg)
		return
	case "log":
		ev = l.Log()
	case "err-nil":
		ev = l.Err(nil)
	case "err":
		ev = l.Err(errors.New("verif-logged-error " + e.Val))
	default:
		if e.Panic {
			ev = l.Panic()
		} else {
			ev = l.WithLevel(zerolog.Level(e.Level))
		}
	}
	if e.Key != "" {
		ev = ev.Str(e.Key, e.Val)
	}
	switch e.Fin {
	case "msgf":
		ev.Msgf("%s|%d", e.Msg, len(e.Msg))
	case "send":
		ev.Send()
	case "msgfunc":
		ev.MsgFunc(func() string { return e.Msg })
	default:
		ev.Msg(e.Msg)
	}
	return
}

func refBytes(e evT) []byte {
	var buf bytes.Buffer
	l := zerolog.New(&buf).Level(zerolog.Level(-128))
	emitEvent(&l, e)
	return append([]byte(nil), buf.Bytes()...)
}

var stderrFile *os.File
var stderrOff int64

// runCase runs the case on the real code; returns the per-event traces.
func runCase(c *Ctx, cs *caseT) [][]actT { return runCaseHooked(c, cs, nil) }

// installReports routes the write-error reports of the logging calls that follow into rt.trace (ErrorHandler set) or
// to the stderr capture file (ErrorHandler nil); the returned function restores the globals.
func installReports(rt *runtimeT, handler bool) func() {
	oldH := zerolog.ErrorHandler
	oldStderr := os.Stderr
	if handler {
		zerolog.ErrorHandler = func(err error) {
			cl, id := classify(err)
			rt.trace = append(rt.trace, actT{Kind: "handler", Err: cl, ErrID: id})
		}
	} else {
		zerolog.ErrorHandler = nil
		os.Stderr = stderrFile
	}
	return func() { zerolog.ErrorHandler = oldH; os.Stderr = oldStderr }
}

// logEvent performs one logging call on l and returns the ordered trace of that call (destination calls, reports,
// done / panic).  rt.k and rt.om say what the destinations answer.
func logEvent(rt *runtimeT, l *zerolog.Logger, e evT, handler bool) []actT {
	rt.trace = nil
	panicked, pv := emitEvent(l, e)
	tr := rt.trace
	if !handler {
		// what arrived on stderr during this call (order relative to the other actions is
		// not observable; it is placed after the calls, where msg writes it)
		st, _ := stderrFile.Stat()
		if st.Size() > stderrOff {
			b := make([]byte, st.Size()-stderrOff)
			stderrFile.ReadAt(b, stderrOff)
			stderrOff = st.Size()
			for _, line := range strings.Split(strings.TrimSuffix(string(b), "\n"), "\n") {
				a := actT{Kind: "stderr", Err: "unknown", ErrID: -2}
				const stderrPrefix = "zerolog: could not write event: "
				if id, ok := errByText[strings.TrimPrefix(line, stderrPrefix)]; ok && strings.HasPrefix(line, stderrPrefix) {
					// the report is the text of exactly one error value of the table
					a.Err, a.ErrID = fmt.Sprintf("dest:%d", id), id
				} else if strings.HasSuffix(line, ": "+io.ErrShortWrite.Error()) {
					a.Err, a.ErrID = "short", -1
				} else if i := strings.LastIndex(line, "verif-dest-error-"); i >= 0 {
					var id int
					if _, err := fmt.Sscanf(line[i:], "verif-dest-error-%d", &id); err == nil {
						a.Err, a.ErrID = fmt.Sprintf("dest:%d", id), id
					}
				}
				tr = append(tr, a)
			}
		}
	}
	if panicked {
		if s, ok := pv.(string); ok && e.Panic && s == e.Msg {
			tr = append(tr, actT{Kind: "done"})
		} else {
			tr = append(tr, actT{Kind: "panic", Err: fmt.Sprint(pv)})
		}
	}
	return tr
}

// runCaseHooked: before(k, filters) runs before logging call k and may assign the Level field of
// the FilteredLevelWriters the writer was constructed with.
func runCaseHooked(c *Ctx, cs *caseT, before func(k int, filters []filterHandle)) [][]actT {
	for i := range cs.Evs {
		cs.Evs[i].ref = refBytes(cs.Evs[i])
	}
	rt := &runtimeT{om: cs.Om}
	var filters []filterHandle
	w := buildWriter(cs.Cfg, rt, &filters)
	l := zerolog.New(w).Level(zerolog.Level(-128))
	defer installReports(rt, cs.Cfg.Handler)()
	out := make([][]actT, len(cs.Evs))
	for k, e := range cs.Evs {
		rt.k = k
		rt.trace = nil
		if before != nil {
			before(k, filters)
		}
		out[k] = logEvent(rt, &l, e, cs.Cfg.Handler)
	}
	return out
}

// ---------------------------------------------------------------- Gallina printers

func wrapsCoq(ws []wrapT) string {
	xs := make([]string, len(ws))
	for i, w := range ws {
		switch w.Kind {
		case "sync":
			xs[i] = "WSync"
		case "adapter":
			xs[i] = "WAdapter"
		default:
			xs[i] = "WFiltered " + CoqZ(int64(w.Min))
		}
	}
	return CoqList(xs)
}

func (c cfgT) coq() string {
	ds := make([]string, len(c.Dests))
	for i, d := range c.Dests {
		leaf := "LLevel"
		if d.Leaf == "plain" {
			leaf = "LPlain"
		}
		ds[i] = fmt.Sprintf("Build_dest %s %s", wrapsCoq(d.Wraps), leaf)
	}
	k := "KMulti"
	if c.Kind != "multi" {
		k = "KSingle"
	}
	return fmt.Sprintf("(Build_cfg %s %s %s %s)", wrapsCoq(c.Wraps), k, CoqList(ds), CoqBool(c.Handler))
}

func (o outT) coq() string {
	switch o.Kind {
	case "err":
		return fmt.Sprintf("OErr %d", o.E)
	case "short":
		return "OShort " + CoqZ(int64(o.N))
	}
	return "OOk"
}

func errCoq(id int) string {
	if id == -1 {
		return "EShortWrite"
	}
	if id < 0 {
		return "(EDest 99999999)" // unknown error value: never predicted
	}
	return fmt.Sprintf("(EDest %d)", id)
}

// caseTerm prints ((cfg, events, outcomes), observed); the reference bytes of event k
// are bound once as bk, and an observed byte string is printed as bk exactly when it
// is byte-for-byte equal to it (otherwise literally).
func caseTerm(cs *caseT, obs [][]actT) string {
	var b strings.Builder
	b.WriteString("(")
	for k, e := range cs.Evs {
		fmt.Fprintf(&b, "let b%d := %s in ", k, CoqBytes(e.ref))
	}
	evs := make([]string, len(cs.Evs))
	for k, e := range cs.Evs {
		lvl := e.Level
		if e.Panic {
			lvl = int(zerolog.PanicLevel)
		}
		evs[k] = fmt.Sprintf("Build_event %s b%d %s", CoqZ(int64(lvl)), k, CoqBool(e.Panic))
	}
	rows := make([]string, len(cs.Om))
	for k, r := range cs.Om {
		xs := make([]string, len(r))
		for i, o := range r {
			xs[i] = o.coq()
		}
		rows[k] = CoqList(xs)
	}
	ob := make([]string, len(obs))
	for k, tr := range obs {
		xs := []string{}
		for _, a := range tr {
			switch a.Kind {
			case "call":
				bs := CoqBytes(a.Bytes)
				if bytes.Equal(a.Bytes, cs.Evs[k].ref) {
					bs = fmt.Sprintf("b%d", k)
				}
				m := "MWrite"
				if a.Mode == "level" {
					m = "(MLevel " + CoqZ(int64(a.Level)) + ")"
				}
				xs = append(xs, fmt.Sprintf("ACall %d %s %s", a.Dest, m, bs))
			case "handler":
				xs = append(xs, "AHandler "+errCoq(a.ErrID))
			case "stderr":
				xs = append(xs, "AStderr "+errCoq(a.ErrID))
			case "done":
				xs = append(xs, "ADone")
			default:
				xs = append(xs, "APut") // an unexpected panic: never predicted as observable
			}
		}
		ob[k] = CoqList(xs)
	}
	fmt.Fprintf(&b, "((%s, %s, %s), %s))", cs.Cfg.coq(), CoqList(evs), CoqList(rows), CoqList(ob))
	return b.String()
}

func caseJSON(cs *caseT, obs [][]actT) map[string]interface{} {
	refs := make([]string, len(cs.Evs))
	for i, e := range cs.Evs {
		refs[i] = string(e.ref)
	}
	for _, tr := range obs {
		for i := range tr {
			if tr[i].Kind == "call" {
				tr[i].Text = string(tr[i].Bytes)
			}
		}
	}
	m := map[string]interface{}{"cfg": cs.Cfg, "events": cs.Evs, "reference_bytes": refs, "outcomes": cs.Om, "observed": obs}
	if ev := errValueNotes(cs.Om); len(ev) > 0 {
		m["error_values"] = ev // outcome {err, e}: the destination returns (0, this value); reports are matched by identity
	}
	if cs.Der != nil {
		m["derivation"] = cs.Der
		m["note"] = "writers[i] = zerolog.MultiLevelWriter(args...) where an argument is a destination of the derivation or the RESULT of an earlier MultiLevelWriter call (optionally wrapped); the history builds the writers and logs through them, all of them staying alive; this case is the history step derivation.this_case_is_history_step: events logged through the writer named there. cfg above = the destinations that writer was built from, flattened in argument order (cfg destination i = derivation destination derivation_destination_of_cfg_destination[i]); an observed call on a destination the writer was not built from is shown with an index beyond cfg's destinations. History steps slice-*: statements of the caller on its own []io.Writer variables s_1, s_2 (caller_slice_statement.go is the statement as Go source); a writer with built_from_caller_slice = k was built as zerolog.MultiLevelWriter(s_k...) at its build step, its args being the contents of s_k at that moment; what the caller does with s_k afterwards does not change the destinations of the writer"
	}
	if cs.Hist != nil {
		m["history"] = cs.Hist
		m["note"] = "the writer was constructed ONCE from history.constructed_from and used for all segments in order; before each segment the exported Level field of the listed FilteredLevelWriters was assigned. cfg above = the construction with the filter levels in force during this segment; events/outcomes/observed = this segment only"
	}
	return m
}

// ---------------------------------------------------------------- retune histories

func cloneCfg(c cfgT) cfgT {
	o := c
	o.Wraps = append([]wrapT{}, c.Wraps...)
	o.Dests = make([]destT, len(c.Dests))
	for i, d := range c.Dests {
		o.Dests[i] = destT{Leaf: d.Leaf, Wraps: append([]wrapT{}, d.Wraps...)}
	}
	return o
}

// filterSlots lists every FilteredLevelWriter of a configuration as (dest, wrap).
func filterSlots(c cfgT) [][2]int {
	var out [][2]int
	for i, w := range c.Wraps {
		if w.Kind == "filtered" {
			out = append(out, [2]int{-1, i})
		}
	}
	for d, ds := range c.Dests {
		for i, w := range ds.Wraps {
			if w.Kind == "filtered" {
				out = append(out, [2]int{d, i})
			}
		}
	}
	return out
}

// runHistory runs all segments on ONE constructed writer and cuts the run into one case per
// segment whose cfg carries the filter levels in force during it.  The property (and the model)
// say what a writer with those levels does with the segment's events; that the levels were
// reached by assignment rather than at construction must make no difference.
func runHistory(c *Ctx, h *histT) ([]*caseT, [][][]actT) {
	flat := &caseT{Cfg: h.Cfg}
	start := map[int]int{}
	for s, sg := range h.Segs {
		start[len(flat.Evs)] = s
		flat.Evs = append(flat.Evs, sg.Evs...)
		flat.Om = append(flat.Om, sg.Om...)
	}
	obs := runCaseHooked(c, flat, func(k int, filters []filterHandle) {
		s, ok := start[k]
		if !ok {
			return
		}
		for _, rt := range h.Segs[s].Retunes {
			for _, f := range filters {
				if f.dest == rt.Dest && f.wrap == rt.Wrap {
					f.f.Level = zerolog.Level(rt.Min)
				}
			}
		}
	})
	var cases []*caseT
	var obss [][][]actT
	eff := cloneCfg(h.Cfg)
	at := 0
	for s, sg := range h.Segs {
		for _, rt := range sg.Retunes {
			if rt.Dest < 0 {
				eff.Wraps[rt.Wrap].Min = rt.Min
			} else {
				eff.Dests[rt.Dest].Wraps[rt.Wrap].Min = rt.Min
			}
		}
		hh := *h
		hh.Seg = s
		cs := &caseT{Cfg: cloneCfg(eff), Evs: flat.Evs[at : at+len(sg.Evs)], Om: sg.Om, Hist: &hh}
		cases = append(cases, cs)
		obss = append(obss, obs[at:at+len(sg.Evs)])
		at += len(sg.Evs)
	}
	return cases, obss
}

// genHistory: a random configuration with at least one filter, 2-4 segments, 1-2 level
// assignments before each later segment.
func genHistory(r *Rng) *histT {
	var base *caseT
	for {
		base = genCase(r)
		if len(filterSlots(base.Cfg)) > 0 {
			break
		}
	}
	h := &histT{Cfg: base.Cfg}
	slots := filterSlots(base.Cfg)
	nseg := 2 + r.Intn(3)
	for s := 0; s < nseg; s++ {
		more := genCase(r)
		sg := segT{Retunes: []retuneT{}}
		if s > 0 {
			for j := 0; j < 1+r.Intn(2); j++ {
				sl := slots[r.Intn(len(slots))]
				sg.Retunes = append(sg.Retunes, retuneT{Dest: sl[0], Wrap: sl[1], Min: c14levels[r.Intn(len(c14levels))]})
			}
		}
		D := len(base.Cfg.Dests)
		for k, e := range more.Evs {
			if k >= 4 {
				break
			}
			sg.Evs = append(sg.Evs, e)
			row := make([]outT, D)
			for i := range row {
				row[i] = outT{Kind: "ok"}
				if i < len(more.Om[k]) {
					row[i] = more.Om[k][i]
				} else if r.Chance(20) {
					row[i] = outT{Kind: "err", E: r.Intn(maxErr)}
				}
			}
			sg.Om = append(sg.Om, row)
		}
		h.Segs = append(h.Segs, sg)
	}
	return h
}

// ---------------------------------------------------------------- generation

var c14levels = []int{-128, -1, 0, 1, 2, 3, 4, 5, 6, 9, 127}

func genWraps(r *Rng, maxDepth int, allowAdapter bool) []wrapT {
	n := 0
	switch r.Intn(10) {
	case 0, 1, 2, 3:
		n = 0
	case 4, 5, 6:
		n = 1
	case 7, 8:
		n = 2
	default:
		n = maxDepth
	}
	ws := []wrapT{}
	for i := 0; i < n; i++ {
		switch k := r.Intn(10); {
		case k < 5:
			ws = append(ws, wrapT{Kind: "filtered", Min: c14levels[r.Intn(len(c14levels))]})
		case k < 8 || !allowAdapter:
			ws = append(ws, wrapT{Kind: "sync"})
		default:
			ws = append(ws, wrapT{Kind: "adapter"})
		}
	}
	return ws
}

func genMsg(r *Rng) string {
	n := r.Intn(12)
	b := make([]byte, n)
	for i := range b {
		b[i] = "abcxyz 019_\"\\\n"[r.Intn(14)]
	}
	return string(b)
}

func genCase(r *Rng) *caseT {
	cs := &caseT{}
	D := r.Intn(6)
	if r.Chance(50) {
		D = 2 + r.Intn(3)
	}
	E := 1 + r.Intn(6)
	cs.Cfg.Kind = "multi"
	if r.Chance(12) {
		cs.Cfg.Kind = "single"
	}
	cs.Cfg.Handler = !r.Chance(12)
	if r.Chance(25) {
		cs.Cfg.Wraps = genWraps(r, 2, true)
	} else {
		cs.Cfg.Wraps = []wrapT{}
	}
	cs.Cfg.Hide = r.Bool()
	for i := 0; i < D; i++ {
		d := destT{Leaf: "level", Wraps: genWraps(r, 3, true)}
		if r.Chance(40) {
			d.Leaf = "plain"
		}
		cs.Cfg.Dests = append(cs.Cfg.Dests, d)
	}
	if cs.Cfg.Dests == nil {
		cs.Cfg.Dests = []destT{}
	}
	eid := r.Intn(1000)
	for k := 0; k < E; k++ {
		e := evT{Level: c14levels[r.Intn(len(c14levels))], Msg: genMsg(r)}
		if r.Chance(50) {
			e.Level = 1 + r.Intn(3)
		}
		if r.Chance(4) {
			e.Level = 7 // Disabled: WithLevel returns the nil event
		}
		if r.Chance(8) {
			e.Panic = true
			e.Level = int(zerolog.PanicLevel)
		}
		if r.Chance(30) {
			e.Key, e.Val = "k", genMsg(r)
		}
		cs.Evs = append(cs.Evs, e)
		row := make([]outT, D)
		clean := r.Chance(35)
		for i := range row {
			row[i] = outT{Kind: "ok"}
			if clean {
				continue
			}
			switch r.Intn(10) {
			case 0, 1, 2:
				row[i] = outT{Kind: "err", E: eid % maxErr}
				eid++
			case 3, 4:
				row[i] = outT{Kind: "short", N: r.Intn(20)}
			case 5:
				// a "short write" value that may equal, exceed or be negative
				row[i] = outT{Kind: "short", N: []int{-1, 0, 1000, 20, 25, 30}[r.Intn(6)]}
			}
		}
		cs.Om = append(cs.Om, row)
	}
	return cs
}

// ---------------------------------------------------------------- driver

func runC14(c *Ctx) {
	c.Res.Rule = fmt.Sprintf("a case is (writer configuration: wrappers around MultiLevelWriter or a single destination, per destination a wrapper chain of SyncWriter/FilteredLevelWriter/LevelWriterAdapter over an io.Writer or LevelWriter fake; events with level/message/field; outcome matrix ok|error value|short write per event and destination; the error value of an outcome is one of %d kinds - opaque errors, the standard library sentinels themselves (os.ErrClosed, io.EOF, io.ErrClosedPipe, context.Canceled, net.ErrClosed, syscall errnos, ...), values wrapping them (%%w, *fs.PathError, *os.SyscallError, *net.OpError, multi-errors), Timeout/Temporary answers, an error whose Is matches every target, an empty text - directed sweep of every kind in sentinel and wrapped form through five destination positions with ErrorHandler and with the stderr fallback, the failing events also entering through each of the eleven entry points that end in the write (Msg, Msgf, Send, MsgFunc, Log, Logger.Write, Print, Printf, Println, Err(nil), Err(err)), and mixed into every other stream by error id; entry-point sweep: every entry point x {ok, error, short write, error behind a short write} x three writer shapes x ErrorHandler/stderr); observed = per logging call the ordered trace of destination calls (entry, level, bytes), ErrorHandler/stderr reports (error identity) and done. Bounded-exhaustive: all 3-outcome matrices for <=3 destinations x <=2 events (thorough: <=3 events) over 4 fixed kind assignments, the full filter-level x event-level grid; then seeded random (<=5 destinations, <=6 events, chains <=3); retune histories: one writer constructed once and used over 2-4 segments, the exported Level field of its FilteredLevelWriters assigned between segments (directed grid: every ordered pair old/new level x six filter positions x events at all levels before and after; seeded random), each segment shipped as one case under the levels then in force; writer derivations: writers built by MultiLevelWriter from destinations and from the results of earlier MultiLevelWriter calls (directed grid: a base fan-out of 1-4 destinations, extended 0-2 times by 1-2 destinations, then 2-3 sibling writers derived from the last one and one more from the base, the earlier writer as first / last / middle argument, all writers alive and logged through oldest-first / newest-first / as soon as built and again at the end; seeded random derivations of 2-7 writers, earlier writers also behind SyncWriter / FilteredLevelWriter; caller-owned argument slices: the writers built as MultiLevelWriter(s...) from a []io.Writer variable the caller goes on using - per-tenant reuse with one element replaced, element overwritten / set to nil after the build, truncate-and-append, refill, append into spare capacity, prefix of a shared array, an earlier writer swapped in - at every position of slices of 1-4 elements, and the seeded random derivations replayed with every build going through one of two such variables that are refilled per build and damaged afterwards), every destination recorded separately, each logging step shipped as one case over the flattened destinations of its writer. non-trivial = at least one reached destination fails and at least two destinations are configured; distinct by case text", len(errKinds))
	var err error
	stderrFile, err = os.Create(c.Out + "/stderr_capture.txt")
	if err != nil {
		panic(err)
	}
	defer stderrFile.Close()
	zerolog.SetGlobalLevel(zerolog.Level(-128))
	defer zerolog.SetGlobalLevel(zerolog.TraceLevel)

	c.OpenShards("From Verif Require Import Base.Prelude Misc.Level Lts.Writers Harness.C14H.\nOpen Scope Z_scope.",
		"(cfg * list event * list (list outcome)) * list (list action)", "mismatches c14_run c14_eqb", 250)

	var emitObserved func(cs *caseT, obs [][]actT, group string)
	emit := func(cs *caseT, group string) { emitObserved(cs, runCase(c, cs), group) }
	emitHistory := func(h *histT, group string) {
		cases, obss := runHistory(c, h)
		for i, cs := range cases {
			emitObserved(cs, obss[i], group)
		}
		c.Hist("history_segments", fmt.Sprint(len(h.Segs)))
	}
	emitObserved = func(cs *caseT, obs [][]actT, group string) {
		failing := monitorCase(c, cs, obs)
		term := caseTerm(cs, obs)
		j := caseJSON(cs, obs)
		c.AddCase(term, j)
		c.Count(term, failing && len(cs.Cfg.Dests) >= 2)
		c.Hist("group", group)
		c.Hist("destinations", fmt.Sprint(len(cs.Cfg.Dests)))
		c.Hist("events", fmt.Sprint(len(cs.Evs)))
		if failing {
			c.Hist("has_failure", "yes")
		} else {
			c.Hist("has_failure", "no")
		}
		if group == "random" {
			c.Sample(j)
		}
	}

	// 1. bounded-exhaustive outcome matrices over fixed kind assignments
	L := destT{Leaf: "level", Wraps: []wrapT{}}
	P := destT{Leaf: "plain", Wraps: []wrapT{}}
	F := func(min int, leaf string) destT {
		return destT{Leaf: leaf, Wraps: []wrapT{{Kind: "filtered", Min: min}}}
	}
	assignments := [][]destT{
		{L, L, L},
		{P, F(2, "level"), L}, // event 0 (info) is filtered out at destination 1, event 1 (error) passes
		{F(3, "plain"), P, F(1, "level")},
		{F(4, "level"), F(0, "level"), P}, // destination 0 never reached
	}
	evLevels := []int{1, 3, 2}
	maxE := 2
	if c.Thorough() {
		maxE = 3
	}
	exh := 0
	for _, asg := range assignments {
		for D := 1; D <= 3; D++ {
			for E := 1; E <= maxE; E++ {
				cells := D * E
				total := 1
				for i := 0; i < cells; i++ {
					total *= 3
				}
				for code := 0; code < total; code++ {
					cs := &caseT{Cfg: cfgT{Kind: "multi", Handler: true, Wraps: []wrapT{}, Dests: append([]destT{}, asg[:D]...)}}
					x := code
					for k := 0; k < E; k++ {
						cs.Evs = append(cs.Evs, evT{Level: evLevels[k], Msg: fmt.Sprintf("m%d", k)})
						row := make([]outT, D)
						for i := 0; i < D; i++ {
							switch x % 3 {
							case 0:
								row[i] = outT{Kind: "ok"}
							case 1:
								row[i] = outT{Kind: "err", E: k*3 + i + 1}
							default:
								row[i] = outT{Kind: "short", N: 3}
							}
							x /= 3
						}
						cs.Om = append(cs.Om, row)
					}
					emit(cs, "exhaustive-matrix")
					exh++
				}
			}
		}
	}
	// 2. the full grid filter level x event level (and both leaf kinds, both entries)
	grid := 0
	for _, min := range c14levels {
		for _, lv := range append([]int{7}, c14levels...) {
			for _, leaf := range []string{"level", "plain"} {
				for _, top := range [][]wrapT{{}, {{Kind: "adapter"}}, {{Kind: "sync"}}} {
					cs := &caseT{Cfg: cfgT{Kind: "multi", Handler: true, Wraps: top, Dests: []destT{F(min, leaf), L}}}
					cs.Evs = []evT{{Level: lv, Msg: "g"}, {Level: 1, Msg: "after"}}
					cs.Om = [][]outT{{{Kind: "err", E: 1}, {Kind: "ok"}}, {{Kind: "ok"}, {Kind: "ok"}}}
					emit(cs, "filter-grid")
					grid++
				}
			}
		}
	}
	c.Res.ExtraCoverage["bounded_exhaustive_matrices"] = exh
	c.Res.ExtraCoverage["filter_grid_cases"] = grid
	c.Res.ExtraCoverage["bounded_exhaustive_rule"] = "all 3^(D*E) outcome matrices for D<=3, E<=2 (thorough: E<=3) for each of 4 destination-kind assignments; filter grid = 11 filter levels x 12 event levels x 2 leaf kinds x 3 entries"

	// 3. the four patterns of TestResilientMultiWriter, extended to what it does not look at
	for _, pat := range [][]string{{"ok", "ok"}, {"err", "ok"}, {"ok", "err"}, {"err", "err"}} {
		cs := &caseT{Cfg: cfgT{Kind: "multi", Handler: true, Wraps: []wrapT{}, Dests: []destT{P, P}}}
		cs.Evs = []evT{{Level: 1, Msg: "test"}, {Level: 1, Msg: "next"}}
		row := []outT{{Kind: pat[0], E: 1}, {Kind: pat[1], E: 2}}
		cs.Om = [][]outT{row, {{Kind: "ok"}, {Kind: "ok"}}}
		emit(cs, "resilient-multi-writer")
	}

	// 3b. the error VALUES a destination fails with.  "ErrorHandler is invoked exactly once for that
	// event with that error" holds for whatever value the destination returned: every kind of the
	// table (errvalues.go: opaque, the standard library's sentinels themselves, values wrapping
	// them, Timeout/Temporary answers, an Is-matches-everything error, an empty text), both the
	// sentinel form and the wrapped form of each, through every place a destination can sit, with
	// ErrorHandler set and with the stderr fallback, followed by clean events.
	errSweep := 0
	for id := 0; id < 2*len(errKinds); id++ {
		other := (id + 7) % (2 * len(errKinds)) // a second failing destination with another kind of value
		ok := outT{Kind: "ok"}
		bad := outT{Kind: "err", E: id}
		bad2 := outT{Kind: "err", E: other}
		short := outT{Kind: "short", N: 2}
		syncd := func(d destT) destT {
			return destT{Leaf: d.Leaf, Wraps: append([]wrapT{{Kind: "sync"}}, d.Wraps...)}
		}
		type shapeT struct {
			cfg cfgT
			om  [][]outT // four events: ok, failing, failing again, ok
		}
		shapes := []shapeT{
			// the only destination, no MultiLevelWriter
			{cfgT{Kind: "single", Wraps: []wrapT{}, Dests: []destT{P}}, [][]outT{{ok}, {bad}, {bad}, {ok}}},
			// between two healthy destinations
			{cfgT{Kind: "multi", Wraps: []wrapT{}, Dests: []destT{L, P, L}}, [][]outT{{ok, ok, ok}, {ok, bad, ok}, {ok, bad, ok}, {ok, ok, ok}}},
			// first of two failing destinations (the first wins), then behind a short write (the short write wins)
			{cfgT{Kind: "multi", Wraps: []wrapT{}, Dests: []destT{P, L}}, [][]outT{{ok, ok}, {bad, bad2}, {short, bad}, {ok, ok}}},
			// last destination, behind wrappers; the whole writer under a SyncWriter
			{cfgT{Kind: "multi", Wraps: []wrapT{{Kind: "sync"}}, Dests: []destT{L, syncd(F(0, "level")), {Leaf: "plain", Wraps: []wrapT{{Kind: "adapter"}}}}},
				[][]outT{{ok, ok, ok}, {ok, ok, bad}, {ok, bad2, bad}, {ok, ok, ok}}},
			// a single LevelWriter destination behind a filter
			{cfgT{Kind: "single", Wraps: []wrapT{}, Dests: []destT{F(1, "level")}}, [][]outT{{ok}, {bad}, {bad}, {ok}}},
		}
		for si, sh := range shapes {
			for _, handler := range []bool{true, false} {
				if !handler && !c.Thorough() && (id+si)%2 != 0 {
					continue // the stderr fallback: every value through half of the shapes
				}
				cs := &caseT{Cfg: sh.cfg, Om: sh.om}
				cs.Cfg.Handler = handler
				cs.Evs = []evT{{Level: 1, Msg: "before"}, {Level: 3, Msg: "fails", Key: "k", Val: "v"}, {Level: 2, Msg: "fails again"}, {Level: 1, Msg: "after"}}
				if (id+si)%5 == 0 {
					cs.Evs[2].Panic, cs.Evs[2].Level = true, int(zerolog.PanicLevel) // done still runs after the report
				}
				emit(cs, "error-values")
				errSweep++
				if handler || (id+si)%4 == 0 {
					// the same value when the failing events come in through other entry points (two of the eleven per
					// case, rotating, so that every kind of value meets every entry point over the sweep)
					cs2 := &caseT{Cfg: cs.Cfg, Om: sh.om}
					cs2.Evs = []evT{{Level: 1, Msg: "before"},
						withFin(evT{Level: 3, Msg: "fails", Key: "k", Val: "v"}, finalizers[(id+2*si)%len(finalizers)]),
						withFin(evT{Level: 2, Msg: "fails again"}, finalizers[(id+2*si+1+id/len(finalizers))%len(finalizers)]),
						{Level: 1, Msg: "after"}}
					if sh.cfg.Dests[0].Wraps != nil && len(sh.cfg.Dests[0].Wraps) > 0 && sh.cfg.Kind == "single" {
						// the filtered single destination (level >= info): keep the failing events at or above it
						for k := 1; k <= 2; k++ {
							if cs2.Evs[k].Level < 1 {
								cs2.Evs[k] = withFin(cs2.Evs[k], "msgf")
								cs2.Evs[k].Level = 2
							}
						}
					}
					emit(cs2, "error-values-entry-points")
					errSweep++
				}
			}
		}
	}
	c.Res.ExtraCoverage["error_value_kinds"] = len(errKinds)
	c.Res.ExtraCoverage["error_value_cases"] = errSweep

	// 3c. every entry point that ends in the write (Msg, Msgf, Send, MsgFunc, Log, Logger.Write, Print, Printf,
	// Println, Err) x {all ok, error, short write, error behind a short write} x {the only destination, the middle
	// one of three, behind SyncWriter + filter} x ErrorHandler / stderr: "the logging call still returns normally,
	// ErrorHandler is invoked exactly once for that event with that error, and subsequent events are complete" is
	// said of the logging call, whichever call it is.
	finSweep := 0
	for fi, f := range finalizers {
		for oi, kind := range []string{"ok", "err", "short", "short-then-err"} {
			for ci := 0; ci < 3; ci++ {
				for _, handler := range []bool{true, false} {
					ok := outT{Kind: "ok"}
					bad := outT{Kind: "err", E: (fi*7 + oi*3 + ci) % (2 * len(errKinds))}
					short := outT{Kind: "short", N: 1}
					var cfg cfgT
					var row []outT
					switch ci {
					case 0:
						cfg = cfgT{Kind: "single", Wraps: []wrapT{}, Dests: []destT{L}}
						row = []outT{map[string]outT{"ok": ok, "err": bad, "short": short, "short-then-err": bad}[kind]}
					case 1:
						cfg = cfgT{Kind: "multi", Wraps: []wrapT{}, Dests: []destT{P, L, P}}
						row = map[string][]outT{"ok": {ok, ok, ok}, "err": {ok, bad, ok}, "short": {ok, short, ok}, "short-then-err": {ok, short, bad}}[kind]
					default:
						cfg = cfgT{Kind: "multi", Wraps: []wrapT{{Kind: "sync"}}, Dests: []destT{F(0, "level"), {Leaf: "plain", Wraps: []wrapT{{Kind: "sync"}}}}}
						row = map[string][]outT{"ok": {ok, ok}, "err": {bad, ok}, "short": {short, ok}, "short-then-err": {short, bad}}[kind]
					}
					clean := make([]outT, len(row))
					for i := range clean {
						clean[i] = ok
					}
					cs := &caseT{Cfg: cfg, Om: [][]outT{row, row, clean}}
					cs.Cfg.Handler = handler
					g := finalizers[(fi+1+oi)%len(finalizers)]
					cs.Evs = []evT{withFin(evT{Level: 2, Msg: "first", Key: "k", Val: "v"}, f), withFin(evT{Level: 4, Msg: "second"}, g), {Level: 1, Msg: "after"}}
					emit(cs, "entry-points")
					finSweep++
				}
			}
		}
	}
	c.Res.ExtraCoverage["entry_point_cases"] = finSweep
	c.Res.ExtraCoverage["entry_points"] = finalizers

	// 4. seeded random
	nrand := 1500
	if c.Thorough() {
		nrand = 30000
	}
	for i := 0; i < nrand; i++ {
		emit(genCase(c.R.Fork()), "random")
	}

	// 5. filter levels assigned at run time.  FilteredLevelWriter is used by pointer and Level is an
	// exported field: "its level" is the value the field has when the event is written.  One writer
	// is constructed, used, then a filter's Level is assigned and the writer is used again; every
	// segment must behave like a writer constructed with the levels then in force.
	// Directed grid: every ordered pair (old level, new level) x six places a filter can sit
	// (every destination filtered - first / last / only destination; next to an unfiltered
	// destination under a SyncWriter; around the whole MultiLevelWriter; without MultiLevelWriter),
	// events at all eleven levels before and after the assignment.
	retune := 0
	allLevels := func(tag string, D int, failAt int) ([]evT, [][]outT) {
		var evs []evT
		var om [][]outT
		for k, lv := range c14levels {
			evs = append(evs, evT{Level: lv, Msg: fmt.Sprintf("%s%d", tag, k)})
			row := make([]outT, D)
			for i := range row {
				row[i] = outT{Kind: "ok"}
			}
			if k == failAt && D > 0 {
				row[k%D] = outT{Kind: "err", E: 7 + k}
			}
			om = append(om, row)
		}
		return evs, om
	}
	for ai, a := range c14levels {
		for bi, b := range c14levels {
			if a == b {
				continue
			}
			type variant struct {
				cfg cfgT
				rt  retuneT
			}
			vs := []variant{
				{cfgT{Kind: "multi", Handler: true, Wraps: []wrapT{}, Dests: []destT{F(a, "level"), F(127, "plain")}}, retuneT{0, 0, b}},
				{cfgT{Kind: "multi", Handler: true, Wraps: []wrapT{}, Dests: []destT{F(127, "level"), F(9, "level"), F(a, "plain")}}, retuneT{2, 0, b}},
				{cfgT{Kind: "multi", Handler: true, Wraps: []wrapT{}, Dests: []destT{F(a, "level")}}, retuneT{0, 0, b}},
				{cfgT{Kind: "multi", Handler: true, Wraps: []wrapT{}, Dests: []destT{{Leaf: "level", Wraps: []wrapT{{Kind: "sync"}, {Kind: "filtered", Min: a}}}, L}}, retuneT{0, 1, b}},
				{cfgT{Kind: "multi", Handler: true, Wraps: []wrapT{{Kind: "filtered", Min: a}}, Dests: []destT{L, P}}, retuneT{-1, 0, b}},
				{cfgT{Kind: "single", Handler: true, Wraps: []wrapT{}, Dests: []destT{F(a, "level")}}, retuneT{0, 0, b}},
			}
			for vi, v := range vs {
				if !c.Thorough() && vi >= 3 && (ai+bi+vi)%3 != 0 {
					continue // the three all-filtered shapes for every pair; the other places for a third of the pairs each
				}
				D := len(v.cfg.Dests)
				e0, o0 := allLevels("p", D, (ai+bi)%len(c14levels))
				e1, o1 := allLevels("q", D, (ai+2*bi+vi)%len(c14levels))
				h := &histT{Cfg: v.cfg, Segs: []segT{{Retunes: []retuneT{}, Evs: e0, Om: o0}, {Retunes: []retuneT{v.rt}, Evs: e1, Om: o1}}}
				if (ai+bi+vi)%4 == 0 { // and back again
					e2, o2 := allLevels("r", D, -1)
					back := v.rt
					back.Min = a
					h.Segs = append(h.Segs, segT{Retunes: []retuneT{back}, Evs: e2, Om: o2})
				}
				emitHistory(h, "retune-grid")
				retune++
			}
		}
	}
	nhist := 300
	if c.Thorough() {
		nhist = 5000
	}
	for i := 0; i < nhist; i++ {
		emitHistory(genHistory(c.R.Fork()), "retune-random")
		retune++
	}
	c.Res.ExtraCoverage["retune_histories"] = retune

	// 5b. derivations of writers (derive.go): MultiLevelWriter over results of earlier MultiLevelWriter calls -
	// extended once or several times, nested, several writers derived from the same one and all alive - every
	// destination recorded separately; each logging step is judged by the derivation monitor, by the general
	// monitors and by the model over the flattened destinations of its writer.
	derivSteps := 0
	emitDeriv := func(d *derivT, group string) {
		trs := runDeriv(d)
		for s, op := range d.Ops {
			if op.Op != "log" {
				continue
			}
			cs, obs, misrouted := derivStepCase(d, s, trs[s])
			monitorDerivStep(c, d, s, trs[s], cs, obs)
			failing := false
			if !misrouted {
				failing = monitorCase(c, cs, obs)
			}
			term := caseTerm(cs, obs)
			j := caseJSON(cs, obs)
			c.AddCase(term, j)
			c.Count(term, failing && len(cs.Cfg.Dests) >= 2)
			c.Hist("group", group)
			c.Hist("destinations", fmt.Sprint(len(cs.Cfg.Dests)))
			c.Hist("events", fmt.Sprint(len(cs.Evs)))
			derivSteps++
		}
		c.Hist("derivation_writers", fmt.Sprint(len(d.Nodes)))
	}
	grid5b := derivGrid()
	for _, d := range grid5b {
		emitDeriv(d, "derivation-grid")
	}
	nder := 100
	if c.Thorough() {
		nder = 3000
	}
	for i := 0; i < nder; i++ {
		emitDeriv(genDeriv(c.R.Fork()), "derivation-random")
	}
	// 5c. the same with caller-owned argument slices (derive.go, sliceGrid / viaCallerSlices): the writers are built
	// as MultiLevelWriter(s...) from a slice variable the caller goes on using - overwrites an element, sets it to nil,
	// appends, truncates and refills, builds the next writer from it - at every position of slices of 1..4 elements;
	// every writer keeps exactly the destinations it was built with.
	grid5c := sliceGrid()
	for _, d := range grid5c {
		emitDeriv(d, "derivation-caller-slice-grid")
	}
	nsl := 60
	if c.Thorough() {
		nsl = 2000
	}
	for i := 0; i < nsl; i++ {
		r := c.R.Fork()
		emitDeriv(viaCallerSlices(genDeriv(r), r), "derivation-caller-slice-random")
	}
	c.Res.ExtraCoverage["derivation_caller_slice_histories"] = len(grid5c) + nsl
	c.Res.ExtraCoverage["derivation_histories"] = len(grid5b) + nder
	c.Res.ExtraCoverage["derivation_logging_steps"] = derivSteps

	// 6. the event is recycled also when the write fails (allocation monitor)
	monitorRecycling(c)

	// 7. handler histories: the handler logs itself; handler calls overlap
	monitorHandlerHistories(c)
}
