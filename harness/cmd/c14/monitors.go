package main

// Monitors for C14: the property stated directly on what the implementation
// did, independent of the Coq model.

import (
	"bytes"
	"fmt"
	"io"
	"runtime"
	"runtime/debug"
	"sort"
	"sync"
	"sync/atomic"
	"time"

	"github.com/rs/zerolog"
	. "verifharness/hlib"
)

// reach says whether a call entering a wrapper chain with the given level
// information comes out at the bottom, and whether the level is still known.
// SyncWriter forwards; LevelWriterAdapter forgets the level; FilteredLevelWriter
// lets through "level or above" and, without a level (Write), everything.
func reach(ws []wrapT, hasLevel bool, lvl int) (bool, bool) {
	for _, w := range ws {
		switch w.Kind {
		case "adapter":
			hasLevel = false
		case "filtered":
			if hasLevel && lvl < w.Min {
				return false, hasLevel
			}
		}
	}
	return true, hasLevel
}

type expectT struct {
	reached  bool
	hasLevel bool
}

// expectation for (event, destination): is the destination's fake to be called, and with the level?
func expect(cfg cfgT, d int, lvl int) expectT {
	ok, hl := reach(cfg.Wraps, true, lvl)
	if !ok {
		return expectT{}
	}
	if cfg.Kind != "multi" && d != 0 {
		return expectT{}
	}
	ok, hl = reach(cfg.Dests[d].Wraps, hl, lvl)
	if !ok {
		return expectT{}
	}
	if cfg.Dests[d].Leaf == "plain" {
		hl = false
	}
	return expectT{true, hl}
}

// monitorCase checks one case; returns whether some reached destination failed.
func monitorCase(c *Ctx, cs *caseT, obs [][]actT) bool {
	anyFail := false
	viol := func(key, mon, desc string, k int, exp interface{}) {
		if cs.Hist != nil {
			desc += fmt.Sprintf(" [segment %d of a history: the writer was constructed with other filter levels and FilteredLevelWriter.Level was assigned afterwards; cfg shows the levels in force, history the construction and the assignments]", cs.Hist.Seg)
		}
		if cs.Der != nil {
			desc += fmt.Sprintf(" [step %d of a writer-derivation history: the writer is the result of MultiLevelWriter calls that took earlier MultiLevelWriter results as arguments; cfg shows the destinations it was built from, flattened, derivation the constructions and the history]", cs.Der.Step)
		}
		c.Violate(Violation{Key: key, Monitor: mon, Desc: desc, Case: caseJSON(cs, obs),
			Observed: map[string]interface{}{"event": k, "trace": obs[k]}, Expected: exp})
	}
	for k, e := range cs.Evs {
		tr := obs[k]
		lvl := e.Level
		if e.Panic {
			lvl = int(zerolog.PanicLevel)
		}
		// --- the logging call returns normally
		for _, a := range tr {
			if a.Kind == "panic" {
				viol("logging-call-panicked", "returns-normally", fmt.Sprintf("logging call %d panicked: %s", k, a.Err), k, nil)
			}
		}
		if lvl == int(zerolog.Disabled) {
			if len(tr) != 0 {
				viol("disabled-event-acted", "disabled-event", fmt.Sprintf("event %d at level Disabled produced actions", k), k, nil)
			}
			continue
		}
		if len(e.ref) == 0 || e.ref[len(e.ref)-1] != '\n' {
			viol("reference-event-empty", "reference", "the reference logger produced no line for this event", k, nil)
		}
		// --- every destination exactly once, in order, identical bytes and level
		nd := len(cs.Cfg.Dests)
		count := make([]int, nd)
		lastDest := -1
		reportSeen := false
		var wantErr string // "", "short", "dest:<id>"
		for i, a := range tr {
			if a.Kind == "handler" || a.Kind == "stderr" {
				reportSeen = true
				continue
			}
			if a.Kind != "call" {
				continue
			}
			_ = i
			if reportSeen {
				viol("destination-called-after-report", "order", fmt.Sprintf("event %d: destination %d was called after the error was reported", k, a.Dest), k, nil)
			}
			if a.Dest < lastDest {
				viol("destination-order", "order", fmt.Sprintf("event %d: destination %d called after destination %d", k, a.Dest, lastDest), k, nil)
			}
			lastDest = a.Dest
			count[a.Dest]++
			ex := expect(cs.Cfg, a.Dest, lvl)
			if !ex.reached {
				continue // counted below
			}
			if !bytes.Equal(a.Bytes, e.ref) {
				viol("destination-bytes-altered", "identical-bytes", fmt.Sprintf("event %d: destination %d received bytes that differ from the event", k, a.Dest), k, string(e.ref))
			}
			if ex.hasLevel {
				if a.Mode != "level" || a.Level != lvl {
					viol("destination-level-altered", "identical-level", fmt.Sprintf("event %d at level %d: destination %d (LevelWriter) was entered with mode %s level %d", k, lvl, a.Dest, a.Mode, a.Level), k, lvl)
				}
			} else if a.Mode != "write" {
				viol("destination-entry", "identical-level", fmt.Sprintf("event %d: destination %d sits behind an io.Writer but was entered through WriteLevel", k, a.Dest), k, nil)
			}
		}
		for d := 0; d < nd; d++ {
			ex := expect(cs.Cfg, d, lvl)
			want := 0
			if ex.reached {
				want = 1
			}
			filtered := false
			for _, w := range cs.Cfg.Dests[d].Wraps {
				if w.Kind == "filtered" {
					filtered = true
				}
			}
			switch {
			case count[d] == want:
			case count[d] < want && filtered:
				viol("filter-dropped-event-at-or-above-level", "filtered-exactly", fmt.Sprintf("event %d at level %d did not reach filtered destination %d although it is at or above its level", k, lvl, d), k, want)
			case count[d] < want:
				viol("destination-skipped", "every-destination-once", fmt.Sprintf("event %d did not reach destination %d (calls=%d)", k, d, count[d]), k, want)
			case want == 0 && filtered && (cs.Cfg.Kind == "multi" || d == 0):
				viol("filter-passed-event-below-level", "filtered-exactly", fmt.Sprintf("event %d at level %d reached filtered destination %d although it is below its level", k, lvl, d), k, want)
			default:
				viol("destination-called-more-than-once", "every-destination-once", fmt.Sprintf("event %d reached destination %d %d times, want %d", k, d, count[d], want), k, want)
			}
		}
		// --- the error: first failing reached destination wins; short write = io.ErrShortWrite
		// (without MultiLevelWriter only a returned error counts)
		if topOK, _ := reach(cs.Cfg.Wraps, true, lvl); topOK {
			for d := 0; d < nd && wantErr == ""; d++ {
				if !expect(cs.Cfg, d, lvl).reached {
					continue
				}
				o := outT{Kind: "ok"}
				if k < len(cs.Om) && d < len(cs.Om[k]) {
					o = cs.Om[k][d]
				}
				switch {
				case o.Kind == "err":
					wantErr = fmt.Sprintf("dest:%d", o.E)
				case o.Kind == "short" && o.N != len(e.ref) && cs.Cfg.Kind == "multi":
					wantErr = "short"
				}
			}
		}
		if wantErr != "" {
			anyFail = true
		}
		var reports []actT
		for _, a := range tr {
			if a.Kind == "handler" || a.Kind == "stderr" {
				reports = append(reports, a)
				if (a.Kind == "handler") != cs.Cfg.Handler {
					viol("report-wrong-channel", "handler-once", fmt.Sprintf("event %d: error reported through %s", k, a.Kind), k, nil)
				}
			}
		}
		switch {
		case wantErr == "" && len(reports) > 0:
			viol("handler-spurious", "handler-once", fmt.Sprintf("event %d: no reached destination failed but an error (%s) was reported", k, reports[0].Err), k, "no report")
		case wantErr != "" && len(reports) == 0:
			viol("handler-not-invoked", "handler-once", fmt.Sprintf("event %d: a destination failed (%s) but nothing was reported", k, wantErr), k, wantErr)
		case wantErr != "" && len(reports) > 1:
			viol("handler-invoked-more-than-once", "handler-once", fmt.Sprintf("event %d: %d reports for one event", k, len(reports)), k, wantErr)
		case wantErr != "" && reports[0].Err != wantErr:
			viol("handler-wrong-error", "first-failure-wins", fmt.Sprintf("event %d: reported %s, the first failing destination's error is %s", k, reports[0].Err, wantErr), k, wantErr)
		}
		// --- done (Logger.Panic) still runs, after the report
		if e.Panic {
			if len(tr) == 0 || tr[len(tr)-1].Kind != "done" {
				viol("done-not-run", "done-runs", fmt.Sprintf("event %d (Logger.Panic): the done callback did not run last", k), k, nil)
			}
		}
	}
	return anyFail
}

type countingWriter struct {
	n    int
	fail error
}

func (w *countingWriter) Write(p []byte) (int, error) {
	w.n++
	if w.fail != nil {
		return 0, w.fail
	}
	return len(p), nil
}

// monitorRecycling: "the event is still recycled": with a failing destination, the logging
// call must not allocate a fresh Event per call (an Event that is not returned to the pool
// costs at least two allocations on the next call).  GC is off during the measurement so
// that the pool is not emptied.
func monitorRecycling(c *Ctx) {
	handled := 0
	old := zerolog.ErrorHandler
	zerolog.ErrorHandler = func(error) { handled++ }
	defer func() { zerolog.ErrorHandler = old }()
	measure := func(fail error) (float64, int, int) {
		a, b, d := &countingWriter{}, &countingWriter{fail: fail}, &countingWriter{}
		l := zerolog.New(zerolog.MultiLevelWriter(a, b, d))
		for i := 0; i < 50; i++ {
			l.Info().Msg("warm")
		}
		handled = 0
		d.n = 0
		gc := debug.SetGCPercent(-1)
		var m0, m1 runtime.MemStats
		const N = 500
		runtime.ReadMemStats(&m0)
		for i := 0; i < N; i++ {
			l.Info().Str("k", "v").Msg("x")
		}
		runtime.ReadMemStats(&m1)
		debug.SetGCPercent(gc)
		return float64(m1.Mallocs-m0.Mallocs) / N, handled, d.n
	}
	okAllocs, _, _ := measure(nil)
	failAllocs, h, last := measure(io.ErrUnexpectedEOF)
	c.Res.ExtraCoverage["allocs_per_event_all_ok"] = okAllocs
	c.Res.ExtraCoverage["allocs_per_event_failing_destination"] = failAllocs
	if failAllocs >= 1 {
		c.Violate(Violation{Key: "event-not-recycled-after-write-error", Monitor: "recycled", Desc: fmt.Sprintf("with a failing destination every logging call allocates (%.2f allocations per event; %.2f without failure): the event is not returned to the pool", failAllocs, okAllocs),
			Case: map[string]interface{}{"destinations": 3, "failing": 1, "events": 500}, Observed: failAllocs, Expected: "< 1"})
	}
	if h != 500 || last != 500 {
		c.Violate(Violation{Key: "handler-count-over-many-events", Monitor: "handler-once", Desc: fmt.Sprintf("500 failing events: ErrorHandler ran %d times, the destination after the failing one was called %d times", h, last),
			Case: map[string]interface{}{"destinations": 3, "failing": 1, "events": 500}, Observed: []int{h, last}, Expected: []int{500, 500}})
	}
	// the same count for every kind of error value (errvalues.go), sentinel and wrapped form
	for id := 0; id < 2*len(errKinds); id++ {
		_, h, last := measure(errTab[id])
		if h != 500 || last != 500 {
			c.Violate(Violation{Key: "handler-count-over-many-events", Monitor: "handler-once", Desc: fmt.Sprintf("500 events, the middle destination of three fails every Write with %s (%T, text %q): ErrorHandler ran %d times, the destination after the failing one was called %d times", errKindName[id], errTab[id], errTab[id].Error(), h, last),
				Case: map[string]interface{}{"destinations": 3, "failing": 1, "events": 500, "error_value": errKindName[id], "error_text": errTab[id].Error()}, Observed: []int{h, last}, Expected: []int{500, 500}})
		}
	}
}

// ---------------------------------------------------------------- handler histories

type idFailWriter struct{ tag string }

func (w idFailWriter) Write(p []byte) (int, error) {
	// the error names the event: its "id" field value
	i := bytes.Index(p, []byte(`"id":"`))
	id := "?"
	if i >= 0 {
		rest := p[i+6:]
		if j := bytes.IndexByte(rest, '"'); j >= 0 {
			id = string(rest[:j])
		}
	}
	return 0, fmt.Errorf("verif-%s-fail:%s", w.tag, id)
}

type shortWriter struct{}

func (shortWriter) Write(p []byte) (int, error) { return len(p) / 2, nil }

type okWriter struct{ n int64 }

func (w *okWriter) Write(p []byte) (int, error) { atomic.AddInt64(&w.n, 1); return len(p), nil }

// monitorHandlerHistories: "ErrorHandler is invoked exactly once for that event with
// that error" over histories in which handler calls overlap: (a) the handler itself logs
// through a fallback logger whose writer fails too (sequential nesting, depth <= 3);
// (b) several goroutines log failing events at once while handler calls are in progress.
// The expected multiset of reports is exact on every schedule, so the monitor cannot
// raise a false alarm.
func monitorHandlerHistories(c *Ctx) {
	old := zerolog.ErrorHandler
	defer func() { zerolog.ErrorHandler = old }()

	// (a) nested
	nestedCases := 0
	for depth := 1; depth <= 3; depth++ {
		for _, innerKind := range []string{"err", "short", "multi-short"} {
			for rep := 0; rep < 3; rep++ {
				var got []string
				tail := &okWriter{}
				loggers := make([]zerolog.Logger, depth+1)
				loggers[0] = zerolog.New(zerolog.MultiLevelWriter(&okWriter{}, idFailWriter{"L0"}, tail))
				for d := 1; d <= depth; d++ {
					switch innerKind {
					case "err":
						loggers[d] = zerolog.New(idFailWriter{fmt.Sprintf("L%d", d)})
					case "short":
						loggers[d] = zerolog.New(zerolog.MultiLevelWriter(shortWriter{}))
					default:
						loggers[d] = zerolog.New(zerolog.MultiLevelWriter(&okWriter{}, shortWriter{}, tail))
					}
				}
				cur := 0
				zerolog.ErrorHandler = func(err error) {
					got = append(got, fmt.Sprintf("d%d:%v", cur, err))
					if cur < depth {
						cur++
						loggers[cur].Error().Str("id", fmt.Sprintf("n%d", cur)).Msg("forwarded")
						cur--
					}
				}
				var want []string
				nev := 1 + rep
				for k := 0; k < nev; k++ {
					loggers[0].Info().Str("id", fmt.Sprintf("e%d", k)).Msg("m")
					want = append(want, fmt.Sprintf("d0:verif-L0-fail:e%d", k))
					for d := 1; d <= depth; d++ {
						if innerKind == "err" {
							want = append(want, fmt.Sprintf("d%d:verif-L%d-fail:n%d", d, d, d))
						} else {
							want = append(want, fmt.Sprintf("d%d:%v", d, io.ErrShortWrite))
						}
					}
				}
				nestedCases++
				if fmt.Sprint(got) != fmt.Sprint(want) {
					c.Violate(Violation{Key: "handler-not-once-when-handler-logs", Monitor: "handler-once",
						Desc: fmt.Sprintf("ErrorHandler forwards each failure to a fallback logger whose writer fails as well (nesting depth %d, fallback failure %s): every failing event, nested ones included, must be reported exactly once with its own error", depth, innerKind),
						Case: map[string]interface{}{"depth": depth, "fallback": innerKind, "events": nev}, Observed: got, Expected: want})
				}
			}
		}
	}
	c.Res.ExtraCoverage["handler_nested_cases"] = nestedCases

	// (b) concurrent
	concCases := 0
	for _, G := range []int{2, 4, 8} {
		for _, shared := range []bool{true, false} {
			const N = 40
			var mu sync.Mutex
			got := map[string]int{}
			var inflight, maxInflight int32
			zerolog.ErrorHandler = func(err error) {
				n := atomic.AddInt32(&inflight, 1)
				for {
					m := atomic.LoadInt32(&maxInflight)
					if n <= m || atomic.CompareAndSwapInt32(&maxInflight, m, n) {
						break
					}
				}
				time.Sleep(100 * time.Microsecond)
				mu.Lock()
				got[err.Error()]++
				mu.Unlock()
				atomic.AddInt32(&inflight, -1)
			}
			tail := &okWriter{}
			sharedL := zerolog.New(zerolog.MultiLevelWriter(idFailWriter{"C"}, tail))
			var wg sync.WaitGroup
			for g := 0; g < G; g++ {
				wg.Add(1)
				go func(g int) {
					defer wg.Done()
					l := sharedL
					if !shared {
						l = zerolog.New(zerolog.MultiLevelWriter(idFailWriter{"C"}, tail))
					}
					for k := 0; k < N; k++ {
						l.Warn().Str("id", fmt.Sprintf("g%dk%d", g, k)).Msg("x")
					}
				}(g)
			}
			wg.Wait()
			concCases++
			var missing, dup []string
			for g := 0; g < G; g++ {
				for k := 0; k < N; k++ {
					key := fmt.Sprintf("verif-C-fail:g%dk%d", g, k)
					switch n := got[key]; {
					case n == 0:
						missing = append(missing, key)
					case n > 1:
						dup = append(dup, key)
					}
					delete(got, key)
				}
			}
			var extra []string
			for k := range got {
				extra = append(extra, k)
			}
			sort.Strings(extra)
			c.Hist("handler_max_overlap", fmt.Sprint(atomic.LoadInt32(&maxInflight)))
			if len(missing)+len(dup)+len(extra) > 0 || int(atomic.LoadInt64(&tail.n)) != G*N {
				lim := func(s []string) []string {
					if len(s) > 5 {
						return s[:5]
					}
					return s
				}
				c.Violate(Violation{Key: "handler-not-once-under-concurrent-failures", Monitor: "handler-once",
					Desc:     fmt.Sprintf("%d goroutines x %d failing events (shared logger: %v), handler takes 100us: %d events never reported, %d reported more than once, %d unknown reports; destination after the failing one saw %d of %d events", G, N, shared, len(missing), len(dup), len(extra), atomic.LoadInt64(&tail.n), G*N),
					Case:     map[string]interface{}{"goroutines": G, "events_each": N, "shared_logger": shared},
					Observed: map[string]interface{}{"missing": lim(missing), "duplicated": lim(dup), "extra": lim(extra)}, Expected: "every event reported exactly once"})
			}
		}
	}
	c.Res.ExtraCoverage["handler_concurrent_cases"] = concCases
}
