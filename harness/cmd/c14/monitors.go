package main

// Monitors for C14: the property stated directly on what the implementation
// did, independent of the Coq model.

import (
	"bytes"
	"fmt"
	"io"
	"runtime"
	"runtime/debug"

	"github.com/rs/zerolog"
	. "verifharness/hlib"
)

// reach says whether a call entering a wrapper chain with the given level
// information comes out at the bottom, and whether the level is still known.
// SyncWriter forwards; LevelWriterAdapter forgets the level; FilteredLevelWriter
// lets through "level or above" and, without a level (Write), everything.
func reach(ws []wrapT, hasLevel bool, lvl int) (bool, bool) {
	for _, w := range ws {
		switch w.Kind {
		case "adapter":
			hasLevel = false
		case "filtered":
			if hasLevel && lvl < w.Min {
				return false, hasLevel
			}
		}
	}
	return true, hasLevel
}

type expectT struct {
	reached  bool
	hasLevel bool
}

// expectation for (event, destination): is the destination's fake to be called, and with the level?
func expect(cfg cfgT, d int, lvl int) expectT {
	ok, hl := reach(cfg.Wraps, true, lvl)
	if !ok {
		return expectT{}
	}
	if cfg.Kind != "multi" && d != 0 {
		return expectT{}
	}
	ok, hl = reach(cfg.Dests[d].Wraps, hl, lvl)
	if !ok {
		return expectT{}
	}
	if cfg.Dests[d].Leaf == "plain" {
		hl = false
	}
	return expectT{true, hl}
}

// monitorCase checks one case; returns whether some reached destination failed.
func monitorCase(c *Ctx, cs *caseT, obs [][]actT) bool {
	anyFail := false
	viol := func(key, mon, desc string, k int, exp interface{}) {
		c.Violate(Violation{Key: key, Monitor: mon, Desc: desc, Case: caseJSON(cs, obs),
			Observed: map[string]interface{}{"event": k, "trace": obs[k]}, Expected: exp})
	}
	for k, e := range cs.Evs {
		tr := obs[k]
		lvl := e.Level
		if e.Panic {
			lvl = int(zerolog.PanicLevel)
		}
		// --- the logging call returns normally
		for _, a := range tr {
			if a.Kind == "panic" {
				viol("logging-call-panicked", "returns-normally", fmt.Sprintf("logging call %d panicked: %s", k, a.Err), k, nil)
			}
		}
		if lvl == int(zerolog.Disabled) {
			if len(tr) != 0 {
				viol("disabled-event-acted", "disabled-event", fmt.Sprintf("event %d at level Disabled produced actions", k), k, nil)
			}
			continue
		}
		if len(e.ref) == 0 || e.ref[len(e.ref)-1] != '\n' {
			viol("reference-event-empty", "reference", "the reference logger produced no line for this event", k, nil)
		}
		// --- every destination exactly once, in order, identical bytes and level
		nd := len(cs.Cfg.Dests)
		count := make([]int, nd)
		lastDest := -1
		reportSeen := false
		var wantErr string // "", "short", "dest:<id>"
		for i, a := range tr {
			if a.Kind == "handler" || a.Kind == "stderr" {
				reportSeen = true
				continue
			}
			if a.Kind != "call" {
				continue
			}
			_ = i
			if reportSeen {
				viol("destination-called-after-report", "order", fmt.Sprintf("event %d: destination %d was called after the error was reported", k, a.Dest), k, nil)
			}
			if a.Dest < lastDest {
				viol("destination-order", "order", fmt.Sprintf("event %d: destination %d called after destination %d", k, a.Dest, lastDest), k, nil)
			}
			lastDest = a.Dest
			count[a.Dest]++
			ex := expect(cs.Cfg, a.Dest, lvl)
			if !ex.reached {
				continue // counted below
			}
			if !bytes.Equal(a.Bytes, e.ref) {
				viol("destination-bytes-altered", "identical-bytes", fmt.Sprintf("event %d: destination %d received bytes that differ from the event", k, a.Dest), k, string(e.ref))
			}
			if ex.hasLevel {
				if a.Mode != "level" || a.Level != lvl {
					viol("destination-level-altered", "identical-level", fmt.Sprintf("event %d at level %d: destination %d (LevelWriter) was entered with mode %s level %d", k, lvl, a.Dest, a.Mode, a.Level), k, lvl)
				}
			} else if a.Mode != "write" {
				viol("destination-entry", "identical-level", fmt.Sprintf("event %d: destination %d sits behind an io.Writer but was entered through WriteLevel", k, a.Dest), k, nil)
			}
		}
		for d := 0; d < nd; d++ {
			ex := expect(cs.Cfg, d, lvl)
			want := 0
			if ex.reached {
				want = 1
			}
			filtered := false
			for _, w := range cs.Cfg.Dests[d].Wraps {
				if w.Kind == "filtered" {
					filtered = true
				}
			}
			switch {
			case count[d] == want:
			case count[d] < want && filtered:
				viol("filter-dropped-event-at-or-above-level", "filtered-exactly", fmt.Sprintf("event %d at level %d did not reach filtered destination %d although it is at or above its level", k, lvl, d), k, want)
			case count[d] < want:
				viol("destination-skipped", "every-destination-once", fmt.Sprintf("event %d did not reach destination %d (calls=%d)", k, d, count[d]), k, want)
			case want == 0 && filtered && (cs.Cfg.Kind == "multi" || d == 0):
				viol("filter-passed-event-below-level", "filtered-exactly", fmt.Sprintf("event %d at level %d reached filtered destination %d although it is below its level", k, lvl, d), k, want)
			default:
				viol("destination-called-more-than-once", "every-destination-once", fmt.Sprintf("event %d reached destination %d %d times, want %d", k, d, count[d], want), k, want)
			}
		}
		// --- the error: first failing reached destination wins; short write = io.ErrShortWrite
		// (without MultiLevelWriter only a returned error counts)
		if topOK, _ := reach(cs.Cfg.Wraps, true, lvl); topOK {
			for d := 0; d < nd && wantErr == ""; d++ {
				if !expect(cs.Cfg, d, lvl).reached {
					continue
				}
				o := outT{Kind: "ok"}
				if k < len(cs.Om) && d < len(cs.Om[k]) {
					o = cs.Om[k][d]
				}
				switch {
				case o.Kind == "err":
					wantErr = fmt.Sprintf("dest:%d", o.E)
				case o.Kind == "short" && o.N != len(e.ref) && cs.Cfg.Kind == "multi":
					wantErr = "short"
				}
			}
		}
		if wantErr != "" {
			anyFail = true
		}
		var reports []actT
		for _, a := range tr {
			if a.Kind == "handler" || a.Kind == "stderr" {
				reports = append(reports, a)
				if (a.Kind == "handler") != cs.Cfg.Handler {
					viol("report-wrong-channel", "handler-once", fmt.Sprintf("event %d: error reported through %s", k, a.Kind), k, nil)
				}
			}
		}
		switch {
		case wantErr == "" && len(reports) > 0:
			viol("handler-spurious", "handler-once", fmt.Sprintf("event %d: no reached destination failed but an error (%s) was reported", k, reports[0].Err), k, "no report")
		case wantErr != "" && len(reports) == 0:
			viol("handler-not-invoked", "handler-once", fmt.Sprintf("event %d: a destination failed (%s) but nothing was reported", k, wantErr), k, wantErr)
		case wantErr != "" && len(reports) > 1:
			viol("handler-invoked-more-than-once", "handler-once", fmt.Sprintf("event %d: %d reports for one event", k, len(reports)), k, wantErr)
		case wantErr != "" && reports[0].Err != wantErr:
			viol("handler-wrong-error", "first-failure-wins", fmt.Sprintf("event %d: reported %s, the first failing destination's error is %s", k, reports[0].Err, wantErr), k, wantErr)
		}
		// --- done (Logger.Panic) still runs, after the report
		if e.Panic {
			if len(tr) == 0 || tr[len(tr)-1].Kind != "done" {
				viol("done-not-run", "done-runs", fmt.Sprintf("event %d (Logger.Panic): the done callback did not run last", k), k, nil)
			}
		}
	}
	return anyFail
}

type countingWriter struct {
	n    int
	fail error
}

func (w *countingWriter) Write(p []byte) (int, error) {
	w.n++
	if w.fail != nil {
		return 0, w.fail
	}
	return len(p), nil
}

// monitorRecycling: "the event is still recycled": with a failing destination, the logging
// call must not allocate a fresh Event per call (an Event that is not returned to the pool
// costs at least two allocations on the next call).  GC is off during the measurement so
// that the pool is not emptied.
func monitorRecycling(c *Ctx) {
	handled := 0
	old := zerolog.ErrorHandler
	zerolog.ErrorHandler = func(error) { handled++ }
	defer func() { zerolog.ErrorHandler = old }()
	measure := func(fail error) (float64, int, int) {
		a, b, d := &countingWriter{}, &countingWriter{fail: fail}, &countingWriter{}
		l := zerolog.New(zerolog.MultiLevelWriter(a, b, d))
		for i := 0; i < 50; i++ {
			l.Info().Msg("warm")
		}
		handled = 0
		d.n = 0
		gc := debug.SetGCPercent(-1)
		var m0, m1 runtime.MemStats
		const N = 500
		runtime.ReadMemStats(&m0)
		for i := 0; i < N; i++ {
			l.Info().Str("k", "v").Msg("x")
		}
		runtime.ReadMemStats(&m1)
		debug.SetGCPercent(gc)
		return float64(m1.Mallocs-m0.Mallocs) / N, handled, d.n
	}
	okAllocs, _, _ := measure(nil)
	failAllocs, h, last := measure(io.ErrUnexpectedEOF)
	c.Res.ExtraCoverage["allocs_per_event_all_ok"] = okAllocs
	c.Res.ExtraCoverage["allocs_per_event_failing_destination"] = failAllocs
	if failAllocs >= 1 {
		c.Violate(Violation{Key: "event-not-recycled-after-write-error", Monitor: "recycled", Desc: fmt.Sprintf("with a failing destination every logging call allocates (%.2f allocations per event; %.2f without failure): the event is not returned to the pool", failAllocs, okAllocs),
			Case: map[string]interface{}{"destinations": 3, "failing": 1, "events": 500}, Observed: failAllocs, Expected: "< 1"})
	}
	if h != 500 || last != 500 {
		c.Violate(Violation{Key: "handler-count-over-many-events", Monitor: "handler-once", Desc: fmt.Sprintf("500 failing events: ErrorHandler ran %d times, the destination after the failing one was called %d times", h, last),
			Case: map[string]interface{}{"destinations": 3, "failing": 1, "events": 500}, Observed: []int{h, last}, Expected: []int{500, 500}})
	}
}
