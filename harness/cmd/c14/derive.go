package main

// C14 over derivations of writers.
//
// "With MultiLevelWriter every destination receives every event exactly once, in order, with
// identical bytes and level": the statement is about every writer MultiLevelWriter returns, also
// one whose arguments are themselves results of earlier MultiLevelWriter calls (a service-wide
// fan-out extended by a per-request destination, twice, for two requests; a nested fan-out; a
// fan-out extended several times), and also while the writers it was derived from and the other
// writers derived from those stay alive and are logged through.  The destinations of such a writer
// are the destinations of its arguments, in argument order (a nested writer forwards every event to
// each of its own destinations once).
//
// A derivation is: destinations 0..L-1 (fakes, each behind its own wrapper chain, each recorded
// separately); writers 0..N-1, writer i = MultiLevelWriter(args...) with every argument either a
// destination or an earlier writer (optionally behind SyncWriter / FilteredLevelWriter); a history
// of steps "build writer i" / "log these events through writer j", every writer built staying in
// use.  No destination occurs twice among the destinations of one writer (what "exactly once" means
// for a destination passed twice is not something the statement settles).
//
// Monitor (monitorDerivStep, on the calls of the separately recorded destinations): an event logged
// through writer j reaches exactly the destinations writer j was built from (those its filters let
// it through to), once each, and no other destination of the derivation.  Each logging step is then
// also handed to the general C14 monitors and to the Coq model as a case over the flattened
// destination list of its writer (flattening is Go-side: the model has one level of fan-out, and a
// nested multiLevelWriter is, in calls and in the reported error, its destinations in place:
// every destination is called whatever the others returned, the first failing one in call order
// determines the error, a short write inside surfaces as io.ErrShortWrite outside).

import (
	"fmt"
	"io"

	"github.com/rs/zerolog"
	. "verifharness/hlib"
)

type dargT struct {
	Node  int     `json:"writer"`      // >= 0: the result of that earlier MultiLevelWriter call; -1: a destination
	Leaf  int     `json:"destination"` // when writer == -1
	Wraps []wrapT `json:"wraps"`       // around this argument, outermost first (sync | filtered); writers only
}

type dnodeT struct {
	Args []dargT `json:"args"`
}

type dopT struct {
	Op   string   `json:"op"` // build | log
	Node int      `json:"writer"`
	Evs  []evT    `json:"events,omitempty"`
	Om   [][]outT `json:"outcomes,omitempty"` // [event][destination of the derivation]
}

type derivT struct {
	Leaves  []destT  `json:"destinations"`
	Nodes   []dnodeT `json:"writers"` // writers[i] = zerolog.MultiLevelWriter(args...)
	Ops     []dopT   `json:"history"`
	Handler bool     `json:"handler"`
	Step    int      `json:"this_case_is_history_step"`
	FlatOf  []int    `json:"derivation_destination_of_cfg_destination,omitempty"`
}

type flatT struct {
	leaf  int
	wraps []wrapT // the wrappers met on the way down, outermost first (without the destination's own chain)
}

func (d *derivT) flatten(node int, outer []wrapT) []flatT {
	var out []flatT
	for _, a := range d.Nodes[node].Args {
		ws := append(append([]wrapT{}, outer...), a.Wraps...)
		if a.Node >= 0 {
			out = append(out, d.flatten(a.Node, ws)...)
		} else {
			out = append(out, flatT{a.Leaf, ws})
		}
	}
	return out
}

func (d *derivT) leafSet(node int) map[int]bool {
	m := map[int]bool{}
	for _, f := range d.flatten(node, nil) {
		m[f.leaf] = true
	}
	return m
}

// flatCfg: the one-level configuration with the destinations of writer `node`
func (d *derivT) flatCfg(node int) (cfgT, []int) {
	cfg := cfgT{Kind: "multi", Wraps: []wrapT{}, Dests: []destT{}, Handler: d.Handler}
	var leaves []int
	for _, f := range d.flatten(node, nil) {
		lf := d.Leaves[f.leaf]
		cfg.Dests = append(cfg.Dests, destT{Leaf: lf.Leaf, Wraps: append(append([]wrapT{}, f.wraps...), lf.Wraps...)})
		leaves = append(leaves, f.leaf)
	}
	return cfg, leaves
}

// runDeriv executes the history on the real code; returns, per history step, the per-event traces
// (nil for build steps).  Destination ids in the traces are those of the derivation.
func runDeriv(d *derivT) [][][]actT {
	rt := &runtimeT{}
	leaves := make([]io.Writer, len(d.Leaves))
	for i, lf := range d.Leaves {
		var fake io.Writer
		if lf.Leaf == "plain" {
			fake = &fakePlain{i, rt}
		} else {
			fake = &fakeLevel{i, rt}
		}
		leaves[i] = wrapChain(lf.Wraps, fake, false, i, nil)
	}
	writers := make([]io.Writer, len(d.Nodes))
	loggers := make([]zerolog.Logger, len(d.Nodes))
	defer installReports(rt, d.Handler)()
	out := make([][][]actT, len(d.Ops))
	for s := range d.Ops {
		op := &d.Ops[s]
		switch op.Op {
		case "build":
			var args []io.Writer
			for _, a := range d.Nodes[op.Node].Args {
				if a.Node >= 0 {
					args = append(args, wrapChain(a.Wraps, writers[a.Node], false, -1, nil))
				} else {
					args = append(args, leaves[a.Leaf])
				}
			}
			writers[op.Node] = zerolog.MultiLevelWriter(args...)
			loggers[op.Node] = zerolog.New(writers[op.Node]).Level(zerolog.Level(-128))
		case "log":
			for i := range op.Evs {
				op.Evs[i].ref = refBytes(op.Evs[i])
			}
			rt.om = op.Om
			trs := make([][]actT, len(op.Evs))
			for k, e := range op.Evs {
				rt.k = k
				trs[k] = logEvent(rt, &loggers[op.Node], e, d.Handler)
			}
			out[s] = trs
		}
	}
	return out
}

// derivStepCase cuts history step s (a log step) into a case over the flattened destinations of its
// writer: outcome columns and observed calls are renumbered to cfg positions; a call on a destination
// the writer was not built from gets an index beyond the cfg's destinations.  misrouted reports
// whether there was such a call.
func derivStepCase(d *derivT, s int, trs [][]actT) (cs *caseT, obs [][]actT, misrouted bool) {
	op := d.Ops[s]
	cfg, flatLeaves := d.flatCfg(op.Node)
	dd := *d
	dd.Step = s
	dd.FlatOf = flatLeaves
	cs = &caseT{Cfg: cfg, Evs: op.Evs, Der: &dd}
	for k := range op.Evs {
		row := make([]outT, len(flatLeaves))
		for p, g := range flatLeaves {
			row[p] = outT{Kind: "ok"}
			if k < len(op.Om) && g < len(op.Om[k]) {
				row[p] = op.Om[k][g]
			}
		}
		cs.Om = append(cs.Om, row)
	}
	pos := map[int]int{}
	for p, g := range flatLeaves {
		pos[g] = p
	}
	obs = make([][]actT, len(trs))
	for k, tr := range trs {
		for _, a := range tr {
			if a.Kind == "call" {
				if p, ok := pos[a.Dest]; ok {
					a.Dest = p
				} else {
					a.Dest = len(flatLeaves) + a.Dest
					misrouted = true
				}
			}
			obs[k] = append(obs[k], a)
		}
	}
	return
}

// monitorDerivStep: events logged through writer j reach exactly the destinations writer j was built from.
func monitorDerivStep(c *Ctx, d *derivT, s int, trs [][]actT, cs *caseT, obs [][]actT) {
	op := d.Ops[s]
	_, flatLeaves := d.flatCfg(op.Node)
	mine := map[int]int{} // derivation destination -> cfg position
	for p, g := range flatLeaves {
		mine[g] = p
	}
	for k, e := range op.Evs {
		lvl := e.Level
		if e.Panic {
			lvl = int(zerolog.PanicLevel)
		}
		if lvl == int(zerolog.Disabled) {
			continue // the nil event: judged by the general monitor
		}
		calls := map[int]int{}
		for _, a := range trs[k] {
			if a.Kind == "call" {
				calls[a.Dest]++
			}
		}
		for g := range d.Leaves {
			p, isMine := mine[g]
			switch {
			case !isMine && calls[g] > 0:
				c.Violate(Violation{Key: "derived-writer-event-reached-foreign-destination", Monitor: "derivation every-destination-once",
					Desc: fmt.Sprintf("history step %d, event %d logged through writer %d: destination %d received it (%d call(s)), but writer %d was not built from destination %d (its destinations, in order: %v)",
						s, k, op.Node, g, calls[g], op.Node, g, flatLeaves),
					Case: caseJSON(cs, obs), Observed: map[string]interface{}{"event": k, "calls_per_destination_of_the_derivation": fmt.Sprint(calls)},
					Expected: "an event reaches the destinations of the writer it was logged through and no other"})
				return
			case isMine && expect(cs.Cfg, p, lvl).reached && calls[g] == 0:
				c.Violate(Violation{Key: "derived-writer-destination-missed", Monitor: "derivation every-destination-once",
					Desc: fmt.Sprintf("history step %d, event %d logged through writer %d: destination %d, which writer %d was built from (its destinations, in order: %v), did not receive it",
						s, k, op.Node, g, op.Node, flatLeaves),
					Case: caseJSON(cs, obs), Observed: map[string]interface{}{"event": k, "calls_per_destination_of_the_derivation": fmt.Sprint(calls)},
					Expected: "every destination of the writer receives the event once"})
				return
			}
		}
	}
}

// ---------------------------------------------------------------- generation

func okRow(n int) []outT {
	row := make([]outT, n)
	for i := range row {
		row[i] = outT{Kind: "ok"}
	}
	return row
}

// derivLeaf: destination kinds rotate (LevelWriter, io.Writer only, behind SyncWriter, behind a filter at warn)
func derivLeaf(i int) destT {
	switch i % 5 {
	case 1:
		return destT{Leaf: "plain", Wraps: []wrapT{}}
	case 2:
		return destT{Leaf: "level", Wraps: []wrapT{{Kind: "sync"}}}
	case 3:
		return destT{Leaf: "level", Wraps: []wrapT{{Kind: "filtered", Min: 2}}}
	}
	return destT{Leaf: "level", Wraps: []wrapT{}}
}

// logOp: two events through writer `node`: the first (info) with one destination of the derivation failing
// (error value / short write, rotating), the second (warn) clean
func (d *derivT) logOp(node, salt int) dopT {
	L := len(d.Leaves)
	row := okRow(L)
	if L > 0 {
		g := salt % L
		if salt%3 == 0 {
			row[g] = outT{Kind: "short", N: 2}
		} else if salt%3 == 1 {
			row[g] = outT{Kind: "err", E: 1 + salt%200}
		}
	}
	return dopT{Op: "log", Node: node,
		Evs: []evT{{Level: 1, Msg: fmt.Sprintf("through writer %d", node), Key: "w", Val: fmt.Sprint(node)}, {Level: 2, Msg: fmt.Sprintf("again through writer %d", node)}},
		Om:  [][]outT{row, okRow(L)}}
}

// history: variant 0 = build every writer, then log through each, oldest first; 1 = build all, log through each,
// newest first; 2 = log through every writer as soon as it is built, and through all of them again at the end
func (d *derivT) history(variant, salt int) {
	n := len(d.Nodes)
	for i := 0; i < n; i++ {
		d.Ops = append(d.Ops, dopT{Op: "build", Node: i})
		if variant == 2 {
			d.Ops = append(d.Ops, d.logOp(i, salt+i))
		}
	}
	for i := 0; i < n; i++ {
		j := i
		if variant == 1 {
			j = n - 1 - i
		}
		d.Ops = append(d.Ops, d.logOp(j, salt+3*j+1))
	}
}

// derivGrid: base fan-out of 1..4 destinations; extended 0..2 times in a chain, each time by 1 or 2 destinations;
// then 2 or 3 sibling writers derived from the end of the chain by one destination each, and (when the chain is
// not empty) one more writer derived from the base, so that writers at two levels have several children alive at
// once; the earlier writer is the first / the last / the middle argument.
func derivGrid() []*derivT {
	var out []*derivT
	idx := 0
	for base := 1; base <= 4; base++ {
		for depth := 0; depth <= 2; depth++ {
			for ext := 1; ext <= 2; ext++ {
				if depth == 0 && ext == 2 {
					continue
				}
				for _, pos := range []string{"first", "last", "middle"} {
					idx++
					d := &derivT{Handler: idx%4 != 0}
					leaf := func() dargT {
						d.Leaves = append(d.Leaves, derivLeaf(len(d.Leaves)+idx))
						return dargT{Node: -1, Leaf: len(d.Leaves) - 1, Wraps: []wrapT{}}
					}
					derive := func(parent, fresh int) int {
						par := dargT{Node: parent, Wraps: []wrapT{}}
						var args []dargT
						switch pos {
						case "first":
							args = append(args, par)
							for i := 0; i < fresh; i++ {
								args = append(args, leaf())
							}
						case "last":
							for i := 0; i < fresh; i++ {
								args = append(args, leaf())
							}
							args = append(args, par)
						default:
							args = append(args, leaf(), par)
							for i := 0; i < fresh; i++ {
								args = append(args, leaf())
							}
						}
						d.Nodes = append(d.Nodes, dnodeT{Args: args})
						return len(d.Nodes) - 1
					}
					var b []dargT
					for i := 0; i < base; i++ {
						b = append(b, leaf())
					}
					d.Nodes = append(d.Nodes, dnodeT{Args: b})
					tip := 0
					for i := 0; i < depth; i++ {
						tip = derive(tip, ext)
					}
					for i := 0; i < 2+idx%2; i++ {
						derive(tip, 1)
					}
					if depth > 0 {
						derive(0, 1)
					}
					d.history(idx%3, idx)
					out = append(out, d)
				}
			}
		}
	}
	return out
}

// genDeriv: a seeded random derivation: 2-7 writers over fresh destinations and earlier writers (an earlier writer
// often as the first argument; sometimes behind SyncWriter or a FilteredLevelWriter), destinations with random
// chains, a random history in which every writer is logged through at least once after the last build.
func genDeriv(r *Rng) *derivT {
	d := &derivT{Handler: !r.Chance(15)}
	newLeaf := func() int {
		lf := destT{Leaf: "level", Wraps: genWraps(r, 2, true)}
		if r.Chance(40) {
			lf.Leaf = "plain"
		}
		d.Leaves = append(d.Leaves, lf)
		return len(d.Leaves) - 1
	}
	n := 2 + r.Intn(6)
	for i := 0; i < n; i++ {
		var args []dargT
		used := map[int]bool{}
		nargs := 1 + r.Intn(3)
		for a := 0; a < nargs; a++ {
			if i > 0 && (a == 0 && r.Chance(70) || a > 0 && r.Chance(25)) {
				// an earlier writer whose destinations do not overlap what this writer already has
				j := r.Intn(i)
				if r.Chance(50) {
					j = i - 1 - r.Intn(imin(i, 2)) // often a recent one: chains
				}
				ls := d.leafSet(j)
				clash := false
				for g := range ls {
					if used[g] {
						clash = true
					}
				}
				if !clash {
					for g := range ls {
						used[g] = true
					}
					arg := dargT{Node: j, Wraps: []wrapT{}}
					if r.Chance(12) {
						arg.Wraps = []wrapT{{Kind: "sync"}}
					} else if r.Chance(10) {
						arg.Wraps = []wrapT{{Kind: "filtered", Min: c14levels[r.Intn(len(c14levels))]}}
					}
					args = append(args, arg)
					continue
				}
			}
			g := newLeaf()
			used[g] = true
			args = append(args, dargT{Node: -1, Leaf: g, Wraps: []wrapT{}})
		}
		if r.Chance(30) { // the earlier writer not in front
			k := r.Intn(len(args))
			args[0], args[k] = args[k], args[0]
		}
		d.Nodes = append(d.Nodes, dnodeT{Args: args})
	}
	L := len(d.Leaves)
	logOp := func(j int) dopT {
		more := genCase(r)
		op := dopT{Op: "log", Node: j}
		for k, e := range more.Evs {
			if k >= 3 {
				break
			}
			op.Evs = append(op.Evs, e)
			row := okRow(L)
			if !r.Chance(40) {
				for g := range row {
					switch r.Intn(12) {
					case 0, 1:
						row[g] = outT{Kind: "err", E: r.Intn(maxErr)}
					case 2:
						row[g] = outT{Kind: "short", N: r.Intn(20)}
					}
				}
			}
			op.Om = append(op.Om, row)
		}
		return op
	}
	for i := 0; i < n; i++ {
		d.Ops = append(d.Ops, dopT{Op: "build", Node: i})
		if r.Chance(35) {
			d.Ops = append(d.Ops, logOp(r.Intn(i+1)))
		}
	}
	perm := make([]int, n)
	for i := range perm {
		perm[i] = i
	}
	for i := n - 1; i > 0; i-- {
		j := r.Intn(i + 1)
		perm[i], perm[j] = perm[j], perm[i]
	}
	for _, j := range perm {
		d.Ops = append(d.Ops, logOp(j))
	}
	return d
}

func imin(a, b int) int {
	if a < b {
		return a
	}
	return b
}
