package main

// C14 over derivations of writers.
//
// "With MultiLevelWriter every destination receives every event exactly once, in order, with
// identical bytes and level": the statement is about every writer MultiLevelWriter returns, also
// one whose arguments are themselves results of earlier MultiLevelWriter calls (a service-wide
// fan-out extended by a per-request destination, twice, for two requests; a nested fan-out; a
// fan-out extended several times), and also while the writers it was derived from and the other
// writers derived from those stay alive and are logged through.  The destinations of such a writer
// are the destinations of its arguments, in argument order (a nested writer forwards every event to
// each of its own destinations once).
//
// A derivation is: destinations 0..L-1 (fakes, each behind its own wrapper chain, each recorded
// separately); writers 0..N-1, writer i = MultiLevelWriter(args...) with every argument either a
// destination or an earlier writer (optionally behind SyncWriter / FilteredLevelWriter); a history
// of steps "build writer i" / "log these events through writer j", every writer built staying in
// use.  No destination occurs twice among the destinations of one writer (what "exactly once" means
// for a destination passed twice is not something the statement settles).
//
// Caller-owned argument slices (round 6): "every destination" of a writer is what the writer was BUILT with.  The
// caller may hold the arguments in a []io.Writer variable of its own, pass it as MultiLevelWriter(s...), and go on
// using that variable: overwrite an element (the next tenant's file, nil), append to it, reslice it, truncate and
// refill it, build the next writer from it.  None of that changes the destinations of a writer already built.  In a
// history these are the steps slice-make / slice-set / slice-append / slice-reslice (performed on real Go slices) and
// a "build" whose writer has built_from_caller_slice = k > 0: writers[i] = zerolog.MultiLevelWriter(s_k...), its
// args being the contents of s_k at that step.  A destination that was only ever put into a slice AFTER the builds
// (a trap) belongs to no writer and must never be called.
//
// Monitor (monitorDerivStep, on the calls of the separately recorded destinations): an event logged
// through writer j reaches exactly the destinations writer j was built from (those its filters let
// it through to), once each, and no other destination of the derivation.  Each logging step is then
// also handed to the general C14 monitors and to the Coq model as a case over the flattened
// destination list of its writer (flattening is Go-side: the model has one level of fan-out, and a
// nested multiLevelWriter is, in calls and in the reported error, its destinations in place:
// every destination is called whatever the others returned, the first failing one in call order
// determines the error, a short write inside surfaces as io.ErrShortWrite outside).

import (
	"fmt"
	"io"

	"github.com/rs/zerolog"
	. "verifharness/hlib"
)

// dargT.Guard: the (wrapped) writer is handed over behind a harness LevelWriter (depthGuard) that forwards Write /
// WriteLevel unchanged and panics (recovered by the harness, shown as a panic in the trace) when it is entered while
// already inside a call of its own.  Set where a
// writer is put into the very slice variable it, or a writer among its arguments, was built from: should a writer
// come to contain itself, the logging call ends in a recorded panic instead of a stack overflow of the harness.
type dargT struct {
	Node  int     `json:"writer"`      // >= 0: the result of that earlier MultiLevelWriter call; -1: a destination
	Leaf  int     `json:"destination"` // when writer == -1
	Wraps []wrapT `json:"wraps"`       // around this argument, outermost first (sync | filtered); writers only
	Guard bool    `json:"behind_depth_guard,omitempty"`
}

type dnodeT struct {
	Args  []dargT `json:"args"`
	Slice int     `json:"built_from_caller_slice,omitempty"` // k > 0: MultiLevelWriter(s_k...), args = the contents of the caller's slice s_k at the build step; 0: arguments in a slice of their own that nobody touches afterwards
}

// sliceOpT: one statement of the caller on one of its own []io.Writer variables (s_1, s_2, ...)
type sliceOpT struct {
	Slice int     `json:"slice"`
	Index int     `json:"index"`           // slice-set
	Lo    int     `json:"lo"`              // slice-reslice
	Hi    int     `json:"hi"`              // slice-reslice
	Cap   int     `json:"cap"`             // slice-make
	Items []dargT `json:"items,omitempty"` // slice-make, slice-append; slice-set: one item, none = the nil io.Writer
	Go    string  `json:"go"`              // the statement as Go source
}

type dopT struct {
	Op   string    `json:"op"` // build | log | slice-make | slice-set | slice-append | slice-reslice
	Node int       `json:"writer"`
	Evs  []evT     `json:"events,omitempty"`
	Om   [][]outT  `json:"outcomes,omitempty"` // [event][destination of the derivation]
	S    *sliceOpT `json:"caller_slice_statement,omitempty"`
}

type derivT struct {
	Leaves  []destT  `json:"destinations"`
	Nodes   []dnodeT `json:"writers"` // writers[i] = zerolog.MultiLevelWriter(args...)
	Ops     []dopT   `json:"history"`
	Handler bool     `json:"handler"`
	Step    int      `json:"this_case_is_history_step"`
	FlatOf  []int    `json:"derivation_destination_of_cfg_destination,omitempty"`
}

type flatT struct {
	leaf  int
	wraps []wrapT // the wrappers met on the way down, outermost first (without the destination's own chain)
}

func (d *derivT) flatten(node int, outer []wrapT) []flatT {
	var out []flatT
	for _, a := range d.Nodes[node].Args {
		ws := append(append([]wrapT{}, outer...), a.Wraps...)
		if a.Node >= 0 {
			out = append(out, d.flatten(a.Node, ws)...)
		} else {
			out = append(out, flatT{a.Leaf, ws})
		}
	}
	return out
}

func (d *derivT) leafSet(node int) map[int]bool {
	m := map[int]bool{}
	for _, f := range d.flatten(node, nil) {
		m[f.leaf] = true
	}
	return m
}

// flatCfg: the one-level configuration with the destinations of writer `node`
func (d *derivT) flatCfg(node int) (cfgT, []int) {
	cfg := cfgT{Kind: "multi", Wraps: []wrapT{}, Dests: []destT{}, Handler: d.Handler}
	var leaves []int
	for _, f := range d.flatten(node, nil) {
		lf := d.Leaves[f.leaf]
		cfg.Dests = append(cfg.Dests, destT{Leaf: lf.Leaf, Wraps: append(append([]wrapT{}, f.wraps...), lf.Wraps...)})
		leaves = append(leaves, f.leaf)
	}
	return cfg, leaves
}

// runDeriv executes the history on the real code; returns, per history step, the per-event traces
// (nil for build steps).  Destination ids in the traces are those of the derivation.
func runDeriv(d *derivT) [][][]actT {
	rt := &runtimeT{}
	leaves := make([]io.Writer, len(d.Leaves))
	for i, lf := range d.Leaves {
		var fake io.Writer
		if lf.Leaf == "plain" {
			fake = &fakePlain{i, rt}
		} else {
			fake = &fakeLevel{i, rt}
		}
		leaves[i] = wrapChain(lf.Wraps, fake, false, i, nil)
	}
	writers := make([]io.Writer, len(d.Nodes))
	loggers := make([]zerolog.Logger, len(d.Nodes))
	defer installReports(rt, d.Handler)()
	out := make([][][]actT, len(d.Ops))
	depth := 0
	resolve := func(a dargT) io.Writer {
		if a.Node >= 0 {
			w := wrapChain(a.Wraps, writers[a.Node], false, -1, nil)
			if a.Guard {
				// outside the wrappers: a SyncWriter entered twice would stop the harness for good
				w = &depthGuard{w: w.(zerolog.LevelWriter), depth: &depth}
			}
			return w
		}
		return leaves[a.Leaf]
	}
	slices := map[int][]io.Writer{} // the caller's own slice variables
	for s := range d.Ops {
		op := &d.Ops[s]
		switch op.Op {
		case "slice-make":
			sl := make([]io.Writer, 0, op.S.Cap)
			for _, a := range op.S.Items {
				sl = append(sl, resolve(a))
			}
			slices[op.S.Slice] = sl
		case "slice-set":
			if len(op.S.Items) == 0 {
				slices[op.S.Slice][op.S.Index] = nil
			} else {
				slices[op.S.Slice][op.S.Index] = resolve(op.S.Items[0])
			}
		case "slice-append":
			for _, a := range op.S.Items {
				slices[op.S.Slice] = append(slices[op.S.Slice], resolve(a))
			}
		case "slice-reslice":
			slices[op.S.Slice] = slices[op.S.Slice][op.S.Lo:op.S.Hi]
		case "build":
			if k := d.Nodes[op.Node].Slice; k > 0 {
				if len(slices[k]) != len(d.Nodes[op.Node].Args) {
					panic(fmt.Sprintf("c14 derivation: caller slice %d has %d elements at the build of writer %d, the generator recorded %d", k, len(slices[k]), op.Node, len(d.Nodes[op.Node].Args)))
				}
				// the caller passes its own slice and keeps using it afterwards
				writers[op.Node] = zerolog.MultiLevelWriter(slices[k]...)
			} else {
				var args []io.Writer
				for _, a := range d.Nodes[op.Node].Args {
					args = append(args, resolve(a))
				}
				writers[op.Node] = zerolog.MultiLevelWriter(args...)
			}
			loggers[op.Node] = zerolog.New(writers[op.Node]).Level(zerolog.Level(-128))
		case "log":
			for i := range op.Evs {
				op.Evs[i].ref = refBytes(op.Evs[i])
			}
			rt.om = op.Om
			trs := make([][]actT, len(op.Evs))
			for k, e := range op.Evs {
				rt.k = k
				trs[k] = logEvent(rt, &loggers[op.Node], e, d.Handler)
			}
			out[s] = trs
		}
	}
	return out
}

// derivStepCase cuts history step s (a log step) into a case over the flattened destinations of its
// writer: outcome columns and observed calls are renumbered to cfg positions; a call on a destination
// the writer was not built from gets an index beyond the cfg's destinations.  misrouted reports
// whether there was such a call.
func derivStepCase(d *derivT, s int, trs [][]actT) (cs *caseT, obs [][]actT, misrouted bool) {
	op := d.Ops[s]
	cfg, flatLeaves := d.flatCfg(op.Node)
	dd := *d
	dd.Step = s
	dd.FlatOf = flatLeaves
	cs = &caseT{Cfg: cfg, Evs: op.Evs, Der: &dd}
	for k := range op.Evs {
		row := make([]outT, len(flatLeaves))
		for p, g := range flatLeaves {
			row[p] = outT{Kind: "ok"}
			if k < len(op.Om) && g < len(op.Om[k]) {
				row[p] = op.Om[k][g]
			}
		}
		cs.Om = append(cs.Om, row)
	}
	pos := map[int]int{}
	for p, g := range flatLeaves {
		pos[g] = p
	}
	obs = make([][]actT, len(trs))
	for k, tr := range trs {
		for _, a := range tr {
			if a.Kind == "call" {
				if p, ok := pos[a.Dest]; ok {
					a.Dest = p
				} else {
					a.Dest = len(flatLeaves) + a.Dest
					misrouted = true
				}
			}
			obs[k] = append(obs[k], a)
		}
	}
	return
}

// monitorDerivStep: events logged through writer j reach exactly the destinations writer j was built from.
func monitorDerivStep(c *Ctx, d *derivT, s int, trs [][]actT, cs *caseT, obs [][]actT) {
	op := d.Ops[s]
	_, flatLeaves := d.flatCfg(op.Node)
	mine := map[int]int{} // derivation destination -> cfg position
	for p, g := range flatLeaves {
		mine[g] = p
	}
	for k, e := range op.Evs {
		lvl := e.Level
		if e.Panic {
			lvl = int(zerolog.PanicLevel)
		}
		if lvl == int(zerolog.Disabled) {
			continue // the nil event: judged by the general monitor
		}
		calls := map[int]int{}
		for _, a := range trs[k] {
			if a.Kind == "call" {
				calls[a.Dest]++
			}
		}
		for g := range d.Leaves {
			p, isMine := mine[g]
			switch {
			case !isMine && calls[g] > 0:
				c.Violate(Violation{Key: "derived-writer-event-reached-foreign-destination", Monitor: "derivation every-destination-once",
					Desc: fmt.Sprintf("history step %d, event %d logged through writer %d: destination %d received it (%d call(s)), but writer %d was not built from destination %d (its destinations, in order: %v)",
						s, k, op.Node, g, calls[g], op.Node, g, flatLeaves),
					Case: caseJSON(cs, obs), Observed: map[string]interface{}{"event": k, "calls_per_destination_of_the_derivation": fmt.Sprint(calls)},
					Expected: "an event reaches the destinations of the writer it was logged through and no other"})
				return
			case isMine && expect(cs.Cfg, p, lvl).reached && calls[g] == 0:
				c.Violate(Violation{Key: "derived-writer-destination-missed", Monitor: "derivation every-destination-once",
					Desc: fmt.Sprintf("history step %d, event %d logged through writer %d: destination %d, which writer %d was built from (its destinations, in order: %v), did not receive it",
						s, k, op.Node, g, op.Node, flatLeaves),
					Case: caseJSON(cs, obs), Observed: map[string]interface{}{"event": k, "calls_per_destination_of_the_derivation": fmt.Sprint(calls)},
					Expected: "every destination of the writer receives the event once"})
				return
			}
		}
	}
}

// ---------------------------------------------------------------- generation

func okRow(n int) []outT {
	row := make([]outT, n)
	for i := range row {
		row[i] = outT{Kind: "ok"}
	}
	return row
}

// derivLeaf: destination kinds rotate (LevelWriter, io.Writer only, behind SyncWriter, behind a filter at warn)
func derivLeaf(i int) destT {
	switch i % 5 {
	case 1:
		return destT{Leaf: "plain", Wraps: []wrapT{}}
	case 2:
		return destT{Leaf: "level", Wraps: []wrapT{{Kind: "sync"}}}
	case 3:
		return destT{Leaf: "level", Wraps: []wrapT{{Kind: "filtered", Min: 2}}}
	}
	return destT{Leaf: "level", Wraps: []wrapT{}}
}

// logOp: two events through writer `node`: the first (info) with one destination of the derivation failing
// (error value / short write, rotating), the second (warn) clean
func (d *derivT) logOp(node, salt int) dopT {
	L := len(d.Leaves)
	row := okRow(L)
	if L > 0 {
		g := salt % L
		if salt%3 == 0 {
			row[g] = outT{Kind: "short", N: 2}
		} else if salt%3 == 1 {
			row[g] = outT{Kind: "err", E: 1 + salt%200}
		}
	}
	return dopT{Op: "log", Node: node,
		Evs: []evT{{Level: 1, Msg: fmt.Sprintf("through writer %d", node), Key: "w", Val: fmt.Sprint(node)}, {Level: 2, Msg: fmt.Sprintf("again through writer %d", node)}},
		Om:  [][]outT{row, okRow(L)}}
}

// history: variant 0 = build every writer, then log through each, oldest first; 1 = build all, log through each,
// newest first; 2 = log through every writer as soon as it is built, and through all of them again at the end
func (d *derivT) history(variant, salt int) {
	n := len(d.Nodes)
	for i := 0; i < n; i++ {
		d.Ops = append(d.Ops, dopT{Op: "build", Node: i})
		if variant == 2 {
			d.Ops = append(d.Ops, d.logOp(i, salt+i))
		}
	}
	for i := 0; i < n; i++ {
		j := i
		if variant == 1 {
			j = n - 1 - i
		}
		d.Ops = append(d.Ops, d.logOp(j, salt+3*j+1))
	}
}

// derivGrid: base fan-out of 1..4 destinations; extended 0..2 times in a chain, each time by 1 or 2 destinations;
// then 2 or 3 sibling writers derived from the end of the chain by one destination each, and (when the chain is
// not empty) one more writer derived from the base, so that writers at two levels have several children alive at
// once; the earlier writer is the first / the last / the middle argument.
func derivGrid() []*derivT {
	var out []*derivT
	idx := 0
	for base := 1; base <= 4; base++ {
		for depth := 0; depth <= 2; depth++ {
			for ext := 1; ext <= 2; ext++ {
				if depth == 0 && ext == 2 {
					continue
				}
				for _, pos := range []string{"first", "last", "middle"} {
					idx++
					d := &derivT{Handler: idx%4 != 0}
					leaf := func() dargT {
						d.Leaves = append(d.Leaves, derivLeaf(len(d.Leaves)+idx))
						return dargT{Node: -1, Leaf: len(d.Leaves) - 1, Wraps: []wrapT{}}
					}
					derive := func(parent, fresh int) int {
						par := dargT{Node: parent, Wraps: []wrapT{}}
						var args []dargT
						switch pos {
						case "first":
							args = append(args, par)
							for i := 0; i < fresh; i++ {
								args = append(args, leaf())
							}
						case "last":
							for i := 0; i < fresh; i++ {
								args = append(args, leaf())
							}
							args = append(args, par)
						default:
							args = append(args, leaf(), par)
							for i := 0; i < fresh; i++ {
								args = append(args, leaf())
							}
						}
						d.Nodes = append(d.Nodes, dnodeT{Args: args})
						return len(d.Nodes) - 1
					}
					var b []dargT
					for i := 0; i < base; i++ {
						b = append(b, leaf())
					}
					d.Nodes = append(d.Nodes, dnodeT{Args: b})
					tip := 0
					for i := 0; i < depth; i++ {
						tip = derive(tip, ext)
					}
					for i := 0; i < 2+idx%2; i++ {
						derive(tip, 1)
					}
					if depth > 0 {
						derive(0, 1)
					}
					d.history(idx%3, idx)
					out = append(out, d)
				}
			}
		}
	}
	return out
}

// genDeriv: a seeded random derivation: 2-7 writers over fresh destinations and earlier writers (an earlier writer
// often as the first argument; sometimes behind SyncWriter or a FilteredLevelWriter), destinations with random
// chains, a random history in which every writer is logged through at least once after the last build.
func genDeriv(r *Rng) *derivT {
	d := &derivT{Handler: !r.Chance(15)}
	newLeaf := func() int {
		lf := destT{Leaf: "level", Wraps: genWraps(r, 2, true)}
		if r.Chance(40) {
			lf.Leaf = "plain"
		}
		d.Leaves = append(d.Leaves, lf)
		return len(d.Leaves) - 1
	}
	n := 2 + r.Intn(6)
	for i := 0; i < n; i++ {
		var args []dargT
		used := map[int]bool{}
		nargs := 1 + r.Intn(3)
		for a := 0; a < nargs; a++ {
			if i > 0 && (a == 0 && r.Chance(70) || a > 0 && r.Chance(25)) {
				// an earlier writer whose destinations do not overlap what this writer already has
				j := r.Intn(i)
				if r.Chance(50) {
					j = i - 1 - r.Intn(imin(i, 2)) // often a recent one: chains
				}
				ls := d.leafSet(j)
				clash := false
				for g := range ls {
					if used[g] {
						clash = true
					}
				}
				if !clash {
					for g := range ls {
						used[g] = true
					}
					arg := dargT{Node: j, Wraps: []wrapT{}}
					if r.Chance(12) {
						arg.Wraps = []wrapT{{Kind: "sync"}}
					} else if r.Chance(10) {
						arg.Wraps = []wrapT{{Kind: "filtered", Min: c14levels[r.Intn(len(c14levels))]}}
					}
					args = append(args, arg)
					continue
				}
			}
			g := newLeaf()
			used[g] = true
			args = append(args, dargT{Node: -1, Leaf: g, Wraps: []wrapT{}})
		}
		if r.Chance(30) { // the earlier writer not in front
			k := r.Intn(len(args))
			args[0], args[k] = args[k], args[0]
		}
		d.Nodes = append(d.Nodes, dnodeT{Args: args})
	}
	L := len(d.Leaves)
	logOp := func(j int) dopT {
		more := genCase(r)
		op := dopT{Op: "log", Node: j}
		for k, e := range more.Evs {
			if k >= 3 {
				break
			}
			op.Evs = append(op.Evs, e)
			row := okRow(L)
			if !r.Chance(40) {
				for g := range row {
					switch r.Intn(12) {
					case 0, 1:
						row[g] = outT{Kind: "err", E: r.Intn(maxErr)}
					case 2:
						row[g] = outT{Kind: "short", N: r.Intn(20)}
					}
				}
			}
			op.Om = append(op.Om, row)
		}
		return op
	}
	for i := 0; i < n; i++ {
		d.Ops = append(d.Ops, dopT{Op: "build", Node: i})
		if r.Chance(35) {
			d.Ops = append(d.Ops, logOp(r.Intn(i+1)))
		}
	}
	perm := make([]int, n)
	for i := range perm {
		perm[i] = i
	}
	for i := n - 1; i > 0; i-- {
		j := r.Intn(i + 1)
		perm[i], perm[j] = perm[j], perm[i]
	}
	for _, j := range perm {
		d.Ops = append(d.Ops, logOp(j))
	}
	return d
}

func imin(a, b int) int {
	if a < b {
		return a
	}
	return b
}

// ---------------------------------------------------------------- caller-owned argument slices

// depthGuard forwards to w; it panics when it is entered while a call through it is still in progress (the element it
// stands for has come to contain itself: with writers that only ever contain writers built before them that cannot
// happen) and, as a second line of defence, once guarded calls are nested 50 deep (see dargT.Guard).
type depthGuard struct {
	w      zerolog.LevelWriter
	depth  *int
	active bool
}

const depthGuardLimit = 50

func (g *depthGuard) enter() {
	if g.active || *g.depth >= depthGuardLimit {
		panic("c14 harness: a writer is written to from inside its own write: it contains itself")
	}
	g.active = true
	*g.depth++
}

func (g *depthGuard) leave() {
	g.active = false
	*g.depth--
}

func (g *depthGuard) Write(p []byte) (int, error) {
	g.enter()
	defer g.leave()
	return g.w.Write(p)
}

func (g *depthGuard) WriteLevel(l zerolog.Level, p []byte) (int, error) {
	g.enter()
	defer g.leave()
	return g.w.WriteLevel(l, p)
}

// fromSlice: was writer `node`, or a writer among its arguments (transitively), built from caller slice id?
func (d *derivT) fromSlice(node, id int) bool {
	if d.Nodes[node].Slice == id {
		return true
	}
	for _, a := range d.Nodes[node].Args {
		if a.Node >= 0 && d.fromSlice(a.Node, id) {
			return true
		}
	}
	return false
}

// guarded marks the items that are writers built (transitively) from this very slice variable.
func (s *sliceSim) guarded(items []dargT) []dargT {
	out := append([]dargT{}, items...)
	for i := range out {
		if out[i].Node >= 0 && s.d.fromSlice(out[i].Node, s.id) {
			out[i].Guard = true
		}
	}
	return out
}

// sliceSim: one []io.Writer variable of the caller, as the generator sees it (its visible contents; nil pointer =
// the nil io.Writer).  Every method appends the statement to the history; the driver performs it on a real slice.
type sliceSim struct {
	d       *derivT
	id      int
	content []*dargT
}

func (a dargT) goText() string {
	t := fmt.Sprintf("destination[%d]", a.Leaf)
	if a.Node >= 0 {
		t = fmt.Sprintf("writers[%d]", a.Node)
		for i := len(a.Wraps) - 1; i >= 0; i-- {
			t = a.Wraps[i].Kind + "(" + t + ")"
		}
		if a.Guard {
			t = "depthGuard(" + t + ")"
		}
	}
	return t
}

func goTexts(items []dargT) string {
	t := ""
	for i, a := range items {
		if i > 0 {
			t += ", "
		}
		t += a.goText()
	}
	return t
}

func (d *derivT) newSlice(capacity int, items ...dargT) *sliceSim {
	id := 1
	for _, op := range d.Ops {
		if op.Op == "slice-make" && op.S.Slice >= id {
			id = op.S.Slice + 1
		}
	}
	if capacity < len(items) {
		capacity = len(items)
	}
	s := &sliceSim{d: d, id: id}
	for i := range items {
		s.content = append(s.content, &items[i])
	}
	d.Ops = append(d.Ops, dopT{Op: "slice-make", Node: -1, S: &sliceOpT{Slice: id, Cap: capacity, Items: append([]dargT{}, items...),
		Go: fmt.Sprintf("s_%d := append(make([]io.Writer, 0, %d), %s)", id, capacity, goTexts(items))}})
	return s
}

func (s *sliceSim) set(i int, a dargT) {
	a = s.guarded([]dargT{a})[0]
	s.content[i] = &a
	s.d.Ops = append(s.d.Ops, dopT{Op: "slice-set", Node: -1, S: &sliceOpT{Slice: s.id, Index: i, Items: []dargT{a}, Go: fmt.Sprintf("s_%d[%d] = %s", s.id, i, a.goText())}})
}

func (s *sliceSim) setNil(i int) {
	s.content[i] = nil
	s.d.Ops = append(s.d.Ops, dopT{Op: "slice-set", Node: -1, S: &sliceOpT{Slice: s.id, Index: i, Go: fmt.Sprintf("s_%d[%d] = nil", s.id, i)}})
}

func (s *sliceSim) push(items ...dargT) {
	items = s.guarded(items)
	for i := range items {
		s.content = append(s.content, &items[i])
	}
	s.d.Ops = append(s.d.Ops, dopT{Op: "slice-append", Node: -1, S: &sliceOpT{Slice: s.id, Items: append([]dargT{}, items...), Go: fmt.Sprintf("s_%d = append(s_%d, %s)", s.id, s.id, goTexts(items))}})
}

// reslice: s = s[lo:hi] with hi <= len(s) (what lies beyond the length is never looked at again)
func (s *sliceSim) reslice(lo, hi int) {
	s.content = append([]*dargT{}, s.content[lo:hi]...)
	s.d.Ops = append(s.d.Ops, dopT{Op: "slice-reslice", Node: -1, S: &sliceOpT{Slice: s.id, Lo: lo, Hi: hi, Go: fmt.Sprintf("s_%d = s_%d[%d:%d]", s.id, s.id, lo, hi)}})
}

// snapshot: the contents as MultiLevelWriter(s...) receives them now; ok = no nil element and no destination twice
func (s *sliceSim) snapshot() (args []dargT, ok bool) {
	for _, a := range s.content {
		if a == nil {
			return nil, false
		}
		args = append(args, *a)
	}
	probe := &derivT{Nodes: append(append([]dnodeT{}, s.d.Nodes...), dnodeT{Args: args})}
	seen := map[int]bool{}
	for _, f := range probe.flatten(len(probe.Nodes)-1, nil) {
		if seen[f.leaf] {
			return nil, false
		}
		seen[f.leaf] = true
	}
	return args, true
}

// build: writers[new] = MultiLevelWriter(s...)
func (s *sliceSim) build() int {
	args, ok := s.snapshot()
	if !ok {
		panic("c14 derivation generator: caller slice with a nil element or a repeated destination at a build")
	}
	s.d.Nodes = append(s.d.Nodes, dnodeT{Args: args, Slice: s.id})
	n := len(s.d.Nodes) - 1
	s.d.Ops = append(s.d.Ops, dopT{Op: "build", Node: n})
	return n
}

// buildAs: the build step of the already described writer `node` (whose args are the slice's contents now)
func (s *sliceSim) buildAs(node int) {
	args, ok := s.snapshot()
	if !ok || len(args) != len(s.d.Nodes[node].Args) {
		panic("c14 derivation generator: the caller slice does not hold the arguments of the writer at its build")
	}
	s.d.Nodes[node].Args = args
	s.d.Nodes[node].Slice = s.id
	s.d.Ops = append(s.d.Ops, dopT{Op: "build", Node: node})
}

func (d *derivT) newLeafArg(salt int) dargT {
	d.Leaves = append(d.Leaves, derivLeaf(len(d.Leaves)+salt))
	return dargT{Node: -1, Leaf: len(d.Leaves) - 1, Wraps: []wrapT{}}
}

// sliceKinds: what the caller does with the slice it passed as MultiLevelWriter(s...), at position p of a slice of
// n elements.
var sliceKinds = []string{
	"tenants",         // s[p] = next tenant's destination; build; three times: three writers out of one backing array
	"overwrite-after", // build; s[p] = a destination no writer was built from
	"nil-after",       // build; s[p] = nil
	"truncate-append", // build; s = append(s[:p], trap): overwrites element p of the backing array
	"refill",          // build; s = s[:0]; append n other destinations; build the second writer
	"append-spare",    // slice with spare capacity: build from s; s = append(s, x); build; s[p] = trap
	"prefix-suffix",   // one backing array, two writers: MultiLevelWriter(s[:p+1]...) then the rest moved to the front
	"swap-in-writer",  // build; s[p] = an earlier writer with destinations of its own; build again
	"extend-self",     // w = build from s; s[p] = w, the other elements replaced by new destinations; build the extended writer from s
}

// sliceGrid: slices of 1..4 destinations x every position x every kind.  Every writer is logged through after the
// last statement on the slice (variant 0/1: oldest / newest writer first), in variant 2 also right after its build.
func sliceGrid() []*derivT {
	var out []*derivT
	idx := 0
	for n := 1; n <= 4; n++ {
		for p := 0; p < n; p++ {
			for _, kind := range sliceKinds {
				idx++
				d := &derivT{Handler: idx%4 != 0}
				variant := idx % 3
				var built []int
				build := func(s *sliceSim) int {
					w := s.build()
					built = append(built, w)
					if variant == 2 {
						d.Ops = append(d.Ops, d.logOpWide(w, idx+w))
					}
					return w
				}
				var items []dargT
				for i := 0; i < n; i++ {
					items = append(items, d.newLeafArg(idx))
				}
				switch kind {
				case "tenants":
					s := d.newSlice(n, items...)
					build(s)
					for t := 0; t < 2; t++ {
						s.set(p, d.newLeafArg(idx))
						build(s)
					}
				case "overwrite-after":
					s := d.newSlice(n, items...)
					build(s)
					s.set(p, d.newLeafArg(idx))
				case "nil-after":
					s := d.newSlice(n, items...)
					build(s)
					s.setNil(p)
				case "truncate-append":
					s := d.newSlice(n, items...)
					build(s)
					s.reslice(0, p)
					s.push(d.newLeafArg(idx))
				case "refill":
					s := d.newSlice(n, items...)
					build(s)
					s.reslice(0, 0)
					for i := 0; i < n; i++ {
						s.push(d.newLeafArg(idx))
					}
					build(s)
					s.reslice(0, p)
				case "append-spare":
					s := d.newSlice(n+2, items...)
					build(s)
					s.push(d.newLeafArg(idx))
					build(s)
					s.set(p, d.newLeafArg(idx))
					s.push(d.newLeafArg(idx))
					build(s)
				case "prefix-suffix":
					s := d.newSlice(n, items...)
					s.reslice(0, p+1)
					build(s)
					// the next writer reuses the front of the array for other destinations
					s.reslice(0, 0)
					for i := 0; i <= p; i++ {
						s.push(d.newLeafArg(idx))
					}
					build(s)
				case "extend-self":
					s := d.newSlice(n, items...)
					w := build(s)
					for i := 0; i < n; i++ {
						if i != p {
							s.set(i, d.newLeafArg(idx))
						}
					}
					s.set(p, dargT{Node: w, Wraps: []wrapT{}})
					build(s)
				case "swap-in-writer":
					// an earlier writer with two destinations of its own, built the ordinary way
					d.Nodes = append(d.Nodes, dnodeT{Args: []dargT{d.newLeafArg(idx), d.newLeafArg(idx)}})
					d.Ops = append(d.Ops, dopT{Op: "build", Node: 0})
					built = append(built, 0)
					s := d.newSlice(n, items...)
					build(s)
					s.set(p, dargT{Node: 0, Wraps: []wrapT{}})
					build(s)
					s.set(p, d.newLeafArg(idx))
				}
				for i := range built {
					j := built[i]
					if variant == 1 {
						j = built[len(built)-1-i]
					}
					d.Ops = append(d.Ops, d.logOpWide(j, idx+3*j+1))
				}
				out = append(out, d)
			}
		}
	}
	return out
}

// logOpWide: logOp whose outcome rows may be shorter than the final number of destinations (destinations added
// later answer ok); the failing destination is one of the writer's own, so that containment is exercised.
func (d *derivT) logOpWide(node, salt int) dopT {
	op := d.logOp(node, salt)
	_, mine := d.flatCfg(node)
	if len(mine) > 0 {
		row := okRow(len(d.Leaves))
		g := mine[salt%len(mine)]
		if salt%3 == 0 {
			row[g] = outT{Kind: "short", N: 2}
		} else if salt%3 == 1 {
			row[g] = outT{Kind: "err", E: 1 + salt%200}
		}
		op.Om[0] = row
	}
	return op
}

// viaCallerSlices rewrites the history of a derivation so that every writer is built from one of two slice
// variables of the caller, which the caller refills for every build (in place where the lengths allow, by
// truncate-and-append otherwise) and damages after the last build (elements overwritten by destinations no writer
// was built from, or by nil; truncated and appended).
func viaCallerSlices(d *derivT, r *Rng) *derivT {
	old := d.Ops
	d.Ops = nil
	trap := func() dargT {
		lf := destT{Leaf: "level", Wraps: []wrapT{}}
		if r.Chance(40) {
			lf.Leaf = "plain"
		}
		d.Leaves = append(d.Leaves, lf)
		return dargT{Node: -1, Leaf: len(d.Leaves) - 1, Wraps: []wrapT{}}
	}
	var vars [2]*sliceSim
	damage := func(s *sliceSim) {
		if s == nil || len(s.content) == 0 {
			return
		}
		i := r.Intn(len(s.content))
		switch r.Intn(4) {
		case 0:
			s.set(i, trap())
		case 1:
			s.setNil(i)
		case 2:
			s.reslice(0, i)
			s.push(trap())
		default:
			for k := range s.content {
				s.set(k, trap())
			}
		}
	}
	for _, op := range old {
		if op.Op != "build" {
			d.Ops = append(d.Ops, op)
			continue
		}
		args := d.Nodes[op.Node].Args
		v := r.Intn(2)
		s := vars[v]
		switch {
		case s == nil:
			vars[v] = d.newSlice(len(args)+r.Intn(3), args...)
			s = vars[v]
		case r.Chance(50) || len(s.content) < len(args):
			s.reslice(0, 0)
			s.push(args...)
		default:
			for i, a := range args {
				s.set(i, a)
			}
			s.reslice(0, len(args))
		}
		s.buildAs(op.Node)
		if r.Chance(30) {
			damage(s)
		}
	}
	// the tail of the old history logs through every writer; damage both variables before it
	last := 0
	for i, op := range d.Ops {
		if op.Op != "log" {
			last = i
		}
	}
	tail := append([]dopT{}, d.Ops[last+1:]...)
	d.Ops = d.Ops[:last+1]
	damage(vars[0])
	damage(vars[1])
	d.Ops = append(d.Ops, tail...)
	return d
}
