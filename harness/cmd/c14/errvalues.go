package main

// The error VALUES the fake destinations fail with.
//
// The property quantifies over "every outcome in {ok, error, short write}" and says that
// ErrorHandler is invoked "with that error": whatever value the destination returned.  Nothing
// in the text singles out a kind of error, so the error id of an outcome selects one of many
// kinds of value: opaque errors, the standard library's sentinels themselves, errors that wrap
// a sentinel (%w, *fs.PathError, *os.SyscallError, *net.OpError, a multi-error), errors that
// answer Timeout()/Temporary(), an error whose Is method matches every target, an error with an
// empty text.  Every entry of the table is a distinct value (identity is what the trace
// records); every text is distinct and has no newline (the stderr report is read back by text).
//
// errKinds[i % len(errKinds)] builds entry i; the sentinels themselves occupy one slot each
// (entries below len(errKinds)), their later multiples are wrapped forms.

import (
	"context"
	"errors"
	"fmt"
	"io"
	"io/fs"
	"net"
	"os"
	"syscall"
)

type errKind struct {
	name string
	mk   func(i int, first bool) error
}

// errFlagged answers the classification methods callers probe errors with.
type errFlagged struct {
	text               string
	timeout, temporary bool
}

func (e *errFlagged) Error() string   { return e.text }
func (e *errFlagged) Timeout() bool   { return e.timeout }
func (e *errFlagged) Temporary() bool { return e.temporary }

// errMatchesAll: errors.Is(err, anything) is true.
type errMatchesAll struct{ text string }

func (e *errMatchesAll) Error() string       { return e.text }
func (e *errMatchesAll) Is(error) bool       { return true }
func (e *errMatchesAll) As(interface{}) bool { return false }

// errMulti wraps several errors (Unwrap() []error) under a one-line text.
type errMulti struct {
	text string
	errs []error
}

func (e *errMulti) Error() string   { return e.text }
func (e *errMulti) Unwrap() []error { return e.errs }

func tagged(i int) string { return fmt.Sprintf("verif-dest-error-%d", i) }

// wrapOr: the sentinel itself the first time round, afterwards an error wrapping it
func wrapOr(sentinel error) func(i int, first bool) error {
	return func(i int, first bool) error {
		if first {
			return sentinel
		}
		return fmt.Errorf("%s: %w", tagged(i), sentinel)
	}
}

func wrapped(sentinel error) func(i int, first bool) error {
	return func(i int, _ bool) error { return fmt.Errorf("%s: %w", tagged(i), sentinel) }
}

var errKinds = []errKind{
	{"errors.New", func(i int, _ bool) error { return errors.New(tagged(i)) }},
	{"os.ErrClosed (the sentinel itself, then %w)", wrapOr(os.ErrClosed)},
	{"*fs.PathError{Err: fs.ErrClosed}", func(i int, _ bool) error {
		return &fs.PathError{Op: "write", Path: "/var/log/" + tagged(i), Err: fs.ErrClosed}
	}},
	{"%w os.ErrClosed", wrapped(os.ErrClosed)},
	{"io.EOF (itself, then %w)", wrapOr(io.EOF)},
	{"io.ErrClosedPipe (itself, then %w)", wrapOr(io.ErrClosedPipe)},
	{"%w io.ErrShortWrite (an error that wraps the short-write sentinel, not a short write)", wrapped(io.ErrShortWrite)},
	{"io.ErrUnexpectedEOF (itself, then %w)", wrapOr(io.ErrUnexpectedEOF)},
	{"io.ErrNoProgress (itself, then %w)", wrapOr(io.ErrNoProgress)},
	{"context.Canceled (itself, then %w)", wrapOr(context.Canceled)},
	{"context.DeadlineExceeded (itself, then %w)", wrapOr(context.DeadlineExceeded)},
	{"os.ErrDeadlineExceeded (itself, then %w)", wrapOr(os.ErrDeadlineExceeded)},
	{"net.ErrClosed (itself, then %w)", wrapOr(net.ErrClosed)},
	{"fs.ErrPermission (itself, then %w)", wrapOr(fs.ErrPermission)},
	{"fs.ErrNotExist (itself, then %w)", wrapOr(fs.ErrNotExist)},
	{"fs.ErrInvalid (itself, then %w)", wrapOr(fs.ErrInvalid)},
	{"syscall.EPIPE (itself, then %w)", wrapOr(syscall.EPIPE)},
	{"syscall.EBADF (itself, then %w)", wrapOr(syscall.EBADF)},
	{"syscall.EAGAIN (itself, then %w; Temporary and Timeout)", wrapOr(syscall.EAGAIN)},
	{"syscall.EINTR (itself, then %w)", wrapOr(syscall.EINTR)},
	{"syscall.ENOSPC (itself, then %w)", wrapOr(syscall.ENOSPC)},
	{"*os.SyscallError{EPIPE}", func(i int, _ bool) error { return os.NewSyscallError(tagged(i), syscall.EPIPE) }},
	{"*net.OpError{*os.SyscallError{ECONNRESET}}", func(i int, _ bool) error {
		return &net.OpError{Op: "write", Net: tagged(i), Err: os.NewSyscallError("write", syscall.ECONNRESET)}
	}},
	{"*net.OpError{net.ErrClosed}", func(i int, _ bool) error {
		return &net.OpError{Op: "write", Net: tagged(i), Err: net.ErrClosed}
	}},
	{"*fs.PathError{Err: syscall.EBADF}", func(i int, _ bool) error {
		return &fs.PathError{Op: "write", Path: "/dev/" + tagged(i), Err: syscall.EBADF}
	}},
	{"multi-error wrapping fs.ErrClosed and io.EOF", func(i int, _ bool) error {
		return &errMulti{text: tagged(i) + " (2 errors)", errs: []error{fs.ErrClosed, io.EOF}}
	}},
	{"Timeout() = true", func(i int, _ bool) error { return &errFlagged{text: tagged(i) + ": i/o timeout", timeout: true} }},
	{"Temporary() = true", func(i int, _ bool) error {
		return &errFlagged{text: tagged(i) + ": resource temporarily unavailable", temporary: true}
	}},
	{"Is(target) = true for every target", func(i int, _ bool) error { return &errMatchesAll{text: tagged(i) + ": matches every target"} }},
	{"twice wrapped os.ErrClosed", func(i int, _ bool) error {
		return fmt.Errorf("%s: flush: %w", tagged(i), &fs.PathError{Op: "write", Path: "app.log", Err: os.ErrClosed})
	}},
	{"empty text (first), then text of spaces", func(i int, first bool) error {
		if first {
			return &errFlagged{text: ""}
		}
		return &errFlagged{text: tagged(i) + "  "}
	}},
}

var (
	errTab      [maxErr]error
	errKindName [maxErr]string
	errByText   = map[string]int{}
)

func init() {
	K := len(errKinds)
	for i := range errTab {
		k := errKinds[i%K]
		errTab[i] = k.mk(i, i < K)
		errKindName[i] = k.name
	}
	// the table must be usable as an oracle: distinct values, distinct one-line texts
	for i, e := range errTab {
		t := e.Error()
		for _, ch := range t {
			if ch == '\n' {
				panic(fmt.Sprintf("c14: error text %d has a newline", i))
			}
		}
		if j, dup := errByText[t]; dup {
			panic(fmt.Sprintf("c14: error values %d and %d have the same text %q", j, i, t))
		}
		errByText[t] = i
		if t == io.ErrShortWrite.Error() {
			panic("c14: an error value reads like io.ErrShortWrite")
		}
	}
	for i := 0; i < 2*K; i++ {
		for j := 0; j < i; j++ {
			if sameErr(errTab[i], errTab[j]) {
				panic(fmt.Sprintf("c14: error values %d and %d are identical", j, i))
			}
		}
	}
}

// sameErr: identity of error values (never panics on uncomparable dynamic types)
func sameErr(a, b error) (eq bool) {
	defer func() {
		if recover() != nil {
			eq = false
		}
	}()
	return a == b
}

// errValueNotes describes the error values a case uses (for the replay file).
func errValueNotes(om [][]outT) map[string]interface{} {
	out := map[string]interface{}{}
	for _, row := range om {
		for _, o := range row {
			if o.Kind == "err" && o.E >= 0 && o.E < maxErr {
				out[fmt.Sprint(o.E)] = map[string]string{"kind": errKindName[o.E], "go_type": fmt.Sprintf("%T", errTab[o.E]), "text": errTab[o.E].Error()}
			}
		}
	}
	return out
}
