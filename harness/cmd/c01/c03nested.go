package main

// C03: hooks that take pooled events while the event they are handed is still in the hands of the running Msg.
//
// A hook may do anything with the event it is given and with the library: log through another logger (an audit / metrics
// tap), add a zerolog.Dict() or zerolog.Arr() field, add Fields() whose errors are object marshalers (helper events).
// All of these draw *Event values from the pool while Msg is still walking the hook list of the outer event - also
// after an earlier hook has discarded that event.  The statement must hold for both events: each hook of each
// derivation once and in order; the outer line has level, fields, hook fields, message (or is not written when a hook
// discarded it); the event the hook logged has ITS layout on ITS writer; and the events the program logs afterwards
// (which start from whatever the pools were left with) have theirs - none lost, none written twice, none written that
// was discarded.

import (
	"fmt"
	"runtime"
	"sort"
	"strings"
	"time"

	. "verifharness/hlib"
	"verifharness/oracle"
	"verifharness/progs"
)

// expectInner: what the sweep expects of an event other than the outer one
type expectInner struct {
	what    string
	written bool
	keys    []string
}

// runC03Interleaved: hook lists as words over
//
//	H a hook that adds a field                       X a hook that adds a field and discards the event
//	G a hook that logs another event through another logger (own writer) between two fields of its own
//	J a hook that adds a Dict() field (with a Dict inside)
//	A a hook that adds an Arr() field with Dict and Object elements
//	F a hook that adds Fields() with a slice of errors that are object marshalers, and an Object field
//
// every word of length <= 2, the words of length 3 in which a discarding hook meets a hook that draws from the pools;
// each hook its own Hook() call; outer events of every kind of level through all finalizers; the event G logs is of one
// of four kinds (plain; context, Dict fields and dict-adding hooks of its own; discarded by its own hook; started
// with WithLevel(Disabled)); and after the outer event's finalizer has returned the program logs two more events that
// hold several pooled events at once (Dict in Dict, Arr of Dict, a dict-adding hook).  stride: every stride-th of the
// words of length 3 (C01 runs the short words only).
func runC03Interleaved(c *Ctx, emit func(cs *progs.Case) progs.Obs, stride int) {
	s := progs.DefaultSettings()
	now := time.Unix(1700000000, 0).UTC()
	letters := "HXGJAF"
	var words []string
	for _, a := range letters {
		words = append(words, string(a))
		for _, b := range letters {
			words = append(words, string(a)+string(b))
			for _, d := range letters {
				w := string(a) + string(b) + string(d)
				if strings.Contains(w, "X") && strings.ContainsAny(w, "GJAF") {
					words = append(words, w)
				}
			}
		}
	}
	sort.SliceStable(words, func(i, j int) bool { return len(words[i]) < len(words[j]) }) // (a witness is then a short one)
	kp := func(k, m string, v interface{}) progs.Op {
		return progs.Op{K: "key", Key: []byte(k), P: &progs.Prim{M: m, V: v}}
	}
	cop := func(o progs.Op) progs.Cop { return progs.Cop{K: "op", O: &o} }
	mark := uint64(20000)
	mk := func() progs.Op { mark++; return progs.Op{K: "mark", ID: mark} }
	dict := func(k string, sub ...progs.Op) progs.Op { return progs.Op{K: "dict", Key: []byte(k), Sub: sub} }
	levelKey := func(level int) []string {
		if level == 6 {
			return nil
		}
		return []string{s.LevelName}
	}
	// the event a G hook logs
	inner := func(kind, k int) (*progs.Case, expectInner) {
		switch kind % 4 {
		case 0:
			return &progs.Case{Level: 1, Ops: []progs.Op{kp("seen", "Str", "secret")}, Msg: []byte("audit")},
				expectInner{"plain event logged by a hook", true, []string{"level", "seen", "message"}}
		case 1:
			st1 := progs.Step{Cops: []progs.Cop{cop(kp("svc", "Str", "audit")), cop(dict("cd", kp("n", "Int", 1))),
				{K: "hook", Sub: []progs.Op{mk(), dict("ih", kp("q", "Str", "r"), dict("ihd", kp("z", "Bool", true)))}}}}
			st2 := progs.Step{Cops: []progs.Cop{{K: "hook", Sub: []progs.Op{mk(), kp("ih2", "Int", 2)}}}}
			lv := []int{2, 6, 0, 4}[k%4]
			return &progs.Case{Level: lv, Steps: []progs.Step{st1, st2}, Fin: k % 4, Msg: []byte("pooled"), Ops: []progs.Op{
					dict("d", kp("a", "Str", "b"), dict("dd", kp("x", "Bool", true))),
					{K: "array", Key: []byte("arr"), Sub: []progs.Op{{K: "aelem", P: &progs.Prim{M: "Int", V: 1}}, {K: "adict", Sub: []progs.Op{kp("y", "Int", 2)}}}}}},
				expectInner{"event with context, Dict / Arr fields and dict-adding hooks, logged by a hook", true,
					append(append(levelKey(lv), "svc", "cd", "d", "arr", "ih", "ih2"), "message")}
		case 2:
			st := progs.Step{Cops: []progs.Cop{{K: "hook", Sub: []progs.Op{mk(), kp("ih", "Int", 1), {K: "discard"}}}, {K: "hook", Sub: []progs.Op{mk(), dict("ihd", kp("q", "Int", 1))}}}}
			return &progs.Case{Level: 3, Steps: []progs.Step{st}, Ops: []progs.Op{kp("never", "Str", "x")}, Msg: []byte("gone"), Fin: 3},
				expectInner{"event logged by a hook and discarded by its own first hook", false, nil}
		}
		return &progs.Case{Level: 7, Ops: []progs.Op{kp("never", "Str", "x")}, Msg: []byte("gone")},
			expectInner{"WithLevel(Disabled) event started by a hook", false, nil}
	}
	followers := func(k int) ([]*progs.Case, []expectInner) {
		st := progs.Step{Cops: []progs.Cop{cop(kp("svc", "Str", "api")), {K: "hook", Sub: []progs.Op{mk(), dict("meta", kp("host", "Str", "h1"))}}}}
		f1 := &progs.Case{Level: 1, Steps: []progs.Step{st}, Msg: []byte("kept"), Fin: k % 4, Ops: []progs.Op{
			kp("a", "Str", "1"),
			dict("d", kp("n", "Int", 1), dict("dd", kp("m", "Int", 2), dict("ddd", kp("l", "Int", 3)))),
			{K: "array", Key: []byte("arr"), Sub: []progs.Op{{K: "adict", Sub: []progs.Op{kp("y", "Int", 2)}}, {K: "aobj", Sub: []progs.Op{mk(), kp("z", "Str", "w")}}}}}}
		f2 := &progs.Case{Level: 2, Msg: []byte("bye"), Ops: []progs.Op{kp("b", "Str", "2"), dict("k", kp("v", "Str", "v"))}}
		return []*progs.Case{f1, f2}, []expectInner{
			{"first event logged after the outer one", true, []string{"level", "svc", "a", "d", "arr", "meta", "message"}},
			{"second event logged after the outer one", true, []string{"level", "b", "k", "message"}}}
	}
	// an event of level Panic that the program logs and survives: started through Logger.Panic() - its finalizer writes
	// the line, hands the event back and THEN panics by design; the program recovers (a request handler, a worker loop)
	// and goes on - or, for contrast, through WithLevel(PanicLevel), which does not panic.  It has context, a hook and a
	// Dict of its own.  Everything the program logs afterwards starts from what that finalizer left in the pools.
	panicEvent := func(k int, panics bool) (*progs.Case, expectInner) {
		st := progs.Step{Cops: []progs.Cop{cop(kp("svc", "Str", "worker")), {K: "hook", Sub: []progs.Op{mk(), kp("ph", "Int", k)}}}}
		pe := &progs.Case{Level: 5, Steps: []progs.Step{st}, Fin: k % 4, Msg: []byte("boom"), Ops: []progs.Op{kp("why", "Str", "x"), dict("pd", kp("n", "Int", k))}}
		what := "Panic-level event started through WithLevel(PanicLevel)"
		if panics {
			what = "Panic-level event started through Logger.Panic(), its panic recovered by the program"
		}
		return pe, expectInner{what, true, []string{"level", "svc", "why", "pd", "ph", "message"}}
	}
	k := 0
	for wi, w := range words {
		if len(w) == 3 && wi%stride != 0 {
			continue
		}
		k++
		// variant 0: the program as it is.  1: first, in the caller's code right after the outer event was started (the
		// outer event is in flight), a recovered Logger.Panic() event; 2: the recovered Logger.Panic() event is the first of
		// the events that follow the outer one; 3: as 1 through WithLevel(PanicLevel) (no panic).  The short words run all
		// of them, the words of length 3 one in rotation.
		variants := []int{0, 1, 2, 3}
		if len(w) == 3 {
			variants = []int{0, 1 + k%3}
		}
		if c.Prop != "C03" {
			variants = []int{0} // (C01 / C02 run this sweep for the lines' form only)
		}
		for _, variant := range variants {
			level := []int{1, 0, 3, 6, 2}[k%5]
			cs := &progs.Case{S: s, Now: now, Level: level, Msg: []byte(fmt.Sprintf("outer%d", k)), Fin: k % 4, Ops: []progs.Op{kp("e", "Str", "v")}}
			expect := map[*progs.Case]expectInner{}
			var order []*progs.Case
			var keys []string
			var ids []uint64
			discarded := false
			for i, ch := range w {
				m := mk()
				ids = append(ids, m.ID)
				name := fmt.Sprintf("%c%d", ch+'a'-'A', i)
				var h []progs.Op
				switch ch {
				case 'H':
					h = []progs.Op{m, kp(name, "Int", i)}
					keys = append(keys, name)
				case 'X':
					h = []progs.Op{m, kp(name, "Int", i), {K: "discard"}}
					keys = append(keys, name)
					discarded = true
				case 'G':
					in, ex := inner(k+i, k)
					expect[in], order = ex, append(order, in)
					h = []progs.Op{m, kp(name, "Int", i), progs.LogOp(cs, in, false), kp(name+"b", "Str", "after")}
					keys = append(keys, name, name+"b")
				case 'J':
					h = []progs.Op{m, dict(name, kp("host", "Str", "h"), dict("in", kp("n", "Int", i)))}
					keys = append(keys, name)
				case 'A':
					h = []progs.Op{m, {K: "array", Key: []byte(name), Via: (k+i)%2 == 0, Sub: []progs.Op{{K: "aelem", P: &progs.Prim{M: "Str", V: "x"}}, {K: "adict", Sub: []progs.Op{kp("y", "Int", i)}}, {K: "aobj", Sub: []progs.Op{mk(), kp("z", "Int", i)}}}}}
					keys = append(keys, name)
				case 'F':
					oe := func(t string) *progs.ErrV { return &progs.ErrV{K: "obj", Ops: []progs.Op{mk(), kp("why", "Str", t)}} }
					h = []progs.Op{m, {K: "fields", KVs: []progs.FieldKV{{Key: []byte(name), K: "errs", Es: []*progs.ErrV{oe("one"), {K: "nil"}, oe("two")}}}},
						{K: "object", Key: []byte(name + "o"), Sub: []progs.Op{mk(), kp("p", "Int", i)}}}
					keys = append(keys, name, name+"o")
				}
				cs.Steps = append(cs.Steps, progs.Step{Cops: []progs.Cop{{K: "hook", Sub: h}}, Noise: (k + i) % 4})
			}
			fs, fex := followers(k)
			if variant == 2 {
				pe, pex := panicEvent(k, true)
				fs, fex = append([]*progs.Case{pe}, fs...), append([]expectInner{pex}, fex...)
			}
			for i, f := range fs {
				expect[f], order = fex[i], append(order, f)
				cs.Ops = append(cs.Ops, progs.FollowOp(cs, f))
			}
			if variant == 2 {
				fs[0].Entry = 6 // (FollowOp starts from the plain entry)
			}
			if variant == 1 || variant == 3 {
				pe, pex := panicEvent(k, variant == 1)
				expect[pe], order = pex, append(order, pe)
				cs.Ops = append([]progs.Op{progs.LogOp(cs, pe, false)}, cs.Ops...)
				if variant == 1 {
					pe.Entry = 6
				}
			}
			// what earlier programs of this run left in the event / array pools is dropped (a sync.Pool is emptied by two
			// collections), so that a violation found here has this program as its whole input
			runtime.GC()
			runtime.GC()
			o := emit(cs) // hooks of the outer and of every other event once and in order, their arguments; one Write per event
			if o.Panic != nil {
				continue
			}
			what := "hooks " + w + " (H field, X field+Discard, G logs through another logger, J Dict, A Arr, F Fields with object errors)" +
				[]string{"", "; before the outer event's first field the program logs a Panic() event and recovers", "; the first event after the outer one is a Panic() event whose panic the program recovers",
					"; before the outer event's first field the program logs a WithLevel(PanicLevel) event"}[variant]
			if ran := hookMarksRan(cs, o); fmt.Sprint(ran) != fmt.Sprint(ids) {
				c.Violate(Violation{Key: "hooks-not-once-in-order", Monitor: "hooks-once", Desc: fmt.Sprintf("%s: hook invocations %v, want %v (the hooks after a discarding hook still run)", what, ran, ids), Case: cs.Describe(), Observed: ran, Expected: ids})
			}
			switch {
			case discarded && o.Written:
				c.Violate(Violation{Key: "discarded-event-written", Monitor: "discard", Desc: what + ": a hook discarded the event, yet it reached its writer", Case: cs.Describe(), Observed: fmt.Sprintf("%q", o.Line)})
			case !discarded && !o.Written:
				c.Violate(Violation{Key: "enabled-event-not-written", Monitor: "layout", Desc: what + ": an enabled, undiscarded event was not written", Case: cs.Describe()})
			case !discarded:
				if v, err := oracle.CheckEventLine(o.Line); err == nil { // (else C01's monitor reports it)
					want := append(append(append(levelKey(level), "e"), keys...), s.MessageName)
					var got []string
					for _, m := range v.Members {
						got = append(got, m.Key)
					}
					if fmt.Sprint(got) != fmt.Sprint(want) {
						c.Violate(Violation{Key: "layout-order", Monitor: "layout", Desc: fmt.Sprintf("%s: member keys %q, want %q", what, got, want), Case: cs.Describe(), Observed: got, Expected: want})
					}
				}
			}
			// the other events of the program
			seen := map[*progs.Case]bool{}
			wantWrites := 0
			for i, r := range o.Nested {
				ex, ok := expect[r.N.In]
				if !ok || !r.Done {
					continue
				}
				seen[r.N.In] = true
				if ex.written {
					wantWrites++
				}
				desc := map[string]interface{}{"program": cs.Describe(), "event_number": i, "event": r.N.In.Describe(), "outer_line": fmt.Sprintf("%q", o.Line), "writes_on_the_other_writer": quoteAll(o.NestLines)}
				switch {
				case ex.written && !r.Obs.Written:
					c.Violate(Violation{Key: "enabled-event-not-written", Monitor: "layout", Desc: what + ": " + ex.what + ": an enabled, undiscarded event was not written", Case: desc})
				case !ex.written && r.Obs.Written:
					c.Violate(Violation{Key: "discarded-event-written", Monitor: "discard", Desc: what + ": " + ex.what + " reached its writer", Case: desc, Observed: fmt.Sprintf("%q", r.Obs.Line)})
				case ex.written:
					v, err := oracle.CheckEventLine(r.Obs.Line)
					if err != nil {
						break // monitorNested reports it
					}
					var got []string
					for _, m := range v.Members {
						got = append(got, m.Key)
					}
					if fmt.Sprint(got) != fmt.Sprint(ex.keys) {
						c.Violate(Violation{Key: "layout-order", Monitor: "layout", Desc: fmt.Sprintf("%s: %s: member keys %q, want %q", what, ex.what, got, ex.keys), Case: desc, Observed: got, Expected: ex.keys})
					}
				}
			}
			for _, in := range order {
				if !seen[in] {
					c.Violate(Violation{Key: "hooks-not-once-in-order", Monitor: "hooks-once", Desc: what + ": " + expect[in].what + ": the event was never logged (the hook that logs it did not run to its end)", Case: cs.Describe()})
				}
			}
			// every Write on the other writer is the one Write of an event that is to be written: nothing a hook discarded
			// (the outer event included) gets there
			if len(o.NestLines) != wantWrites {
				c.Violate(Violation{Key: "discarded-event-written", Monitor: "discard", Desc: fmt.Sprintf("%s: the writer of the other events received %d Write calls; %d of those events are enabled and undiscarded", what, len(o.NestLines), wantWrites), Case: cs.Describe(), Observed: quoteAll(o.NestLines)})
			}
			c.Hist("c03_interleaved_word_len", fmt.Sprint(len(w)))
			c.Hist("c03_interleaved_outer_discarded", fmt.Sprint(discarded))
			c.Hist("c03_interleaved_panic_level_event", []string{"none", "recovered Logger.Panic() while the outer event is in flight", "recovered Logger.Panic() as the first following event", "WithLevel(PanicLevel) while the outer event is in flight"}[variant])
		}
	}
}

// hookMarksRan: the marks of the event's trace that are marks of its hooks (marshalers inside hooks note their run too)
func hookMarksRan(cs *progs.Case, o progs.Obs) []uint64 {
	set := map[uint64]bool{}
	for _, id := range cs.HookMarks() {
		set[id] = true
	}
	var out []uint64
	for _, m := range o.Marks {
		if set[m] {
			out = append(out, m)
		}
	}
	return out
}
