package main

// C01 / C02 / C03 share one driver: generated logging programs run on the real
// zerolog (JSON build); the Coq model (coq/Api/Exec.v run_chain) must predict
// the exact line and the hook/marshaler trace.  Monitors: C01 independent
// RFC 8259 + UTF-8 validator; C02 decode-back comparison; C03 layout / hooks.

import (
	"bytes"
	"encoding/json"
	"fmt"
	"time"

	"github.com/rs/zerolog"
	"verifharness/hlib"
	. "verifharness/hlib"
	"verifharness/oracle"
	"verifharness/progs"
)

func main() {
	progs.RecordHookCalls = true // this driver is sequential: every harness hook notes the level and message it was handed
	hlib.Main(map[string]func(*hlib.Ctx){"C01": run, "C02": run, "C03": run})
}

const header = "From Verif Require Import Base.Prelude Base.Decimal Enc.JsonEnc Misc.Level Api.Exec Harness.C01H."

func run(c *Ctx) {
	c.Res.Rule = "a case is a whole logging program: global settings, a logger derivation chain (With/UpdateContext with context ops, hooks incl. the library's LevelHook - every harness hook notes the level and message it is handed: they must be the event's level and final message -, byte-neutral Level/Output/Sample, stretches derived while the logger is Disabled or descends from Nop(), stretches derived without a writer - Output(nil) ... Output(w), New(nil) roots; an event logged through a writer-less logger has no line and is judged by the hook monitors only), one event started through WithLevel / the level's method / Logger.Write / Print (level, field ops with nesting Dict/Array/Object/EmbedObject/Fields/Func/errors, message, finalizer); values drawn from class alphabets (escaping/UTF-8 classes, integer/float/time boundaries; directed: json.Marshaler / TextMarshaler values - pretty-printed RawMessage, MarshalIndent types, nil, errors - at the top level and inside containers through every call that ends in InterfaceMarshalFunc, and in a quarter of the Interface/Any values of the random programs; type names with tags, years and zone offsets at the ends of time.Time, neighbouring instants under dot- and comma-fraction layouts, float32 and float64 bit patterns at and next to every threshold of the float text in both widths and signs (C02); another event started on a logger and writer of its own at every kind of place of the program - caller code, callback, marshaler, dict under construction, hook - before / after a Discard(), finalized at once or after the outer event: each inner event is a case of its own, every Write on its writer is accounted for; hook lists in which hooks that draw pooled events - logging through another logger, Dict(), Arr(), Fields with object errors - meet discarding hooks, followed by two more events of the program; groups of loggers sharing one context buffer - relatives obtained from a parent by assignment / Level / Sample / Hook, a logger handed out by a Context that goes on - in which one member rewrites its context through UpdateContext or the Context's continuation, with Reset() first / in the middle / last / absent, and the others and children derived from them log afterwards); corpus of fixed defects first; non-trivial = the event was written and has at least 3 members; distinct by Gallina term"
	c.OpenShards(header, "c01_case * c01_obs", "mismatches c01_run c01_eqb", 400)
	n := 3000
	if c.Thorough() {
		n = 40000
	}
	var emit func(cs *progs.Case) progs.Obs
	emit = func(cs *progs.Case) (o progs.Obs) {
		o = cs.Run()
		term := cs.Coq(o)
		j := map[string]interface{}{"case": cs.Describe(), "written": o.Written, "line": string(bytes.ToValidUTF8(o.Line, []byte("?")))}
		if o.Panic != nil {
			c.Violate(Violation{Key: "logging-call-panicked", Monitor: "no-panic", Desc: fmt.Sprintf("logging program panicked: %v", o.Panic), Case: cs.Describe()})
			return o
		}
		nontrivial := false
		if cs.EndsWriterless() {
			// an event of a logger without a writer (New(nil) / Output(nil)): enabled, built, its hooks run, its bytes
			// go to io.Discard - no line for the model to predict; the monitors below judge the hooks
			term += " (* through a writer-less logger *)"
			c.Hist("writerless_event", "true")
			nontrivial = len(cs.HookMarks()) > 0
			if o.Written {
				c.Note("an event logged through a logger derived with Output(nil) reached the case's writer: %q", o.Line)
			}
		} else {
			c.AddCase(term, j)
		}
		if o.Writes > 1 {
			c.Violate(Violation{Key: "more-than-one-write", Monitor: "one-write", Desc: fmt.Sprintf("%d Write calls for one event", o.Writes), Case: cs.Describe()})
		}
		if why := excludedFragment[cs]; why != "" && o.Written {
			c.Hist("excluded_invalid_fragment", why)
		} else if o.Written {
			v, err := oracle.CheckEventLine(o.Line)
			if err != nil {
				c.Violate(Violation{Key: "event-not-wellformed", Monitor: "rfc8259-validator", Desc: err.Error(), Case: cs.Describe(), Observed: fmt.Sprintf("%q", o.Line)})
			} else if !json.Valid(o.Line) {
				c.Note("validators disagree on %q", o.Line)
			}
			nontrivial = len(v.Members) >= 3
			c.Hist("members", fmt.Sprintf("%d", len(v.Members)/4*4))
		}
		monitorLayout(c, cs, o)
		monitorNested(c, cs, o)
		if cs.Pre != nil {
			c.Hist("filtered_event_before", progs.PreludeModes[cs.Pre.Mode])
			if o.PreWrites > 0 {
				c.Note("a filtered event (%s) was written: %q", progs.PreludeModes[cs.Pre.Mode], o.PreLines[0])
			}
		}
		c.Count(term, nontrivial)
		c.Hist("steps", fmt.Sprintf("%d", len(cs.Steps)))
		c.Hist("written", fmt.Sprint(o.Written))
		c.Sample(j)
		return o
	}
	for _, cs := range corpus() {
		emit(cs)
	}
	// siblings: b := parent.Output(w); both b and parent then grow their context through UpdateContext
	nf := 40
	if c.Thorough() {
		nf = 600
	}
	for i := 0; i < nf; i++ {
		g := &progs.Gen{R: c.R.Fork()}
		st := g.GenSettings()
		g.S, g.Now = st, time.Unix(1700000000, 0).UTC()
		var parent []progs.Step
		for k := 1 + g.R.Intn(2); k > 0; k-- {
			parent = append(parent, progs.Step{Cops: noHooks(g.GenCopsPublic(2, 3))})
		}
		u1, u2 := noHooks(g.GenCopsPublic(1, 3)), noHooks(g.GenCopsPublic(1, 3))
		obs := progs.RunOutputFork(st, g.Now, parent, u1, u2, 1, nil, []byte("fork"))
		for j, u := range [][]progs.Cop{u1, u2} {
			cs := &progs.Case{S: st, Now: g.Now, Steps: append(append([]progs.Step{}, parent...), progs.Step{Update: true, Cops: u}), Level: 1, Msg: []byte("fork")}
			o := obs[j]
			if o.Panic != nil {
				c.Violate(Violation{Key: "logging-call-panicked", Monitor: "no-panic", Desc: fmt.Sprintf("panic: %v", o.Panic), Case: cs.Describe()})
				continue
			}
			c.AddCase(cs.Coq(o), map[string]interface{}{"fork": j, "case": cs.Describe()})
			if o.Written {
				if _, err := oracle.CheckEventLine(o.Line); err != nil {
					c.Violate(Violation{Key: "event-not-wellformed", Monitor: "rfc8259-validator", Desc: "after b := parent.Output(w); b.UpdateContext(..); parent.UpdateContext(..): " + err.Error(), Case: cs.Describe(), Observed: fmt.Sprintf("%q", o.Line)})
				}
			}
			c.Count(cs.Coq(o), true)
		}
	}
	runRelatives(c) // loggers that share a context buffer by value: one of them rewrites its context (Reset() included), the others log afterwards
	switch c.Prop {
	case "C01":
		runC01(c, emit)
	case "C02":
		n /= 3
		runC02(c, emit)
	case "C03":
		n /= 3
		runC03(c, emit)
	}
	for i := 0; i < n; i++ {
		g := &progs.Gen{R: c.R.Fork()}
		cs := g.GenCase(3)
		// (drawn after the case itself, so the programs are those of earlier runs)
		if g.R.Chance(15) {
			// a filtered event on the same logger first: it must leave nothing behind (pooled arrays / dicts it was given)
			cs.Pre = &progs.Prelude{Mode: g.R.Intn(len(progs.PreludeModes)), Ops: g.GenOps(2, 4), Reps: 1 + g.R.Intn(2), Fin: g.R.Intn(4)}
		}
		if g.R.Chance(15) {
			// Context.Caller() / CallerWithSkipFrameCount(k) register hooks like Timestamp() does
			for k := 1 + g.R.Intn(2); k > 0 && len(cs.Steps) > 0; k-- {
				insertCaller(&cs.Steps[g.R.Intn(len(cs.Steps))], g.R)
			}
		}
		varyDerivation(cs, g)
		if g.R.Chance(6) {
			// somewhere in the program (caller code, a callback, a marshaler, a dict under construction, a hook -
			// after its Discard() too) another event is started and finished on a logger and writer of its own
			cs.InsertNested(g, 1+g.R.Intn(2))
		}
		varyIfaceValues(cs, g)
		varyWriter(cs, g)
		emit(cs)
	}
	if c.Prop == "C01" {
		runC01Marshalers(c, emit) // (after the random programs: its cases are long, they go into the last, partly filled shard)
	}
	c.Res.ExtraCoverage["hook_invocations_whose_level_and_message_were_checked"] = hookArgChecks
}

var callerSkips = []int{progs.CallerGlobal, progs.CallerGlobal, 0, 1, 2, progs.CallerBeyond}

// insertCaller puts a caller cop among the context calls of a With() step (before its Hook() calls)
func insertCaller(st *progs.Step, r *Rng) {
	if st.Update {
		return
	}
	idx := len(st.Cops)
	for i, co := range st.Cops {
		if co.K == "hook" {
			idx = i
			break
		}
	}
	at := r.Intn(idx + 1)
	cops := append([]progs.Cop{}, st.Cops[:at]...)
	cops = append(cops, progs.CallerCop(callerSkips[r.Intn(len(callerSkips))]))
	st.Cops = append(cops, st.Cops[at:]...)
}

// varyDerivation (drawn after everything else of the case): the parts of a program that change neither the bytes nor
// the hook list the model predicts, but are other ways through the library: a stretch of the chain derived while the
// logger is Disabled (Level(Disabled) ... Level(x), or a root made by Nop().Output(w)); a LevelHook among the hooks of
// a step; the event started through the level's own method / the io.Writer bridge / Print instead of WithLevel.
func varyDerivation(cs *progs.Case, g *progs.Gen) {
	r := g.R
	if r.Chance(12) && len(cs.Steps) > 0 {
		i := r.Intn(len(cs.Steps))
		cs.Steps[i].Mute = 1
		if j := i + 1 + r.Intn(len(cs.Steps)-i); j < len(cs.Steps) {
			cs.Steps[j].Mute = 2
		}
	}
	if r.Chance(6) {
		cs.Root = 1
	}
	if r.Chance(12) && len(cs.Steps) > 0 {
		if st := &cs.Steps[r.Intn(len(cs.Steps))]; !st.Update {
			st.Cops = append(st.Cops, randomLevelHook(g, 25))
		}
	}
	if r.Chance(25) {
		cs.Entry = 1 + r.Intn(4)
	}
}

// varyWriter (drawn last): a stretch of the chain derived without a writer (Output(nil) ... Output(w); the runner
// attaches the writer again after the last step if the stretch is still open), a New(nil) root; now and then the event
// is logged through the writer-less end of the chain as it is (no line then: the monitors judge its hooks).
func varyWriter(cs *progs.Case, g *progs.Gen) {
	r := g.R
	if r.Chance(10) && len(cs.Steps) > 0 {
		i := r.Intn(len(cs.Steps))
		cs.Steps[i].Out = 1
		if j := i + 1 + r.Intn(len(cs.Steps)-i); j < len(cs.Steps) {
			cs.Steps[j].Out = 2
		}
		cs.NoWriter = r.Chance(30)
	}
	if r.Chance(4) && cs.Root == 0 {
		cs.Root = 2
		cs.NoWriter = r.Chance(30)
	}
}

// varyIfaceValues (drawn last): a quarter of the values the program gives to Interface / Any / Array.Interface - in the
// event, in callbacks, marshalers, dicts, arrays, hooks and the context - become values that produce their own JSON or
// text (progs.MarshalerValues, those with valid results).
func varyIfaceValues(cs *progs.Case, g *progs.Gen) {
	var pool []progs.MarshalerValue
	var walk func(ops []progs.Op)
	walk = func(ops []progs.Op) {
		for i := range ops {
			o := &ops[i]
			if (o.K == "key" || o.K == "aelem") && o.P != nil && (o.P.M == "Interface" || o.P.M == "Any") && g.R.Chance(25) {
				if pool == nil {
					for _, mv := range progs.MarshalerValues() {
						if !mv.Invalid {
							pool = append(pool, mv)
						}
					}
				}
				o.P = &progs.Prim{M: o.P.M, V: pool[g.R.Intn(len(pool))].V}
			}
			walk(o.Sub)
		}
	}
	for i := range cs.Steps {
		for j := range cs.Steps[i].Cops {
			co := &cs.Steps[i].Cops[j]
			if co.K == "op" {
				one := []progs.Op{*co.O}
				walk(one)
				co.O = &one[0]
			}
			if co.K == "hook" || co.K == "object" || co.K == "embed" {
				walk(co.Sub)
			}
		}
	}
	walk(cs.Ops)
}

// randomLevelHook: each of the eight fields left unset with probability unsetPct %, else a hook that notes its run
// and adds a field named after its level
func randomLevelHook(g *progs.Gen, unsetPct int) progs.Cop {
	co := progs.Cop{K: "levelhook"}
	for i := range co.LH {
		if g.R.Chance(unsetPct) {
			continue
		}
		g.MarkID++
		p := progs.Prim{M: "Int", V: i - 1}
		co.LH[i] = []progs.Op{{K: "mark", ID: g.MarkID}, {K: "key", Key: []byte(fmt.Sprintf("lh%d_%d", g.MarkID, i-1)), P: &p}}
	}
	return co
}

// fieldsPrim: how a value given to Fields() is taken by its type switch (strings, []string, time.Time and json.RawMessage have
// their own cases, everything else the sweeps build goes to the default case = InterfaceMarshalFunc)
func fieldsPrim(v interface{}) *progs.Prim {
	switch x := v.(type) {
	case string:
		return &progs.Prim{M: "Str", V: x}
	case []string:
		return &progs.Prim{M: "Strs", V: x}
	case json.RawMessage:
		// Fields has a case of its own for this type: the bytes are spliced in as RawJSON does it - a caller-supplied
		// fragment, in scope only when it is valid JSON without control bytes (nil: no Fields call for this value)
		if !json.Valid(x) || bytes.IndexFunc(x, func(r rune) bool { return r < 0x20 }) >= 0 {
			return nil
		}
		return &progs.Prim{M: "RawJSON", V: x}
	case time.Time:
		return &progs.Prim{M: "Time", V: x}
	}
	return &progs.Prim{M: "Interface", V: v}
}

// C01 directed: every byte class and every escape look-alike (text that is itself encoder output: a backslash
// followed by u003c, n, a quote, ...) inside a value that goes through the reflection marshaler, in every position
// such a value has (plain string, struct field, behind a pointer, slice element, map key, map value), through
// every call that ends in InterfaceMarshalFunc: Interface, Any, Array.Interface, inside Dict, Fields (slice and
// map, default case), an error whose ErrorMarshalFunc result is such a value, Context.Interface.
func runC01(c *Ctx, emit func(cs *progs.Case) progs.Obs) {
	type tx struct {
		b         []byte
		lookalike bool
	}
	var texts []tx
	for _, b := range progs.EscapeLookalikes() {
		texts = append(texts, tx{b, true})
		texts = append(texts, tx{append(append([]byte(`{"html":"`), b...), []byte(`b>"}`)...), true}) // embedded, as in a logged JSON body
	}
	for _, b := range progs.ByteClasses() {
		texts = append(texts, tx{b, false})
	}
	k := 0
	for _, t := range texts {
		for si, sh := range progs.IfaceShapes {
			k++
			if !t.lookalike && !c.Thorough() && (k+si)%4 != 0 {
				continue // quick tier: the plain byte classes visit the shapes in rotation
			}
			cs := ifaceEverywhere(sh.Mk(string(t.b)), false)
			emit(cs)
			c.Hist("c01_iface_shape", sh.Name)
		}
	}
	runC01Texts(c, emit)
	runC01Times(c, emit)
	runNestedSweep(c, emit)
	runC03Interleaved(c, emit, 1<<30) // hooks that draw pooled events (Dict, Arr, another logger) before / after a discarding hook, and the events that follow
}

// ifaceEverywhere: one value through every call that ends in InterfaceMarshalFunc: Interface, Any, Array.Interface,
// inside Dict, Fields (slice and map, default case of the type switch), as the ErrorMarshalFunc answer for AnErr,
// Context.Interface.  more: also Err, Errs, an error inside Fields, the ErrorStackMarshaler answer, inside a Func
// callback, an object marshaler, an array marshaler, an array inside a Dict, a hook, Context.Any / Context.Fields /
// Context.AnErr / a Dict in the context.
func ifaceEverywhere(v interface{}, more bool) *progs.Case {
	ip, ap := progs.Prim{M: "Interface", V: v}, progs.Prim{M: "Any", V: v}
	cs := &progs.Case{S: progs.DefaultSettings(), Level: 1, Msg: []byte("m")}
	cs.Ops = []progs.Op{
		{K: "key", Key: []byte("i"), P: &ip},
		{K: "key", Key: []byte("any"), P: &ap},
		{K: "array", Key: []byte("arr"), Sub: []progs.Op{{K: "aelem", P: &ip}}},
		{K: "dict", Key: []byte("d"), Sub: []progs.Op{{K: "key", Key: []byte("i"), P: &ip}}},
	}
	fp := fieldsPrim(v)
	if fp != nil {
		cs.Ops = append(cs.Ops,
			progs.Op{K: "fields", KVs: []progs.FieldKV{{Key: []byte("fs"), K: "prim", P: fp}}},
			progs.Op{K: "fields", Via: true, KVs: []progs.FieldKV{{Key: []byte("fm"), K: "prim", P: fp}}})
	}
	_, isStr := v.(string)
	if !isStr {
		cs.Ops = append(cs.Ops, progs.Op{K: "anerr", Key: []byte("e"), E: &progs.ErrV{K: "iface", V: v}})
	}
	co := progs.Op{K: "key", Key: []byte("ci"), P: &ip}
	cs.Steps = []progs.Step{{Cops: []progs.Cop{{K: "op", O: &co}}}}
	if !more {
		return cs
	}
	after := progs.Prim{M: "Str", V: "x"}
	ki := func(k string) []progs.Op { return []progs.Op{{K: "key", Key: []byte(k), P: &ip}} }
	cs.S.StackMarshaler = true
	cs.Ops = append(cs.Ops,
		progs.Op{K: "func", Sub: ki("fi")},
		progs.Op{K: "object", Key: []byte("o"), Sub: ki("oi")},
		progs.Op{K: "embed", Sub: ki("ei")},
		progs.Op{K: "array", Key: []byte("am"), Via: true, Sub: []progs.Op{{K: "aelem", P: &ip}, {K: "aelem", P: &ip}}},
		progs.Op{K: "dict", Key: []byte("da"), Sub: []progs.Op{{K: "array", Key: []byte("a"), Sub: []progs.Op{{K: "aelem", P: &ip}, {K: "aobj", Sub: ki("x")}}}}})
	st := progs.Step{Cops: []progs.Cop{{K: "op", O: &progs.Op{K: "key", Key: []byte("cany"), P: &ap}},
		{K: "op", O: &progs.Op{K: "dict", Key: []byte("cd"), Sub: ki("i")}},
		{K: "op", O: &progs.Op{K: "array", Key: []byte("ca"), Sub: []progs.Op{{K: "aelem", P: &ip}}}}}}
	if fp != nil {
		st.Cops = append(st.Cops, progs.Cop{K: "op", O: &progs.Op{K: "fields", KVs: []progs.FieldKV{{Key: []byte("cf"), K: "prim", P: fp}}}})
	}
	if !isStr {
		ev := &progs.ErrV{K: "iface", V: v}
		withStk := &progs.ErrV{K: "text", S: []byte("boom"), Stk: &progs.ErrV{K: "iface", V: v}}
		cs.Ops = append(cs.Ops,
			progs.Op{K: "errs", Key: []byte("es"), Es: []*progs.ErrV{ev, {K: "nil"}, ev}},
			progs.Op{K: "fields", KVs: []progs.FieldKV{{Key: []byte("fe"), K: "err", E: ev}, {Key: []byte("fes"), K: "errs", Es: []*progs.ErrV{ev, ev}}}},
			progs.Op{K: "array", Key: []byte("ae"), Sub: []progs.Op{{K: "aerr", E: ev}}},
			progs.Op{K: "stack"},
			progs.Op{K: "err", E: withStk})
		st.Cops = append(st.Cops, progs.Cop{K: "anerr", Key: []byte("ce"), E: ev})
	}
	cs.Ops = append(cs.Ops, progs.Op{K: "key", Key: []byte("after"), P: &after})
	st.Cops = append(st.Cops, progs.Cop{K: "hook", Sub: ki("hi")})
	cs.Steps = append(cs.Steps, st)
	return cs
}

// excludedFragment: cases whose program hands the library a pre-encoded fragment that is itself invalid (the
// property's exclusion): nothing is demanded of the well-formedness of their line
var excludedFragment = map[*progs.Case]string{}

// runC01Marshalers: values that produce their own JSON or text (json.Marshaler, encoding.TextMarshaler; the table
// progs.MarshalerValues: pretty-printed json.RawMessage documents, MarshalIndent types by value and pointer receiver,
// white space of every kind around every token, nil pointers and nil RawMessages, method errors, invalid results)
// at the top level and inside a slice / map / struct field / behind a pointer to an interface, through every call
// that ends in InterfaceMarshalFunc.  Whatever the method returns, the event stays one line without control bytes:
// the documented default ("encoding/json.Marshal") validates and compacts it.
func runC01Marshalers(c *Ctx, emit func(cs *progs.Case) progs.Obs) {
	wraps := []struct {
		name string
		mk   func(v interface{}) interface{}
	}{
		{"top-level", func(v interface{}) interface{} { return v }},
		{"slice-elem", func(v interface{}) interface{} { return progs.WSlice{1, v, "z"} }},
		{"map-value", func(v interface{}) interface{} { return progs.WMap{"a": v, "b\n": progs.WSlice{v}} }},
		{"struct-field", func(v interface{}) interface{} { return progs.WStruct{N: 1, V: v} }},
		{"pointer-to-struct-field", func(v interface{}) interface{} { return &progs.WStruct{N: 2, V: v, W: progs.WMap{"k": v}} }},
	}
	// the further call sites (Err, Errs, Fields errors, stack answer, callbacks, marshalers, hook, further context calls)
	// are visited by one value of every kind
	everySite := map[string]bool{"RawMessage pretty-printed (newlines, tabs)": true, "*RawMessage pretty-printed": true, "MarshalIndent by value receiver": true,
		"MarshalIndent by pointer receiver (prefix, tabs)": true, "nil pointer of a pointer-receiver marshaler": true, "marshaler returning an error": true,
		"TextMarshaler with quote, backslash, newline, tab, ill-formed byte": true, "marshaler returning nothing": true}
	for vi, mv := range progs.MarshalerValues() {
		for wi, w := range wraps {
			if wi > 0 && !c.Thorough() && vi%(len(wraps)-1)+1 != wi {
				continue // quick tier: the containers in rotation
			}
			cs := ifaceEverywhere(w.mk(mv.V), wi == 0 && (everySite[mv.Name] || c.Thorough()))
			if mv.Invalid {
				excludedFragment[cs] = "a MarshalJSON method of the program returns invalid JSON (" + mv.Name + ")"
			}
			emit(cs)
			c.Hist("c01_marshaler_value", mv.Name)
			c.Hist("c01_marshaler_position", w.name)
		}
	}
}

// runC01Texts: texts the library takes from somewhere else than a string argument and writes as a JSON string: the
// type name Type() logs (reflect.Type.String(): unnamed struct types carry their field tags as quoted Go strings,
// so quote and backslash characters; any letters in field names; generic instantiations), the level text
// (LevelFieldMarshalFunc), the caller text (CallerMarshalFunc: a Windows path).  Through every place such a field
// can be added: event, Dict, Object / EmbedObject marshaler, Func callback, context, hook.
func runC01Texts(c *Ctx, emit func(cs *progs.Case) progs.Obs) {
	everywhere := func(p *progs.Prim, inContext bool) *progs.Case {
		cs := &progs.Case{S: progs.DefaultSettings(), Level: 1, Msg: []byte("m")}
		after := progs.Prim{M: "Str", V: "x"}
		kp := func(k string) []progs.Op { return []progs.Op{{K: "key", Key: []byte(k), P: p}} }
		cs.Ops = []progs.Op{kp("t")[0], {K: "dict", Key: []byte("d"), Sub: kp("dt")}, {K: "object", Key: []byte("o"), Sub: kp("ot")},
			{K: "embed", Sub: kp("et")}, {K: "func", Sub: kp("ft")}, {K: "key", Key: []byte("after"), P: &after}}
		st := progs.Step{}
		if inContext {
			co := kp("ct")[0]
			cd := progs.Op{K: "dict", Key: []byte("cd"), Sub: kp("cdt")}
			st.Cops = append(st.Cops, progs.Cop{K: "op", O: &co}, progs.Cop{K: "op", O: &cd})
		}
		st.Cops = append(st.Cops, progs.Cop{K: "hook", Sub: kp("ht")})
		cs.Steps = []progs.Step{st}
		return cs
	}
	for _, v := range progs.AwkwardTypeValues() {
		emit(everywhere(&progs.Prim{M: "Type", V: v}, progs.ContextHas("Type")))
		c.Hist("c01_text_source", "type-name")
	}
	// the level text and the caller text
	for i, lv := range []int{-1, 0, 1, 3, 5, 6, 8, 127} {
		cs := everywhere(&progs.Prim{M: "Str", V: "v"}, true)
		cs.S.LevelStyle = 4
		cs.Level = lv
		progs.CallerText = []string{`C:\src\app "x"\main.go:42`, "src\x00\n.go:1", "\xff\xc0\xaf.go:7\\"}[i%3]
		cs.Steps[0].Cops = append([]progs.Cop{progs.CallerCop([]int{progs.CallerGlobal, 0, 1}[i%3])}, cs.Steps[0].Cops...)
		emit(cs)
		progs.CallerText = progs.DefaultCallerText
		c.Hist("c01_text_source", "level-and-caller-text")
	}
}

// timeEverywhere: one instant through every call that ends in the time encoder: Time, Times, Array.Time, Dict.Time,
// Fields (time.Time, *time.Time, []time.Time; slice and map), Event.Timestamp(), Context.Time, Context.Timestamp().
func timeEverywhere(t time.Time, s progs.Settings) *progs.Case {
	cs := &progs.Case{S: s, Now: t, Level: 1, Msg: []byte("m")}
	tp := &progs.Prim{M: "Time", V: t}
	tsp := &progs.Prim{M: "Times", V: []time.Time{t, t}}
	after := progs.Prim{M: "Str", V: "x"}
	cs.Ops = []progs.Op{{K: "key", Key: []byte("t"), P: tp}, {K: "key", Key: []byte("ts"), P: tsp},
		{K: "array", Key: []byte("a"), Sub: []progs.Op{{K: "aelem", P: tp}}},
		{K: "dict", Key: []byte("d"), Sub: []progs.Op{{K: "key", Key: []byte("dt"), P: tp}}},
		{K: "fields", KVs: []progs.FieldKV{{Key: []byte("f"), K: "prim", P: tp}, {Key: []byte("fp"), K: "prim", P: tp, Ptr: true}, {Key: []byte("fs"), K: "prim", P: tsp}}},
		{K: "fields", Via: true, KVs: []progs.FieldKV{{Key: []byte("m"), K: "prim", P: tp}}},
		{K: "timestamp", When: t},
		{K: "key", Key: []byte("after"), P: &after}}
	co := progs.Op{K: "key", Key: []byte("ct"), P: tp}
	cs.Steps = []progs.Step{{Cops: []progs.Cop{{K: "op", O: &co}, {K: "timestamp", Sub: []progs.Op{{K: "timestamp", When: t}}}}}}
	return cs
}

// extremeInstants: time VALUES at the ends of what time.Time carries (the exclusion in the property is about layouts):
// years with a sign, with more than four digits, at two's-complement widths and at the representable ends; zone
// offsets beyond a day and beyond two digits of hours; year boundaries that exist only in the zone's wall clock.
func extremeInstants() (out []time.Time) {
	for _, y := range progs.ExtremeYears {
		out = append(out, progs.YearTime(y))
	}
	for _, off := range progs.ExtremeZoneOffsets {
		out = append(out, time.Unix(1700000000, 0).In(time.FixedZone("", off)))
	}
	west, east := time.FixedZone("", -3600), time.FixedZone("", 3600)
	out = append(out,
		time.Date(0, 1, 1, 0, 0, 0, 0, time.UTC).In(west), time.Date(-1, 12, 31, 23, 59, 59, 999999999, time.UTC).In(east),
		time.Date(10000, 1, 1, 0, 0, 0, 0, time.UTC).In(west), time.Date(9999, 12, 31, 23, 59, 59, 999999999, time.UTC).In(east),
		progs.YearTime(-10000).In(time.FixedZone("", 440*3600)), progs.YearTime(10000).In(time.FixedZone("", -440*3600)))
	return
}

// runC01Times: every extreme instant through every time call under the default layout, one instant per case; the same
// instants and a grid of years (every millennium from -70000 to 70000) as slices under further layouts and the UNIX
// formats.
func runC01Times(c *Ctx, emit func(cs *progs.Case) progs.Obs) {
	ext := extremeInstants()
	for _, t := range ext {
		emit(timeEverywhere(t, progs.DefaultSettings()))
		c.Hist("c01_extreme_times", "default layout, one instant everywhere")
	}
	var grid []time.Time
	for y := -70000; y <= 70000; y += 1000 {
		grid = append(grid, progs.YearTime(y+y/1000%7)) // not only round years
	}
	slices := func(ts []time.Time, n int) (out [][]time.Time) {
		for len(ts) > n {
			out = append(out, ts[:n])
			ts = ts[n:]
		}
		return append(out, ts)
	}
	layouts := []string{time.RFC3339, time.RFC3339Nano, time.RFC1123Z, "06-01-02 03:04:05.000PM -07:00:00", "Mon Jan _2 15:04:05 2006 Z0700",
		zerolog.TimeFormatUnix, zerolog.TimeFormatUnixMs, zerolog.TimeFormatUnixNano}
	for li, layout := range layouts {
		s := progs.DefaultSettings()
		s.TimeFormat = layout
		all := append(append([]time.Time{}, ext...), grid...)
		if li >= 2 && !c.Thorough() {
			all = ext
		}
		for _, ts := range slices(all, 24) {
			tsp := &progs.Prim{M: "Times", V: ts}
			cs := &progs.Case{S: s, Level: 1, Msg: []byte("m")}
			cs.Ops = []progs.Op{{K: "key", Key: []byte("ts"), P: tsp}, {K: "fields", KVs: []progs.FieldKV{{Key: []byte("fs"), K: "prim", P: tsp}}}}
			for _, t := range ts[:3] {
				cs.Ops = append(cs.Ops, progs.Op{K: "key", Key: []byte("t"), P: &progs.Prim{M: "Time", V: t}})
			}
			emit(cs)
			c.Hist("c01_extreme_times", "slices under "+layout)
		}
	}
}

func noHooks(cs []progs.Cop) []progs.Cop {
	var out []progs.Cop
	for _, x := range cs {
		if x.K != "hook" && x.K != "timestamp" && x.K != "reset" {
			out = append(out, x)
		}
	}
	return out
}

// C03: hooks attached along the derivation run exactly once each, ancestors first, in registration order
func monitorLayout(c *Ctx, cs *progs.Case, o progs.Obs) { monitorLayoutAs(c, cs, o, nil) }

// monitorLayoutAs: desc, if given, is what a violation shows as its input (an inner event is shown with the program it is part of)
func monitorLayoutAs(c *Ctx, cs *progs.Case, o progs.Obs, desc interface{}) {
	if desc == nil {
		desc = cs.Describe()
	}
	want := cs.HookMarks()
	set := map[uint64]bool{}
	for _, id := range want {
		set[id] = true
	}
	// an event that is not enabled (below the logger's or the global level, rejected by the sampler, started with
	// WithLevel(Disabled)) invokes no hook
	for _, m := range o.PreMarks {
		if set[m] {
			c.Violate(Violation{Key: "hook-ran-for-filtered-event", Monitor: "hooks-once", Desc: fmt.Sprintf("a hook of the logger ran for an event that is not enabled (%s): marks %v", progs.PreludeModes[cs.Pre.Mode], o.PreMarks), Case: desc, Observed: o.PreMarks})
			break
		}
	}
	if cs.Level == 7 {
		for _, m := range o.Marks {
			if set[m] {
				c.Violate(Violation{Key: "hook-ran-for-filtered-event", Monitor: "hooks-once", Desc: fmt.Sprintf("a hook of the logger ran for an event started with WithLevel(Disabled): marks %v", o.Marks), Case: desc, Observed: o.Marks})
				break
			}
		}
		return
	}
	var got []uint64
	for _, m := range o.Marks {
		if set[m] {
			got = append(got, m)
		}
	}
	// a discarding hook does not stop later hooks in the code; the property asks each hook exactly once per enabled event
	if fmt.Sprint(got) != fmt.Sprint(want) {
		c.Violate(Violation{Key: "hooks-not-once-in-order", Monitor: "hooks-once", Desc: fmt.Sprintf("hook invocations %v, want %v", got, want), Case: desc, Observed: got, Expected: want})
	}
	monitorHookArgs(c, cs, o, desc)
}

var hookArgChecks int

// monitorHookArgs (C03: every hook "receives the event's level and final message"): every invocation of a harness
// hook - a Hook() hook at any position of the derivation, the hook a LevelHook holds for the event's level - must have
// been handed
//   - the final message text: the argument of Msg, the formatted text of Msgf, the result of MsgFunc's function, the
//     empty text for Send, the text Print / Printf / Println build in the manner of fmt.Sprint / Sprintf / Sprintln,
//     the bytes given to Logger.Write without the one trailing newline it trims - in every program of this driver that
//     is the case's message;
//   - the event's level (the argument of WithLevel, the level of the method that started the event, Debug for the
//     Print family, NoLevel for Log() and Logger.Write) - or Disabled once a Discard() may have run on the event (in the
//     event's own calls or in an earlier hook; DESIGN.md section 8: nothing more is demanded of the level then).
func monitorHookArgs(c *Ctx, cs *progs.Case, o progs.Obs, desc interface{}) {
	if desc == nil {
		desc = cs.Describe()
	}
	mayBeDisabled := progs.HasDiscard(cs.Ops)
	wantMsg := string(cs.Msg)
	for i, hc := range o.HookCalls {
		hookArgChecks++
		if hc.Msg != wantMsg {
			c.Violate(Violation{Key: "hook-handed-wrong-message", Monitor: "hook-arguments", Desc: fmt.Sprintf("hook invocation %d of the event (mark %d) was handed the message %q; the event's final message is %q (finalizer %d: 0 Msg 1 Send 2 Msgf 3 MsgFunc; started through %s)", i, hc.ID, hc.Msg, wantMsg, cs.Fin, progs.EntryNames[cs.EntryUsed()]), Case: desc, Observed: fmt.Sprintf("%q", hc.Msg), Expected: fmt.Sprintf("%q", wantMsg)})
		}
		if int(hc.Level) != cs.Level && !(mayBeDisabled && hc.Level == zerolog.Disabled) {
			exp := fmt.Sprint(cs.Level)
			if mayBeDisabled {
				exp += " or 7 (Disabled: a Discard() may have run before this hook)"
			}
			c.Violate(Violation{Key: "hook-handed-wrong-level", Monitor: "hook-arguments", Desc: fmt.Sprintf("hook invocation %d of the event (mark %d) was handed level %d; the event's level is %s (started through %s)", i, hc.ID, int(hc.Level), exp, progs.EntryNames[cs.EntryUsed()]), Case: desc, Observed: int(hc.Level), Expected: exp})
		}
		mayBeDisabled = mayBeDisabled || hc.Discards
	}
}
