package main

// C01 / C02 / C03 share one driver: generated logging programs run on the real
// zerolog (JSON build); the Coq model (coq/Api/Exec.v run_chain) must predict
// the exact line and the hook/marshaler trace.  Monitors: C01 independent
// RFC 8259 + UTF-8 validator; C02 decode-back comparison; C03 layout / hooks.

import (
	"bytes"
	"encoding/json"
	"fmt"
	"time"

	"verifharness/hlib"
	. "verifharness/hlib"
	"verifharness/oracle"
	"verifharness/progs"
)

func main() {
	hlib.Main(map[string]func(*hlib.Ctx){"C01": run, "C02": run, "C03": run})
}

const header = "From Verif Require Import Base.Prelude Base.Decimal Enc.JsonEnc Misc.Level Api.Exec Harness.C01H."

func run(c *Ctx) {
	c.Res.Rule = "a case is a whole logging program: global settings, a logger derivation chain (With/UpdateContext with context ops, hooks, byte-neutral Level/Output/Sample), one event (level, field ops with nesting Dict/Array/Object/EmbedObject/Fields/Func/errors, message, finalizer); values drawn from class alphabets (escaping/UTF-8 classes, integer/float/time boundaries); corpus of fixed defects first; non-trivial = the event was written and has at least 3 members; distinct by Gallina term"
	c.OpenShards(header, "c01_case * c01_obs", "mismatches c01_run c01_eqb", 400)
	n := 3000
	if c.Thorough() {
		n = 40000
	}
	var emit func(cs *progs.Case) progs.Obs
	emit = func(cs *progs.Case) (o progs.Obs) {
		o = cs.Run()
		term := cs.Coq(o)
		j := map[string]interface{}{"case": cs.Describe(), "written": o.Written, "line": string(bytes.ToValidUTF8(o.Line, []byte("?")))}
		if o.Panic != nil {
			c.Violate(Violation{Key: "logging-call-panicked", Monitor: "no-panic", Desc: fmt.Sprintf("logging program panicked: %v", o.Panic), Case: cs.Describe()})
			return o
		}
		c.AddCase(term, j)
		nontrivial := false
		if o.Writes > 1 {
			c.Violate(Violation{Key: "more-than-one-write", Monitor: "one-write", Desc: fmt.Sprintf("%d Write calls for one event", o.Writes), Case: cs.Describe()})
		}
		if o.Written {
			v, err := oracle.CheckEventLine(o.Line)
			if err != nil {
				c.Violate(Violation{Key: "event-not-wellformed", Monitor: "rfc8259-validator", Desc: err.Error(), Case: cs.Describe(), Observed: fmt.Sprintf("%q", o.Line)})
			} else if !json.Valid(o.Line) {
				c.Note("validators disagree on %q", o.Line)
			}
			nontrivial = len(v.Members) >= 3
			c.Hist("members", fmt.Sprintf("%d", len(v.Members)/4*4))
		}
		monitorLayout(c, cs, o)
		c.Count(term, nontrivial)
		c.Hist("steps", fmt.Sprintf("%d", len(cs.Steps)))
		c.Hist("written", fmt.Sprint(o.Written))
		c.Sample(j)
		return o
	}
	for _, cs := range corpus() {
		emit(cs)
	}
	// siblings: b := parent.Output(w); both b and parent then grow their context through UpdateContext
	nf := 40
	if c.Thorough() {
		nf = 600
	}
	for i := 0; i < nf; i++ {
		g := &progs.Gen{R: c.R.Fork()}
		st := g.GenSettings()
		g.S, g.Now = st, time.Unix(1700000000, 0).UTC()
		var parent []progs.Step
		for k := 1 + g.R.Intn(2); k > 0; k-- {
			parent = append(parent, progs.Step{Cops: noHooks(g.GenCopsPublic(2, 3))})
		}
		u1, u2 := noHooks(g.GenCopsPublic(1, 3)), noHooks(g.GenCopsPublic(1, 3))
		obs := progs.RunOutputFork(st, g.Now, parent, u1, u2, 1, nil, []byte("fork"))
		for j, u := range [][]progs.Cop{u1, u2} {
			cs := &progs.Case{S: st, Now: g.Now, Steps: append(append([]progs.Step{}, parent...), progs.Step{Update: true, Cops: u}), Level: 1, Msg: []byte("fork")}
			o := obs[j]
			if o.Panic != nil {
				c.Violate(Violation{Key: "logging-call-panicked", Monitor: "no-panic", Desc: fmt.Sprintf("panic: %v", o.Panic), Case: cs.Describe()})
				continue
			}
			c.AddCase(cs.Coq(o), map[string]interface{}{"fork": j, "case": cs.Describe()})
			if o.Written {
				if _, err := oracle.CheckEventLine(o.Line); err != nil {
					c.Violate(Violation{Key: "event-not-wellformed", Monitor: "rfc8259-validator", Desc: "after b := parent.Output(w); b.UpdateContext(..); parent.UpdateContext(..): " + err.Error(), Case: cs.Describe(), Observed: fmt.Sprintf("%q", o.Line)})
				}
			}
			c.Count(cs.Coq(o), true)
		}
	}
	switch c.Prop {
	case "C02":
		n /= 3
		runC02(c, emit)
	case "C03":
		n /= 3
		runC03(c, emit)
	}
	for i := 0; i < n; i++ {
		g := &progs.Gen{R: c.R.Fork()}
		emit(g.GenCase(3))
	}
}

func noHooks(cs []progs.Cop) []progs.Cop {
	var out []progs.Cop
	for _, x := range cs {
		if x.K != "hook" && x.K != "timestamp" && x.K != "reset" {
			out = append(out, x)
		}
	}
	return out
}

// C03: hooks attached along the derivation run exactly once each, ancestors first, in registration order
func monitorLayout(c *Ctx, cs *progs.Case, o progs.Obs) {
	want := cs.HookMarks()
	set := map[uint64]bool{}
	for _, id := range want {
		set[id] = true
	}
	var got []uint64
	for _, m := range o.Marks {
		if set[m] {
			got = append(got, m)
		}
	}
	// a discarding hook does not stop later hooks in the code; the property asks each hook exactly once per enabled event
	if fmt.Sprint(got) != fmt.Sprint(want) {
		c.Violate(Violation{Key: "hooks-not-once-in-order", Monitor: "hooks-once", Desc: fmt.Sprintf("hook invocations %v, want %v", got, want), Case: cs.Describe(), Observed: got, Expected: want})
	}
}
