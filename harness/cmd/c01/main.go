package main

// C01 / C02 / C03 share one driver: generated logging programs run on the real
// zerolog (JSON build); the Coq model (coq/Api/Exec.v run_chain) must predict
// the exact line and the hook/marshaler trace.  Monitors: C01 independent
// RFC 8259 + UTF-8 validator; C02 decode-back comparison; C03 layout / hooks.

import (
	"bytes"
	"encoding/json"
	"fmt"
	"time"

	"verifharness/hlib"
	. "verifharness/hlib"
	"verifharness/oracle"
	"verifharness/progs"
)

func main() {
	hlib.Main(map[string]func(*hlib.Ctx){"C01": run, "C02": run, "C03": run})
}

const header = "From Verif Require Import Base.Prelude Base.Decimal Enc.JsonEnc Misc.Level Api.Exec Harness.C01H."

func run(c *Ctx) {
	c.Res.Rule = "a case is a whole logging program: global settings, a logger derivation chain (With/UpdateContext with context ops, hooks, byte-neutral Level/Output/Sample), one event (level, field ops with nesting Dict/Array/Object/EmbedObject/Fields/Func/errors, message, finalizer); values drawn from class alphabets (escaping/UTF-8 classes, integer/float/time boundaries); corpus of fixed defects first; non-trivial = the event was written and has at least 3 members; distinct by Gallina term"
	c.OpenShards(header, "c01_case * c01_obs", "mismatches c01_run c01_eqb", 400)
	n := 3000
	if c.Thorough() {
		n = 40000
	}
	var emit func(cs *progs.Case) progs.Obs
	emit = func(cs *progs.Case) (o progs.Obs) {
		o = cs.Run()
		term := cs.Coq(o)
		j := map[string]interface{}{"case": cs.Describe(), "written": o.Written, "line": string(bytes.ToValidUTF8(o.Line, []byte("?")))}
		if o.Panic != nil {
			c.Violate(Violation{Key: "logging-call-panicked", Monitor: "no-panic", Desc: fmt.Sprintf("logging program panicked: %v", o.Panic), Case: cs.Describe()})
			return o
		}
		c.AddCase(term, j)
		nontrivial := false
		if o.Writes > 1 {
			c.Violate(Violation{Key: "more-than-one-write", Monitor: "one-write", Desc: fmt.Sprintf("%d Write calls for one event", o.Writes), Case: cs.Describe()})
		}
		if o.Written {
			v, err := oracle.CheckEventLine(o.Line)
			if err != nil {
				c.Violate(Violation{Key: "event-not-wellformed", Monitor: "rfc8259-validator", Desc: err.Error(), Case: cs.Describe(), Observed: fmt.Sprintf("%q", o.Line)})
			} else if !json.Valid(o.Line) {
				c.Note("validators disagree on %q", o.Line)
			}
			nontrivial = len(v.Members) >= 3
			c.Hist("members", fmt.Sprintf("%d", len(v.Members)/4*4))
		}
		monitorLayout(c, cs, o)
		if cs.Pre != nil {
			c.Hist("filtered_event_before", progs.PreludeModes[cs.Pre.Mode])
			if o.PreWrites > 0 {
				c.Note("a filtered event (%s) was written: %q", progs.PreludeModes[cs.Pre.Mode], o.PreLines[0])
			}
		}
		c.Count(term, nontrivial)
		c.Hist("steps", fmt.Sprintf("%d", len(cs.Steps)))
		c.Hist("written", fmt.Sprint(o.Written))
		c.Sample(j)
		return o
	}
	for _, cs := range corpus() {
		emit(cs)
	}
	// siblings: b := parent.Output(w); both b and parent then grow their context through UpdateContext
	nf := 40
	if c.Thorough() {
		nf = 600
	}
	for i := 0; i < nf; i++ {
		g := &progs.Gen{R: c.R.Fork()}
		st := g.GenSettings()
		g.S, g.Now = st, time.Unix(1700000000, 0).UTC()
		var parent []progs.Step
		for k := 1 + g.R.Intn(2); k > 0; k-- {
			parent = append(parent, progs.Step{Cops: noHooks(g.GenCopsPublic(2, 3))})
		}
		u1, u2 := noHooks(g.GenCopsPublic(1, 3)), noHooks(g.GenCopsPublic(1, 3))
		obs := progs.RunOutputFork(st, g.Now, parent, u1, u2, 1, nil, []byte("fork"))
		for j, u := range [][]progs.Cop{u1, u2} {
			cs := &progs.Case{S: st, Now: g.Now, Steps: append(append([]progs.Step{}, parent...), progs.Step{Update: true, Cops: u}), Level: 1, Msg: []byte("fork")}
			o := obs[j]
			if o.Panic != nil {
				c.Violate(Violation{Key: "logging-call-panicked", Monitor: "no-panic", Desc: fmt.Sprintf("panic: %v", o.Panic), Case: cs.Describe()})
				continue
			}
			c.AddCase(cs.Coq(o), map[string]interface{}{"fork": j, "case": cs.Describe()})
			if o.Written {
				if _, err := oracle.CheckEventLine(o.Line); err != nil {
					c.Violate(Violation{Key: "event-not-wellformed", Monitor: "rfc8259-validator", Desc: "after b := parent.Output(w); b.UpdateContext(..); parent.UpdateContext(..): " + err.Error(), Case: cs.Describe(), Observed: fmt.Sprintf("%q", o.Line)})
				}
			}
			c.Count(cs.Coq(o), true)
		}
	}
	switch c.Prop {
	case "C01":
		runC01(c, emit)
	case "C02":
		n /= 3
		runC02(c, emit)
	case "C03":
		n /= 3
		runC03(c, emit)
	}
	for i := 0; i < n; i++ {
		g := &progs.Gen{R: c.R.Fork()}
		cs := g.GenCase(3)
		// (drawn after the case itself, so the programs are those of earlier runs)
		if g.R.Chance(15) {
			// a filtered event on the same logger first: it must leave nothing behind (pooled arrays / dicts it was given)
			cs.Pre = &progs.Prelude{Mode: g.R.Intn(len(progs.PreludeModes)), Ops: g.GenOps(2, 4), Reps: 1 + g.R.Intn(2), Fin: g.R.Intn(4)}
		}
		if g.R.Chance(15) {
			// Context.Caller() / CallerWithSkipFrameCount(k) register hooks like Timestamp() does
			for k := 1 + g.R.Intn(2); k > 0 && len(cs.Steps) > 0; k-- {
				insertCaller(&cs.Steps[g.R.Intn(len(cs.Steps))], g.R)
			}
		}
		emit(cs)
	}
}

var callerSkips = []int{progs.CallerGlobal, progs.CallerGlobal, 0, 1, 2, progs.CallerBeyond}

// insertCaller puts a caller cop among the context calls of a With() step (before its Hook() calls)
func insertCaller(st *progs.Step, r *Rng) {
	if st.Update {
		return
	}
	idx := len(st.Cops)
	for i, co := range st.Cops {
		if co.K == "hook" {
			idx = i
			break
		}
	}
	at := r.Intn(idx + 1)
	cops := append([]progs.Cop{}, st.Cops[:at]...)
	cops = append(cops, progs.CallerCop(callerSkips[r.Intn(len(callerSkips))]))
	st.Cops = append(cops, st.Cops[at:]...)
}

// fieldsPrim: how a value given to Fields() is taken by its type switch (strings and []string have their own
// cases, everything else the sweep builds goes to the default case = InterfaceMarshalFunc)
func fieldsPrim(v interface{}) *progs.Prim {
	switch x := v.(type) {
	case string:
		return &progs.Prim{M: "Str", V: x}
	case []string:
		return &progs.Prim{M: "Strs", V: x}
	}
	return &progs.Prim{M: "Interface", V: v}
}

// C01 directed: every byte class and every escape look-alike (text that is itself encoder output: a backslash
// followed by u003c, n, a quote, ...) inside a value that goes through the reflection marshaler, in every position
// such a value has (plain string, struct field, behind a pointer, slice element, map key, map value), through
// every call that ends in InterfaceMarshalFunc: Interface, Any, Array.Interface, inside Dict, Fields (slice and
// map, default case), an error whose ErrorMarshalFunc result is such a value, Context.Interface.
func runC01(c *Ctx, emit func(cs *progs.Case) progs.Obs) {
	type tx struct {
		b         []byte
		lookalike bool
	}
	var texts []tx
	for _, b := range progs.EscapeLookalikes() {
		texts = append(texts, tx{b, true})
		texts = append(texts, tx{append(append([]byte(`{"html":"`), b...), []byte(`b>"}`)...), true}) // embedded, as in a logged JSON body
	}
	for _, b := range progs.ByteClasses() {
		texts = append(texts, tx{b, false})
	}
	k := 0
	for _, t := range texts {
		for si, sh := range progs.IfaceShapes {
			k++
			if !t.lookalike && !c.Thorough() && (k+si)%4 != 0 {
				continue // quick tier: the plain byte classes visit the shapes in rotation
			}
			v := sh.Mk(string(t.b))
			ip, ap := progs.Prim{M: "Interface", V: v}, progs.Prim{M: "Any", V: v}
			cs := &progs.Case{S: progs.DefaultSettings(), Level: 1, Msg: []byte("m")}
			cs.Ops = []progs.Op{
				{K: "key", Key: []byte("i"), P: &ip},
				{K: "key", Key: []byte("any"), P: &ap},
				{K: "array", Key: []byte("arr"), Sub: []progs.Op{{K: "aelem", P: &ip}}},
				{K: "dict", Key: []byte("d"), Sub: []progs.Op{{K: "key", Key: []byte("i"), P: &ip}}},
				{K: "fields", KVs: []progs.FieldKV{{Key: []byte("fs"), K: "prim", P: fieldsPrim(v)}}},
				{K: "fields", Via: true, KVs: []progs.FieldKV{{Key: []byte("fm"), K: "prim", P: fieldsPrim(v)}}},
			}
			if _, isStr := v.(string); !isStr {
				cs.Ops = append(cs.Ops, progs.Op{K: "anerr", Key: []byte("e"), E: &progs.ErrV{K: "iface", V: v}})
			}
			co := progs.Op{K: "key", Key: []byte("ci"), P: &ip}
			cs.Steps = []progs.Step{{Cops: []progs.Cop{{K: "op", O: &co}}}}
			emit(cs)
			c.Hist("c01_iface_shape", sh.Name)
		}
	}
}

func noHooks(cs []progs.Cop) []progs.Cop {
	var out []progs.Cop
	for _, x := range cs {
		if x.K != "hook" && x.K != "timestamp" && x.K != "reset" {
			out = append(out, x)
		}
	}
	return out
}

// C03: hooks attached along the derivation run exactly once each, ancestors first, in registration order
func monitorLayout(c *Ctx, cs *progs.Case, o progs.Obs) {
	want := cs.HookMarks()
	set := map[uint64]bool{}
	for _, id := range want {
		set[id] = true
	}
	// an event that is not enabled (below the logger's or the global level, rejected by the sampler, started with
	// WithLevel(Disabled)) invokes no hook
	for _, m := range o.PreMarks {
		if set[m] {
			c.Violate(Violation{Key: "hook-ran-for-filtered-event", Monitor: "hooks-once", Desc: fmt.Sprintf("a hook of the logger ran for an event that is not enabled (%s): marks %v", progs.PreludeModes[cs.Pre.Mode], o.PreMarks), Case: cs.Describe(), Observed: o.PreMarks})
			break
		}
	}
	if cs.Level == 7 {
		for _, m := range o.Marks {
			if set[m] {
				c.Violate(Violation{Key: "hook-ran-for-filtered-event", Monitor: "hooks-once", Desc: fmt.Sprintf("a hook of the logger ran for an event started with WithLevel(Disabled): marks %v", o.Marks), Case: cs.Describe(), Observed: o.Marks})
				break
			}
		}
		return
	}
	var got []uint64
	for _, m := range o.Marks {
		if set[m] {
			got = append(got, m)
		}
	}
	// a discarding hook does not stop later hooks in the code; the property asks each hook exactly once per enabled event
	if fmt.Sprint(got) != fmt.Sprint(want) {
		c.Violate(Violation{Key: "hooks-not-once-in-order", Monitor: "hooks-once", Desc: fmt.Sprintf("hook invocations %v, want %v", got, want), Case: cs.Describe(), Observed: got, Expected: want})
	}
}
