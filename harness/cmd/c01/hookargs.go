package main

// C03: every hook "receives the event's level and final message".  The monitor is monitorHookArgs (main.go), applied to
// every event of this driver; the directed programs here put recording hooks at every kind of position of a derivation
// (alone, before / after / between Timestamp() and Caller() hooks, inside and around a LevelHook, before and after a
// hook that discards, registered while the chain is Disabled or descends from Nop()) and send events of every level
// through every entry point and finalizer with messages chosen so that the text before and after formatting, with and
// without the newline of Println / Logger.Write, empty and non-empty, cannot be confused.

import (
	"fmt"
	"strings"
	"time"

	. "verifharness/hlib"
	"verifharness/progs"
)

func runC03HookArgs(c *Ctx, emit func(cs *progs.Case) progs.Obs) {
	s := progs.DefaultSettings()
	now := time.Unix(1700000000, 0).UTC()
	ep := progs.Prim{M: "Str", V: "v"}
	msgs := []string{"m", "", "%s", "100%", "%d items, %v", "two\nlines", "ends in a newline\n", "\n", "%!s(MISSING)", "caf\xc3\xa9 \xff \"q\" \\", strings.Repeat("long message ", 50)}
	words := []string{"H", "HH", "TH", "HT", "CH", "HKH", "LH", "HL", "HLH", "TLCH", "HTHLH", "HXH", "XLH", "HXLH", "XX", "HDHEH", "DHLEH", "NHLH", "NHEH"}
	levels := []int{-1, 0, 1, 2, 3, 4, 5, 6, 8}
	run := func(word string, grouping, level int, msg string, fin, entry int, withField bool) {
		steps, _, _ := hookChainAt(word, grouping, s, now, level, 0xff)
		cs := &progs.Case{S: s, Now: now, Steps: steps, Level: level, Msg: []byte(msg), Fin: fin, Entry: entry}
		if strings.HasPrefix(word, "N") {
			cs.Root = 1
		}
		if withField {
			cs.Ops = []progs.Op{{K: "key", Key: []byte("e"), P: &ep}}
		}
		if cs.EntryUsed() != entry {
			return // this level / message has no such entry point
		}
		before := hookArgChecks
		o := emit(cs) // monitorLayout: each hook once and in order; monitorHookArgs: level and message
		if hookArgChecks == before && o.Panic == nil {
			c.Violate(Violation{Key: "hooks-not-once-in-order", Monitor: "hook-arguments", Desc: "no recording hook ran for an enabled event of a derivation that registers at least one", Case: cs.Describe()})
		}
		c.Hist("c03_hookargs_entry", progs.EntryNames[entry])
		c.Hist("c03_hookargs_finalizer", fmt.Sprint(fin))
	}
	// (1) positions x levels; message, finalizer and grouping in rotation
	k := 0
	for _, w := range words {
		for _, lv := range levels {
			k++
			run(w, k%2, lv, msgs[k%len(msgs)], (k/3)%4, 0, k%3 != 0)
		}
	}
	// (2) messages x finalizers on a chain with hooks before, inside and after a LevelHook, through WithLevel and the
	// level's own method; an event that its own call discards before the finalizer
	for mi, msg := range msgs {
		for fin := 0; fin < 4; fin++ {
			k++
			run("HLTH", k%2, []int{1, 6, 3, 0, 2}[k%5], msg, fin, k%2, true)
		}
		steps, _, _ := hookChainAt("HLH", mi%2, s, now, 2, 0xff)
		cs := &progs.Case{S: s, Now: now, Steps: steps, Level: 2, Msg: []byte(msg), Fin: mi % 4, Ops: []progs.Op{{K: "key", Key: []byte("e"), P: &ep}, {K: "discard"}}}
		emit(cs)
	}
	// (3) the entry points that build the message themselves: Logger.Write (one trailing newline trimmed), Print,
	// Printf, Println (a newline added), on every position word
	for _, entry := range []int{2, 3, 4, 5} {
		for mi, msg := range msgs {
			if entry == 5 {
				msg += "\n" // what Println hands on for the text msg
			}
			for wi, w := range words {
				if (mi+wi+entry)%4 != 0 && w != "HLH" {
					continue
				}
				run(w, (mi+wi)%2, map[int]int{2: 6, 3: 0, 4: 0, 5: 0}[entry], msg, 0, entry, false)
			}
		}
	}
}
