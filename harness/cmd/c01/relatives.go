package main

// Loggers that share a context buffer (progs/run.go, "relatives"): Level / Sample / Hook / assignment copy the Logger
// struct, so a parent and the loggers obtained from it by value view ONE backing array; UpdateContext hands its callback
// that very slice, and a half-built Context can hand out a logger (ctx.Logger()) and go on.  Programs here let one
// member of such a group rewrite its context - fields appended, Reset() at the start / in the middle / at the end of
// the callback, a second UpdateContext afterwards - and only THEN log through all the others (and through children
// derived from them after the update): every line is one well-formed object (C01) with the level, the context fields of
// the logger's OWN derivation path, the event field, the hooks of its path and the message, each once (C03), and is
// what the model says for that path.

import (
	"fmt"
	"time"

	. "verifharness/hlib"
	"verifharness/oracle"
	"verifharness/progs"
)

func runRelatives(c *Ctx) {
	rr := *c.R // (a copy: the programs drawn after this sweep are those of earlier runs)
	n := 90
	if c.Thorough() {
		n = 1500
	}
	now := time.Unix(1700000000, 0).UTC()
	for i := 0; i < n; i++ {
		r := rr.Fork()
		g := &progs.Gen{R: r, Now: now}
		s := progs.DefaultSettings()
		if i%3 == 2 {
			s = g.GenSettings()
			s.MessageName, s.LevelName = "message", "level" // (the layout below names them)
		}
		g.S = s
		seq := 0
		// fields with unique keys; the values' texts have every length from 0 to some twenty bytes, so that what a
		// rewritten buffer shows through an older, longer or shorter view is cut at every kind of place
		field := func(prefix string) (progs.Cop, string) {
			seq++
			k := fmt.Sprintf("%s%d", prefix, seq)
			var p progs.Prim
			switch r.Intn(6) {
			case 0:
				p = progs.Prim{M: "Int", V: []int{0, 7, -12, 123456, 1 << 40}[r.Intn(5)]}
			case 1:
				p = progs.Prim{M: "Bool", V: r.Bool()}
			case 2:
				p = progs.GenPrim(r, "Str")
			default:
				p = progs.Prim{M: "Str", V: "checkout-eu-west-1-replica"[:r.Intn(27)]}
			}
			o := progs.Op{K: "key", Key: []byte(k), P: &p}
			if r.Chance(12) {
				d := progs.Op{K: "dict", Key: []byte(k), Sub: []progs.Op{o}}
				return progs.Cop{K: "op", O: &d}, k
			}
			return progs.Cop{K: "op", O: &o}, k
		}
		fields := func(prefix string, lo, hi int) (cops []progs.Cop, keys []string) {
			for q := r.Range(lo, hi); q > 0; q-- {
				co, k := field(prefix)
				cops, keys = append(cops, co), append(keys, k)
			}
			return
		}
		hook := func(prefix string) ([]progs.Op, string) {
			seq++
			g.MarkID++
			k := fmt.Sprintf("%s%d", prefix, seq)
			return []progs.Op{{K: "mark", ID: g.MarkID}, {K: "key", Key: []byte(k), P: &progs.Prim{M: "Int", V: seq}}}, k
		}
		// the parent: one to three With() steps with fields (the last one always has some), now and then a hook
		var parent []progs.Step
		var pCtx, pHooks []string
		for d, depth := 0, 1+r.Intn(3); d < depth; d++ {
			lo := 0
			if d == depth-1 {
				lo = 1
			}
			cops, keys := fields("p", lo, 3)
			st := progs.Step{Cops: cops, Noise: r.Intn(5)}
			pCtx = append(pCtx, keys...)
			if r.Chance(25) {
				h, k := hook("ph")
				st.Cops = append(st.Cops, progs.Cop{K: "hook", Sub: h})
				pHooks = append(pHooks, k)
			}
			parent = append(parent, st)
		}
		ep := progs.Prim{M: "Str", V: "v"}
		evOps := []progs.Op{{K: "key", Key: []byte("e"), P: &ep}}
		level := []int{1, 4, 0, 6, 3}[i%5]
		msg := []byte(fmt.Sprintf("rel%d", i))
		layout := func(ctx, hooks []string) []string {
			var want []string
			if level != 6 {
				want = append(want, s.LevelName)
			}
			want = append(append(append(want, ctx...), "e"), hooks...)
			return append(want, s.MessageName)
		}
		// the rewrite: fields, with a Reset() at the start / in the middle / at the end / nowhere
		rewrite := func(prefix string, resetAt int) (cops []progs.Cop, apply func(ctx []string) []string) {
			a, ka := fields(prefix, 0, 2)
			b, kb := fields(prefix, 0, 3)
			switch resetAt {
			case 0: // Reset() first, then fields
				a, ka = nil, nil
			case 1: // fields, Reset(), fields
			case 2: // fields, Reset() last
				b, kb = nil, nil
			}
			if resetAt > 2 { // no Reset(): fields only
				cops = append(append(cops, a...), b...)
				return cops, func(ctx []string) []string { return append(append(append([]string{}, ctx...), ka...), kb...) }
			}
			cops = append(append(append(cops, a...), progs.Cop{K: "reset"}), b...)
			return cops, func(ctx []string) []string { return append([]string{}, kb...) }
		}
		describe := func(steps []progs.Step) interface{} {
			return (&progs.Case{S: s, Now: now, Steps: steps, Level: level, Ops: evOps, Msg: msg}).Describe()
		}
		check := func(what string, prog map[string]interface{}, steps []progs.Step, o progs.Obs, want []string) {
			cs := &progs.Case{S: s, Now: now, Steps: steps, Level: level, Ops: evOps, Msg: msg}
			desc := map[string]interface{}{"program": prog, "event_logged_through": what, "derivation_path_of_that_logger": cs.Describe()}
			if o.Panic != nil {
				c.Violate(Violation{Key: "logging-call-panicked", Monitor: "no-panic", Desc: fmt.Sprintf("%s: panic: %v", what, o.Panic), Case: desc})
				return
			}
			term := cs.Coq(o)
			c.AddCase(term, map[string]interface{}{"relatives": desc, "written": o.Written, "line": string(o.Line)})
			c.Count(term, true)
			if o.Writes > 1 {
				c.Violate(Violation{Key: "more-than-one-write", Monitor: "one-write", Desc: fmt.Sprintf("%s: %d Write calls for one event", what, o.Writes), Case: desc})
			}
			if !o.Written {
				if c.Prop == "C03" {
					c.Violate(Violation{Key: "enabled-event-not-written", Monitor: "layout", Desc: what + ": an enabled, undiscarded event was not written", Case: desc})
				}
				return
			}
			v, err := oracle.CheckEventLine(o.Line)
			if err != nil {
				c.Violate(Violation{Key: "event-not-wellformed", Monitor: "rfc8259-validator", Desc: what + ", after another logger sharing its context buffer rewrote its own context: " + err.Error(), Case: desc, Observed: fmt.Sprintf("%q", o.Line)})
				return
			}
			if c.Prop != "C03" {
				return // (the layout is C03's statement)
			}
			var got []string
			for _, m := range v.Members {
				got = append(got, m.Key)
			}
			if fmt.Sprint(got) != fmt.Sprint(want) {
				c.Violate(Violation{Key: "layout-order", Monitor: "layout", Desc: fmt.Sprintf("%s, after another logger sharing its context buffer rewrote its own context: member keys %q, want %q (level, the context fields of this logger's own path, the event field, the hooks of its path, message)", what, got, want), Case: desc, Observed: got, Expected: want})
			}
			monitorLayoutAs(c, cs, o, desc)
		}
		if i%6 == 5 {
			// a Context that hands out a logger and goes on: kept := ctx.Logger(); other := ctx.Reset()...Logger()
			first, k1 := fields("f", 1, 3)
			rest, k2 := fields("g", 0, 3)
			obs := progs.RunContextFork(s, now, parent, first, rest, level, evOps, msg)
			prog := map[string]interface{}{"shape": "ctx := p.With()<first>; kept := ctx.Logger(); other := ctx.Reset()<rest>.Logger(); kept logs, other logs",
				"p": describe(parent), "first": k1, "rest": k2}
			keptSteps := append(append([]progs.Step{}, parent...), progs.Step{Cops: first})
			all := append(append(append([]progs.Cop{}, first...), progs.Cop{K: "reset"}), rest...)
			otherSteps := append(append([]progs.Step{}, parent...), progs.Step{Cops: all})
			check("kept (taken from the Context before its Reset())", prog, keptSteps, obs[0], layout(append(append([]string{}, pCtx...), k1...), pHooks))
			check("other (built after the Reset())", prog, otherSteps, obs[1], layout(k2, pHooks))
			c.Hist("relatives_shape", "context hands out a logger, then Reset()")
			continue
		}
		// relatives by value
		nr := 1 + r.Intn(3)
		rels := make([]progs.Relative, nr)
		relHook := make([]string, nr)
		relKid := make([][]string, nr)
		for j := range rels {
			rels[j].Via = (i + j + r.Intn(2)) % len(progs.RelativeVia)
			if rels[j].HasHook() {
				rels[j].Hook, relHook[j] = hook("rh")
			}
		}
		updater := -1
		if r.Chance(30) {
			updater = r.Intn(nr)
		}
		for j := range rels {
			if j != updater && r.Chance(30) {
				rels[j].Kid, relKid[j] = fields("k", 0, 2)
				if rels[j].Kid == nil {
					rels[j].Kid = []progs.Cop{}
				}
			}
		}
		resetAt := []int{0, 0, 1, 2, 3}[(i/2)%5]
		upd, ap1 := rewrite("u", resetAt)
		var upd2 []progs.Cop
		ap2 := func(ctx []string) []string { return ctx }
		if r.Chance(25) {
			upd2, ap2 = rewrite("v", []int{3, 0, 3, 1}[r.Intn(4)])
			if upd2 == nil {
				upd2 = []progs.Cop{}
			}
		}
		obs := progs.RunRelatives(s, now, parent, rels, updater, upd, upd2, level, evOps, msg)
		var rd []interface{}
		for j := range rels {
			d := map[string]interface{}{"derived_from_p_by": progs.RelativeVia[rels[j].Via]}
			if rels[j].HasHook() {
				d["hook_field"] = relHook[j]
			}
			if rels[j].Kid != nil {
				d["logs_through_a_child_derived_after_the_update_with_fields"] = relKid[j]
			}
			rd = append(rd, d)
		}
		who := "p"
		if updater >= 0 {
			who = fmt.Sprintf("relative %d", updater)
		}
		prog := map[string]interface{}{"shape": "p := parent chain; relatives derived from p by value; ONE of the group calls UpdateContext; then every relative logs, then p",
			"p": describe(parent), "relatives": rd, "UpdateContext_called_on": who,
			"update": describe([]progs.Step{{Update: true, Cops: upd}}), "reset_in_update": []string{"first", "in the middle", "last", "none"}[resetAt]}
		if upd2 != nil {
			prog["second_update"] = describe([]progs.Step{{Update: true, Cops: upd2}})
		}
		updSteps := []progs.Step{{Update: true, Cops: upd}}
		if upd2 != nil {
			updSteps = append(updSteps, progs.Step{Update: true, Cops: upd2})
		}
		for j := range rels {
			steps := append(append([]progs.Step{}, parent...), rels[j].Steps()...)
			ctx := append([]string{}, pCtx...)
			hooks := append([]string{}, pHooks...)
			if rels[j].HasHook() {
				hooks = append(hooks, relHook[j])
			}
			what := fmt.Sprintf("relative %d (%s)", j, progs.RelativeVia[rels[j].Via])
			if j == updater {
				steps = append(steps, updSteps...)
				ctx = ap2(ap1(ctx))
				what += ", the one that called UpdateContext"
			} else if rels[j].Kid != nil {
				ctx = append(ctx, relKid[j]...)
				what += ", through a child derived from it after the update"
			}
			check(what, prog, steps, obs[j], layout(ctx, hooks))
		}
		pSteps := append([]progs.Step{}, parent...)
		ctx := append([]string{}, pCtx...)
		what := "p"
		if updater < 0 {
			pSteps = append(pSteps, updSteps...)
			ctx = ap2(ap1(ctx))
			what = "p, the one that called UpdateContext"
		}
		check(what, prog, pSteps, obs[nr], layout(ctx, pHooks))
		c.Hist("relatives_shape", "value-derived relatives, UpdateContext on "+map[bool]string{true: "the parent", false: "a relative"}[updater < 0])
		c.Hist("relatives_reset_in_update", []string{"first", "in the middle", "last", "none"}[resetAt])
	}
}
