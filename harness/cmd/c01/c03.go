package main

// C03: layout-directed cases. Derivation chains with uniquely named context
// fields and hooks, events with uniquely named fields; the monitor
// (independent of the Coq model) reads the member order back with the oracle
// parser and compares it with: level, context fields root-down, event fields
// in call order, hook fields in registration order (ancestors first), message.

import (
	"fmt"
	"time"

	. "verifharness/hlib"
	"verifharness/oracle"
	"verifharness/progs"
)

func runC03(c *Ctx, emit func(cs *progs.Case) progs.Obs) {
	n := 400
	if c.Thorough() {
		n = 6000
	}
	for i := 0; i < n; i++ {
		r := c.R.Fork()
		g := &progs.Gen{R: r}
		s := g.GenSettings()
		g.Now = progs.GenTime(r)
		cs := &progs.Case{S: s, Now: g.Now}
		seq := 0
		name := func(prefix string) []byte { seq++; return []byte(fmt.Sprintf("%s%d", prefix, seq)) }
		field := func(prefix string) (progs.Op, string) {
			k := name(prefix)
			ms := []string{"Str", "Int", "Bool", "Float64", "Strs", "Dur", "Time", "Bytes", "Uint8"}
			p := progs.GenPrim(r, ms[r.Intn(len(ms))])
			return progs.Op{K: "key", Key: k, P: &p}, string(k)
		}
		var ctxKeys, hookKeys, evKeys []string
		var hookIDs []uint64
		depth := r.Intn(7)
		for d := 0; d < depth; d++ {
			st := progs.Step{Update: r.Chance(20), Noise: r.Intn(5)}
			nf := r.Intn(4)
			var stepCtx []string
			for j := 0; j < nf; j++ {
				o, k := field("c")
				switch r.Intn(6) {
				case 0:
					st.Cops = append(st.Cops, progs.Cop{K: "object", Key: []byte(k), Sub: nil})
				case 1:
					d := progs.Op{K: "dict", Key: []byte(k), Sub: []progs.Op{o}}
					st.Cops = append(st.Cops, progs.Cop{K: "op", O: &d})
				default:
					oo := o
					st.Cops = append(st.Cops, progs.Cop{K: "op", O: &oo})
				}
				stepCtx = append(stepCtx, k)
			}
			if r.Chance(8) {
				st.Cops = append(st.Cops, progs.Cop{K: "reset"})
				ctxKeys, stepCtx = nil, nil
			}
			ctxKeys = append(ctxKeys, stepCtx...)
			if !st.Update {
				// Context.Timestamp() registers a hook at this point of the path: after the hooks of
				// the ancestors, before the hooks this step adds with Hook()
				for q := 0; q < 2; q++ {
					if r.Chance(20) && s.TimestampName != "" {
						st.Cops = append(st.Cops, progs.Cop{K: "timestamp", Sub: []progs.Op{{K: "timestamp", When: g.Now}}})
						hookKeys = append(hookKeys, s.TimestampName)
					}
				}
				// Context.Caller() / CallerWithSkipFrameCount(k) likewise (a skip count beyond the stack adds no field)
				if r.Chance(25) {
					sk := callerSkips[r.Intn(len(callerSkips))]
					st.Cops = append(st.Cops, progs.CallerCop(sk))
					if sk < progs.CallerBeyond {
						hookKeys = append(hookKeys, s.CallerName)
					}
				}
				nh := r.Intn(3)
				for j := 0; j < nh; j++ {
					g.MarkID++
					h := []progs.Op{{K: "mark", ID: g.MarkID}}
					hookIDs = append(hookIDs, g.MarkID)
					for q := r.Intn(3); q > 0; q-- {
						o, k := field("h")
						h = append(h, o)
						hookKeys = append(hookKeys, k)
					}
					st.Cops = append(st.Cops, progs.Cop{K: "hook", Sub: h})
				}
			}
			cs.Steps = append(cs.Steps, st)
		}
		levels := []int{-1, 0, 1, 2, 3, 4, 5, 6, 8}
		cs.Level = levels[r.Intn(len(levels))]
		for q := r.Intn(5); q > 0; q-- {
			o, k := field("e")
			switch r.Intn(5) {
			case 0:
				cs.Ops = append(cs.Ops, progs.Op{K: "embed", Sub: []progs.Op{o}})
			case 1:
				cs.Ops = append(cs.Ops, progs.Op{K: "func", Sub: []progs.Op{o}})
			default:
				cs.Ops = append(cs.Ops, o)
			}
			evKeys = append(evKeys, k)
		}
		if r.Chance(70) {
			cs.Msg = []byte(fmt.Sprintf("msg%d", i))
		}
		cs.Fin = r.Intn(4)
		o := emit(cs)
		if !o.Written {
			c.Violate(Violation{Key: "enabled-event-not-written", Monitor: "layout", Desc: "an enabled, undiscarded event was not written", Case: cs.Describe()})
			continue
		}
		v, err := oracle.CheckEventLine(o.Line)
		if err != nil {
			continue // C01's monitor reports it
		}
		var want []string
		if cs.Level != 6 && s.LevelName != "" {
			want = append(want, s.LevelName)
		}
		want = append(want, ctxKeys...)
		want = append(want, evKeys...)
		want = append(want, hookKeys...)
		if len(cs.Msg) > 0 {
			want = append(want, s.MessageName)
		}
		var got []string
		for _, m := range v.Members {
			got = append(got, m.Key)
		}
		if fmt.Sprint(got) != fmt.Sprint(want) {
			c.Violate(Violation{Key: "layout-order", Monitor: "layout", Desc: fmt.Sprintf("member keys %q, want %q", got, want), Case: cs.Describe(), Observed: got, Expected: want})
		}
		// every hook of the path exactly once, ancestors first
		set := map[uint64]bool{}
		for _, id := range hookIDs {
			set[id] = true
		}
		var ran []uint64
		for _, m := range o.Marks {
			if set[m] {
				ran = append(ran, m)
			}
		}
		if fmt.Sprint(ran) != fmt.Sprint(hookIDs) {
			c.Violate(Violation{Key: "hooks-not-once-in-order", Monitor: "hooks-once", Desc: fmt.Sprintf("hook invocations %v, want %v", ran, hookIDs), Case: cs.Describe(), Observed: ran, Expected: hookIDs})
		}
		c.Hist("c03_depth", fmt.Sprint(depth))
	}
	// ---- trees: siblings derived from the SAME parent value, hooks added one at a time ----
	// (a parent whose hook slice had spare capacity would let one sibling's Hook() overwrite the other's)
	nt := 60
	if c.Thorough() {
		nt = 1500
	}
	for i := 0; i < nt; i++ {
		r := c.R.Fork()
		g := &progs.Gen{R: r}
		s := g.GenSettings()
		seq := 0
		mkHook := func(tag string) (progs.Cop, string, uint64) {
			seq++
			g.MarkID++
			k := fmt.Sprintf("%s%d", tag, seq)
			p := progs.Prim{M: "Bool", V: true}
			return progs.Cop{K: "hook", Sub: []progs.Op{{K: "mark", ID: g.MarkID}, {K: "key", Key: []byte(k), P: &p}}}, k, g.MarkID
		}
		var parent []progs.Step
		var pKeys []string
		var pIDs []uint64
		nh := r.Intn(7) // 0..6 hooks on the parent, each added by its own Hook() call
		for j := 0; j < nh; j++ {
			h, k, id := mkHook("ph")
			st := progs.Step{Cops: []progs.Cop{h}}
			if r.Chance(30) {
				fp := progs.GenPrim(r, "Str")
				fo := progs.Op{K: "key", Key: []byte(fmt.Sprintf("pc%d", j)), P: &fp}
				st.Cops = append([]progs.Cop{{K: "op", O: &fo}}, st.Cops...)
			}
			parent = append(parent, st)
			pKeys = append(pKeys, k)
			pIDs = append(pIDs, id)
		}
		nk := 2 + r.Intn(3)
		var kids []progs.Step
		var kKeys [][]string
		var kIDs [][]uint64
		for j := 0; j < nk; j++ {
			var st progs.Step
			var ks []string
			var ids []uint64
			for q := 1 + r.Intn(2); q > 0; q-- {
				h, k, id := mkHook(fmt.Sprintf("k%dh", j))
				st.Cops = append(st.Cops, h)
				ks = append(ks, k)
				ids = append(ids, id)
			}
			kids = append(kids, st)
			kKeys = append(kKeys, ks)
			kIDs = append(kIDs, ids)
		}
		obs := progs.RunTree(s, g.Now, parent, kids, 1, nil, []byte("m"))
		for j := range kids {
			cs := &progs.Case{S: s, Now: g.Now, Steps: append(append([]progs.Step{}, parent...), kids[j]), Level: 1, Msg: []byte("m")}
			o := obs[j]
			term := cs.Coq(o)
			c.AddCase(term, map[string]interface{}{"tree": "sibling " + fmt.Sprint(j), "case": cs.Describe()})
			c.Count(term, true)
			if !o.Written {
				continue
			}
			v, err := oracle.CheckEventLine(o.Line)
			if err != nil {
				continue
			}
			var hookFields []string
			for _, m := range v.Members {
				if len(m.Key) > 1 && (m.Key[:2] == "ph" || m.Key[0] == 'k') {
					hookFields = append(hookFields, m.Key)
				}
			}
			want := append(append([]string{}, pKeys...), kKeys[j]...)
			wantIDs := append(append([]uint64{}, pIDs...), kIDs[j]...)
			if fmt.Sprint(hookFields) != fmt.Sprint(want) || fmt.Sprint(o.Marks) != fmt.Sprint(wantIDs) {
				c.Violate(Violation{Key: "sibling-hooks-interfere", Monitor: "hooks-once-tree", Desc: fmt.Sprintf("sibling %d of %d (parent with %d hooks added one at a time): hook fields %q marks %v, want %q %v", j, nk, nh, hookFields, o.Marks, want, wantIDs), Case: cs.Describe(), Observed: hookFields, Expected: want})
			}
		}
		c.Hist("c03_tree_parent_hooks", fmt.Sprint(nh))
	}
	runC03Hooks(c, emit)
}

// checkHookLayout: member keys and hook marks of an event whose only members are one event field, hook fields and the message
func checkHookLayout(c *Ctx, cs *progs.Case, o progs.Obs, what string, wantKeys []string, wantIDs []uint64) {
	if !o.Written {
		c.Violate(Violation{Key: "enabled-event-not-written", Monitor: "layout", Desc: what + ": an enabled, undiscarded event was not written", Case: cs.Describe()})
		return
	}
	v, err := oracle.CheckEventLine(o.Line)
	if err != nil {
		return // C01's monitor reports it
	}
	var got []string
	for _, m := range v.Members {
		got = append(got, m.Key)
	}
	if fmt.Sprint(got) != fmt.Sprint(wantKeys) {
		c.Violate(Violation{Key: "layout-order", Monitor: "layout", Desc: fmt.Sprintf("%s: member keys %q, want %q", what, got, wantKeys), Case: cs.Describe(), Observed: got, Expected: wantKeys})
	}
	if fmt.Sprint(o.Marks) != fmt.Sprint(wantIDs) && !(len(o.Marks) == 0 && len(wantIDs) == 0) {
		c.Violate(Violation{Key: "hooks-not-once-in-order", Monitor: "hooks-once", Desc: fmt.Sprintf("%s: hook invocations %v, want %v", what, o.Marks, wantIDs), Case: cs.Describe(), Observed: o.Marks, Expected: wantIDs})
	}
}

// hookChain builds a derivation from a word over the kinds of hook registration:
//
//	C Context.Caller()   K Context.CallerWithSkipFrameCount(1)   B CallerWithSkipFrameCount(beyond the stack: no field)
//	T Context.Timestamp()   H Logger.Hook(user hook adding a field)
//
// grouping 0: one With()...Logger() step per letter; 1: consecutive context letters share a With() (a following H closes it).
// Returns the steps, the hook fields expected in order, and the marks of the user hooks.
func hookChain(word string, grouping int, s progs.Settings, now time.Time) (steps []progs.Step, keys []string, ids []uint64) {
	var cur *progs.Step
	flush := func() {
		if cur != nil {
			steps = append(steps, *cur)
			cur = nil
		}
	}
	for i, ch := range word {
		if cur == nil {
			cur = &progs.Step{Noise: (i + grouping) % 4}
		}
		switch ch {
		case 'C':
			cur.Cops = append(cur.Cops, progs.CallerCop(progs.CallerGlobal))
			keys = append(keys, s.CallerName)
		case 'K':
			cur.Cops = append(cur.Cops, progs.CallerCop(1))
			keys = append(keys, s.CallerName)
		case 'B':
			cur.Cops = append(cur.Cops, progs.CallerCop(progs.CallerBeyond))
		case 'T':
			cur.Cops = append(cur.Cops, progs.Cop{K: "timestamp", Sub: []progs.Op{{K: "timestamp", When: now}}})
			keys = append(keys, s.TimestampName)
		case 'H':
			id := uint64(1000 + i)
			k := fmt.Sprintf("h%d", i)
			p := progs.Prim{M: "Int", V: i}
			cur.Cops = append(cur.Cops, progs.Cop{K: "hook", Sub: []progs.Op{{K: "mark", ID: id}, {K: "key", Key: []byte(k), P: &p}}})
			keys = append(keys, k)
			ids = append(ids, id)
		}
		if grouping == 0 || ch == 'H' {
			flush()
		}
	}
	flush()
	return
}

// runC03Hooks: (1) every order of the five kinds of hook registration up to length 3, and longer words with at least two
// caller registrations, each letter its own derivation step or context calls grouped; (2) events that are not enabled
// (every way of filtering, every finalizer) on loggers with recording hooks: no hook runs, nothing is written, and the
// enabled event that follows has the usual layout; (3) WithLevel(Disabled) as the event itself.
func runC03Hooks(c *Ctx, emit func(cs *progs.Case) progs.Obs) {
	s := progs.DefaultSettings()
	now := time.Unix(1700000000, 0).UTC()
	letters := "CKBTH"
	var words []string
	var rec func(w string, n int)
	rec = func(w string, n int) {
		if len(w) > 0 {
			words = append(words, w)
		}
		if n == 0 {
			return
		}
		for _, l := range letters {
			rec(w+string(l), n-1)
		}
	}
	rec("", 3)
	r := c.R.Fork()
	nlong := 60
	if c.Thorough() {
		nlong = 2000
	}
	for len(words) < 155+nlong {
		n := 4 + r.Intn(4)
		w := make([]byte, n)
		callers := 0
		for i := range w {
			w[i] = letters[r.Intn(len(letters))]
			if w[i] == 'C' || w[i] == 'K' || w[i] == 'B' {
				callers++
			}
		}
		if callers >= 2 {
			words = append(words, string(w))
		}
	}
	ep := progs.Prim{M: "Str", V: "v"}
	evOps := []progs.Op{{K: "key", Key: []byte("e"), P: &ep}}
	layout := func(keys []string, level int, msg bool) []string {
		var want []string
		if level != 6 {
			want = append(want, s.LevelName)
		}
		want = append(want, "e")
		want = append(want, keys...)
		if msg {
			want = append(want, s.MessageName)
		}
		return want
	}
	for wi, w := range words {
		for grouping := 0; grouping < 2; grouping++ {
			if grouping == 1 && (len(w) < 2 || (!c.Thorough() && wi%3 != 0)) {
				continue
			}
			steps, keys, ids := hookChain(w, grouping, s, now)
			cs := &progs.Case{S: s, Now: now, Steps: steps, Level: []int{1, 6, 0, 8}[wi%4], Ops: evOps, Msg: []byte("m"), Fin: wi % 4}
			o := emit(cs)
			checkHookLayout(c, cs, o, "hook registrations "+w, layout(keys, cs.Level, true), ids)
			c.Hist("c03_hook_word_len", fmt.Sprint(len(w)))
		}
	}
	// (2) filtered events first
	chains := []string{"H", "HH", "CHKH", "THC", "HTH", "KHH"}
	k := 0
	for mode := range progs.PreludeModes {
		for fin := 0; fin < 4; fin++ {
			for rep := 0; rep < 2; rep++ {
				w := chains[k%len(chains)]
				k++
				steps, keys, ids := hookChain(w, rep, s, now)
				cs := &progs.Case{S: s, Now: now, Steps: steps, Level: 2, Ops: evOps, Msg: []byte("m"), Fin: (fin + rep) % 4}
				// the filtered event is given fields, a Func callback and an object marshaler that would record their run too
				fp := progs.Prim{M: "Int", V: 7}
				pre := []progs.Op{{K: "key", Key: []byte("f"), P: &fp}, {K: "func", Sub: []progs.Op{{K: "mark", ID: 5001}}}, {K: "object", Key: []byte("o"), Sub: []progs.Op{{K: "mark", ID: 5002}}}}
				cs.Pre = &progs.Prelude{Mode: mode, Ops: pre, Reps: 1 + rep, Fin: fin}
				o := emit(cs) // emit's monitor: no hook mark during the filtered events
				checkHookLayout(c, cs, o, "after a filtered event, hook registrations "+w, layout(keys, cs.Level, true), ids)
				c.Hist("c03_filtered_then_enabled", progs.PreludeModes[mode])
			}
		}
	}
	// (3) the event itself is WithLevel(Disabled): never written, no hook (emit's monitor; the model says the same)
	for i, w := range chains {
		for fin := 0; fin < 4; fin++ {
			steps, _, _ := hookChain(w, i%2, s, now)
			cs := &progs.Case{S: s, Now: now, Steps: steps, Level: 7, Ops: evOps, Fin: fin}
			if fin != 1 {
				cs.Msg = []byte("m")
			}
			emit(cs) // whether it is written is C04's subject (and the model's: it predicts no line)
		}
	}
}
