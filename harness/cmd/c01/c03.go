package main

// C03: layout-directed cases. Derivation chains with uniquely named context
// fields and hooks, events with uniquely named fields; the monitor
// (independent of the Coq model) reads the member order back with the oracle
// parser and compares it with: level, context fields root-down, event fields
// in call order, hook fields in registration order (ancestors first), message.

import (
	"fmt"
	"strings"
	"time"

	. "verifharness/hlib"
	"verifharness/oracle"
	"verifharness/progs"
)

func runC03(c *Ctx, emit func(cs *progs.Case) progs.Obs) {
	runC03HookArgs(c, emit) // (first: short programs, drawn without the generator, so that a witness is a small one)
	n := 400
	if c.Thorough() {
		n = 6000
	}
	for i := 0; i < n; i++ {
		r := c.R.Fork()
		g := &progs.Gen{R: r}
		s := g.GenSettings()
		g.Now = progs.GenTime(r)
		cs := &progs.Case{S: s, Now: g.Now}
		seq := 0
		name := func(prefix string) []byte { seq++; return []byte(fmt.Sprintf("%s%d", prefix, seq)) }
		field := func(prefix string) (progs.Op, string) {
			k := name(prefix)
			ms := []string{"Str", "Int", "Bool", "Float64", "Strs", "Dur", "Time", "Bytes", "Uint8"}
			p := progs.GenPrim(r, ms[r.Intn(len(ms))])
			return progs.Op{K: "key", Key: k, P: &p}, string(k)
		}
		var ctxKeys, hookKeys, evKeys []string
		var hookIDs []uint64
		var keysAfterStep, idsAfterStep []int // how many hook fields / hook marks the chain has registered after each step
		depth := r.Intn(7)
		for d := 0; d < depth; d++ {
			st := progs.Step{Update: r.Chance(20), Noise: r.Intn(5)}
			nf := r.Intn(4)
			var stepCtx []string
			for j := 0; j < nf; j++ {
				o, k := field("c")
				switch r.Intn(6) {
				case 0:
					st.Cops = append(st.Cops, progs.Cop{K: "object", Key: []byte(k), Sub: nil})
				case 1:
					d := progs.Op{K: "dict", Key: []byte(k), Sub: []progs.Op{o}}
					st.Cops = append(st.Cops, progs.Cop{K: "op", O: &d})
				default:
					oo := o
					st.Cops = append(st.Cops, progs.Cop{K: "op", O: &oo})
				}
				stepCtx = append(stepCtx, k)
			}
			if r.Chance(8) {
				st.Cops = append(st.Cops, progs.Cop{K: "reset"})
				ctxKeys, stepCtx = nil, nil
			}
			ctxKeys = append(ctxKeys, stepCtx...)
			if !st.Update {
				// Context.Timestamp() registers a hook at this point of the path: after the hooks of
				// the ancestors, before the hooks this step adds with Hook()
				for q := 0; q < 2; q++ {
					if r.Chance(20) && s.TimestampName != "" {
						st.Cops = append(st.Cops, progs.Cop{K: "timestamp", Sub: []progs.Op{{K: "timestamp", When: g.Now}}})
						hookKeys = append(hookKeys, s.TimestampName)
					}
				}
				// Context.Caller() / CallerWithSkipFrameCount(k) likewise (a skip count beyond the stack adds no field)
				if r.Chance(25) {
					sk := callerSkips[r.Intn(len(callerSkips))]
					st.Cops = append(st.Cops, progs.CallerCop(sk))
					if sk < progs.CallerBeyond {
						hookKeys = append(hookKeys, s.CallerName)
					}
				}
				nh := r.Intn(3)
				for j := 0; j < nh; j++ {
					g.MarkID++
					h := []progs.Op{{K: "mark", ID: g.MarkID}}
					hookIDs = append(hookIDs, g.MarkID)
					for q := r.Intn(3); q > 0; q-- {
						o, k := field("h")
						h = append(h, o)
						hookKeys = append(hookKeys, k)
					}
					st.Cops = append(st.Cops, progs.Cop{K: "hook", Sub: h})
				}
			}
			cs.Steps = append(cs.Steps, st)
			keysAfterStep, idsAfterStep = append(keysAfterStep, len(hookKeys)), append(idsAfterStep, len(hookIDs))
		}
		levels := []int{-1, 0, 1, 2, 3, 4, 5, 6, 8}
		cs.Level = levels[r.Intn(len(levels))]
		for q := r.Intn(5); q > 0; q-- {
			o, k := field("e")
			switch r.Intn(5) {
			case 0:
				cs.Ops = append(cs.Ops, progs.Op{K: "embed", Sub: []progs.Op{o}})
			case 1:
				cs.Ops = append(cs.Ops, progs.Op{K: "func", Sub: []progs.Op{o}})
			default:
				cs.Ops = append(cs.Ops, o)
			}
			evKeys = append(evKeys, k)
		}
		if r.Chance(70) {
			cs.Msg = []byte(fmt.Sprintf("msg%d", i))
		}
		cs.Fin = r.Intn(4)
		// (drawn last, so that the chains are those of earlier runs) a stretch of the chain derived while the logger is
		// Disabled, a Nop() root, a LevelHook registered after the hooks of one step, the level's own entry point
		if r.Chance(20) && depth > 0 {
			a := r.Intn(depth)
			cs.Steps[a].Mute = 1
			if b := a + 1 + r.Intn(depth-a); b < depth {
				cs.Steps[b].Mute = 2
			}
		}
		if r.Chance(8) {
			cs.Root = 1
		}
		if r.Chance(20) && depth > 0 {
			if d := r.Intn(depth); !cs.Steps[d].Update {
				lh := randomLevelHook(g, 20)
				cs.Steps[d].Cops = append(cs.Steps[d].Cops, lh)
				if f := lh.LevelHookFrag(cs.Level); f != nil {
					at, ati := keysAfterStep[d], idsAfterStep[d]
					hookKeys = append(hookKeys[:at:at], append([]string{string(f[1].Key)}, hookKeys[at:]...)...)
					hookIDs = append(hookIDs[:ati:ati], append([]uint64{f[0].ID}, hookIDs[ati:]...)...)
				}
			}
		}
		if r.Chance(30) {
			cs.Entry = 1
		}
		o := emit(cs)
		if !o.Written {
			c.Violate(Violation{Key: "enabled-event-not-written", Monitor: "layout", Desc: "an enabled, undiscarded event was not written", Case: cs.Describe()})
			continue
		}
		v, err := oracle.CheckEventLine(o.Line)
		if err != nil {
			continue // C01's monitor reports it
		}
		var want []string
		if cs.Level != 6 && s.LevelName != "" {
			want = append(want, s.LevelName)
		}
		want = append(want, ctxKeys...)
		want = append(want, evKeys...)
		want = append(want, hookKeys...)
		if len(cs.Msg) > 0 {
			want = append(want, s.MessageName)
		}
		var got []string
		for _, m := range v.Members {
			got = append(got, m.Key)
		}
		if fmt.Sprint(got) != fmt.Sprint(want) {
			c.Violate(Violation{Key: "layout-order", Monitor: "layout", Desc: fmt.Sprintf("member keys %q, want %q", got, want), Case: cs.Describe(), Observed: got, Expected: want})
		}
		// every hook of the path exactly once, ancestors first
		set := map[uint64]bool{}
		for _, id := range hookIDs {
			set[id] = true
		}
		var ran []uint64
		for _, m := range o.Marks {
			if set[m] {
				ran = append(ran, m)
			}
		}
		if fmt.Sprint(ran) != fmt.Sprint(hookIDs) {
			c.Violate(Violation{Key: "hooks-not-once-in-order", Monitor: "hooks-once", Desc: fmt.Sprintf("hook invocations %v, want %v", ran, hookIDs), Case: cs.Describe(), Observed: ran, Expected: hookIDs})
		}
		c.Hist("c03_depth", fmt.Sprint(depth))
	}
	// ---- trees: siblings derived from the SAME parent value, hooks added one at a time ----
	// (a parent whose hook slice had spare capacity would let one sibling's Hook() overwrite the other's)
	nt := 60
	if c.Thorough() {
		nt = 1500
	}
	for i := 0; i < nt; i++ {
		r := c.R.Fork()
		g := &progs.Gen{R: r}
		s := g.GenSettings()
		seq := 0
		mkHook := func(tag string) (progs.Cop, string, uint64) {
			seq++
			g.MarkID++
			k := fmt.Sprintf("%s%d", tag, seq)
			p := progs.Prim{M: "Bool", V: true}
			return progs.Cop{K: "hook", Sub: []progs.Op{{K: "mark", ID: g.MarkID}, {K: "key", Key: []byte(k), P: &p}}}, k, g.MarkID
		}
		var parent []progs.Step
		var pKeys []string
		var pIDs []uint64
		nh := r.Intn(7) // 0..6 hooks on the parent, each added by its own Hook() call
		for j := 0; j < nh; j++ {
			h, k, id := mkHook("ph")
			st := progs.Step{Cops: []progs.Cop{h}}
			if r.Chance(30) {
				fp := progs.GenPrim(r, "Str")
				fo := progs.Op{K: "key", Key: []byte(fmt.Sprintf("pc%d", j)), P: &fp}
				st.Cops = append([]progs.Cop{{K: "op", O: &fo}}, st.Cops...)
			}
			parent = append(parent, st)
			pKeys = append(pKeys, k)
			pIDs = append(pIDs, id)
		}
		nk := 2 + r.Intn(3)
		var kids []progs.Step
		var kKeys [][]string
		var kIDs [][]uint64
		for j := 0; j < nk; j++ {
			var st progs.Step
			var ks []string
			var ids []uint64
			for q := 1 + r.Intn(2); q > 0; q-- {
				h, k, id := mkHook(fmt.Sprintf("k%dh", j))
				st.Cops = append(st.Cops, h)
				ks = append(ks, k)
				ids = append(ids, id)
			}
			kids = append(kids, st)
			kKeys = append(kKeys, ks)
			kIDs = append(kIDs, ids)
		}
		obs := progs.RunTree(s, g.Now, parent, kids, 1, nil, []byte("m"))
		for j := range kids {
			cs := &progs.Case{S: s, Now: g.Now, Steps: append(append([]progs.Step{}, parent...), kids[j]), Level: 1, Msg: []byte("m")}
			o := obs[j]
			term := cs.Coq(o)
			c.AddCase(term, map[string]interface{}{"tree": "sibling " + fmt.Sprint(j), "case": cs.Describe()})
			c.Count(term, true)
			if !o.Written {
				continue
			}
			v, err := oracle.CheckEventLine(o.Line)
			if err != nil {
				continue
			}
			var hookFields []string
			for _, m := range v.Members {
				if len(m.Key) > 1 && (m.Key[:2] == "ph" || m.Key[0] == 'k') {
					hookFields = append(hookFields, m.Key)
				}
			}
			want := append(append([]string{}, pKeys...), kKeys[j]...)
			wantIDs := append(append([]uint64{}, pIDs...), kIDs[j]...)
			monitorHookArgs(c, cs, o, nil)
			if fmt.Sprint(hookFields) != fmt.Sprint(want) || fmt.Sprint(o.Marks) != fmt.Sprint(wantIDs) {
				c.Violate(Violation{Key: "sibling-hooks-interfere", Monitor: "hooks-once-tree", Desc: fmt.Sprintf("sibling %d of %d (parent with %d hooks added one at a time): hook fields %q marks %v, want %q %v", j, nk, nh, hookFields, o.Marks, want, wantIDs), Case: cs.Describe(), Observed: hookFields, Expected: want})
			}
		}
		c.Hist("c03_tree_parent_hooks", fmt.Sprint(nh))
	}
	runC03Hooks(c, emit)
	runC03LevelHooks(c, emit)
	runC03Muted(c, emit)
	runC03Writerless(c, emit)
	runC03Interleaved(c, emit, 1)
}

// checkHookLayout: member keys and hook marks of an event whose only members are one event field, hook fields and the message
func checkHookLayout(c *Ctx, cs *progs.Case, o progs.Obs, what string, wantKeys []string, wantIDs []uint64) {
	if !o.Written {
		c.Violate(Violation{Key: "enabled-event-not-written", Monitor: "layout", Desc: what + ": an enabled, undiscarded event was not written", Case: cs.Describe()})
		return
	}
	v, err := oracle.CheckEventLine(o.Line)
	if err != nil {
		return // C01's monitor reports it
	}
	var got []string
	for _, m := range v.Members {
		got = append(got, m.Key)
	}
	if fmt.Sprint(got) != fmt.Sprint(wantKeys) {
		c.Violate(Violation{Key: "layout-order", Monitor: "layout", Desc: fmt.Sprintf("%s: member keys %q, want %q", what, got, wantKeys), Case: cs.Describe(), Observed: got, Expected: wantKeys})
	}
	if fmt.Sprint(o.Marks) != fmt.Sprint(wantIDs) && !(len(o.Marks) == 0 && len(wantIDs) == 0) {
		c.Violate(Violation{Key: "hooks-not-once-in-order", Monitor: "hooks-once", Desc: fmt.Sprintf("%s: hook invocations %v, want %v", what, o.Marks, wantIDs), Case: cs.Describe(), Observed: o.Marks, Expected: wantIDs})
	}
}

// hookChain builds a derivation from a word over the kinds of hook registration:
//
//	C Context.Caller()   K Context.CallerWithSkipFrameCount(1)   B CallerWithSkipFrameCount(beyond the stack: no field)
//	T Context.Timestamp()   H Logger.Hook(user hook adding a field)
//
// grouping 0: one With()...Logger() step per letter; 1: consecutive context letters share a With() (a following H closes it).
// Returns the steps, the hook fields expected in order, and the marks of the user hooks.
func hookChain(word string, grouping int, s progs.Settings, now time.Time) (steps []progs.Step, keys []string, ids []uint64) {
	return hookChainAt(word, grouping, s, now, 1, 0xff)
}

// hookChainAt: further letters
//
//	L Logger.Hook(LevelHook{...}) with the fields selected by the bits of lhSet (bit i: the hook for level i-1; bit 7 NoLevelHook):
//	  for an event of the given level it contributes the field / mark of that level's hook, if set
//	D Level(Disabled) (as a derivation step of its own: With().Logger().Level(Disabled))   E Level(-128) likewise
//	X Logger.Hook(user hook adding a field and discarding the event)
//	O Output(nil) (as a derivation step of its own: With().Logger().Output(nil)): no writer from here on   W Output(w) likewise
//	Z marker only: the chain starts from New(nil) (Case.Root = 2)
func hookChainAt(word string, grouping int, s progs.Settings, now time.Time, level int, lhSet uint) (steps []progs.Step, keys []string, ids []uint64) {
	var cur *progs.Step
	flush := func() {
		if cur != nil {
			steps = append(steps, *cur)
			cur = nil
		}
	}
	for i, ch := range word {
		if ch == 'D' || ch == 'E' || ch == 'O' || ch == 'W' {
			flush()
		}
		if cur == nil {
			cur = &progs.Step{Noise: (i + grouping) % 4}
			if strings.ContainsAny(word, "DEN") {
				cur.Noise = []int{0, 2, 3, 0}[(i+grouping)%4] // no Level(-128) noise in chains that say themselves where they are enabled
			}
			if strings.ContainsAny(word, "OWZ") {
				cur.Noise = []int{0, 1, 3, 0}[(i+grouping)%4] // no Output(w) noise in chains that say themselves where they have a writer
			}
		}
		switch ch {
		case 'N', 'Z':
			// marker only: the chain starts from Nop().Output(w) (Case.Root = 1) / from New(nil) (Case.Root = 2)
		case 'C':
			cur.Cops = append(cur.Cops, progs.CallerCop(progs.CallerGlobal))
			keys = append(keys, s.CallerName)
		case 'K':
			cur.Cops = append(cur.Cops, progs.CallerCop(1))
			keys = append(keys, s.CallerName)
		case 'B':
			cur.Cops = append(cur.Cops, progs.CallerCop(progs.CallerBeyond))
		case 'T':
			cur.Cops = append(cur.Cops, progs.Cop{K: "timestamp", Sub: []progs.Op{{K: "timestamp", When: now}}})
			keys = append(keys, s.TimestampName)
		case 'H':
			id := uint64(1000 + i)
			k := fmt.Sprintf("h%d", i)
			p := progs.Prim{M: "Int", V: i}
			cur.Cops = append(cur.Cops, progs.Cop{K: "hook", Sub: []progs.Op{{K: "mark", ID: id}, {K: "key", Key: []byte(k), P: &p}}})
			keys = append(keys, k)
			ids = append(ids, id)
		case 'L':
			co := progs.Cop{K: "levelhook"}
			for j := range co.LH {
				if lhSet&(1<<uint(j)) != 0 {
					p := progs.Prim{M: "Int", V: j - 1}
					co.LH[j] = []progs.Op{{K: "mark", ID: uint64(2000 + 10*i + j)}, {K: "key", Key: []byte(fmt.Sprintf("l%d_%d", i, j-1)), P: &p}}
				}
			}
			cur.Cops = append(cur.Cops, co)
			if f := co.LevelHookFrag(level); f != nil {
				keys = append(keys, string(f[1].Key))
				ids = append(ids, f[0].ID)
			}
		case 'X':
			// a user hook that adds a field and discards the event (the event is not written; the hooks after it still run)
			id := uint64(1000 + i)
			k := fmt.Sprintf("x%d", i)
			p := progs.Prim{M: "Int", V: i}
			cur.Cops = append(cur.Cops, progs.Cop{K: "hook", Sub: []progs.Op{{K: "mark", ID: id}, {K: "key", Key: []byte(k), P: &p}, {K: "discard"}}})
			keys = append(keys, k)
			ids = append(ids, id)
		case 'D':
			cur.Mute = 1
		case 'E':
			cur.Mute = 2
		case 'O':
			cur.Out = 1
		case 'W':
			cur.Out = 2
		}
		if grouping == 0 || ch == 'H' || ch == 'X' || ch == 'L' || ch == 'D' || ch == 'E' || ch == 'O' || ch == 'W' {
			flush()
		}
	}
	flush()
	return
}

// runC03Hooks: (1) every order of the five kinds of hook registration up to length 3, and longer words with at least two
// caller registrations, each letter its own derivation step or context calls grouped; (2) events that are not enabled
// (every way of filtering, every finalizer) on loggers with recording hooks: no hook runs, nothing is written, and the
// enabled event that follows has the usual layout; (3) WithLevel(Disabled) as the event itself.
func runC03Hooks(c *Ctx, emit func(cs *progs.Case) progs.Obs) {
	s := progs.DefaultSettings()
	now := time.Unix(1700000000, 0).UTC()
	letters := "CKBTH"
	var words []string
	var rec func(w string, n int)
	rec = func(w string, n int) {
		if len(w) > 0 {
			words = append(words, w)
		}
		if n == 0 {
			return
		}
		for _, l := range letters {
			rec(w+string(l), n-1)
		}
	}
	rec("", 3)
	r := c.R.Fork()
	nlong := 60
	if c.Thorough() {
		nlong = 2000
	}
	for len(words) < 155+nlong {
		n := 4 + r.Intn(4)
		w := make([]byte, n)
		callers := 0
		for i := range w {
			w[i] = letters[r.Intn(len(letters))]
			if w[i] == 'C' || w[i] == 'K' || w[i] == 'B' {
				callers++
			}
		}
		if callers >= 2 {
			words = append(words, string(w))
		}
	}
	ep := progs.Prim{M: "Str", V: "v"}
	evOps := []progs.Op{{K: "key", Key: []byte("e"), P: &ep}}
	layout := func(keys []string, level int, msg bool) []string {
		var want []string
		if level != 6 {
			want = append(want, s.LevelName)
		}
		want = append(want, "e")
		want = append(want, keys...)
		if msg {
			want = append(want, s.MessageName)
		}
		return want
	}
	for wi, w := range words {
		for grouping := 0; grouping < 2; grouping++ {
			if grouping == 1 && (len(w) < 2 || (!c.Thorough() && wi%3 != 0)) {
				continue
			}
			steps, keys, ids := hookChain(w, grouping, s, now)
			cs := &progs.Case{S: s, Now: now, Steps: steps, Level: []int{1, 6, 0, 8}[wi%4], Ops: evOps, Msg: []byte("m"), Fin: wi % 4}
			o := emit(cs)
			checkHookLayout(c, cs, o, "hook registrations "+w, layout(keys, cs.Level, true), ids)
			c.Hist("c03_hook_word_len", fmt.Sprint(len(w)))
		}
	}
	// (2) filtered events first
	chains := []string{"H", "HH", "CHKH", "THC", "HTH", "KHH"}
	k := 0
	for mode := range progs.PreludeModes {
		for fin := 0; fin < 4; fin++ {
			for rep := 0; rep < 2; rep++ {
				w := chains[k%len(chains)]
				k++
				steps, keys, ids := hookChain(w, rep, s, now)
				cs := &progs.Case{S: s, Now: now, Steps: steps, Level: 2, Ops: evOps, Msg: []byte("m"), Fin: (fin + rep) % 4}
				// the filtered event is given fields, a Func callback and an object marshaler that would record their run too
				fp := progs.Prim{M: "Int", V: 7}
				pre := []progs.Op{{K: "key", Key: []byte("f"), P: &fp}, {K: "func", Sub: []progs.Op{{K: "mark", ID: 5001}}}, {K: "object", Key: []byte("o"), Sub: []progs.Op{{K: "mark", ID: 5002}}}}
				cs.Pre = &progs.Prelude{Mode: mode, Ops: pre, Reps: 1 + rep, Fin: fin}
				o := emit(cs) // emit's monitor: no hook mark during the filtered events
				checkHookLayout(c, cs, o, "after a filtered event, hook registrations "+w, layout(keys, cs.Level, true), ids)
				c.Hist("c03_filtered_then_enabled", progs.PreludeModes[mode])
			}
		}
	}
	// (3) the event itself is WithLevel(Disabled): never written, no hook (emit's monitor; the model says the same)
	for i, w := range chains {
		for fin := 0; fin < 4; fin++ {
			steps, _, _ := hookChain(w, i%2, s, now)
			cs := &progs.Case{S: s, Now: now, Steps: steps, Level: 7, Ops: evOps, Fin: fin}
			if fin != 1 {
				cs.Msg = []byte("m")
			}
			emit(cs) // whether it is written is C04's subject (and the model's: it predicts no line)
		}
	}
}

// runC03LevelHooks: the library's own per-level hook (LevelHook) is a hook of the derivation like any other: for an
// event of level v the hook it holds for v runs exactly once, in the LevelHook's place among the hooks, and no other.
// Every level that has a field (Trace .. Panic, NoLevel), a level that has none (8) and Disabled; the LevelHook
// holding all eight hooks / only this level's / all but this level's / only NoLevelHook / none; between two user
// hooks, in the first step, behind a Timestamp(); every way of starting an event of that level (WithLevel, the
// level's method, Log(), the io.Writer bridge Logger.Write, Print, Printf) and every finalizer.
func runC03LevelHooks(c *Ctx, emit func(cs *progs.Case) progs.Obs) {
	s := progs.DefaultSettings()
	now := time.Unix(1700000000, 0).UTC()
	ep := progs.Prim{M: "Str", V: "v"}
	k := 0
	for _, level := range []int{-1, 0, 1, 2, 3, 4, 5, 6, 8, 7} {
		bit := uint(0)
		if level >= -1 && level <= 6 {
			bit = 1 << uint(level+1)
		}
		for si, set := range []uint{0xff, bit, 0xff &^ bit, 0x80, 0} {
			for _, entry := range []int{0, 1, 2, 3, 4} {
				k++
				word := []string{"HLH", "LH", "TLH", "HL", "LL"}[k%5]
				steps, keys, ids := hookChainAt(word, k%2, s, now, level, set)
				cs := &progs.Case{S: s, Now: now, Steps: steps, Level: level, Msg: []byte("m"), Entry: entry, Fin: (k / 5) % 4}
				if entry >= 2 {
					cs.Fin = 0
				} else {
					cs.Ops = []progs.Op{{K: "key", Key: []byte("e"), P: &ep}}
				}
				if cs.EntryUsed() != entry {
					continue // this level has no such entry point
				}
				if level == 7 && (si > 0 || entry > 0) {
					continue
				}
				o := emit(cs)
				if level == 7 {
					continue // never enabled: emit's monitor (no hook runs); whether it is written is C04's subject
				}
				var want []string
				if level != 6 {
					want = append(want, s.LevelName)
				}
				if len(cs.Ops) > 0 {
					want = append(want, "e")
				}
				want = append(append(want, keys...), s.MessageName)
				checkHookLayout(c, cs, o, fmt.Sprintf("LevelHook (fields set: %08b) in %s, level %d event started through %s", set, word, level, progs.EntryNames[entry]), want, ids)
				c.Hist("c03_levelhook_level", fmt.Sprint(level))
				c.Hist("c03_levelhook_entry", progs.EntryNames[entry])
			}
		}
	}
}

// runC03Muted: hooks registered while the chain is at Level(Disabled) - or descends from Nop() - belong to the
// derivation like all others: a descendant that a later Level() enables again runs them, in order.  Every word of
// length <= 2 over the five kinds of registration (Caller, CallerWithSkipFrameCount, Timestamp, Hook, LevelHook), with
// the Disabled stretch starting and ending at every position (D ... E inserted; E at the very end is the re-enabling
// the runner does itself), from New(w) and from Nop().Output(w); longer random words.
func runC03Muted(c *Ctx, emit func(cs *progs.Case) progs.Obs) {
	s := progs.DefaultSettings()
	now := time.Unix(1700000000, 0).UTC()
	ep := progs.Prim{M: "Str", V: "v"}
	letters := "CKTHL"
	var bases []string
	for _, a := range letters {
		bases = append(bases, string(a))
		for _, b := range letters {
			bases = append(bases, string(a)+string(b))
		}
	}
	r := c.R.Fork()
	nlong := 40
	if c.Thorough() {
		nlong = 1500
	}
	for i := 0; i < nlong; i++ {
		w := make([]byte, 3+r.Intn(4))
		for j := range w {
			w[j] = letters[r.Intn(len(letters))]
		}
		bases = append(bases, string(w))
	}
	k := 0
	for bi, w := range bases {
		n := len(w)
		for i := 0; i <= n; i++ {
			for j := i; j <= n; j++ {
				if n > 2 && r.Intn(10) != 0 { // long words: a tenth of the stretches
					continue
				}
				k++
				roots := []int{0}
				if i == 0 { // Disabled from the start (Nop): hooks w[:j] are registered before anything is enabled
					roots = []int{0, 1}
					if n == 2 && !c.Thorough() {
						roots = []int{(k + bi) % 2}
					}
				}
				for _, root := range roots {
					var word string
					if root == 1 {
						word = "N" + w[:j] + "E" + w[j:]
						if j == n && k%2 == 0 {
							word = "N" + w // re-enabled by the runner after the last step
						}
					} else {
						word = w[:i] + "D" + w[i:j] + "E" + w[j:]
						if j == n && k%2 == 0 {
							word = w[:i] + "D" + w[i:]
						}
					}
					level := []int{1, 6, 0, 3, 5}[k%5]
					steps, keys, ids := hookChainAt(word, k%2, s, now, level, 0xff)
					cs := &progs.Case{S: s, Now: now, Steps: steps, Level: level, Root: root, Ops: []progs.Op{{K: "key", Key: []byte("e"), P: &ep}}, Msg: []byte("m"), Fin: k % 4, Entry: k % 2}
					o := emit(cs)
					var want []string
					if level != 6 {
						want = append(want, s.LevelName)
					}
					want = append(append(append(want, "e"), keys...), s.MessageName)
					checkHookLayout(c, cs, o, "registrations "+word+" (D = Level(Disabled), E = Level(-128), N = from Nop().Output(w))", want, ids)
					c.Hist("c03_muted_stretch", fmt.Sprintf("%d of %d", j-i, n))
				}
			}
		}
	}
}
