package main

// Interleaved events (progs/nested.go): while one event is under construction the program starts another one, on a
// logger and writer of its own.  Each of the two must reach its writer as one well-formed line, exactly as if the
// other did not exist - also when the outer event has just been discarded (Discard() leaves the *Event in the hands of
// the running Msg / of the caller), and when the inner event is kept and finalized after the outer one.

import (
	"fmt"
	"time"

	. "verifharness/hlib"
	"verifharness/oracle"
	"verifharness/progs"
)

// monitorNested: every inner event the program started is a case of its own for the model, and is held to the same
// monitors as an outer event (one Write, well-formed line, its hooks once and in order); every Write call that reached
// the inner events' writer belongs to the finalizer of exactly one of them.
func monitorNested(c *Ctx, cs *progs.Case, o progs.Obs) {
	if len(o.Nested) == 0 && len(o.NestLines) == 0 {
		return
	}
	covered := make([]bool, len(o.NestLines))
	for i, r := range o.Nested {
		if !r.Done {
			continue // the program panicked (reported by the caller)
		}
		in := r.N.In
		when := "finalized at once"
		if r.N.Late {
			when = "finalized after the outer event"
		}
		if r.N.After {
			when = "a following event (started after the outer event's finalizer returned)"
		}
		desc := map[string]interface{}{"program": cs.Describe(), "inner_event_number": i, "inner_event": in.Describe(), "inner_event_is": when,
			"outer_line": fmt.Sprintf("%q", o.Line), "writes_on_the_inner_writer": quoteAll(o.NestLines)}
		for k := r.From; k < r.To && k < len(covered); k++ {
			covered[k] = true
		}
		term := in.Coq(r.Obs)
		c.AddCase(term, map[string]interface{}{"inner_event_of": cs.Describe(), "number": i, "written": r.Obs.Written})
		c.Count(term, r.Obs.Written)
		if r.Obs.Writes > 1 {
			c.Violate(Violation{Key: "more-than-one-write", Monitor: "one-write", Desc: fmt.Sprintf("%d Write calls for one event (an event started while another one was under construction)", r.Obs.Writes), Case: desc})
		}
		if r.Obs.Written {
			if _, err := oracle.CheckEventLine(r.Obs.Line); err != nil {
				c.Violate(Violation{Key: "event-not-wellformed", Monitor: "rfc8259-validator", Desc: "an event started while another one was under construction: " + err.Error(), Case: desc, Observed: fmt.Sprintf("%q", r.Obs.Line)})
			}
		}
		monitorLayoutAs(c, in, r.Obs, desc)
		c.Hist("nested_event", when)
	}
	for k, line := range o.NestLines {
		if covered[k] {
			continue
		}
		desc := map[string]interface{}{"program": cs.Describe(), "outer_line": fmt.Sprintf("%q", o.Line), "writes_on_the_inner_writer": quoteAll(o.NestLines), "write_number": k}
		if _, err := oracle.CheckEventLine(line); err != nil {
			c.Violate(Violation{Key: "event-not-wellformed", Monitor: "rfc8259-validator", Desc: fmt.Sprintf("Write call %d on the writer of the inner event(s), made outside the finalizer of any of them: %v", k, err), Case: desc, Observed: fmt.Sprintf("%q", line)})
		} else {
			c.Violate(Violation{Key: "more-than-one-write", Monitor: "one-write", Desc: fmt.Sprintf("Write call %d on the writer of the inner event(s) was made outside the finalizer of any of them: %d Write calls for %d events", k, len(o.NestLines), len(o.Nested)), Case: desc, Observed: fmt.Sprintf("%q", line)})
		}
	}
}

func quoteAll(ls [][]byte) []string {
	out := make([]string, len(ls))
	for i, l := range ls {
		out[i] = fmt.Sprintf("%q", l)
	}
	return out
}

// nestedPlaces: where in the outer program the other event is started
var nestedPlaces = []string{"caller", "func", "embed", "object", "dict", "array-object", "hook-first", "hook-last", "after-discarding-hook", "levelhook", "context-object", "context-dict"}

// runNestedSweep: place x discard x inner-event kind x timing.
//
//	place:   the caller's code between two field calls; a Func callback; an embedded / keyed object marshaler; a Dict()
//	         under construction; an object inside an array; the first / the last hook of the derivation; the hook after
//	         a hook that discards; a LevelHook; an object marshaler / a dict given to the context (With())
//	discard: none; Discard() on the event in hand just before the other event is started
//	inner:   0 one field on a fresh logger; 1 a logger with context, Dict / Array / Object fields (everything that takes
//	         events and arrays from the pools); 2 an event that is never written (WithLevel(Disabled), discarded by its
//	         own call, discarded by its hook); 3 a logger with Timestamp() and hooks that add fields; 4 two events in a row
//	timing:  finalized at once; (caller / func / embed) kept and finalized after the outer event's finalizer
func runNestedSweep(c *Ctx, emit func(cs *progs.Case) progs.Obs) {
	now := time.Unix(1700000000, 0).UTC()
	mark := uint64(9000)
	mk := func() progs.Op { mark++; return progs.Op{K: "mark", ID: mark} }
	kp := func(k, m string, v interface{}) progs.Op {
		return progs.Op{K: "key", Key: []byte(k), P: &progs.Prim{M: m, V: v}}
	}
	elem := func(m string, v interface{}) progs.Op { return progs.Op{K: "aelem", P: &progs.Prim{M: m, V: v}} }
	cop := func(o progs.Op) progs.Cop { return progs.Cop{K: "op", O: &o} }
	inner := func(kind, k int) []*progs.Case {
		switch kind {
		case 0:
			return []*progs.Case{{Level: 1, Ops: []progs.Op{kp("dropped", "Str", "noisy")}, Msg: []byte("filtered")}}
		case 1:
			st := progs.Step{Cops: []progs.Cop{cop(kp("svc", "Str", "audit")), cop(progs.Op{K: "dict", Key: []byte("cd"), Sub: []progs.Op{kp("n", "Int", 1)}})}}
			return []*progs.Case{{Level: 2, Steps: []progs.Step{st}, Fin: 2, Msg: []byte("pooled"), Ops: []progs.Op{
				{K: "dict", Key: []byte("d"), Sub: []progs.Op{kp("a", "Str", "b"), {K: "dict", Key: []byte("dd"), Sub: []progs.Op{kp("x", "Bool", true)}}}},
				{K: "array", Key: []byte("arr"), Sub: []progs.Op{elem("Int", 1), elem("Str", "x"), {K: "adict", Sub: []progs.Op{kp("y", "Int", 2)}}}},
				{K: "object", Key: []byte("o"), Sub: []progs.Op{mk(), kp("z", "Str", "w")}},
				{K: "errs", Key: []byte("es"), Es: []*progs.ErrV{{K: "text", S: []byte("e1")}, {K: "nil"}}}}}}
		case 2:
			switch k % 3 {
			case 0:
				return []*progs.Case{{Level: 7, Ops: []progs.Op{kp("never", "Str", "x")}, Msg: []byte("gone")}}
			case 1:
				return []*progs.Case{{Level: 3, Ops: []progs.Op{kp("never", "Str", "x"), {K: "discard"}}, Msg: []byte("gone"), Fin: 3}}
			}
			st := progs.Step{Cops: []progs.Cop{{K: "hook", Sub: []progs.Op{mk(), kp("ih", "Int", 1), {K: "discard"}}}}}
			return []*progs.Case{{Level: 0, Steps: []progs.Step{st}, Ops: []progs.Op{kp("never", "Str", "x")}, Msg: []byte("gone")}}
		case 3:
			s1 := progs.Step{Cops: []progs.Cop{cop(kp("c1", "Int", 1)), {K: "hook", Sub: []progs.Op{mk(), kp("ih1", "Int", 1)}}}}
			s2 := progs.Step{Cops: []progs.Cop{{K: "timestamp", Sub: []progs.Op{{K: "timestamp", When: now}}}, {K: "hook", Sub: []progs.Op{mk(), {K: "dict", Key: []byte("ih2"), Sub: []progs.Op{kp("q", "Str", "r")}}}}}}
			return []*progs.Case{{Level: []int{1, 6, 4}[k%3], Steps: []progs.Step{s1, s2}, Ops: []progs.Op{kp("i", "Int", k)}, Msg: []byte("hooked"), Fin: 3}}
		}
		return []*progs.Case{{Level: 1, Ops: []progs.Op{kp("first", "Int", 1)}, Msg: []byte("one")},
			{Level: 3, Ops: []progs.Op{{K: "dict", Key: []byte("second"), Sub: []progs.Op{kp("a", "Str", "b")}}}, Fin: 1}}
	}
	k := 0
	for pi, place := range nestedPlaces {
		for discard := 0; discard < 2; discard++ {
			if discard == 1 && (place == "after-discarding-hook" || place == "array-object") {
				continue
			}
			for kind := 0; kind < 5; kind++ {
				for late := 0; late < 2; late++ {
					if late == 1 && !(place == "caller" || place == "func" || place == "embed") {
						continue
					}
					if !c.Thorough() && late == 1 && place != "caller" && (kind+pi+discard)%2 == 0 {
						continue
					}
					k++
					cs := &progs.Case{S: progs.DefaultSettings(), Now: now, Level: []int{1, 0, 3, 6}[k%4], Msg: []byte("noisy"), Fin: k % 4}
					if k%5 == 0 {
						cs.Msg, cs.Fin = nil, 1
					}
					var x []progs.Op
					if discard == 1 {
						x = append(x, progs.Op{K: "discard"})
					}
					for _, in := range inner(kind, k) {
						x = append(x, progs.LogOp(cs, in, late == 1))
					}
					frag := func(ops ...progs.Op) []progs.Op { return append(ops, x...) }
					a, b := kp("a", "Int", k), kp("b", "Str", "after")
					hook := func(ops []progs.Op) progs.Step { return progs.Step{Cops: []progs.Cop{{K: "hook", Sub: ops}}} }
					switch place {
					case "caller":
						cs.Ops = append(frag(a), b)
					case "func":
						cs.Ops = []progs.Op{a, {K: "func", Sub: frag(mk(), kp("f", "Int", 1))}, b}
					case "embed":
						cs.Ops = []progs.Op{a, {K: "embed", Sub: frag(mk(), kp("f", "Int", 1))}, b}
					case "object":
						cs.Ops = []progs.Op{a, {K: "object", Key: []byte("o"), Sub: frag(mk(), kp("f", "Int", 1))}, b}
					case "dict":
						cs.Ops = []progs.Op{a, {K: "dict", Key: []byte("d"), Sub: append(frag(kp("f", "Int", 1)), kp("g", "Int", 2))}, b}
					case "array-object":
						cs.Ops = []progs.Op{a, {K: "array", Key: []byte("arr"), Via: k%2 == 0, Sub: []progs.Op{elem("Int", 1), {K: "aobj", Sub: frag(mk(), kp("f", "Int", 1))}, elem("Str", "x")}}, b}
					case "hook-first":
						cs.Ops = []progs.Op{a}
						cs.Steps = []progs.Step{{Cops: []progs.Cop{cop(kp("c1", "Str", "v")), {K: "hook", Sub: frag(mk(), kp("h1", "Int", 1))}}}, hook([]progs.Op{mk(), kp("h2", "Int", 2)})}
					case "hook-last":
						cs.Ops = []progs.Op{a}
						cs.Steps = []progs.Step{hook([]progs.Op{mk(), kp("h1", "Int", 1)}), hook(frag(mk(), kp("h2", "Int", 2)))}
					case "after-discarding-hook":
						cs.Ops = []progs.Op{a}
						cs.Steps = []progs.Step{hook([]progs.Op{mk(), kp("h1", "Int", 1), {K: "discard"}}), hook(frag(mk())), hook([]progs.Op{mk(), kp("h3", "Int", 3)})}
					case "levelhook":
						cs.Ops = []progs.Op{a}
						co := progs.Cop{K: "levelhook"}
						if cs.Level >= -1 && cs.Level <= 6 {
							co.LH[cs.Level+1] = frag(mk(), kp("lh", "Int", cs.Level))
						}
						cs.Steps = []progs.Step{hook([]progs.Op{mk(), kp("h1", "Int", 1)}), {Cops: []progs.Cop{co}}}
					case "context-object":
						cs.Ops = []progs.Op{a}
						cs.Steps = []progs.Step{{Cops: []progs.Cop{{K: "object", Key: []byte("co"), Sub: frag(kp("f", "Int", 1))}, cop(kp("c2", "Str", "v"))}}}
					case "context-dict":
						cs.Ops = []progs.Op{a}
						cs.Steps = []progs.Step{{Cops: []progs.Cop{cop(progs.Op{K: "dict", Key: []byte("cd"), Sub: append(frag(kp("f", "Int", 1)), kp("g", "Int", 2))}), cop(kp("c2", "Str", "v"))}}}
					}
					o := emit(cs)
					// every inner event the sweep placed was started (the places are all reached: a Func callback of an
					// undiscarded event, hooks of an enabled event) and finalized
					want := len(x) - discard
					if o.Panic == nil && len(o.Nested) != want {
						c.Note("nested sweep %s: %d inner events ran, %d placed", place, len(o.Nested), want)
					}
					c.Hist("nested_place", place)
					c.Hist("nested_discard_before", fmt.Sprint(discard == 1))
				}
			}
		}
	}
}
