package main

// C02: value-directed cases. One primitive value is logged through every entry
// point that can carry it; the monitor (independent of the Coq model) decodes
// the emitted line with the oracle parser and compares with the argument, and
// requires the value's bytes to be identical across entry points.

import (
	"bytes"
	"encoding/base64"
	"encoding/hex"
	"encoding/json"
	"fmt"
	"math"
	"net"
	"reflect"
	"strconv"
	"time"

	"github.com/rs/zerolog"
	. "verifharness/hlib"
	"verifharness/oracle"
	"verifharness/progs"
)

func goRunes(s string) string { return string([]rune(s)) } // each ill-formed byte becomes U+FFFD

func checkNum(v oracle.Value, want string) error {
	if v.Kind != '#' || v.Num != want {
		return fmt.Errorf("number %q, want %q", v.Num, want)
	}
	return nil
}

func checkStr(v oracle.Value, want string) error {
	if v.Kind != 's' || v.Str != want {
		return fmt.Errorf("string %q, want %q", v.Str, want)
	}
	return nil
}

func checkFloat(v oracle.Value, f float64, bits int, s progs.Settings) error {
	switch {
	case math.IsNaN(f):
		return checkStr(v, "NaN")
	case math.IsInf(f, 1):
		return checkStr(v, "+Inf")
	case math.IsInf(f, -1):
		return checkStr(v, "-Inf")
	}
	if v.Kind != '#' {
		return fmt.Errorf("not a number")
	}
	if s.Prec == -1 {
		back, err := strconv.ParseFloat(v.Num, bits)
		if err != nil {
			return err
		}
		if bits == 32 {
			if math.Float32bits(float32(back)) != math.Float32bits(float32(f)) && !(back == 0 && f == 0) {
				return fmt.Errorf("float32 %s reads back as %v, logged %v", v.Num, back, f)
			}
		} else if math.Float64bits(back) != math.Float64bits(f) && !(back == 0 && f == 0) {
			return fmt.Errorf("float64 %s reads back as %v, logged %v", v.Num, back, f)
		}
		// rendered the way encoding/json renders it
		var ej []byte
		if bits == 32 {
			ej, _ = json.Marshal(float32(f))
		} else {
			ej, _ = json.Marshal(f)
		}
		if string(ej) != v.Num {
			return fmt.Errorf("float text %s, encoding/json renders %s", v.Num, ej)
		}
	} else if want := strconv.FormatFloat(f, 'f', s.Prec, bits); v.Num != want {
		return fmt.Errorf("float text %s, want %s at precision %d", v.Num, want, s.Prec)
	}
	return nil
}

func checkTime(v oracle.Value, t time.Time, s progs.Settings) error {
	switch s.TimeFormat {
	case zerolog.TimeFormatUnix:
		return checkNum(v, strconv.FormatInt(t.Unix(), 10))
	case zerolog.TimeFormatUnixMs:
		return checkNum(v, strconv.FormatInt(t.UnixNano()/1000000, 10))
	case zerolog.TimeFormatUnixMicro:
		return checkNum(v, strconv.FormatInt(t.UnixNano()/1000, 10))
	case zerolog.TimeFormatUnixNano:
		return checkNum(v, strconv.FormatInt(t.UnixNano(), 10))
	}
	return checkStr(v, goRunes(t.Format(s.TimeFormat)))
}

func checkDur(v oracle.Value, d time.Duration, s progs.Settings) error {
	if s.DurInt {
		return checkNum(v, strconv.FormatInt(int64(d/s.DurUnit), 10))
	}
	return checkFloat(v, float64(d)/float64(s.DurUnit), 64, s)
}

func checkArr(v oracle.Value, n int, f func(i int, e oracle.Value) error) error {
	if v.Kind != 'a' || len(v.Arr) != n {
		return fmt.Errorf("array of %d elements expected, got kind %c len %d", n, v.Kind, len(v.Arr))
	}
	for i := range v.Arr {
		if err := f(i, v.Arr[i]); err != nil {
			return fmt.Errorf("element %d: %v", i, err)
		}
	}
	return nil
}

// checkValue: does the decoded value equal the logged argument, as C02 states it?
func checkValue(v oracle.Value, p progs.Prim, s progs.Settings) error {
	switch p.M {
	case "Hex":
		return checkStr(v, hex.EncodeToString(p.V.([]byte)))
	case "RawCBOR":
		return checkStr(v, "data:application/cbor;base64,"+base64.StdEncoding.EncodeToString(p.V.([]byte)))
	case "RawJSON":
		var raw []byte
		if rm, ok := p.V.(json.RawMessage); ok {
			raw = rm
		} else {
			raw = p.V.([]byte)
		}
		want, err := oracle.ParseJSON(raw)
		if err != nil {
			return nil
		}
		if !reflect.DeepEqual(want, v) {
			return fmt.Errorf("embedded JSON changed")
		}
		return nil
	case "Type":
		if p.V == nil {
			return checkStr(v, "<nil>")
		}
		return checkStr(v, reflect.TypeOf(p.V).String())
	case "Stringer":
		if p.V == nil {
			if v.Kind != 'n' {
				return fmt.Errorf("nil Stringer must be null")
			}
			return nil
		}
		return checkStr(v, goRunes(p.V.(fmt.Stringer).String()))
	case "Interface", "Any":
		b, err := json.Marshal(p.V)
		if err != nil {
			if v.Kind != 's' || len(v.Str) < 16 || v.Str[:16] != "marshaling error" {
				return fmt.Errorf("unmarshalable value must be logged as a marshaling error string, got kind %c", v.Kind)
			}
			return nil
		}
		want, err := oracle.ParseJSON(b)
		if err != nil {
			return nil
		}
		// encoding/json escapes HTML by default, zerolog's marshal func does not: compare decoded values
		if !reflect.DeepEqual(want, v) {
			return fmt.Errorf("interface value decodes differently from encoding/json's rendering")
		}
		return nil
	}
	switch x := p.V.(type) {
	case string:
		return checkStr(v, goRunes(x))
	case []byte:
		return checkStr(v, goRunes(string(x)))
	case []string:
		return checkArr(v, len(x), func(i int, e oracle.Value) error { return checkStr(e, goRunes(x[i])) })
	case []fmt.Stringer:
		return checkArr(v, len(x), func(i int, e oracle.Value) error {
			if x[i] == nil {
				if e.Kind != 'n' {
					return fmt.Errorf("nil Stringer must be null")
				}
				return nil
			}
			return checkStr(e, goRunes(x[i].String()))
		})
	case bool:
		if (x && v.Kind != 't') || (!x && v.Kind != 'f') {
			return fmt.Errorf("bool %v decoded as %c", x, v.Kind)
		}
		return nil
	case []bool:
		return checkArr(v, len(x), func(i int, e oracle.Value) error {
			if (x[i] && e.Kind != 't') || (!x[i] && e.Kind != 'f') {
				return fmt.Errorf("bool")
			}
			return nil
		})
	case time.Time:
		return checkTime(v, x, s)
	case []time.Time:
		return checkArr(v, len(x), func(i int, e oracle.Value) error { return checkTime(e, x[i], s) })
	case time.Duration:
		return checkDur(v, x, s)
	case []time.Duration:
		return checkArr(v, len(x), func(i int, e oracle.Value) error { return checkDur(e, x[i], s) })
	case float32:
		return checkFloat(v, float64(x), 32, s)
	case float64:
		return checkFloat(v, x, 64, s)
	case []float32:
		return checkArr(v, len(x), func(i int, e oracle.Value) error { return checkFloat(e, float64(x[i]), 32, s) })
	case []float64:
		return checkArr(v, len(x), func(i int, e oracle.Value) error { return checkFloat(e, x[i], 64, s) })
	case net.IP:
		return checkStr(v, x.String())
	case net.IPNet:
		return checkStr(v, x.String())
	case net.HardwareAddr:
		return checkStr(v, x.String())
	case nil:
		if v.Kind != 'n' {
			return fmt.Errorf("nil must be null")
		}
		return nil
	}
	rv := reflect.ValueOf(p.V)
	switch rv.Kind() {
	case reflect.Int, reflect.Int8, reflect.Int16, reflect.Int32, reflect.Int64:
		return checkNum(v, strconv.FormatInt(rv.Int(), 10))
	case reflect.Uint, reflect.Uint8, reflect.Uint16, reflect.Uint32, reflect.Uint64:
		return checkNum(v, strconv.FormatUint(rv.Uint(), 10))
	case reflect.Slice:
		return checkArr(v, rv.Len(), func(i int, e oracle.Value) error {
			el := rv.Index(i)
			switch el.Kind() {
			case reflect.Int, reflect.Int8, reflect.Int16, reflect.Int32, reflect.Int64:
				return checkNum(e, strconv.FormatInt(el.Int(), 10))
			default:
				return checkNum(e, strconv.FormatUint(el.Uint(), 10))
			}
		})
	}
	return fmt.Errorf("checkValue: unsupported %T", p.V)
}

// valueBytes extracts the raw bytes of member `key` (first occurrence at top level or one level down)
func memberRaw(line []byte, prefix string) ([]byte, bool) {
	i := bytes.Index(line, []byte(prefix))
	if i < 0 {
		return nil, false
	}
	rest := line[i+len(prefix):]
	// the value ends where a complete JSON value ends: scan with the oracle parser on growing prefixes is costly; use a bracket/quote scanner
	depth := 0
	inStr := false
	for j := 0; j < len(rest); j++ {
		c := rest[j]
		if inStr {
			if c == '\\' {
				j++
			} else if c == '"' {
				inStr = false
				if depth == 0 {
					return rest[:j+1], true
				}
			}
			continue
		}
		switch c {
		case '"':
			inStr = true
		case '{', '[':
			depth++
		case '}', ']':
			if depth == 0 {
				return rest[:j], true
			}
			depth--
			if depth == 0 {
				return rest[:j+1], true
			}
		case ',':
			if depth == 0 {
				return rest[:j], true
			}
		}
	}
	return rest, true
}

func runC02(c *Ctx, emit func(cs *progs.Case) progs.Obs) {
	reps := 6
	if c.Thorough() {
		reps = 60
	}
	key := []byte("val")
	probe := func(m string, p progs.Prim, s progs.Settings) {
		mk := func(ops []progs.Op, steps []progs.Step) *progs.Case {
			return &progs.Case{S: s, Level: 6, Ops: ops, Steps: steps}
		}
		type entry struct {
			name string
			cs   *progs.Case
			path []string // member path to the value
			elem int      // array element index, -1 if none
		}
		kop := progs.Op{K: "key", Key: key, P: &p}
		var entries []entry
		entries = append(entries, entry{"event", mk([]progs.Op{kop}, nil), []string{"val"}, -1})
		entries = append(entries, entry{"dict", mk([]progs.Op{{K: "dict", Key: []byte("d"), Sub: []progs.Op{kop}}}, nil), []string{"d", "val"}, -1})
		entries = append(entries, entry{"object", mk([]progs.Op{{K: "object", Key: []byte("o"), Sub: []progs.Op{kop}}}, nil), []string{"o", "val"}, -1})
		if progs.ContextHas(m) {
			entries = append(entries, entry{"context", mk(nil, []progs.Step{{Cops: []progs.Cop{{K: "op", O: &kop}}}}), []string{"val"}, -1})
		}
		if progs.ArrayMethods[m] {
			entries = append(entries, entry{"array", mk([]progs.Op{{K: "array", Key: []byte("a"), Sub: []progs.Op{{K: "aelem", P: &p}}}}, nil), []string{"a"}, 0})
		}
		switch m {
		case "Hex", "RawCBOR", "Type", "Stringer", "Stringers", "Any", "Uints8", "Interface":
		default:
			fp := p
			if m == "RawJSON" {
				fp.V = json.RawMessage(p.V.([]byte))
			}
			for _, asMap := range []bool{false, true} {
				name := "fields-slice"
				if asMap {
					name = "fields-map"
				}
				entries = append(entries, entry{name, mk([]progs.Op{{K: "fields", Via: asMap, KVs: []progs.FieldKV{{Key: key, K: "prim", P: &fp}}}}, nil), []string{"val"}, -1})
			}
		}
		var first []byte
		var firstName string
		for _, en := range entries {
			o := emit(en.cs)
			if !o.Written {
				continue
			}
			v, err := oracle.CheckEventLine(o.Line)
			if err != nil {
				continue // reported by the C01 monitor
			}
			// walk the path
			cur := v
			ok := true
			for _, k := range en.path {
				found := false
				for _, mem := range cur.Members {
					if mem.Key == k {
						cur = mem.Val
						found = true
						break
					}
				}
				if !found {
					ok = false
					break
				}
			}
			if ok && en.elem >= 0 {
				if cur.Kind == 'a' && len(cur.Arr) > en.elem {
					cur = cur.Arr[en.elem]
				} else {
					ok = false
				}
			}
			desc := map[string]interface{}{"method": m, "entry": en.name, "value": p.Describe(), "settings": fmt.Sprintf("%+v", s), "line": fmt.Sprintf("%q", o.Line)}
			if !ok {
				c.Violate(Violation{Key: "field-missing", Monitor: "decode-back", Desc: fmt.Sprintf("%s through %s: the field is not in the decoded event", m, en.name), Case: desc})
				continue
			}
			if err := checkValue(cur, p, s); err != nil {
				c.Violate(Violation{Key: "value-not-roundtrip", Monitor: "decode-back", Desc: fmt.Sprintf("%s through %s: %v", m, en.name, err), Case: desc})
			}
			// identical bytes across entry points
			prefix := `"val":`
			if en.elem >= 0 {
				prefix = `"a":[`
			}
			raw, found := memberRaw(o.Line, prefix)
			if found {
				if first == nil {
					first, firstName = raw, en.name
				} else if !bytes.Equal(first, raw) {
					c.Violate(Violation{Key: "entry-points-differ", Monitor: "entry-points-agree", Desc: fmt.Sprintf("%s: %s encodes %q but %s encodes %q", m, firstName, first, en.name, raw), Case: desc})
				}
			}
			c.Hist("c02_entry", en.name)
		}
		c.Hist("c02_method", m)
	}
	for rep := 0; rep < reps; rep++ {
		for _, m := range progs.EventMethods {
			r := c.R.Fork()
			g := &progs.Gen{R: r}
			s := g.GenSettings()
			s.LevelName = ""
			probe(m, progs.GenPrim(r, m), s)
		}
	}
	// directed: every byte class of the generator (ASCII specials, control bytes, well-formed 2/3/4-byte
	// runes incl. a literal U+FFFD and U+FFFE, every kind of ill-formed sequence) alone, embedded and
	// doubled, through every text-carrying method and every entry point
	for _, cl := range progs.ByteClasses() {
		for _, txt := range [][]byte{cl, append(append([]byte("a"), cl...), 'z'), append(append([]byte{}, cl...), cl...)} {
			s := progs.DefaultSettings()
			s.LevelName = ""
			probe("Str", progs.Prim{M: "Str", V: string(txt)}, s)
			probe("Bytes", progs.Prim{M: "Bytes", V: append([]byte{}, txt...)}, s)
			probe("Strs", progs.Prim{M: "Strs", V: []string{string(txt), "x", string(txt)}}, s)
			probe("Stringer", progs.MkStringer(string(txt)), s)
		}
	}
	// directed: instants on both sides of the epoch with sub-unit fractions, under every integer time format,
	// scalar and slice; durations around zero under every unit
	instants := []time.Time{time.Unix(0, 0), time.Unix(-1, 999500000), time.Unix(-1, 500), time.Unix(0, -1), time.Unix(0, -999999), time.Unix(-1500, 123456789),
		time.Unix(0, 1), time.Unix(0, 999999), time.Unix(1, 500000), time.Unix(1700000000, 999999999), time.Unix(-2000000000, 1)}
	for _, tf := range []string{zerolog.TimeFormatUnix, zerolog.TimeFormatUnixMs, zerolog.TimeFormatUnixMicro, zerolog.TimeFormatUnixNano, time.RFC3339Nano} {
		for _, t := range instants {
			s := progs.DefaultSettings()
			s.LevelName = ""
			s.TimeFormat = tf
			probe("Time", progs.Prim{M: "Time", V: t.UTC()}, s)
			probe("Times", progs.Prim{M: "Times", V: []time.Time{t.UTC(), t.Add(time.Nanosecond).UTC()}}, s)
		}
	}
	for _, unit := range []time.Duration{time.Nanosecond, time.Microsecond, time.Millisecond, time.Second, 7, -1, -1000} { // -1: MinInt64 / -1 wraps in Go
		for _, useInt := range []bool{false, true} {
			for _, d := range []time.Duration{0, 1, -1, 999, -999, 1500 * time.Microsecond, -1500 * time.Microsecond, time.Duration(math.MaxInt64), time.Duration(math.MinInt64)} {
				s := progs.DefaultSettings()
				s.LevelName = ""
				s.DurUnit, s.DurInt = unit, useInt
				probe("Dur", progs.Prim{M: "Dur", V: d}, s)
				probe("Durs", progs.Prim{M: "Durs", V: []time.Duration{d, -d}}, s)
			}
		}
	}
	_ = zerolog.Disabled
}
